(* Drivers.v — generic model of the class API of the iterative solvers of
   pylops/optimization (cls_basic.py: CG, CGLS, LSQR; cls_sparsity.py: ISTA,
   FISTA, OMP) as a state machine, and of the ways of driving it.

   What the code does (read from the source, not from the documentation):

     def run(self, x, niter=None, ...):
         <locals := linit(self, x)>                 # ISTA: xupdate = inf
                                                    # FISTA: z = x.copy(); xupdate = inf
         niter = self.niter if niter is None else niter
         while self.iiter < niter and <ok>:         # CG/CGLS: self.kold > self.tol
             x[, locals] = self.step(x[, locals])   # LSQR: self.istop == 0
         return x                                   # OMP: cost[iiter] > sigma
                                                    # (I)STA: xupdate > self.tol
   - `self.iiter` is a field reset only by setup and incremented by step, so
     the argument `niter` of run is a CUMULATIVE bound on the iteration
     counter, not an increment: "run j, then continue to a total of j+k" is
     `run(x, j); run(x, j+k)`.
   - persistent state P = the fields of self + the iterate x handed back to
     the caller;  locals L = what run creates afresh at every call and what
     step takes/returns besides x (nothing for CG/CGLS/LSQR; `xupdate` for
     ISTA; `(z, xupdate)` for FISTA; OMP threads (x, cols), both in P).
   - manual driving: the caller calls step himself, threading what step
     returns; step does not look at the stopping test. *)
From Coq Require Import List Arith Lia Bool.
Import ListNotations.

Set Implicit Arguments.

Section Machine.
  Variables P L : Type.

  Record solver := {
    step  : P * L -> P * L;
    iiter : P -> nat;
    ok    : P * L -> bool;           (* the part of the while guard that is not the budget *)
    linit : P -> L;                  (* locals created at the entry of run *)
    step_iiter : forall pl, iiter (fst (step pl)) = S (iiter (fst pl)) }.

  Variable S0 : solver.
  Notation stp := (step S0).
  Notation itr := (iiter S0).

  Definition guard (n : nat) (pl : P * L) : bool := (itr (fst pl) <? n) && ok S0 pl.

  Fixpoint loop (n fuel : nat) (pl : P * L) : P * L :=
    match fuel with
    | 0 => pl
    | S f => if guard n pl then loop n f (stp pl) else pl
    end.

  (* run(x, niter = n) entered with persistent state p; returns the new
     persistent state (the locals die with the call) *)
  Definition enter (p : P) : P * L := (p, linit S0 p).
  Definition runL (n : nat) (pl : P * L) : P * L := loop n (n - itr (fst pl)) pl.
  Definition run (n : nat) (p : P) : P := fst (runL n (enter p)).

  Fixpoint iter (k : nat) (pl : P * L) : P * L :=
    match k with 0 => pl | S k' => iter k' (stp pl) end.

  Lemma iter_iiter k : forall pl, itr (fst (iter k pl)) = k + itr (fst pl).
  Proof. induction k; intros; cbn [iter]; [reflexivity|]. rewrite IHk, step_iiter. lia. Qed.

  Lemma iter_plus a b pl : iter (a + b) pl = iter b (iter a pl).
  Proof. revert pl; induction a; intros; cbn [iter plus]; auto. Qed.

  Lemma guard_budget n pl : n <= itr (fst pl) -> guard n pl = false.
  Proof. intros H. unfold guard. destruct (Nat.ltb_spec (itr (fst pl)) n); [lia|reflexivity]. Qed.

  (* the fuel n - iiter is enough: more fuel changes nothing *)
  Lemma loop_fuel n : forall f pl, n - itr (fst pl) <= f -> loop n f pl = runL n pl.
  Proof.
    unfold runL. induction f; intros pl H.
    - replace (n - itr (fst pl)) with 0 by lia. reflexivity.
    - cbn [loop]. destruct (guard n pl) eqn:G.
      + assert (itr (fst pl) < n).
        { unfold guard in G. apply andb_true_iff in G. destruct G as [G _]. apply Nat.ltb_lt in G; exact G. }
        destruct (n - itr (fst pl)) eqn:E; [lia|]. cbn [loop]. rewrite G.
        rewrite IHf by (rewrite step_iiter; lia).
        f_equal. rewrite step_iiter. lia.
      + destruct (n - itr (fst pl)); cbn [loop]; [reflexivity|rewrite G; reflexivity].
  Qed.

  Lemma runL_unfold n pl : runL n pl = if guard n pl then runL n (stp pl) else pl.
  Proof.
    destruct (guard n pl) eqn:G.
    - assert (itr (fst pl) < n).
      { unfold guard in G. apply andb_true_iff in G. destruct G as [G _]. apply Nat.ltb_lt in G; exact G. }
      unfold runL at 1. destruct (n - itr (fst pl)) eqn:E; [lia|]. cbn [loop]. rewrite G.
      apply loop_fuel. rewrite step_iiter. lia.
    - unfold runL. destruct (n - itr (fst pl)); cbn [loop]; [reflexivity|rewrite G; reflexivity].
  Qed.

  (* the loop exits exactly when the code's guard is false *)
  Lemma runL_exit n : forall pl, guard n (runL n pl) = false.
  Proof.
    intros pl. remember (n - itr (fst pl)) as m eqn:E. revert pl E.
    induction m; intros pl E; rewrite runL_unfold; destruct (guard n pl) eqn:G; auto.
    - unfold guard in G. apply andb_true_iff in G. destruct G as [G _]. apply Nat.ltb_lt in G. lia.
    - apply IHm. rewrite step_iiter. lia.
  Qed.

  Lemma runL_idem n pl : runL n (runL n pl) = runL n pl.
  Proof. rewrite (runL_unfold n (runL n pl)), runL_exit. reflexivity. Qed.

  (* the iteration counter never decreases and never passes the bound it started below *)
  Lemma runL_iiter_le n : forall pl, itr (fst pl) <= itr (fst (runL n pl)).
  Proof.
    intros pl. remember (n - itr (fst pl)) as m eqn:E. revert pl E.
    induction m; intros pl E; rewrite runL_unfold; destruct (guard n pl) eqn:G; auto.
    - unfold guard in G. apply andb_true_iff in G. destruct G as [G _]. apply Nat.ltb_lt in G. lia.
    - etransitivity; [|apply IHm; rewrite step_iiter; lia]. rewrite step_iiter. lia.
  Qed.

  (* ---- core composition lemma: an instalment with a smaller bound followed,
     WITHOUT re-creating the locals, by the loop with the larger bound *)
  Lemma runL_compose j n : j <= n -> forall pl, runL n (runL j pl) = runL n pl.
  Proof.
    intros Hjn pl. remember (j - itr (fst pl)) as m eqn:E. revert pl E.
    induction m; intros pl E.
    - rewrite (runL_unfold j pl), guard_budget by lia. reflexivity.
    - rewrite (runL_unfold j pl). destruct (guard j pl) eqn:G; [|reflexivity].
      rewrite IHm by (rewrite step_iiter; lia).
      rewrite (runL_unfold n pl).
      assert (guard n pl = true) as ->; [|reflexivity].
      unfold guard in *. apply andb_true_iff in G. destruct G as [G1 G2]. rewrite G2.
      apply Nat.ltb_lt in G1. destruct (Nat.ltb_spec (itr (fst pl)) n); [reflexivity|lia].
  Qed.

  (* ---- run k = step^k while the stopping test does not fire *)
  Lemma runL_is_iter n : forall k pl, k = n - itr (fst pl) ->
    (forall i, i < k -> ok S0 (iter i pl) = true) -> runL n pl = iter k pl.
  Proof.
    induction k; intros pl E H.
    - rewrite runL_unfold, guard_budget by lia. reflexivity.
    - rewrite runL_unfold.
      assert (guard n pl = true) as ->.
      { unfold guard. pose proof (H 0 ltac:(lia)) as H0. cbn [iter] in H0. rewrite H0. destruct (Nat.ltb_spec (itr (fst pl)) n); [reflexivity|lia]. }
      cbn [iter]. apply IHk; [rewrite step_iiter; lia|].
      intros i Hi. apply (H (S i)). lia.
  Qed.

  Theorem run_is_step_pow n p :
    (forall i, i < n - itr p -> ok S0 (iter i (enter p)) = true) ->
    run n p = fst (iter (n - itr p) (enter p)).
  Proof. intros H. unfold run. f_equal. apply runL_is_iter; [reflexivity|exact H]. Qed.

  (* in general: run = step^m for the m at which the code's guard first fails *)
  Theorem run_is_some_step_pow n p : exists m, m <= n - itr p /\ run n p = fst (iter m (enter p)) /\
    guard n (iter m (enter p)) = false /\ forall i, i < m -> guard n (iter i (enter p)) = true.
  Proof.
    unfold run. pose (pl := enter p). assert (Hp : itr (fst pl) = itr p) by reflexivity.
    change (enter p) with pl. clearbody pl.
    assert (exists m, m <= n - itr (fst pl) /\ runL n pl = iter m pl /\ guard n (iter m pl) = false /\
                      forall i, i < m -> guard n (iter i pl) = true) as (m & A & B & C & D).
    { clear Hp. remember (n - itr (fst pl)) as k eqn:E. revert pl E. induction k; intros pl E.
      - exists 0. cbn [iter]. rewrite runL_unfold, guard_budget by lia. repeat split; try lia; try (apply guard_budget; lia).
      - destruct (guard n pl) eqn:G.
        + destruct (IHk (stp pl)) as (m & A & B & C & D); [rewrite step_iiter; lia|].
          exists (S m). cbn [iter]. rewrite runL_unfold, G. repeat split; auto; try lia.
          intros [|i] Hi; cbn [iter]; [exact G|apply D; lia].
        + exists 0. cbn [iter]. rewrite runL_unfold, G. repeat split; auto; lia. }
    exists m. rewrite B, <- Hp. repeat split; auto.
  Qed.

  (* ---- instalments.  Re-entering run re-creates the locals. *)

  (* (a) positive, unconditional form: the locals at the exit of the first
     instalment are what re-entry creates *)
  Theorem run_split_reentry j n p : j <= n ->
    enter (run j p) = runL j (enter p) -> run n (run j p) = run n p.
  Proof. intros Hjn H. unfold run at 1. rewrite H. rewrite runL_compose by exact Hjn. reflexivity. Qed.

  (* (b) solvers whose step does not read the locals and whose stopping
     quantity is a local (ISTA: xupdate, reset to inf at the entry of run):
     the split is invisible iff the first instalment was ended by its
     budget, not by the stopping test *)
  Hypothesis step_blind : forall p l l', stp (p, l) = stp (p, l').
  Hypothesis ok_fresh : forall p, ok S0 (enter p) = true.

  Lemma runL_blind n p l l' : ok S0 (p, l) = ok S0 (p, l') -> fst (runL n (p, l)) = fst (runL n (p, l')).
  Proof.
    intros H. rewrite (runL_unfold n (p, l)), (runL_unfold n (p, l')). unfold guard. cbn [fst]. rewrite H.
    destruct ((itr p <? n) && ok S0 (p, l')); [|reflexivity]. rewrite (step_blind p l l'). reflexivity.
  Qed.

  Theorem run_split_local j n p : j <= n -> ok S0 (runL j (enter p)) = true -> run n (run j p) = run n p.
  Proof.
    intros Hjn H. unfold run at 1 3. rewrite <- (runL_compose Hjn (enter p)).
    unfold run. destruct (runL j (enter p)) as [q l] eqn:E. cbn [fst]. unfold enter.
    apply runL_blind. rewrite H. apply ok_fresh.
  Qed.
End Machine.

(* ------------------------------------------------------------------ *)
(* Persistent solvers: CG, CGLS, LSQR, OMP — no locals (L = unit).      *)
Section Persistent.
  Variable P : Type.
  Variable S0 : solver P unit.

  Lemma enter_unit (pl : P * unit) : enter S0 (fst pl) = pl.
  Proof. destruct pl as [p []]. unfold enter. cbn [fst]. destruct (linit S0 p). reflexivity. Qed.

  (* running with budget j and then continuing to the total budget n >= j is
     one run with budget n; in particular run (j+k) after run j *)
  Theorem run_split_le j n p : j <= n -> run S0 n (run S0 j p) = run S0 n p.
  Proof. intros H. apply run_split_reentry; [exact H|]. unfold run. apply enter_unit. Qed.

  Theorem run_split j k p : run S0 (j + k) (run S0 j p) = run S0 (j + k) p.
  Proof. apply run_split_le. lia. Qed.

  Theorem run_idem n p : run S0 n (run S0 n p) = run S0 n p.
  Proof. apply run_split_le. lia. Qed.

  (* a bound below the current counter is a no-op: niter is cumulative *)
  Theorem run_below n p : n <= iiter S0 p -> run S0 n p = p.
  Proof. intros H. unfold run. rewrite runL_unfold, guard_budget by exact H. reflexivity. Qed.

  (* ---- driving programs (after setup) *)
  Inductive cmd := Step | Run (n : nat).

  Definition exec1 (c : cmd) (p : P) : P :=
    match c with Step => fst (step S0 (p, tt)) | Run n => run S0 n p end.
  Definition exec (prog : list cmd) (p : P) : P := fold_left (fun s c => exec1 c s) prog p.

  Lemma exec_app a b p : exec (a ++ b) p = exec b (exec a p).
  Proof. apply fold_left_app. Qed.

  (* a program is N-safe from p when every manual Step is taken where the
     code's own loop with budget N would also have taken it, and no Run
     asks for more than N *)
  Fixpoint safe (N : nat) (prog : list cmd) (p : P) : Prop :=
    match prog with
    | [] => True
    | Step :: r => guard S0 N (p, tt) = true /\ safe N r (exec1 Step p)
    | Run n :: r => n <= N /\ safe N r (exec1 (Run n) p)
    end.

  (* ALL safe driving programs are prefixes of the single run: finishing
     with run N gives what solve (= setup; run N; finalize) gives *)
  Theorem prog_then_run N : forall prog p, safe N prog p -> run S0 N (exec prog p) = run S0 N p.
  Proof.
    induction prog as [|c r IH]; intros p Hs; [reflexivity|].
    change (exec (c :: r) p) with (exec r (exec1 c p)).
    destruct c as [|n]; cbn [safe] in Hs; destruct Hs as [H1 H2]; rewrite (IH _ H2).
    - cbn [exec1]. unfold run at 2. rewrite runL_unfold. unfold enter. destruct (linit S0 p).
      rewrite H1. unfold run, enter. destruct (linit S0 (fst (step S0 (p, tt)))).
      destruct (step S0 (p, tt)) as [q []]. reflexivity.
    - cbn [exec1]. apply run_split_le. exact H1.
  Qed.

  Corollary progs_equivalent N pa pb p : safe N pa p -> safe N pb p ->
    exec (pa ++ [Run N]) p = exec (pb ++ [Run N]) p.
  Proof. intros A B. rewrite !exec_app. cbn [exec fold_left exec1]. rewrite !prog_then_run; auto. Qed.

  (* k manual steps = run k, as long as the stopping test does not fire *)
  Theorem steps_are_run k p : iiter S0 p = 0 ->
    (forall i, i < k -> ok S0 (iter S0 i (p, tt)) = true) ->
    exec (repeat Step k) p = run S0 k p.
  Proof.
    intros Hz H. rewrite run_is_step_pow.
    - rewrite Hz, Nat.sub_0_r. unfold enter. destruct (linit S0 p).
      clear H Hz. revert p. induction k; intros p; [reflexivity|].
      cbn [repeat]. change (exec (Step :: repeat Step k) p) with (exec (repeat Step k) (exec1 Step p)).
      rewrite IHk. cbn [exec1 iter]. destruct (step S0 (p, tt)) as [q []]. reflexivity.
    - rewrite Hz, Nat.sub_0_r. unfold enter. destruct (linit S0 p). exact H.
  Qed.

  (* solve(y, x0, niter, ...) = setup ; run niter ; finalize — the function
     wrappers of basic.py / sparsity.py construct the class and call solve *)
  Variables (Args Out : Type) (setup : Args -> P) (finalize : P -> Out).
  Definition solve (N : nat) (a : Args) : Out := finalize (run S0 N (setup a)).
  Definition manual (N : nat) (prog : list cmd) (a : Args) : Out := finalize (exec (prog ++ [Run N]) (setup a)).

  Theorem solve_is_setup_run_finalize N a : solve N a = manual N [] a.
  Proof. reflexivity. Qed.

  Theorem manual_is_solve N prog a : safe N prog (setup a) -> manual N prog a = solve N a.
  Proof.
    intros H. unfold manual, solve. rewrite exec_app. cbn [exec fold_left exec1]. rewrite prog_then_run; auto.
  Qed.
End Persistent.

(* ------------------------------------------------------------------ *)
(* Driving programs for solvers with locals (ISTA, FISTA): the caller threads
   what step returns (FISTA: `x, z, xupdate = step(x, z)`); run returns x
   only, so after a run the caller's copy of the locals is what he can build
   from x (FISTA: z = x.copy(), exactly linit). *)
Section Locals.
  Variables P L : Type.
  Variable S0 : solver P L.

  Definition execL1 (c : cmd) (pl : P * L) : P * L :=
    match c with Step => step S0 pl | Run n => enter S0 (run S0 n (fst pl)) end.
  Definition execL (prog : list cmd) (pl : P * L) : P * L := fold_left (fun s c => execL1 c s) prog pl.

  Lemma execL_app a b pl : execL (a ++ b) pl = execL b (execL a pl).
  Proof. apply fold_left_app. Qed.

  (* manual stepping with properly threaded locals is the loop body *)
  Theorem stepsL_are_run k p : iiter S0 p = 0 ->
    (forall i, i < k -> ok S0 (iter S0 i (enter S0 p)) = true) ->
    fst (execL (repeat Step k) (enter S0 p)) = run S0 k p.
  Proof.
    intros Hz H. rewrite run_is_step_pow by (rewrite Hz, Nat.sub_0_r; exact H).
    rewrite Hz, Nat.sub_0_r. f_equal. generalize (enter S0 p). clear. induction k; intros pl; [reflexivity|].
    cbn [repeat]. change (execL (Step :: repeat Step k) pl) with (execL (repeat Step k) (step S0 pl)).
    rewrite IHk. reflexivity.
  Qed.
End Locals.

(* ------------------------------------------------------------------ *)
(* Resumable solvers: the locals that run re-creates are recoverable from
   the persistent state wherever the loop can be (invariant Inv), except for
   a stopping quantity that is re-initialised so that the test passes
   (FISTA after 4fbea6d: step stores self.z = z, run restarts from self.z;
   xupdate = inf.  ISTA is the special case where step ignores the locals). *)
Section Resume.
  Variables P L : Type.
  Variable S0 : solver P L.
  Variable Inv : P * L -> Prop.
  Hypothesis Inv_enter : forall p, Inv (enter S0 p).
  Hypothesis Inv_step : forall pl, Inv pl -> Inv (step S0 pl).
  Hypothesis resume : forall pl, Inv pl -> step S0 pl = step S0 (enter S0 (fst pl)).
  Hypothesis ok_fresh' : forall p, ok S0 (enter S0 p) = true.

  Lemma runL_resume n pl pl' : fst pl = fst pl' -> ok S0 pl = ok S0 pl' -> step S0 pl = step S0 pl' ->
    fst (runL S0 n pl) = fst (runL S0 n pl').
  Proof.
    intros H1 H2 H3. rewrite (runL_unfold S0 n pl), (runL_unfold S0 n pl'). unfold guard. rewrite H1, H2.
    destruct ((iiter S0 (fst pl') <? n) && ok S0 pl'); [rewrite H3; reflexivity|exact H1].
  Qed.

  Lemma runL_inv n : forall pl, Inv pl -> Inv (runL S0 n pl).
  Proof.
    intros pl. remember (n - iiter S0 (fst pl)) as m eqn:E. revert pl E.
    induction m; intros pl E I; rewrite runL_unfold; destruct (guard S0 n pl) eqn:G; auto.
    - unfold guard in G. apply andb_true_iff in G. destruct G as [G _]. apply Nat.ltb_lt in G. lia.
    - apply IHm; [rewrite step_iiter; lia|apply Inv_step; exact I].
  Qed.

  (* instalments = one run whenever the earlier instalment was ended by its
     budget (not by the stopping test) *)
  Theorem run_split_resume j n p : j <= n -> ok S0 (runL S0 j (enter S0 p)) = true ->
    run S0 n (run S0 j p) = run S0 n p.
  Proof.
    intros Hjn H. unfold run at 1 3. rewrite <- (runL_compose S0 Hjn (enter S0 p)). unfold run.
    set (pl := runL S0 j (enter S0 p)) in *.
    assert (I : Inv pl) by (apply runL_inv, Inv_enter).
    apply runL_resume; [reflexivity|rewrite H; apply ok_fresh'|symmetry; apply resume; exact I].
  Qed.

  (* driving programs with threaded locals (FISTA: x, z, xupdate = step(x, z);
     after a run the caller re-reads them from the solver: z = solver.z) *)
  Fixpoint safeL (N : nat) (prog : list cmd) (pl : P * L) : Prop :=
    match prog with
    | [] => True
    | Step :: r => guard S0 N pl = true /\ ok S0 (step S0 pl) = true /\ safeL N r (step S0 pl)
    | Run n :: r => n <= N /\ ok S0 (runL S0 n (enter S0 (fst pl))) = true /\ safeL N r (execL1 S0 (Run n) pl)
    end.

  Theorem progL_then_run N : forall prog pl, Inv pl -> ok S0 pl = true -> safeL N prog pl ->
    run S0 N (fst (execL S0 prog pl)) = run S0 N (fst pl).
  Proof.
    induction prog as [|c r IH]; intros pl I Hok Hs; [reflexivity|].
    change (execL S0 (c :: r) pl) with (execL S0 r (execL1 S0 c pl)).
    destruct c as [|n]; cbn [safeL] in Hs.
    - destruct Hs as (G & O & Hs). cbn [execL1]. rewrite (IH _ (Inv_step I) O Hs).
      unfold run. rewrite (runL_unfold S0 N (enter S0 (fst pl))).
      assert (guard S0 N (enter S0 (fst pl)) = true) as ->.
      { unfold guard in *. apply andb_true_iff in G. destruct G as [G _]. cbn [fst enter]. rewrite G, ok_fresh'. reflexivity. }
      rewrite <- (resume I). apply runL_resume; [reflexivity| |].
      + rewrite ok_fresh', O. reflexivity.
      + symmetry. apply resume. apply Inv_step. exact I.
    - destruct Hs as (Hn & O & Hs). cbn [execL1] in *.
      rewrite (IH _ (Inv_enter _) (ok_fresh' _) Hs). cbn [fst enter].
      apply run_split_resume; assumption.
  Qed.
End Resume.

(* ------------------------------------------------------------------ *)
(* The abstract ("history") instance used by the correspondence: the state
   records only the call history that matters — the iteration counter and
   the iterations at which a step consumed re-created locals that differ
   from the threaded ones.  The stopping quantity is supplied as a trace
   measured on the implementation (tr[i] = "the stopping test lets the loop
   continue when the quantity was produced by the step that made iiter = i";
   tr[0] refers to setup).
     fresh_ok = true : the stopping quantity is a local initialised to inf
                       (ISTA, FISTA: xupdate); false: a field of self.
     zlocal   = true : step reads a local that run re-creates (FISTA: z).
   A re-created z equals the threaded one at iiter 0 (setup) and at iiter 1
   (t_0 = 1, so the first extrapolation coefficient (t_0 - 1)/t_1 is 0). *)
Section Abstract.
  Variables (fresh_ok zlocal : bool) (tr : list bool).

  Definition AP := (nat * list nat)%type.   (* iiter, harmful restarts *)
  Definition AL := bool.                      (* locals freshly created? *)

  Definition astep (pl : AP * AL) : AP * AL :=
    let '((i, rs), fresh) := pl in
    ((S i, if zlocal && fresh && (2 <=? i) then rs ++ [i] else rs), false).
  Definition aok (pl : AP * AL) : bool :=
    let '((i, _), fresh) := pl in if fresh_ok && fresh then true else nth i tr false.

  Definition asolver : solver AP AL.
  Proof.
    refine {| step := astep; iiter := fun p => fst p; ok := aok; linit := fun _ => true |}.
    intros [[i rs] f]. reflexivity.
  Defined.

  (* iiter after each call of the program, and the final harmful-restart list *)
  Fixpoint atrace (prog : list cmd) (pl : AP * AL) : list nat * list nat :=
    match prog with
    | [] => ([], snd (fst pl))
    | c :: r => let pl' := execL1 asolver c pl in
                let '(is, rs) := atrace r pl' in (fst (fst pl') :: is, rs)
    end.
  Definition apredict (prog : list cmd) := atrace prog ((0, []), true).
End Abstract.

(* without a re-created input of step the history is just the counter *)
Lemma astep_nolocal_restarts pl : snd (fst (astep false pl)) = snd (fst pl).
Proof. destruct pl as [[i rs] f]. reflexivity. Qed.

(* ------------------------------------------------------------------ *)
(* The global N-d multiplication switch (pylops/config.py) and the solver
   wrapper add_ndarray_support_to_solver (utils/decorators.py):
       enabled = get(); set(False); try: yield  finally: set(enabled)        *)
Section Flag.
  Variable Out : Type.
  (* a body computes from the current flag either a value or an exception,
     and a new flag; it "respects" the switch when it leaves it as found *)
  Inductive res := Ret (o : Out) | Raise (e : nat).
  Definition body := bool -> res * bool.

  Definition with_disabled (b : body) : body := fun flag =>
    let enabled := flag in
    let '(r, _) := b false in     (* whatever the body does to the switch ... *)
    (r, enabled).                 (* ... finally: set(enabled) *)

  Theorem flag_restored b flag : snd (with_disabled b flag) = flag.
  Proof. unfold with_disabled. destruct (b false). reflexivity. Qed.

  Theorem flag_restored_raise b flag e : fst (b false) = Raise e ->
    with_disabled b flag = (Raise e, flag).
  Proof. unfold with_disabled. destruct (b false) as [r f]. cbn. intros ->. reflexivity. Qed.

  Theorem body_sees_disabled (b : body) flag : fst (with_disabled b flag) = fst (b false).
  Proof. unfold with_disabled. destruct (b false). reflexivity. Qed.
End Flag.

(* shape of the first result of a decorated solver: reshaped to the model's
   dims unless x0 was given flat (or the operator forces flat output) *)
Definition wrap_shape (dims : list nat) (x0_given_flat forceflat : bool) : list nat :=
  if x0_given_flat || forceflat then [fold_right Nat.mul 1 dims] else dims.
Theorem solver_wrap_shape dims : wrap_shape dims false false = dims /\
  fold_right Nat.mul 1 (wrap_shape dims true false) = fold_right Nat.mul 1 dims.
Proof. split; [reflexivity|]. cbn. lia. Qed.
