(* OrdLemmas.v — order facts of an abstract ordered field derived from the
   [OrdField] record only (lra/nra do not work here): every inequality is
   proved as  "difference = visibly non-negative expression" by [ring] plus
   the closure lemmas below.  Also: abs / sign / max exactly as numpy
   computes them (np.abs, np.sign, np.maximum) on a totally ordered field. *)
From PV Require Export Dict Vec Dot Mat.
Local Open Scope R_scope.
Set Warnings "-notation-overridden".

Section OrdLemmas.
Variable F : OrdField.
Add Ring Fr : (rth F).
Add Field Ff : (fth F).
Notation K := (car F).
Local Notation "a <= b" := (rle F a b) : R_scope.

Definition rlt (a b : K) : Prop := a <= b /\ a <> b.
Definition two : K := 1 + 1.
Definition half : K := rinv F two.
Definition rabs (a : K) : K := if rleb F 0 a then a else - a.
(* np.sign: -1, 0, 1 *)
Definition rsgn (a : K) : K := if rleb F a 0 then (if rleb F 0 a then 0 else - (1)) else 1.
(* np.maximum(a, b) *)
Definition rmax (a b : K) : K := if rleb F a b then b else a.
Definition eqb0 (a : K) : bool := rleb F a 0 && rleb F 0 a.

Lemma leb_cases a b : (rleb F a b = true /\ a <= b) \/ (rleb F a b = false /\ b <= a /\ a <> b).
Proof.
  destruct (rleb F a b) eqn:E.
  - left; split; auto. apply rleb_spec; auto.
  - right; split; auto. assert (N : ~ a <= b) by (intro H; apply rleb_spec in H; congruence).
    split. + destruct (rle_total F a b); tauto. + intros ->; apply N, rle_refl.
Qed.

Lemma le_sub a b : 0 <= b - a -> a <= b.
Proof. intros H. apply (rle_add F _ _ a) in H. replace (0 + a) with a in H by ring.
  replace (b - a + a) with b in H by ring. exact H. Qed.
Lemma sub_le a b : a <= b -> 0 <= b - a.
Proof. intros H. apply (rle_add F _ _ (- a)) in H. replace (a + - a) with (r0 F) in H by ring.
  replace (b + - a) with (b - a) in H by ring. exact H. Qed.
Lemma nn_add a b : 0 <= a -> 0 <= b -> 0 <= a + b.
Proof. intros Ha Hb. apply (rle_trans F _ b); auto. apply le_sub. replace (a + b - b) with a by ring; auto. Qed.
Lemma nn_mul a b : 0 <= a -> 0 <= b -> 0 <= a * b.
Proof. apply rle_mul. Qed.
Lemma le_opp a : a <= 0 -> 0 <= - a.
Proof. intros H. apply sub_le in H. replace (0 - a) with (- a) in H by ring; auto. Qed.
Lemma opp_le a : 0 <= a -> - a <= 0.
Proof. intros H. apply le_sub. replace (0 - - a) with a by ring; auto. Qed.
Lemma sq_nn a : 0 <= a * a.
Proof. destruct (rle_total F 0 a) as [H|H]. - apply nn_mul; auto.
  - replace (a * a) with ((- a) * (- a)) by ring. apply nn_mul; apply le_opp; auto. Qed.
Lemma le_add_mono a b c d : a <= b -> c <= d -> a + c <= b + d.
Proof. intros H1 H2. apply le_sub. replace (b + d - (a + c)) with ((b - a) + (d - c)) by ring.
  apply nn_add; apply sub_le; auto. Qed.
Lemma mul_le_l c a b : 0 <= c -> a <= b -> c * a <= c * b.
Proof. intros Hc H. apply le_sub. replace (c * b - c * a) with (c * (b - a)) by ring.
  apply nn_mul; auto. apply sub_le; auto. Qed.
Lemma one_nn : 0 <= (1 : K).
Proof. replace (r1 F) with ((1 : K) * 1) by ring. apply sq_nn. Qed.
Lemma two_nn : 0 <= two.
Proof. apply nn_add; apply one_nn. Qed.
Lemma one_neq0 : (1 : K) <> 0.
Proof. apply (F_1_neq_0 (fth F)). Qed.
Lemma two_neq0 : two <> 0.
Proof. intros E. unfold two in E.
  assert (H1 : (1:K) = 0 + - (1)) by (rewrite <- E; ring).
  assert (H : (1 : K) <= 0).
  { apply (rle_trans F _ (0 + - (1))). rewrite <- H1; apply rle_refl.
    replace (0 + - (1) : K) with (- (1) : K) by ring. apply opp_le, one_nn. }
  apply one_neq0, (rle_antisym F); auto. apply one_nn. Qed.
Lemma two_half : two * half = 1.
Proof. unfold half. field. apply two_neq0. Qed.
Lemma inv_nn a : 0 <= a -> a <> 0 -> 0 <= rinv F a.
Proof. intros H N. replace (rinv F a) with (a * (rinv F a * rinv F a)) by (field; auto).
  apply nn_mul; auto. apply sq_nn. Qed.
Lemma half_nn : 0 <= half.
Proof. apply inv_nn. apply two_nn. apply two_neq0. Qed.
Lemma mul_cancel_le c a b : rlt 0 c -> c * a <= c * b -> a <= b.
Proof. intros [Hc Nc] H. destruct (rle_total F a b) as [|H']; auto.
  assert (E : c * a = c * b) by (apply (rle_antisym F); auto; apply mul_le_l; auto).
  replace a with (rinv F c * (c * a)) by (field; auto). rewrite E.
  replace (rinv F c * (c * b)) with b by (field; auto). apply rle_refl. Qed.
Lemma lt_le a b : rlt a b -> a <= b.
Proof. intros [H _]; exact H. Qed.
Lemma le_lt_trans a b c : a <= b -> rlt b c -> rlt a c.
Proof. intros H [H1 N]. split. - eapply rle_trans; eauto.
  - intros ->. apply N. apply (rle_antisym F); auto. Qed.
Lemma not_le_lt a b : b <= a -> a <> b -> rlt b a.
Proof. intros H N; split; auto. Qed.

(* ---- abs ---- *)
Lemma rabs_nn a : 0 <= rabs a.
Proof. unfold rabs. destruct (leb_cases 0 a) as [[-> H]|[-> [H _]]]; auto. apply le_opp; auto. Qed.
Lemma rabs_ge a : a <= rabs a.
Proof. unfold rabs. destruct (leb_cases 0 a) as [[-> H]|[-> [H _]]]. apply rle_refl.
  eapply rle_trans; eauto. apply le_opp; auto. Qed.
Lemma rabs_ge_opp a : - a <= rabs a.
Proof. unfold rabs. destruct (leb_cases 0 a) as [[-> H]|[-> [H _]]]; [|apply rle_refl].
  eapply rle_trans; eauto. apply opp_le; auto. Qed.
Lemma rabs_sq a : rabs a * rabs a = a * a.
Proof. unfold rabs. destruct (rleb F 0 a); ring. Qed.
Lemma rabs_0 : rabs 0 = 0.
Proof. unfold rabs. destruct (rleb F 0 0); ring. Qed.
Lemma rabs_pos a : 0 <= a -> rabs a = a.
Proof. intros H. unfold rabs. apply rleb_spec in H. rewrite H; auto. Qed.
Lemma rabs_neg a : a <= 0 -> rabs a = - a.
Proof. intros H. unfold rabs. destruct (leb_cases 0 a) as [[-> H1]|[-> _]]; auto.
  assert (a = 0) by (apply (rle_antisym F); auto). subst; ring. Qed.
Lemma rabs_opp a : rabs (- a) = rabs a.
Proof. destruct (rle_total F 0 a) as [H|H].
  - rewrite (rabs_pos a H), rabs_neg by (apply opp_le; auto). ring.
  - rewrite (rabs_neg a H), rabs_pos by (apply le_opp; auto). ring. Qed.
(* a*b <= |a|*|b| *)
Lemma mul_le_abs a b : a * b <= rabs a * rabs b.
Proof. destruct (rle_total F 0 a) as [Ha|Ha]; destruct (rle_total F 0 b) as [Hb|Hb].
  - rewrite !rabs_pos by auto. apply rle_refl.
  - rewrite rabs_pos, (rabs_neg b) by auto. apply le_sub.
    replace (a * - b - a * b) with (two * (a * - b)) by (unfold two; ring).
    apply nn_mul. apply two_nn. apply nn_mul; auto. apply le_opp; auto.
  - rewrite (rabs_neg a), (rabs_pos b) by auto. apply le_sub.
    replace (- a * b - a * b) with (two * (- a * b)) by (unfold two; ring).
    apply nn_mul. apply two_nn. apply nn_mul; auto. apply le_opp; auto.
  - rewrite !rabs_neg by auto. replace (- a * - b) with (a * b) by ring. apply rle_refl. Qed.
Lemma abs_le_iff a t : rabs a <= t <-> (a <= t /\ - a <= t).
Proof. split. - intros H; split; eapply rle_trans; eauto. apply rabs_ge. apply rabs_ge_opp.
  - intros [H1 H2]. unfold rabs. destruct (rleb F 0 a); auto. Qed.
(* a^2 <= b^2, 0 <= b  ->  a <= b *)
Lemma sq_le_le a b : 0 <= b -> a * a <= b * b -> a <= b.
Proof. intros Hb H. destruct (rle_total F a b) as [|H']; auto.
  assert (Ha : 0 <= a) by (eapply rle_trans; eauto).
  assert (H2 : b * b <= a * a).
  { apply le_sub. replace (a * a - b * b) with ((a - b) * (a + b)) by ring. apply nn_mul.
    apply sub_le; auto. apply nn_add; auto. }
  assert (E : a * a = b * b) by (apply (rle_antisym F); auto).
  assert (E2 : (a - b) * (a + b) = 0) by (transitivity (a * a - b * b); [ring | rewrite E; ring]).
  destruct (leb_cases (a + b) 0) as [[_ H3]|[_ [_ N]]].
  - assert (a + b = 0) by (apply (rle_antisym F); auto; apply nn_add; auto).
    assert (a <= 0). { apply le_sub. replace (0 - a) with (b - (a + b)) by ring. rewrite H0.
      replace (b - 0) with b by ring; auto. }
    eapply rle_trans; eauto.
  - replace a with (b + (a - b) * (a + b) * rinv F (a + b)) by (field; auto). rewrite E2.
    replace (b + 0 * rinv F (a + b)) with b by ring. apply rle_refl. Qed.

(* ---- sign ---- *)
Lemma rsgn_pos a : rlt 0 a -> rsgn a = 1.
Proof. intros [H N]. unfold rsgn. destruct (leb_cases a 0) as [[_ H1]|[-> _]]; auto.
  exfalso; apply N. apply (rle_antisym F); auto. Qed.
Lemma rsgn_neg a : rlt a 0 -> rsgn a = - (1).
Proof. intros [H N]. unfold rsgn. apply rleb_spec in H as Hb. rewrite Hb.
  destruct (leb_cases 0 a) as [[_ H1]|[-> _]]; auto. exfalso; apply N. apply (rle_antisym F); auto. Qed.
Lemma rsgn_0 : rsgn 0 = 0.
Proof. unfold rsgn. pose proof (rle_refl F 0) as H. apply rleb_spec in H. rewrite H; auto. Qed.
Lemma rsgn_abs a : rsgn a * a = rabs a.
Proof. destruct (rle_total F 0 a) as [H|H].
  - destruct (leb_cases a 0) as [[_ H1]|[_ [_ N]]].
    + assert (a = 0) by (apply (rle_antisym F); auto). subst. rewrite rsgn_0, rabs_0; ring.
    + rewrite rsgn_pos, rabs_pos by (auto; split; auto). ring.
  - destruct (leb_cases 0 a) as [[_ H1]|[_ [_ N]]].
    + assert (a = 0) by (apply (rle_antisym F); auto). subst. rewrite rsgn_0, rabs_0; ring.
    + rewrite rsgn_neg, rabs_neg by (auto; split; auto). ring. Qed.
Lemma trichotomy a : rlt a 0 \/ a = 0 \/ rlt 0 a.
Proof. destruct (leb_cases a 0) as [[_ H]|[_ [H N]]].
  - destruct (leb_cases 0 a) as [[_ H1]|[_ [_ N]]].
    + right; left. apply (rle_antisym F); auto.
    + left; split; auto.
  - right; right; split; auto. Qed.
Lemma lt_irrefl a : ~ rlt a a.
Proof. intros [_ N]; apply N; auto. Qed.
Lemma lt_asym a b : rlt a b -> b <= a -> False.
Proof. intros [H N] H'. apply N. apply (rle_antisym F); auto. Qed.
Lemma eqb0_spec a : eqb0 a = true <-> a = 0.
Proof. unfold eqb0. rewrite andb_true_iff, !rleb_spec. split.
  - intros [H1 H2]; apply (rle_antisym F); auto. - intros ->; split; apply rle_refl. Qed.

(* ---- max ---- *)
Lemma rmax_l a b : b <= a -> rmax a b = a.
Proof. intros H. unfold rmax. destruct (leb_cases a b) as [[-> H1]|[-> _]]; auto. apply (rle_antisym F); auto. Qed.
Lemma rmax_r a b : a <= b -> rmax a b = b.
Proof. intros H. unfold rmax. apply rleb_spec in H. rewrite H; auto. Qed.

(* ---- sums of squares / l1 norm of lists ---- *)
Definition nrm2 (v : list K) : K := dotu F v v.
Definition l1 (v : list K) : K := vsum F (map rabs v).
Lemma nrm2_nn v : 0 <= nrm2 v.
Proof. unfold nrm2. induction v as [|a v IH]; simpl. apply rle_refl. apply nn_add; auto. apply sq_nn. Qed.
Lemma l1_nn v : 0 <= l1 v.
Proof. unfold l1. induction v as [|a v IH]; simpl. apply rle_refl. apply nn_add; auto. apply rabs_nn. Qed.
Lemma nrm2_vsub a b : length a = length b ->
  nrm2 (vsub F a b) = nrm2 a - two * dotu F a b + nrm2 b.
Proof. unfold nrm2, two. revert b; induction a as [|x a IH]; intros [|y b] H; simpl in *; try discriminate; [ring|].
  unfold vsub in *. rewrite IH by lia. ring. Qed.
Lemma nrm2_vscale c v : nrm2 (vscale F c v) = c * c * nrm2 v.
Proof. unfold nrm2. rewrite dotu_vscale_l, dotu_vscale_r. ring. Qed.
End OrdLemmas.
