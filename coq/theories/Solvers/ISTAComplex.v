(* ISTAComplex.v — ISTA on COMPLEX data as pylops runs it:

     res = y - Op x ; x_unthresh = x + alpha * Op^H res
     _softthreshold (complex): x1 = max(|x| - thresh, 0) * exp(1j*angle(x))   (only the modulus is shrunk)
     thresh = eps * alpha / 2

   Complex numbers are pairs over a totally ordered field; the moduli |u_i| are
   SUPPLIED values constrained by  m >= 0, m*m = re^2 + im^2  (no square root
   on an ordered field; the correspondence supplies and checks them).
   Theorems: quadratic majoriser, descent of
       F(x) = ||y - A x||^2 + eps * sum_i |x_i|
   for one step from ANY x under  alpha ||A d||^2 <= ||d||^2  (all sizes),
   monotonicity of the whole run, and the Hermitian step-size certificate via
   the real embedding [[Re,-Im],[Im,Re]] and PSD.psd. *)
From PV Require Export ISTA PSD.
Local Open Scope R_scope.
Set Warnings "-notation-overridden".

(* ---- complex pairs over a commutative ring, as a ring with conjugation ---- *)
Section CPair.
Variable K : CRing.
Add Ring Kr0 : (rth K).
Definition Cx := (car K * car K)%type.
Definition c0 : Cx := (0, 0).
Definition c1 : Cx := (1, 0).
Definition cadd (a b : Cx) : Cx := (fst a + fst b, snd a + snd b).
Definition cmul (a b : Cx) : Cx := (fst a * fst b - snd a * snd b, fst a * snd b + snd a * fst b).
Definition copp (a : Cx) : Cx := (- fst a, - snd a).
Definition csub (a b : Cx) : Cx := (fst a - fst b, snd a - snd b).
Definition cconj (a : Cx) : Cx := (fst a, - snd a).
Lemma Crt : ring_theory c0 c1 cadd cmul csub copp eq.
Proof. constructor; intros; repeat match goal with x : Cx |- _ => destruct x end;
  unfold cadd, cmul, csub, copp, c0, c1; simpl; f_equal; ring. Qed.
Definition CPR : CRing := {| car := Cx; rth := Crt |}.
Definition CPS : StarRing.
Proof. refine {| sring := CPR; conj := cconj |}; intros; repeat match goal with x : car CPR |- _ => destruct x end;
  unfold cconj; simpl; unfold cadd, cmul, copp, c0, c1; simpl; f_equal; ring. Defined.
End CPair.

(* ---- vector identities over any commutative ring ---- *)
Section VecId.
Variable R : CRing.
Add Ring Rr0 : (rth R).
Lemma vadd_vsub_cancel_g (x p : list R) : length x = length p -> vadd R x (vsub R p x) = p.
Proof. revert p; induction x as [|a x IH]; intros [|b p] H; simpl in *; try discriminate; auto.
  unfold vadd, vsub in *; simpl. rewrite IH by lia. f_equal; ring. Qed.
Lemma vsub_vadd_r_g (p x w : list R) : vsub R p (vadd R x w) = vsub R (vsub R p x) w.
Proof. revert x w; induction p as [|a p IH]; intros [|b x] [|c w]; simpl; auto.
  unfold vadd, vsub in *; simpl. rewrite IH. f_equal; ring. Qed.
End VecId.

Section ISTAC.
Variable F : OrdField.
Add Ring Fr4 : (rth F).
Add Field Ff4 : (fth F).
Notation K := (car F).
Notation C := (CPR F).
Notation CS := (CPS F).
Notation CC := (car (CPR F)).
Notation cvec := (list (car (CPR F))).
Notation cmat := (list (list (car (CPR F)))).
Local Notation "a <= b" := (rle F a b) : R_scope.
Local Notation two := (two F).
Local Notation half := (half F).
Local Notation rlt := (rlt F).
Local Notation rmax := (rmax F).
Ltac rng := unfold OrdLemmas.two; ring.

Fixpoint nrm2c (v : cvec) : K :=
  match v with [] => 0 | a :: v' => fst a * fst a + snd a * snd a + nrm2c v' end.
(* Re <u, v> *)
Fixpoint rdotc (u v : cvec) : K :=
  match u, v with a :: u', b :: v' => fst a * fst b + snd a * snd b + rdotc u' v' | _, _ => 0 end.
Definition cre (a : K) : CC := (a, 0).
(* supplied moduli *)
Definition is_mod (a : CC) (m : K) : Prop := 0 <= m /\ m * m = fst a * fst a + snd a * snd a.
Definition moduli (v : cvec) (ms : list K) : Prop := Forall2 is_mod v ms.
Definition kmod (t m : K) : K := rmax (m - t) 0.

Variable n : nat.
Definition gradc (A : cmat) (y x : cvec) : cvec := mvH CS n A (vsub C y (mv C A x)).
(* x + alpha * A^H (y - A x) *)
Definition pre (A : cmat) (y : cvec) (alpha : K) (x : cvec) : cvec :=
  vadd C x (vscale C (cre alpha) (gradc A y x)).
Definition thr_c (t : K) (u : cvec) (mu : list K) : cvec :=
  map2 (fun (a : CC) m => (soft_c F (fst a) (snd a) m t : CC)) u mu.
(* one ISTA step; [mu] = the moduli of pre A y alpha x *)
Definition step_c (A : cmat) (y : cvec) (alpha eps : K) (x : cvec) (mu : list K) : cvec :=
  thr_c (thresh F eps alpha) (pre A y alpha x) mu.
(* ||y - A x||^2 + eps * sum |x_i| ;  [mx] = the moduli of x *)
Definition obj_c (A : cmat) (y : cvec) (eps : K) (x : cvec) (mx : list K) : K :=
  nrm2c (vsub C y (mv C A x)) + eps * vsum F mx.
(* run: moduli supplied per iteration; returns the iterates with their moduli *)
Fixpoint run_c (mus : list (list K)) (A : cmat) (y : cvec) (alpha eps : K) (x : cvec) : list (cvec * list K) :=
  match mus with
  | [] => []
  | mu :: rest => let x' := step_c A y alpha eps x mu in
                  (x', map (kmod (thresh F eps alpha)) mu) :: run_c rest A y alpha eps x'
  end.
Fixpoint good_mus (mus : list (list K)) (A : cmat) (y : cvec) (alpha eps : K) (x : cvec) : Prop :=
  match mus with
  | [] => True
  | mu :: rest => moduli (pre A y alpha x) mu /\ good_mus rest A y alpha eps (step_c A y alpha eps x mu)
  end.

(* ---- algebra of nrm2c / rdotc ---- *)
Lemma fst_dot (u v : cvec) : fst (dot CS u v) = rdotc u v.
Proof. unfold dot. revert v; induction u as [|a u IH]; intros [|b v]; simpl; auto.
  rewrite <- IH. destruct a, b; simpl. ring. Qed.
Lemma nrm2c_nn v : 0 <= nrm2c v.
Proof. induction v as [|a v IH]; simpl. apply rle_refl. apply nn_add; auto. apply nn_add; apply sq_nn. Qed.
Lemma nrm2c_vsub (a b : cvec) : length a = length b ->
  nrm2c (vsub C a b) = nrm2c a - two * rdotc a b + nrm2c b.
Proof. revert b; induction a as [|x a IH]; intros [|y0 b] H; simpl in *; try discriminate; [rng|].
  unfold vsub in *. rewrite IH by lia. rng. Qed.
Lemma nrm2c_vscale_re c (v : cvec) : nrm2c (vscale C (cre c) v) = c * c * nrm2c v.
Proof. unfold vscale. induction v as [|a v IH]; [simpl; ring|]. cbn [map nrm2c]. rewrite IH. destruct a; simpl. ring. Qed.
Lemma rdotc_vscale_r c (d g : cvec) : rdotc d (vscale C (cre c) g) = c * rdotc d g.
Proof. unfold vscale. revert g; induction d as [|a d IH]; intros [|b g]; cbn [map rdotc]; try ring. rewrite IH.
  destruct a, b; simpl. ring. Qed.
Lemma rdotc_comm (u v : cvec) : rdotc u v = rdotc v u.
Proof. revert v; induction u as [|a u IH]; intros [|b v]; simpl; auto. rewrite IH. ring. Qed.
Lemma nrm2c_shift (x w : cvec) : length x = length w -> nrm2c (vsub C x (vadd C x w)) = nrm2c w.
Proof. revert w; induction x as [|a x IH]; intros [|b w] H; simpl in *; try discriminate; auto.
  unfold vadd, vsub in *.
  replace (nrm2c (map2 (csub F) x (map2 (cadd F) x w))) with (nrm2c w) by (symmetry; apply IH; injection H as H; exact H).
  destruct a, b; simpl. ring. Qed.

Lemma thr_c_length t u mu : length mu = length u -> length (thr_c t u mu) = length u.
Proof. intros H. unfold thr_c. rewrite map2_length. apply Nat.min_l. apply Nat.eq_le_incl. symmetry. exact H. Qed.
Lemma moduli_length v ms : moduli v ms -> length ms = length v.
Proof. induction 1; simpl; auto. Qed.

(* the thresholded vector has moduli max(m - t, 0): only the modulus is shrunk *)
Lemma thr_c_moduli t u mu : moduli u mu -> moduli (thr_c t u mu) (map (kmod t) mu).
Proof. induction 1 as [|a m u mu [Hm Em] _ IH]; simpl; constructor; auto.
  destruct (soft_c_shrinks_modulus F (fst a) (snd a) m t Hm Em) as [H1 [H2 _]].
  split; auto. Qed.

Lemma nrm2c_vsub_cons (s a : CC) (p u : cvec) :
  nrm2c (vsub C (s :: p) (a :: u)) = (fst s - fst a) * (fst s - fst a) + (snd s - snd a) * (snd s - snd a) + nrm2c (vsub C p u).
Proof. reflexivity. Qed.
Lemma thr_c_cons t (a : CC) u m mu : thr_c t (a :: u) (m :: mu) = (soft_c F (fst a) (snd a) m t : CC) :: thr_c t u mu.
Proof. reflexivity. Qed.

(* block prox optimality summed over the components *)
Lemma prox_sum_c t (u : cvec) (mu : list K) : 0 <= t -> moduli u mu ->
  forall (z : cvec) (mz : list K), moduli z mz -> length z = length u ->
  nrm2c (vsub C (thr_c t u mu) u) + two * t * vsum F (map (kmod t) mu)
  <= nrm2c (vsub C z u) + two * t * vsum F mz.
Proof. intros Ht H. induction H as [|a m u mu [Hm Em] _ IH]; intros z mz Hz L.
  - destruct z; [|discriminate]. inversion Hz; subst. simpl. apply rle_refl.
  - destruct z as [|b z]; [discriminate|]. inversion Hz as [|b' mb z' mz' [Hb Eb] Hz']; subst.
    specialize (IH z mz' Hz' ltac:(simpl in L; injection L as L; exact L)).
    pose proof (soft_c_is_prox F (fst a) (snd a) m t Ht Hm Em (fst b) (snd b) mb Hb Eb) as P. cbv zeta in P.
    rewrite thr_c_cons, !nrm2c_vsub_cons. cbn [map vsum].
    set (s := soft_c F (fst a) (snd a) m t) in *.
    set (S1 := nrm2c (vsub C (thr_c t u mu) u)) in IH |- *.
    set (S2 := nrm2c (vsub C z u)) in IH |- *.
    set (L1 := vsum F (map (kmod t) mu)) in IH |- *. set (L2 := vsum F mz') in IH |- *.
    unfold kmod at 1.
    replace ((fst s - fst a) * (fst s - fst a) + (snd s - snd a) * (snd s - snd a) + S1 + two * t * (rmax (m - t) 0 + L1))
      with (((fst s - fst a) * (fst s - fst a) + (snd s - snd a) * (snd s - snd a) + two * t * rmax (m - t) 0) + (S1 + two * t * L1)) by ring.
    replace ((fst b - fst a) * (fst b - fst a) + (snd b - snd a) * (snd b - snd a) + S2 + two * t * (mb + L2))
      with (((fst b - fst a) * (fst b - fst a) + (snd b - snd a) * (snd b - snd a) + two * t * mb) + (S2 + two * t * L2)) by ring.
    apply le_add_mono; auto.
Qed.

Section Problem.
Variables (A : cmat) (y : cvec).
Hypothesis WA : wfM C n A.
Hypothesis Ly : length y = length A.

Lemma gradc_length x : length (gradc A y x) = n.
Proof. unfold gradc, mvH. exact (mvT_length C n (mconj CS A) _ (wfM_mconj CS n A WA)). Qed.
Lemma pre_length alpha x : length x = n -> length (pre A y alpha x) = n.
Proof. intros H. unfold pre. rewrite vadd_length, vscale_length, gradc_length. lia. Qed.
Lemma step_c_length alpha eps x mu : length x = n -> moduli (pre A y alpha x) mu -> length (step_c A y alpha eps x mu) = n.
Proof. intros H M. unfold step_c. rewrite thr_c_length. apply pre_length; auto.
  rewrite (moduli_length _ _ M); auto. Qed.
Lemma resc_length x : length (vsub C y (mv C A x)) = length A.
Proof. rewrite vsub_length, mv_length. lia. Qed.

(* quadratic expansion: ||y - A p||^2 = ||r||^2 - 2 Re<p - x, A^H r> + ||A (p - x)||^2 *)
Lemma quad_expand_c x p : length x = n -> length p = n ->
  nrm2c (vsub C y (mv C A p)) =
  nrm2c (vsub C y (mv C A x)) - two * rdotc (vsub C p x) (gradc A y x) + nrm2c (mv C A (vsub C p x)).
Proof. intros Hx Hp. set (d := vsub C p x). assert (Hd : length d = n) by (unfold d; rewrite vsub_length; lia).
  assert (E : p = vadd C x d) by (unfold d; symmetry; apply vadd_vsub_cancel_g; lia).
  rewrite E at 1. rewrite mv_vadd by lia. rewrite vsub_vadd_r_g.
  rewrite nrm2c_vsub by (rewrite resc_length, mv_length; auto).
  rewrite (rdotc_comm (vsub C y (mv C A x))). unfold gradc.
  rewrite <- !fst_dot. rewrite (dot_mv_mvH CS n A d) by (auto; rewrite resc_length; auto). reflexivity. Qed.

(* the majoriser: for EVERY p, alpha*||y - A p||^2 <= alpha*||r||^2 - alpha^2 ||g||^2 + ||p - u||^2, u = x + alpha g,
   with equality of both sides at p = x (no modulus involved) *)
Theorem ista_c_majoriser alpha x p : length x = n -> length p = n ->
  (forall d, length d = n -> alpha * nrm2c (mv C A d) <= nrm2c d) ->
  alpha * nrm2c (vsub C y (mv C A p))
  <= alpha * nrm2c (vsub C y (mv C A x)) - alpha * alpha * nrm2c (gradc A y x) + nrm2c (vsub C p (pre A y alpha x)).
Proof. intros Hx Hp Hmaj. set (g := gradc A y x). set (d := vsub C p x).
  assert (Hg : length g = n) by apply gradc_length.
  assert (Hd : length d = n) by (unfold d; rewrite vsub_length; lia).
  rewrite (quad_expand_c x p Hx Hp). fold d g.
  assert (E3 : nrm2c (vsub C p (pre A y alpha x)) = nrm2c d - two * (alpha * rdotc d g) + alpha * alpha * nrm2c g).
  { unfold pre. rewrite vsub_vadd_r_g. fold d g. rewrite nrm2c_vsub by (rewrite vscale_length; lia).
    rewrite rdotc_vscale_r, nrm2c_vscale_re. ring. }
  rewrite E3. pose proof (Hmaj d Hd) as M. apply le_sub.
  match goal with |- 0 <= ?e => replace e with (nrm2c d - alpha * nrm2c (mv C A d)) by ring end.
  apply sub_le; auto. Qed.

(* ------------------------------------------------------------ descent *)
Theorem ista_c_descent alpha eps x mx mu :
  length x = n -> 0 <= eps -> rlt 0 alpha ->
  (forall d, length d = n -> alpha * nrm2c (mv C A d) <= nrm2c d) ->
  moduli x mx -> moduli (pre A y alpha x) mu ->
  obj_c A y eps (step_c A y alpha eps x mu) (map (kmod (thresh F eps alpha)) mu) <= obj_c A y eps x mx.
Proof. intros Hx He Ha Hmaj Mx Mu.
  set (t := thresh F eps alpha). set (u := pre A y alpha x). set (p := step_c A y alpha eps x mu).
  assert (Hu : length u = n) by (apply pre_length; auto).
  assert (Hp : length p = n) by (apply step_c_length; auto).
  assert (Ht : 0 <= t). { unfold t, thresh. apply nn_mul. apply nn_mul; auto. apply lt_le; auto. apply half_nn. }
  assert (Et : two * t = eps * alpha).
  { unfold t, thresh. transitivity (eps * alpha * (two * half)); [ring | rewrite two_half; ring]. }
  pose proof (prox_sum_c t u mu Ht Mu x mx Mx ltac:(lia)) as P. change (thr_c t u mu) with p in P.
  assert (E4 : nrm2c (vsub C x u) = alpha * alpha * nrm2c (gradc A y x)).
  { unfold u, pre. rewrite nrm2c_shift by (rewrite vscale_length, gradc_length; lia). apply nrm2c_vscale_re. }
  rewrite E4 in P.
  pose proof (ista_c_majoriser alpha x p Hx Hp Hmaj) as M. fold u in M.
  unfold obj_c. fold p t. apply (mul_cancel_le F alpha); auto.
  set (R2 := nrm2c (vsub C y (mv C A x))) in *. set (Rp := nrm2c (vsub C y (mv C A p))) in *.
  set (GG := nrm2c (gradc A y x)) in *. set (PU := nrm2c (vsub C p u)) in *.
  set (Lp := vsum F (map (kmod t) mu)) in *. set (Lx := vsum F mx) in *.
  replace (two * t * Lp) with (eps * alpha * Lp) in P by (rewrite <- Et; ring).
  replace (two * t * Lx) with (eps * alpha * Lx) in P by (rewrite <- Et; ring).
  apply le_sub.
  replace (alpha * (R2 + eps * Lx) - alpha * (Rp + eps * Lp))
    with ((alpha * R2 - alpha * alpha * GG + PU - alpha * Rp) + (alpha * alpha * GG + eps * alpha * Lx - (PU + eps * alpha * Lp))) by ring.
  apply nn_add; apply sub_le; auto.
Qed.

(* descent along the whole run (moduli supplied and correct at every iteration), from any starting point *)
Theorem ista_c_run_monotone alpha eps : 0 <= eps -> rlt 0 alpha ->
  (forall d, length d = n -> alpha * nrm2c (mv C A d) <= nrm2c d) ->
  forall mus x mx, length x = n -> moduli x mx -> good_mus mus A y alpha eps x ->
  forall xm, In xm (run_c mus A y alpha eps x) ->
  moduli (fst xm) (snd xm) /\ obj_c A y eps (fst xm) (snd xm) <= obj_c A y eps x mx.
Proof. intros He Ha Hmaj. induction mus as [|mu rest IH]; intros x mx Hx Mx G xm; simpl. tauto.
  destruct G as [Mu G].
  assert (M1 : moduli (step_c A y alpha eps x mu) (map (kmod (thresh F eps alpha)) mu)) by (apply thr_c_moduli; auto).
  assert (D1 := ista_c_descent alpha eps x mx mu Hx He Ha Hmaj Mx Mu).
  intros [<-|H]; cbn [fst snd]. split; auto.
  destruct (IH _ _ (step_c_length alpha eps x mu Hx Mu) M1 G xm H) as [M2 D2]. split; auto.
  eapply rle_trans; eauto. Qed.
End Problem.
End ISTAC.

(* ---- Hermitian step-size certificate: alpha A^H A <= I decided on the real embedding ---- *)
Section Cert.
Variable F : OrdField.
Add Ring Fr5 : (rth F).
Notation K := (car F).
Notation C := (CPR F).
Notation cvec := (list (car (CPR F))).
Notation cmat := (list (list (car (CPR F)))).
Local Notation "a <= b" := (rle F a b) : R_scope.

Definition flat (d : cvec) : list K := map fst d ++ map snd d.
(* [[Re, -Im], [Im, Re]] *)
Definition emb (A : cmat) : list (list K) :=
  map (fun r : list (car C) => map fst r ++ map (fun z => - snd z) r) A ++
  map (fun r : list (car C) => map snd r ++ map fst r) A.

Lemma nrm2_app (u v : list K) : nrm2 F (u ++ v) = nrm2 F u + nrm2 F v.
Proof. unfold nrm2. apply dotu_app; auto. Qed.
Lemma nrm2_flat (d : cvec) : nrm2 F (flat d) = nrm2c F d.
Proof. unfold flat. rewrite nrm2_app. unfold nrm2. induction d as [|a d IH]; simpl; [ring|].
  rewrite <- IH. ring. Qed.
Lemma dotu_parts (r d : cvec) :
  fst (dotu C r d) = dotu F (map fst r) (map fst d) + dotu F (map (fun z => - snd z) r) (map snd d) /\
  snd (dotu C r d) = dotu F (map snd r) (map fst d) + dotu F (map fst r) (map snd d).
Proof. revert d; induction r as [|a r IH]; intros [|b d]; simpl; try (split; ring).
  destruct (IH d) as [H1 H2]. rewrite H1, H2. destruct a, b; simpl. split; ring. Qed.
Lemma mv_emb n (A : cmat) (d : cvec) : wfM C n A -> length d = n ->
  mv F (emb A) (flat d) = flat (mv C A d).
Proof. intros W Hd. unfold emb, flat, mv. rewrite map_app, !map_map. f_equal.
  - apply map_ext_in. intros r Hr. assert (Lr : length r = n) by (eapply Forall_forall in W; eauto).
    rewrite dotu_app by (rewrite !map_length; transitivity n; [exact Lr | symmetry; exact Hd]). symmetry. apply dotu_parts.
  - apply map_ext_in. intros r Hr. assert (Lr : length r = n) by (eapply Forall_forall in W; eauto).
    rewrite dotu_app by (rewrite !map_length; transitivity n; [exact Lr | symmetry; exact Hd]). symmetry. apply dotu_parts.
Qed.
Lemma wfM_emb n (A : cmat) : wfM C n A -> wfM F (n + n) (emb A).
Proof. intros W. unfold emb, wfM. apply Forall_app. split; apply Forall_map; eapply Forall_impl; try exact W;
  intros r Hr; simpl in *; rewrite app_length, !map_length; f_equal; exact Hr. Qed.

Theorem premise_c_of_psd n alpha (A : cmat) : wfM C n A ->
  psd F (n + n) (stepmat F (n + n) alpha (emb A)) = true ->
  forall d : cvec, length d = n -> alpha * nrm2c F (mv C A d) <= nrm2c F d.
Proof. intros W H d Hd. rewrite <- !nrm2_flat. rewrite <- (mv_emb n A d W Hd).
  apply (premise_of_psd F (n + n) alpha (emb A) (wfM_emb n A W) H).
  unfold flat. rewrite app_length, !map_length. f_equal; exact Hd. Qed.
End Cert.
