(* DriversGauss.v — the driver machine of Drivers.v instantiated with the
   statement-level models of cls_basic.CG / CGLS (Solvers/CG.v, CGLS.v: the
   SAME step functions the C09/C10 theorems are about), over any field with
   conjugation and in particular over the Gaussian rationals GF (complex
   data: Hermitian positive definite systems for CG, complex rectangular
   systems for CGLS).  Both solvers keep all state on self / in the returned
   iterate, so they are persistent solvers (locals = unit) and every driver
   theorem applies literally. *)
From Coq Require Import QArith Qcanon List Arith Lia Bool.
From PV Require Import Dict Vec Dot Mat QcInst GaussQc GaussField CG CGLS Drivers.
Import ListNotations.

Notation tt := Datatypes.tt.

(* ---- the run loop of CG.v (loop_run, with its event log) computes the same
   state as Drivers.loop for the solver record built from the same step *)
Section Bridge.
  Variable F : FieldS.
  Variable St : Type.
  Variables (stp : St -> St) (xof : St -> list F) (koldof : St -> F) (iiterof : St -> nat).
  Variable gtb : F -> F -> bool.
  Variable inplace : bool.
  Hypothesis Hiiter : forall st, iiterof (stp st) = S (iiterof st).
  Variable tol : F.

  Definition drv : solver St Datatypes.unit.
  Proof.
    refine {| step := fun pl => (stp (fst pl), tt); iiter := iiterof;
              ok := fun pl => gtb (koldof (fst pl)) tol; linit := fun _ => tt |}.
    intros [st u]. cbn [fst]. apply Hiiter.
  Defined.

  Lemma loop_run_bridge fuel niter : forall st log,
    fst (loop_run F St stp xof koldof iiterof gtb inplace fuel niter tol st log) = fst (loop drv niter fuel (st, tt)).
  Proof.
    induction fuel as [|f IH]; intros st log; cbn [loop_run loop]; [reflexivity|].
    unfold guard. cbn [fst iiter ok drv].
    destruct (Nat.ltb (iiterof st) niter && gtb (koldof st) tol); [apply IH|reflexivity].
  Qed.

  (* solve's `run(x, niter)` right after setup: fuel niter is enough *)
  Theorem loop_run_is_run niter st log :
    fst (loop_run F St stp xof koldof iiterof gtb inplace niter niter tol st log) = run drv niter st.
  Proof.
    rewrite loop_run_bridge. unfold run, enter. cbn [linit drv]. f_equal.
    apply loop_fuel. cbn [fst iiter drv]. lia.
  Qed.
End Bridge.

Section Generic.
  Variable F : FieldS.
  Variables (absf : F -> F) (gtb : F -> F -> bool).

  (* CG with Op.matvec = Aop, stopping rule self.kold > tol *)
  Definition cg_drv (Aop : list F -> list F) (tol : F) : solver (cgst F) Datatypes.unit :=
    drv F (cgst F) (cg_step F absf Aop) (cg_kold F) (cg_iiter F) gtb (cg_iiter_step F absf Aop) tol.
  (* CGLS with Op = A (n columns), damping stored in the state by setup *)
  Definition cgls_drv (n : nat) (A : list (list F)) (tol : F) : solver (clst F) Datatypes.unit :=
    drv F (clst F) (cgls_step F absf n A) (cl_kold F) (cl_iiter F) gtb (cl_iiter_step F absf n A) tol.

  Theorem cg_run_is_driver_run Aop niter tol st log :
    fst (cg_run F absf gtb Aop niter niter tol st log) = run (cg_drv Aop tol) niter st.
  Proof. apply loop_run_is_run. Qed.
  Theorem cgls_run_is_driver_run n A niter tol st log :
    fst (cgls_run F absf gtb n A niter niter tol st log) = run (cgls_drv n A tol) niter st.
  Proof. apply loop_run_is_run. Qed.

  (* finalize: what solve returns (squares of the cost entries) *)
  Definition cg_out (st : cgst F) := (cg_x F st, cg_iiter F st, cg_cost2 F st).
  Definition cgls_out (tol : F) (st : clst F) :=
    (cl_x F st, cgls_istop F gtb st tol, cl_iiter F st, cgls_r1norm2 F st, cgls_r2norm2 F st, cl_cost2 F st).

  (* CG.solve / CGLS.solve of CG.v / CGLS.v are setup ; run ; finalize of the driver machine *)
  Theorem cg_solve_is_driver_solve Aop n y x0 niter tol :
    fst (cg_solve F absf gtb Aop n y x0 niter tol) =
    solve (cg_drv Aop tol) (fun a : Datatypes.unit => cg_setup F absf Aop n y x0) cg_out niter tt.
  Proof.
    unfold cg_solve, solve. rewrite <- (cg_run_is_driver_run Aop niter tol (cg_setup F absf Aop n y x0) []).
    destruct (cg_run F absf gtb Aop niter niter tol (cg_setup F absf Aop n y x0) []) as [st log]. reflexivity.
  Qed.
  Theorem cgls_solve_is_driver_solve n A y x0 niter damp tol :
    fst (cgls_solve F absf gtb n A y x0 niter damp tol) =
    solve (cgls_drv n A tol) (fun a : Datatypes.unit => cgls_setup F absf n A y x0 damp) (cgls_out tol) niter tt.
  Proof.
    unfold cgls_solve, solve. rewrite <- (cgls_run_is_driver_run n A niter tol (cgls_setup F absf n A y x0 damp) []).
    destruct (cgls_run F absf gtb n A niter niter tol (cgls_setup F absf n A y x0 damp) []) as [st log]. reflexivity.
  Qed.
End Generic.

(* ------------------------------------------------------------------ *)
(* Gaussian rationals.  numpy.abs of a complex scalar is real; on the
   Hermitian forms the solvers apply it to the imaginary part is exactly 0
   (a surviving imaginary part is kept so that it would show). *)
Definition Qcabs2 (a : Qc) : Qc := if Qcleb 0%Qc a then a else (- a)%Qc.
Definition absGd (z : G) : G := (Qcabs2 (fst z), snd z).
Definition gtGd (a b : G) : bool := negb (Qcleb (fst a) (fst b)).
Definition ofQc (a : Qc) : G := (a, 0%Qc).

Definition cgG (A : list (list G)) (tol : Qc) := cg_drv GF absGd gtGd (mv GF A) (ofQc tol).
Definition cglsG (n : nat) (A : list (list G)) (tol : Qc) := cgls_drv GF absGd gtGd n A (ofQc tol).
Definition cgG_setup (A : list (list G)) (n : nat) (y : list G) (x0 : option (list G)) := cg_setup GF absGd (mv GF A) n y x0.
Definition cglsG_setup (n : nat) (A : list (list G)) (y : list G) (x0 : option (list G)) (damp : Qc) :=
  cgls_setup GF absGd n A y x0 (ofQc damp).

Local Open Scope nat_scope.

(* ---- the driver theorems at the complex instances *)
Theorem cgG_run_split A tol j k st : run (cgG A tol) (j + k) (run (cgG A tol) j st) = run (cgG A tol) (j + k) st.
Proof. apply run_split. Qed.
Theorem cglsG_run_split n A tol j k st :
  run (cglsG n A tol) (j + k) (run (cglsG n A tol) j st) = run (cglsG n A tol) (j + k) st.
Proof. apply run_split. Qed.

Theorem cgG_run_is_step_pow A tol n st :
  (forall i, i < n - cg_iiter GF st -> gtGd (cg_kold GF (fst (iter (cgG A tol) i (st, tt)))) (ofQc tol) = true) ->
  run (cgG A tol) n st = fst (iter (cgG A tol) (n - cg_iiter GF st) (st, tt)).
Proof. intros H. apply (run_is_step_pow (cgG A tol) n st). exact H. Qed.
Theorem cglsG_run_is_step_pow m A tol n st :
  (forall i, i < n - cl_iiter GF st -> gtGd (cl_kold GF (fst (iter (cglsG m A tol) i (st, tt)))) (ofQc tol) = true) ->
  run (cglsG m A tol) n st = fst (iter (cglsG m A tol) (n - cl_iiter GF st) (st, tt)).
Proof. intros H. apply (run_is_step_pow (cglsG m A tol) n st). exact H. Qed.

Theorem cgG_progs_equivalent A tol N pa pb st : safe (cgG A tol) N pa st -> safe (cgG A tol) N pb st ->
  exec (cgG A tol) (pa ++ [Run N]) st = exec (cgG A tol) (pb ++ [Run N]) st.
Proof. apply progs_equivalent. Qed.
Theorem cglsG_progs_equivalent n A tol N pa pb st : safe (cglsG n A tol) N pa st -> safe (cglsG n A tol) N pb st ->
  exec (cglsG n A tol) (pa ++ [Run N]) st = exec (cglsG n A tol) (pb ++ [Run N]) st.
Proof. apply progs_equivalent. Qed.

(* CG.solve (the model of CG.v, hence the functional wrapper) = manual
   driving by ANY safe program followed by run(niter) and finalize *)
Theorem cgG_solve_is_setup_run_finalize A n y x0 niter tol prog :
  safe (cgG A tol) niter prog (cgG_setup A n y x0) ->
  fst (cg_solve GF absGd gtGd (mv GF A) n y x0 niter (ofQc tol)) =
  manual (cgG A tol) (fun a : Datatypes.unit => cgG_setup A n y x0) (cg_out GF) niter prog tt.
Proof. intros H. rewrite cg_solve_is_driver_solve. symmetry. apply (manual_is_solve (cgG A tol)). exact H. Qed.
Theorem cglsG_solve_is_setup_run_finalize n A y x0 niter damp tol prog :
  safe (cglsG n A tol) niter prog (cglsG_setup n A y x0 damp) ->
  fst (cgls_solve GF absGd gtGd n A y x0 niter (ofQc damp) (ofQc tol)) =
  manual (cglsG n A tol) (fun a : Datatypes.unit => cglsG_setup n A y x0 damp) (cgls_out GF gtGd (ofQc tol)) niter prog tt.
Proof. intros H. rewrite cgls_solve_is_driver_solve. symmetry. apply (manual_is_solve (cglsG n A tol)). exact H. Qed.

(* ---- concrete complex witnesses (hypotheses satisfiable, results non-trivial).
   States are compared through the reduced fractions. *)
Definition gq (z : G) : Q * Q := (this (fst z), this (snd z)).
Definition gqv (v : list G) := map gq v.
Definition gi (a b : Z) : G := (Q2Qc (a # 1), Q2Qc (b # 1)).
(* Hermitian positive definite: [[4, 1+i], [1-i, 3]], y = [2+i, 1-2i] *)
Definition AH : list (list G) := [[gi 4 0; gi 1 1]; [gi 1 (-1); gi 3 0]].
Definition yH : list G := [gi 2 1; gi 1 (-2)].
Definition obs_cgG (st : cgst GF) := (gqv (cg_x GF st), gqv (cg_r GF st), gqv (cg_c GF st), gq (cg_kold GF st), cg_iiter GF st).
Example cgG_split_example :
  let S0 := cgG AH 0%Qc in let p := cgG_setup AH 2 yH None in
  obs_cgG (run S0 (1 + 1) (run S0 1 p)) = obs_cgG (run S0 (1 + 1) p) /\ cg_iiter GF (run S0 2 p) = 2 /\
  safe S0 2 [Step; Run 2] p /\
  gqv (cg_x GF (exec S0 [Step; Run 2] p)) = gqv (cg_x GF (run S0 2 p)) /\
  gqv (mv GF AH (cg_x GF (run S0 2 p))) = gqv yH.
Proof. vm_compute. repeat split; try reflexivity; repeat constructor. Qed.

(* complex rectangular 3x2 *)
Definition AR : list (list G) := [[gi 2 1; gi 0 (-1)]; [gi 1 0; gi 3 1]; [gi 0 2; gi 1 (-1)]].
Definition yR : list G := [gi 1 2; gi 3 (-1); gi (-2) 1].
Definition obs_clG (st : clst GF) := (gqv (cl_x GF st), gqv (cl_s GF st), gqv (cl_c GF st), gq (cl_kold GF st), cl_iiter GF st).
Example cglsG_split_example :
  let S0 := cglsG 2 AR 0%Qc in let p := cglsG_setup 2 AR yR None 0%Qc in
  obs_clG (run S0 (1 + 1) (run S0 1 p)) = obs_clG (run S0 (1 + 1) p) /\ cl_iiter GF (run S0 2 p) = 2 /\
  safe S0 2 [Step; Run 2] p /\
  gqv (cl_x GF (exec S0 [Step; Run 2] p)) = gqv (cl_x GF (run S0 2 p)) /\
  (* after n = 2 iterations the normal equations hold exactly *)
  gqv (mvH GF 2 AR (vsub GF yR (mv GF AR (cl_x GF (run S0 2 p))))) = [(0%Q, 0%Q); (0%Q, 0%Q)].
Proof. vm_compute. repeat split; try reflexivity; repeat constructor. Qed.
