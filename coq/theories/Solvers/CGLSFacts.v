(* CGLSFacts.v — concrete instances over Qc: the hypotheses of the generic
   theorems are satisfiable (numpy.abs is the identity on Hermitian squares),
   a worked example, and (Section Legacy, documentation only) witnesses about
   the code before the cgls repairs. *)
From Coq Require Import QArith Qcanon.
From PV Require Import Dict Vec Dot Mat QcInst GaussQc GaussField Check CG CGLS.
Import ListNotations.

Definition absR : Qc -> Qc := Qcabs'.
Definition gtR (a b : Qc) : bool := negb (Qcleb a b).

Lemma dotR_cons (a : Qc) (v : list Qc) : dot QcS (a :: v) (a :: v) = (a * a + dot QcS v v)%Qc.
Proof. reflexivity. Qed.
Lemma dotR_nonneg (v : list Qc) : (0 <= dot QcS v v)%Qc.
Proof. induction v as [|a v IH]; [apply Qcle_refl|]. rewrite dotR_cons.
  replace 0%Qc with (0 + 0)%Qc by ring. apply Qcplus_le_compat; [apply Qc_sq_nonneg | exact IH]. Qed.
(* numpy.abs is the identity on r.dot(r.conj()) *)
Lemma absR_dot (v : list QcF) : absR (dot QcF v v) = dot QcF v v.
Proof. unfold absR, Qcabs'. replace (Qcleb 0%Qc (dot QcF v v)) with true; auto.
  symmetry; apply Qcleb_spec. apply (dotR_nonneg v). Qed.

Definition neqb_vec (u v : list Qc) : bool := negb (all2 Qc_eq_bool u v).
Lemma neqb_vec_neq u v : neqb_vec u v = true -> u <> v.
Proof. intros H E; subst. unfold neqb_vec in H. assert (all2 Qc_eq_bool v v = true).
  { clear H; induction v as [|a v IH]; simpl; auto. rewrite IH. replace (Qc_eq_bool a a) with true; auto.
    symmetry; apply Qc_eq_bool_correct' || (unfold Qc_eq_bool; destruct (Qc_eq_dec a a); congruence). }
  rewrite H0 in H; discriminate. Qed.
Lemma eqb_vec_eq u v : all2 Qc_eq_bool u v = true -> u = v.
Proof. revert v; induction u as [|a u IH]; intros [|b v] H; simpl in H; try discriminate; auto.
  apply andb_prop in H; destruct H as [H1 H2]. f_equal; [apply Qc_eq_bool_correct; exact H1 | apply IH; exact H2]. Qed.
Lemma neqb_neq (a b : Qc) : Qc_eq_bool a b = false -> a <> b.
Proof. intros H E; subst. unfold Qc_eq_bool in H. destruct (Qc_eq_dec b b); congruence. Qed.

(* ================= Legacy (DOCUMENTATION ONLY) =================
   The code before 4c3cad3 / a61e68b: setup used the UNSQUARED damp in
   r = Op^H s - damp * x and in cost1[0]; finalize returned r1norm = kold.
   These witnesses record why the three repairs were needed; nothing else
   depends on them and Props/ does not export them. *)
Section Legacy.
Definition cgls_setup_legacy (n : nat) (A : list (list QcF)) (y : list QcF) (x0 : list QcF) (damp : QcF) : clst QcF :=
  let s := vsub QcF y (mv QcF A x0) in
  let r := vsub QcF (mvH QcF n A s) (vscale QcF damp x0) in
  mkcl QcF x0 s r (mv QcF A r) r (absR (dot QcF r r)) (damp * damp)%Qc [dot QcF s s]
       [(dot QcF s s + damp * absR (dot QcF x0 x0))%Qc] 0.
Definition wA : list (list QcF) := [[qz 1]].
Definition wy : list QcF := [qz 1].
Definition wx0 : list QcF := [qz 1].
Definition wd : QcF := qz 2.

Lemma legacy_setup_residual_wrong : ~ cl_rinv QcF 1 wA wd (cgls_setup_legacy 1 wA wy wx0 wd).
Proof. unfold cl_rinv. apply neqb_vec_neq. vm_compute. reflexivity. Qed.
Lemma legacy_misses_minimiser : forall k, (1 <= k <= 3)%nat ->
  let x := cl_x QcF (cgls_iter QcF absR 1 wA k (cgls_setup_legacy 1 wA wy wx0 wd)) in
  vsub QcF (mvH QcF 1 wA (vsub QcF wy (mv QcF wA x))) (vscale QcF (wd * wd)%Qc x) <> [0%Qc].
Proof. intros k Hk. assert (E : k = 1%nat \/ k = 2%nat \/ k = 3%nat) by lia.
  destruct E as [->|[->| ->]]; apply neqb_vec_neq; vm_compute; reflexivity. Qed.
Lemma legacy_cost1_wrong :
  let st := cgls_setup_legacy 1 wA wy wx0 wd in cgls_r2norm2 QcF st <> lsfun QcF wA wy wd (cl_x QcF st).
Proof. apply neqb_neq. vm_compute. reflexivity. Qed.
(* kold as r1norm: A = [[1];[1]], y = [1;3]: after one step x = 2, ||y - A x||^2 = 2, kold = 0 *)
Lemma legacy_r1norm_wrong :
  let st := cgls_iter QcF absR 1 [[qz 1]; [qz 1]] 1 (cgls_setup QcF absR 1 [[qz 1]; [qz 1]] [qz 1; qz 3] None 0%Qc) in
  (cl_kold QcF st * cl_kold QcF st)%Qc <> lsres2 QcF [[qz 1]; [qz 1]] [qz 1; qz 3] (cl_x QcF st).
Proof. apply neqb_neq. vm_compute. reflexivity. Qed.
End Legacy.

(* the current model reaches the minimiser of the same 1-unknown system (x0 = 1, damp = 2) in one step *)
Lemma cgls_minimiser_example :
  let x := cl_x QcF (cgls_iter QcF absR 1 wA 1 (cgls_setup QcF absR 1 wA wy (Some wx0) wd)) in
  vsub QcF (mvH QcF 1 wA (vsub QcF wy (mv QcF wA x))) (vscale QcF (wd * wd)%Qc x) = [0%Qc].
Proof. apply eqb_vec_eq. vm_compute. reflexivity. Qed.

(* non-vacuity of the hypotheses of the generic theorems: a concrete 3x2 system *)
Definition eA : list (list QcF) := [[qz 2; qz 1]; [qz 1; qz 3]; [z0; qz 1]].
Definition ey : list QcF := [qz 1; qz 2; qz 3].
Definition ed : QcF := q 1 2.
Lemma example_hyps :
  wfM QcF 2 eA /\ length ey = length eA /\ conj QcF ed = ed /\ (forall v : list QcF, absR (dot QcF v v) = dot QcF v v) /\
  x0_ok QcF 2 (Some [qz 1; qz (-1)]) /\
  (* and the run is non-trivial: two iterations reach the exact minimiser *)
  cl_kold QcF (cgls_iter QcF absR 2 eA 2 (cgls_setup QcF absR 2 eA ey (Some [qz 1; qz (-1)]) ed)) = 0%Qc /\
  cl_kold QcF (cgls_iter QcF absR 2 eA 1 (cgls_setup QcF absR 2 eA ey (Some [qz 1; qz (-1)]) ed)) <> 0%Qc.
Proof. split; [repeat constructor|]. split; [reflexivity|]. split; [reflexivity|]. split; [exact absR_dot|].
  split; [intros v E; inversion E; reflexivity|].
  split; [apply Qc_eq_bool_correct; vm_compute; reflexivity|]. apply neqb_neq. vm_compute. reflexivity. Qed.

Lemma example_hyps10 :
  wfM QcF 2 eA /\ length ey = length eA /\ (forall v : list QcF, absR (dot QcF v v) = dot QcF v v) /\
  x0_ok QcF 2 (Some [qz 1; qz (-1)]) /\ linop QcF 2 2 (normal_op QcF 2 eA ed).
Proof. destruct example_hyps as (W & L & _ & H & X & _). repeat split; auto; apply (normal_op_linop QcF 2 eA W ed). Qed.
