(* CGLSFacts.v — concrete instances over Qc: the hypotheses of the generic
   theorems are satisfiable (numpy.abs is the identity on Hermitian squares),
   and refutation witnesses (by vm_compute) for the statements that are FALSE
   of the faithful model of the code as delivered (fixed = false). *)
From Coq Require Import QArith Qcanon.
From PV Require Import Dict Vec Dot Mat QcInst GaussQc GaussField Check CG CGLS.
Import ListNotations.

Definition absR : Qc -> Qc := Qcabs'.
Definition gtR (a b : Qc) : bool := negb (Qcleb a b).

Lemma dotR_cons (a : Qc) (v : list Qc) : dot QcS (a :: v) (a :: v) = (a * a + dot QcS v v)%Qc.
Proof. reflexivity. Qed.
Lemma dotR_nonneg (v : list Qc) : (0 <= dot QcS v v)%Qc.
Proof. induction v as [|a v IH]; [apply Qcle_refl|]. rewrite dotR_cons.
  replace 0%Qc with (0 + 0)%Qc by ring. apply Qcplus_le_compat; [apply Qc_sq_nonneg | exact IH]. Qed.
(* numpy.abs is the identity on r.dot(r.conj()) *)
Lemma absR_dot (v : list QcF) : absR (dot QcF v v) = dot QcF v v.
Proof. unfold absR, Qcabs'. replace (Qcleb 0%Qc (dot QcF v v)) with true; auto.
  symmetry; apply Qcleb_spec. apply (dotR_nonneg v). Qed.

Definition neqb_vec (u v : list Qc) : bool := negb (all2 Qc_eq_bool u v).
Lemma neqb_vec_neq u v : neqb_vec u v = true -> u <> v.
Proof. intros H E; subst. unfold neqb_vec in H. assert (all2 Qc_eq_bool v v = true).
  { clear H; induction v as [|a v IH]; simpl; auto. rewrite IH. replace (Qc_eq_bool a a) with true; auto.
    symmetry; apply Qc_eq_bool_correct' || (unfold Qc_eq_bool; destruct (Qc_eq_dec a a); congruence). }
  rewrite H0 in H; discriminate. Qed.
Lemma eqb_vec_eq u v : all2 Qc_eq_bool u v = true -> u = v.
Proof. revert v; induction u as [|a u IH]; intros [|b v] H; simpl in H; try discriminate; auto.
  apply andb_prop in H; destruct H as [H1 H2]. f_equal; [apply Qc_eq_bool_correct; exact H1 | apply IH; exact H2]. Qed.
Lemma neqb_neq (a b : Qc) : Qc_eq_bool a b = false -> a <> b.
Proof. intros H E; subst. unfold Qc_eq_bool in H. destruct (Qc_eq_dec b b); congruence. Qed.

(* --- witness system: A = [[1]], y = [1], x0 = [1], damp = 2 (1 unknown) --- *)
Definition wA : list (list QcF) := [[qz 1]].
Definition wy : list QcF := [qz 1].
Definition wx0 : list QcF := [qz 1].
Definition wd : QcF := qz 2.

(* C09: with x0 <> 0 and damp not in {0,1} the setup residual is NOT the normal-equation residual *)
Theorem cgls_setup_refuted :
  exists (A : list (list QcF)) (y x0 : list QcF) (damp : QcF),
    wfM QcF 1 A /\ length y = length A /\ length x0 = 1%nat /\
    ~ cl_rinv QcF 1 A damp (cgls_setup QcF absR 1 A false y (Some x0) damp).
Proof. exists wA, wy, wx0, wd. repeat split; [repeat constructor|]. unfold cl_rinv. apply neqb_vec_neq. vm_compute. reflexivity. Qed.

(* C09: ... and after n = 1 (and also 2, 3) iterations the iterate does not satisfy the normal equations
   (A^H A + damp^2) x = A^H y, although CG on the normal equations solves them in 1 step *)
Theorem cgls_minimiser_refuted :
  exists (A : list (list QcF)) (y x0 : list QcF) (damp : QcF),
    wfM QcF 1 A /\ length y = length A /\ length x0 = 1%nat /\
    (forall k, (1 <= k <= 3)%nat ->
       let x := cl_x QcF (cgls_iter QcF absR 1 A k (cgls_setup QcF absR 1 A false y (Some x0) damp)) in
       vsub QcF (mvH QcF 1 A (vsub QcF y (mv QcF A x))) (vscale QcF (damp * damp)%Qc x) <> [0%Qc]) /\
    (let x := cl_x QcF (cgls_iter QcF absR 1 A 1 (cgls_setup QcF absR 1 A true y (Some x0) damp)) in
       vsub QcF (mvH QcF 1 A (vsub QcF y (mv QcF A x))) (vscale QcF (damp * damp)%Qc x) = [0%Qc]).
Proof. exists wA, wy, wx0, wd. split; [repeat constructor|]. split; [reflexivity|]. split; [reflexivity|]. split.
  - intros k Hk. assert (E : k = 1%nat \/ k = 2%nat \/ k = 3%nat) by lia.
    destruct E as [->|[->| ->]]; apply neqb_vec_neq; vm_compute; reflexivity.
  - apply eqb_vec_eq. vm_compute. reflexivity.
Qed.

(* C10: cost1[0] (and hence r2norm when no iteration is performed) is not J(x0) *)
Theorem cgls_cost1_setup_refuted :
  exists (A : list (list QcF)) (y x0 : list QcF) (damp : QcF),
    wfM QcF 1 A /\ length y = length A /\ length x0 = 1%nat /\
    let st := cgls_setup QcF absR 1 A false y (Some x0) damp in
    cgls_r2norm2 QcF st <> lsfun QcF A y damp (cl_x QcF st).
Proof. exists wA, wy, wx0, wd. repeat split; [repeat constructor|]. apply neqb_neq. vm_compute. reflexivity. Qed.

(* C10: r1norm (= kold) is not ||y - A x|| : A = [[1];[1]], y = [1;3], no x0, no damping, one iteration:
   x = 2, residual (-1, 1), ||.||^2 = 2, returned r1norm = 0 *)
Theorem cgls_r1norm_refuted :
  exists (A : list (list QcF)) (y : list QcF),
    wfM QcF 1 A /\ length y = length A /\
    let '(x, _, iiter, r1, _, _, _) := cgls_solve QcF absR gtR 1 A false y None 5 0%Qc 0%Qc in
    iiter = 1%nat /\ (r1 * r1)%Qc <> lsres2 QcF A y x.
Proof. exists [[qz 1]; [qz 1]], [qz 1; qz 3]. split; [repeat constructor|]. split; [reflexivity|].
  vm_compute. split; [reflexivity|]. apply neqb_neq. vm_compute. reflexivity. Qed.

(* non-vacuity of the hypotheses of the generic theorems: a concrete 3x2 system *)
Definition eA : list (list QcF) := [[qz 2; qz 1]; [qz 1; qz 3]; [z0; qz 1]].
Definition ey : list QcF := [qz 1; qz 2; qz 3].
Definition ed : QcF := q 1 2.
Lemma example_hyps :
  wfM QcF 2 eA /\ length ey = length eA /\ conj QcF ed = ed /\ (forall v : list QcF, absR (dot QcF v v) = dot QcF v v) /\
  x0_ok QcF 2 (Some [qz 1; qz (-1)]) /\ cgls_guard QcF true ed (Some [qz 1; qz (-1)]) /\ cgls_guard QcF false ed None /\
  cgls_guard QcF false (qz 1) (Some [qz 1; qz (-1)]) /\
  (* and the run is non-trivial: two iterations reach the exact minimiser *)
  cl_kold QcF (cgls_iter QcF absR 2 eA 2 (cgls_setup QcF absR 2 eA true ey (Some [qz 1; qz (-1)]) ed)) = 0%Qc /\
  cl_kold QcF (cgls_iter QcF absR 2 eA 1 (cgls_setup QcF absR 2 eA true ey (Some [qz 1; qz (-1)]) ed)) <> 0%Qc.
Proof. split; [repeat constructor|]. split; [reflexivity|]. split; [reflexivity|]. split; [exact absR_dot|].
  split; [intros v E; inversion E; reflexivity|]. split; [reflexivity|]. split; [exact I|]. split; [vm_compute; reflexivity|].
  split; [apply Qc_eq_bool_correct; vm_compute; reflexivity|]. apply neqb_neq. vm_compute. reflexivity. Qed.

Lemma example_hyps10 :
  wfM QcF 2 eA /\ length ey = length eA /\ (forall v : list QcF, absR (dot QcF v v) = dot QcF v v) /\
  x0_ok QcF 2 (Some [qz 1; qz (-1)]) /\ linop QcF 2 2 (normal_op QcF 2 eA ed).
Proof. destruct example_hyps as (W & L & _ & H & X & _). repeat split; auto; apply (normal_op_linop QcF 2 eA W ed). Qed.

(* a state satisfying the hypotheses of cgls_step_descent (CGLSMono.v): the setup state of the example *)
Lemma example_descent_hyps :
  let st := cgls_setup QcF absR 2 eA true ey (Some [qz 1; qz (-1)]) ed in
  dot QcF (cl_c QcF st) (cl_r QcF st) = cl_kold QcF st /\
  (dot QcF (cl_q QcF st) (cl_q QcF st) + ed * ed * dot QcF (cl_c QcF st) (cl_c QcF st))%Qc <> 0%Qc.
Proof. split; [apply Qc_eq_bool_correct; vm_compute; reflexivity | apply neqb_neq; vm_compute; reflexivity]. Qed.
