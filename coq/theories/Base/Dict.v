(* Dict.v — algebraic structures as records of operations + laws (no axioms).
   Every generic theorem quantifies over such a record; the executable
   instances are in Inst/. *)
From Coq Require Export Ring Field List Arith Lia Bool.
Export ListNotations.

Record CRing := {
  car :> Type;
  r0 : car; r1 : car;
  radd : car -> car -> car; rmul : car -> car -> car;
  rsub : car -> car -> car; ropp : car -> car;
  rth : ring_theory r0 r1 radd rmul rsub ropp eq }.

(* commutative ring with an involutive automorphism (complex conjugation;
   the identity on a real ring) *)
Record StarRing := {
  sring :> CRing;
  conj : sring -> sring;
  conj_add : forall a b, conj (radd sring a b) = radd sring (conj a) (conj b);
  conj_mul : forall a b, conj (rmul sring a b) = rmul sring (conj a) (conj b);
  conj_opp : forall a, conj (ropp sring a) = ropp sring (conj a);
  conj_zero : conj (r0 sring) = r0 sring;
  conj_one : conj (r1 sring) = r1 sring;
  conj_invol : forall a, conj (conj a) = a }.

Record FieldS := {
  fstar :> StarRing;
  rdiv : fstar -> fstar -> fstar; rinv : fstar -> fstar;
  fth : field_theory (r0 fstar) (r1 fstar) (radd fstar) (rmul fstar) (rsub fstar) (ropp fstar) rdiv rinv eq }.

(* totally ordered field (real: conj = id) *)
Record OrdField := {
  ofield :> FieldS;
  rle : ofield -> ofield -> Prop;
  rleb : ofield -> ofield -> bool;
  rleb_spec : forall a b, rleb a b = true <-> rle a b;
  rle_refl : forall a, rle a a;
  rle_trans : forall a b c, rle a b -> rle b c -> rle a c;
  rle_antisym : forall a b, rle a b -> rle b a -> a = b;
  rle_total : forall a b, rle a b \/ rle b a;
  rle_add : forall a b c, rle a b -> rle (radd ofield a c) (radd ofield b c);
  rle_mul : forall a b, rle (r0 ofield) a -> rle (r0 ofield) b -> rle (r0 ofield) (rmul ofield a b);
  conj_real : forall a : ofield, conj ofield a = a }.

Declare Scope R_scope.
Delimit Scope R_scope with R.
Notation "0" := (r0 _) : R_scope.
Notation "1" := (r1 _) : R_scope.
Infix "+" := (radd _) : R_scope.
Infix "*" := (rmul _) : R_scope.
Infix "-" := (rsub _) : R_scope.
Notation "- a" := (ropp _ a) : R_scope.
Infix "/" := (rdiv _) : R_scope.
Infix "<=" := (rle _) : R_scope.
