(* Dot.v — bilinear and sesquilinear inner products. numpy.vdot conjugates
   its FIRST argument, and so does [dot]. *)
From PV Require Export Vec.
Local Open Scope R_scope.

Section DotU.
Variable R : CRing.
Add Ring Rr1 : (rth R).
Notation vec := (list R).

Fixpoint dotu (u v : vec) : R :=
  match u, v with a :: u', b :: v' => a * b + dotu u' v' | _, _ => 0 end.

Lemma dotu_comm u v : dotu u v = dotu v u.
Proof. revert v; induction u as [|a u IH]; intros [|b v]; simpl; auto. rewrite IH; ring. Qed.
Lemma dotu_nil_r u : dotu u [] = 0.
Proof. destruct u; reflexivity. Qed.
Lemma dotu_vadd_l u1 u2 v : length u1 = length u2 ->
  dotu (vadd R u1 u2) v = dotu u1 v + dotu u2 v.
Proof. revert u2 v; induction u1 as [|a u1 IH]; intros [|b u2] [|c v] H; simpl in *; try discriminate; try ring.
  unfold vadd in *; rewrite IH by lia; ring. Qed.
Lemma dotu_vadd_r u v1 v2 : length v1 = length v2 ->
  dotu u (vadd R v1 v2) = dotu u v1 + dotu u v2.
Proof. intros H; rewrite dotu_comm, dotu_vadd_l by auto. rewrite (dotu_comm v1), (dotu_comm v2); ring. Qed.
Lemma dotu_vscale_l a u v : dotu (vscale R a u) v = a * dotu u v.
Proof. revert v; induction u as [|b u IH]; intros [|c v]; simpl; try ring. unfold vscale in *; rewrite IH; ring. Qed.
Lemma dotu_vscale_r a u v : dotu u (vscale R a v) = a * dotu u v.
Proof. rewrite dotu_comm, dotu_vscale_l, dotu_comm; ring. Qed.
Lemma dotu_zeros_l n v : dotu (zeros R n) v = 0.
Proof. unfold zeros; revert v; induction n as [|n IH]; intros [|c v]; simpl; auto. rewrite IH; ring. Qed.
Lemma dotu_zeros_r n u : dotu u (zeros R n) = 0.
Proof. rewrite dotu_comm; apply dotu_zeros_l. Qed.
Lemma dotu_app u1 u2 v1 v2 : length u1 = length v1 ->
  dotu (u1 ++ u2) (v1 ++ v2) = dotu u1 v1 + dotu u2 v2.
Proof. revert v1; induction u1 as [|a u1 IH]; intros [|b v1] H; simpl in *; try discriminate; [ring|].
  rewrite IH by lia; ring. Qed.
Lemma dotu_vneg_l u v : dotu (vneg R u) v = - dotu u v.
Proof. rewrite vneg_vscale, dotu_vscale_l; ring. Qed.
Lemma dotu_vsub_l u1 u2 v : length u1 = length u2 ->
  dotu (vsub R u1 u2) v = dotu u1 v - dotu u2 v.
Proof. intros H; rewrite vsub_vadd_neg, dotu_vadd_l, dotu_vneg_l; [ring | rewrite vneg_length; auto]. Qed.
Lemma dotu_vsub_r u v1 v2 : length v1 = length v2 ->
  dotu u (vsub R v1 v2) = dotu u v1 - dotu u v2.
Proof. intros H; rewrite dotu_comm, dotu_vsub_l by auto. rewrite (dotu_comm v1), (dotu_comm v2); ring. Qed.
End DotU.

Section Dot.
Variable S : StarRing.
Add Ring Rr2 : (rth S).
Notation vec := (list S).

Definition vconj (u : vec) : vec := map (conj S) u.
Definition dot (u v : vec) : S := dotu S (vconj u) v.

Lemma vconj_length u : length (vconj u) = length u.
Proof. apply map_length. Qed.
Lemma vconj_invol u : vconj (vconj u) = u.
Proof. unfold vconj; rewrite map_map. rewrite <- (map_id u) at 2. apply map_ext; intros; apply conj_invol. Qed.
Lemma vconj_vadd u v : vconj (vadd S u v) = vadd S (vconj u) (vconj v).
Proof. revert v; induction u as [|a u IH]; intros [|b v]; simpl; auto.
  unfold vadd, vconj in *; simpl; rewrite IH, conj_add; auto. Qed.
Lemma vconj_vscale a u : vconj (vscale S a u) = vscale S (conj S a) (vconj u).
Proof. unfold vconj, vscale; rewrite !map_map; apply map_ext; intros; apply conj_mul. Qed.
Lemma vconj_zeros n : vconj (zeros S n) = zeros S n.
Proof. unfold vconj, zeros; induction n as [|n IH]; simpl; auto. rewrite IH, conj_zero; auto. Qed.
Lemma vconj_app u v : vconj (u ++ v) = vconj u ++ vconj v.
Proof. apply map_app. Qed.
Lemma conj_dotu u v : conj S (dotu S u v) = dotu S (vconj u) (vconj v).
Proof. revert v; induction u as [|a u IH]; intros [|b v]; simpl; try apply conj_zero.
  rewrite conj_add, conj_mul, IH; auto. Qed.

Lemma dot_vadd_l u1 u2 v : length u1 = length u2 -> dot (vadd S u1 u2) v = dot u1 v + dot u2 v.
Proof. intros; unfold dot; rewrite vconj_vadd, dotu_vadd_l; auto. rewrite !vconj_length; auto. Qed.
Lemma dot_vadd_r u v1 v2 : length v1 = length v2 -> dot u (vadd S v1 v2) = dot u v1 + dot u v2.
Proof. intros; unfold dot; apply dotu_vadd_r; auto. Qed.
Lemma dot_vscale_l a u v : dot (vscale S a u) v = conj S a * dot u v.
Proof. unfold dot; rewrite vconj_vscale, dotu_vscale_l; auto. Qed.
Lemma dot_vscale_r a u v : dot u (vscale S a v) = a * dot u v.
Proof. unfold dot; apply dotu_vscale_r. Qed.
Lemma dot_zeros_l n v : dot (zeros S n) v = 0.
Proof. unfold dot; rewrite vconj_zeros; apply dotu_zeros_l. Qed.
Lemma dot_zeros_r n u : dot u (zeros S n) = 0.
Proof. unfold dot; apply dotu_zeros_r. Qed.
Lemma dot_conj_sym u v : conj S (dot u v) = dot v u.
Proof. unfold dot; rewrite conj_dotu, vconj_invol; apply dotu_comm. Qed.
Lemma dot_app u1 u2 v1 v2 : length u1 = length v1 -> dot (u1 ++ u2) (v1 ++ v2) = dot u1 v1 + dot u2 v2.
Proof. intros; unfold dot; rewrite vconj_app; apply dotu_app; rewrite vconj_length; auto. Qed.
Lemma dot_vneg_l u v : dot (vneg S u) v = - dot u v.
Proof. rewrite vneg_vscale, dot_vscale_l, conj_opp, conj_one; ring. Qed.
Lemma dot_vneg_r u v : dot u (vneg S v) = - dot u v.
Proof. rewrite vneg_vscale, dot_vscale_r; ring. Qed.
Lemma dot_vsub_l u1 u2 v : length u1 = length u2 -> dot (vsub S u1 u2) v = dot u1 v - dot u2 v.
Proof. intros; rewrite vsub_vadd_neg, dot_vadd_l, dot_vneg_l; [ring | rewrite vneg_length; auto]. Qed.
Lemma dot_vsub_r u v1 v2 : length v1 = length v2 -> dot u (vsub S v1 v2) = dot u v1 - dot u v2.
Proof. intros; rewrite vsub_vadd_neg, dot_vadd_r, dot_vneg_r; [ring | rewrite vneg_length; auto]. Qed.
End Dot.
