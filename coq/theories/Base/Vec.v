(* Vec.v — vectors are lists over a ring. *)
From PV Require Export Dict.
Local Open Scope R_scope.

Section Vec.
Variable R : CRing.
Add Ring Rr : (rth R).
Notation vec := (list R).

Fixpoint map2 {A B C} (f : A -> B -> C) (u : list A) (v : list B) : list C :=
  match u, v with a :: u', b :: v' => f a b :: map2 f u' v' | _, _ => [] end.

Definition vadd (u v : vec) : vec := map2 (radd R) u v.
Definition vsub (u v : vec) : vec := map2 (rsub R) u v.
Definition vmul (u v : vec) : vec := map2 (rmul R) u v.
Definition vscale (a : R) (u : vec) : vec := map (rmul R a) u.
Definition vneg (u : vec) : vec := map (ropp R) u.
Definition zeros (n : nat) : vec := repeat 0 n.
Fixpoint vsum (u : vec) : R := match u with [] => 0 | a :: u' => a + vsum u' end.

Lemma map2_length {A B C} (f : A -> B -> C) u v : length (map2 f u v) = Nat.min (length u) (length v).
Proof. revert v; induction u as [|a u IH]; intros [|b v]; simpl; auto. Qed.
Lemma vadd_length u v : length (vadd u v) = Nat.min (length u) (length v).
Proof. apply map2_length. Qed.
Lemma vsub_length u v : length (vsub u v) = Nat.min (length u) (length v).
Proof. apply map2_length. Qed.
Lemma vmul_length u v : length (vmul u v) = Nat.min (length u) (length v).
Proof. apply map2_length. Qed.
Lemma vscale_length a u : length (vscale a u) = length u.
Proof. apply map_length. Qed.
Lemma vneg_length u : length (vneg u) = length u.
Proof. apply map_length. Qed.
Lemma zeros_length n : length (zeros n) = n.
Proof. apply repeat_length. Qed.

Lemma vadd_comm u v : vadd u v = vadd v u.
Proof. revert v; induction u as [|a u IH]; intros [|b v]; simpl; auto.
  unfold vadd in *; simpl; rewrite IH; f_equal; ring. Qed.
Lemma vadd_assoc u v w : vadd u (vadd v w) = vadd (vadd u v) w.
Proof. revert v w; induction u as [|a u IH]; intros [|b v] [|c w]; simpl; auto.
  unfold vadd in *; simpl; rewrite IH; f_equal; ring. Qed.
Lemma vadd_swap4 a b c d : vadd (vadd a b) (vadd c d) = vadd (vadd a c) (vadd b d).
Proof. unfold vadd; revert b c d; induction a as [|x a IH]; intros [|y b] [|z c] [|w d]; simpl; auto.
  rewrite IH; f_equal; ring. Qed.
Lemma vadd_zeros_l u : vadd (zeros (length u)) u = u.
Proof. unfold vadd, zeros; induction u as [|a u IH]; simpl; auto. rewrite IH; f_equal; ring. Qed.
Lemma vadd_zeros_r u : vadd u (zeros (length u)) = u.
Proof. rewrite vadd_comm; apply vadd_zeros_l. Qed.
Lemma vscale_vadd a u v : vscale a (vadd u v) = vadd (vscale a u) (vscale a v).
Proof. revert v; induction u as [|b u IH]; intros [|c v]; simpl; auto.
  unfold vadd, vscale in *; simpl; rewrite IH; f_equal; ring. Qed.
Lemma vscale_vscale a b u : vscale a (vscale b u) = vscale (a * b) u.
Proof. unfold vscale; rewrite map_map; apply map_ext; intros; ring. Qed.
Lemma vscale_one u : vscale 1 u = u.
Proof. unfold vscale; rewrite <- (map_id u) at 2; apply map_ext; intros; ring. Qed.
Lemma vscale_zero u : vscale 0 u = zeros (length u).
Proof. unfold vscale, zeros; induction u as [|a u IH]; simpl; auto. rewrite IH; f_equal; ring. Qed.
Lemma vscale_zeros a n : vscale a (zeros n) = zeros n.
Proof. unfold vscale, zeros; induction n as [|n IH]; simpl; auto. rewrite IH; f_equal; ring. Qed.
Lemma vscale_add_l a b u : vscale (a + b) u = vadd (vscale a u) (vscale b u).
Proof. induction u as [|c u IH]; simpl; auto. unfold vadd, vscale in *; simpl; rewrite IH; f_equal; ring. Qed.
Lemma vsub_vadd_neg u v : vsub u v = vadd u (vneg v).
Proof. revert v; induction u as [|a u IH]; intros [|b v]; simpl; auto.
  unfold vsub, vadd, vneg in *; simpl; rewrite IH; f_equal; ring. Qed.
Lemma vneg_vscale u : vneg u = vscale (- (1)) u.
Proof. unfold vneg, vscale; apply map_ext; intros; ring. Qed.
Lemma vsub_self u : vsub u u = zeros (length u).
Proof. unfold vsub, zeros; induction u as [|a u IH]; simpl; auto. rewrite IH; f_equal; ring. Qed.
Lemma vadd_app u1 u2 v1 v2 : length u1 = length v1 ->
  vadd (u1 ++ u2) (v1 ++ v2) = vadd u1 v1 ++ vadd u2 v2.
Proof. revert v1; induction u1 as [|a u1 IH]; intros [|b v1] H; simpl in *; try discriminate; auto.
  unfold vadd in *; simpl; rewrite IH; auto. Qed.
Lemma vscale_app a u v : vscale a (u ++ v) = vscale a u ++ vscale a v.
Proof. apply map_app. Qed.
Lemma zeros_app n m : zeros (n + m) = zeros n ++ zeros m.
Proof. apply repeat_app. Qed.
Lemma vsum_app u v : vsum (u ++ v) = vsum u + vsum v.
Proof. induction u as [|a u IH]; simpl; [ring | rewrite IH; ring]. Qed.
Lemma vsum_vadd u v : length u = length v -> vsum (vadd u v) = vsum u + vsum v.
Proof. revert v; induction u as [|a u IH]; intros [|b v] H; simpl in *; try discriminate; [ring|].
  unfold vadd in *; simpl. rewrite IH by lia. ring. Qed.
Lemma vsum_vscale a u : vsum (vscale a u) = a * vsum u.
Proof. induction u as [|b u IH]; simpl; [ring | unfold vscale in *; rewrite IH; ring]. Qed.
Lemma vsum_zeros n : vsum (zeros n) = 0.
Proof. unfold zeros; induction n as [|n IH]; simpl; [reflexivity | rewrite IH; ring]. Qed.
End Vec.
Arguments map2 {A B C} f u v.
