(* Mat.v — matrices as lists of rows; matrix-vector product, transposed
   product, unit vectors, columns; the generic (L1) theorems: linearity of
   [mv], adjoint <-> conjugate transpose. *)
From PV Require Export Dot.
Local Open Scope R_scope.

Section Mat.
Variable R : CRing.
Add Ring Rr3 : (rth R).
Notation vec := (list R).
Notation mat := (list (list R)).

Definition wfM (ncols : nat) (M : mat) : Prop := Forall (fun r => length r = ncols) M.
Definition mv (M : mat) (x : vec) : vec := map (fun r => dotu R r x) M.
(* transposed product: sum_i y_i * row_i   (length = ncols) *)
Fixpoint mvT (n : nat) (M : mat) (y : vec) : vec :=
  match M, y with
  | r :: M', b :: y' => vadd R (vscale R b r) (mvT n M' y')
  | _, _ => zeros R n
  end.
Fixpoint transpose (n : nat) (M : mat) : mat :=
  match M with
  | [] => repeat [] n
  | r :: M' => map2 cons r (transpose n M')
  end.
Definition unit (n j : nat) : vec := map (fun i => if Nat.eqb i j then 1 else 0) (seq 0 n).
Definition col (j : nat) (M : mat) : vec := map (fun r => nth j r 0) M.

Lemma mv_length M x : length (mv M x) = length M.
Proof. apply map_length. Qed.
Lemma mvT_length n M y : wfM n M -> length (mvT n M y) = n.
Proof. revert y; induction M as [|r M IH]; intros [|b y] H; simpl; try apply zeros_length.
  inversion H; subst. rewrite vadd_length, vscale_length, IH; auto; lia. Qed.

(* ---- linearity of mv (for every matrix) ---- *)
Lemma mv_vadd M x y : length x = length y -> mv M (vadd R x y) = vadd R (mv M x) (mv M y).
Proof. intros H; induction M as [|r M IH]; simpl; auto.
  unfold vadd in *; simpl; rewrite IH. f_equal. apply dotu_vadd_r; auto. Qed.
Lemma mv_vscale M a x : mv M (vscale R a x) = vscale R a (mv M x).
Proof. unfold mv, vscale; rewrite map_map; apply map_ext; intros; apply dotu_vscale_r. Qed.
Theorem mv_linear M a b x y : length x = length y ->
  mv M (vadd R (vscale R a x) (vscale R b y)) = vadd R (vscale R a (mv M x)) (vscale R b (mv M y)).
Proof. intros; rewrite mv_vadd, !mv_vscale; auto. rewrite !vscale_length; auto. Qed.
Lemma mv_zeros M n : mv M (zeros R n) = zeros R (length M).
Proof. induction M as [|r M IH]; simpl; auto. unfold zeros in *; simpl; rewrite <- IH; f_equal. apply dotu_zeros_r. Qed.

Lemma mvT_vadd n M y1 y2 : wfM n M -> length y1 = length M -> length y2 = length M ->
  mvT n M (vadd R y1 y2) = vadd R (mvT n M y1) (mvT n M y2).
Proof. revert y1 y2; induction M as [|r M IH]; intros [|b1 y1] [|b2 y2] W H1 H2; simpl in *; try discriminate.
  - symmetry; apply (vadd_zeros_l R (zeros R n)) || (rewrite <- (zeros_length R n) at 1; apply vadd_zeros_l).
  - inversion W; subst. unfold vadd at 1; simpl. fold (vadd R y1 y2). rewrite IH by (auto; lia).
    rewrite vscale_add_l.
    apply vadd_swap4.
Qed.
Lemma mvT_vscale n M a y : wfM n M -> mvT n M (vscale R a y) = vscale R a (mvT n M y).
Proof. revert y; induction M as [|r M IH]; intros [|b y] W; simpl; try (symmetry; apply vscale_zeros).
  inversion W; subst. rewrite vscale_vadd, vscale_vscale. fold (vscale R a y). rewrite IH; auto. Qed.

(* ---- the transposition identity  <M x, y> = <x, M^T y>  (bilinear form) ---- *)
Lemma dotu_mv_mvT n M x y : wfM n M -> length x = n -> length y = length M ->
  dotu R (mv M x) y = dotu R x (mvT n M y).
Proof. revert y; induction M as [|r M IH]; intros [|b y] W Hx Hy; simpl in *; try discriminate.
  - rewrite dotu_zeros_r; auto.
  - inversion W; subst. rewrite dotu_vadd_r, dotu_vscale_r, IH by (auto; try lia; rewrite vscale_length, mvT_length; auto).
    rewrite (dotu_comm R x r). ring.
Qed.

(* ---- unit vectors and columns ---- *)
Lemma unit_length n j : length (unit n j) = n.
Proof. unfold unit; rewrite map_length, seq_length; auto. Qed.
Lemma dotu_unit_gen r k n j : length r = n -> 
  dotu R r (map (fun i => if Nat.eqb i j then 1 else 0) (seq k n)) = if (Nat.leb k j && Nat.ltb j (k+n))%bool then nth (j-k) r 0 else 0.
Proof. revert k r; induction n as [|n IH]; intros k [|a r] H; simpl in *; try discriminate.
  - destruct (Nat.leb k j && Nat.ltb j (k+0))%bool eqn:E; auto.
    apply andb_prop in E; destruct E as [E1 E2]. apply Nat.leb_le in E1; apply Nat.ltb_lt in E2; lia.
  - rewrite IH by lia. destruct (Nat.eqb_spec k j) as [->|N].
    + replace (j - j)%nat with 0%nat by lia. replace (Nat.leb (S j) j) with false by (symmetry; apply Nat.leb_gt; lia).
      rewrite Nat.leb_refl. replace (Nat.ltb j (j + S n)) with true by (symmetry; apply Nat.ltb_lt; lia). simpl. ring.
    + replace (Nat.ltb j (S k + n)) with (Nat.ltb j (k + S n)) by (f_equal; lia).
      destruct (Nat.leb_spec (S k) j), (Nat.leb_spec k j); try lia; cbn [andb].
      * destruct (Nat.ltb j (k + S n)); [|ring].
        replace (j - k)%nat with (S (j - S k)) by lia. cbn [nth]. ring.
      * ring.
Qed.
Lemma dotu_unit r n j : length r = n -> j < n -> dotu R r (unit n j) = nth j r 0.
Proof. intros H L; unfold unit; rewrite dotu_unit_gen by auto. simpl.
  replace (Nat.ltb j n) with true by (symmetry; apply Nat.ltb_lt; auto). rewrite Nat.sub_0_r; auto. Qed.
Theorem mv_unit n M j : wfM n M -> j < n -> mv M (unit n j) = col j M.
Proof. intros W L; unfold mv, col. apply map_ext_in; intros r Hr. apply dotu_unit; auto.
  eapply Forall_forall in W; eauto. Qed.
End Mat.

Section Adjoint.
Variable S : StarRing.
Add Ring Rr4 : (rth S).
Notation vec := (list S).
Notation mat := (list (list S)).

Definition mconj (M : mat) : mat := map (vconj S) M.
Definition mvH (n : nat) (M : mat) (y : vec) : vec := mvT S n (mconj M) y.
Definition ctranspose (n : nat) (M : mat) : mat := transpose S n (mconj M).

Lemma wfM_mconj n M : wfM S n M -> wfM S n (mconj M).
Proof. unfold wfM, mconj; intros H; apply Forall_map. eapply Forall_impl; eauto. intros; simpl; rewrite vconj_length; auto. Qed.
Lemma vconj_mv M x : vconj S (mv S M x) = mv S (mconj M) (vconj S x).
Proof. unfold mv, mconj, vconj at 1; rewrite !map_map; apply map_ext; intros; apply conj_dotu. Qed.

(* <A u, v> = <u, A^H v> for EVERY matrix A and all u, v: the adjoint of
   multiplication by A is the conjugate-transposed product. *)
Theorem dot_mv_mvH n M u v : wfM S n M -> length u = n -> length v = length M ->
  dot S (mv S M u) v = dot S u (mvH n M v).
Proof. intros W Hu Hv. unfold dot, mvH. rewrite vconj_mv.
  apply dotu_mv_mvT; auto using wfM_mconj. rewrite vconj_length; auto. unfold mconj; rewrite map_length; auto. Qed.
End Adjoint.
