(* MatT.v — transposition: involution, columns, the dense view of a matrix
   map (tall path: columns of the forward; wide path: conjugate transpose of
   the columns of the adjoint), and uniqueness of the adjoint. *)
From PV Require Export Mat.
Local Open Scope R_scope.

Section MatT.
Variable R : CRing.
Add Ring Rr5 : (rth R).
Notation vec := (list R).
Notation mat := (list (list R)).

Lemma transpose_length n (M : mat) : wfM R n M -> length (transpose R n M) = n.
Proof. induction M as [|r M IH]; intros W; simpl; [apply repeat_length|].
  inversion W; subst. rewrite map2_length, IH by auto. lia. Qed.
Lemma wfM_transpose n (M : mat) : wfM R n M -> wfM R (length M) (transpose R n M).
Proof. unfold wfM. induction M as [|r M IH]; intros W; simpl.
  - apply Forall_forall; intros x Hx; apply repeat_spec in Hx; subst; reflexivity.
  - inversion W as [|? ? Hr HM]; subst. specialize (IH HM).
    assert (L : length (transpose R (length r) M) = length r) by (apply transpose_length; exact HM).
    revert IH L. generalize (transpose R (length r) M) as T. clear.
    induction r as [|a r IHr]; intros [|t T] IH L; simpl in *; try discriminate; constructor.
    + simpl. inversion IH; subst. congruence.
    + apply IHr; [inversion IH; auto | lia].
Qed.
Lemma transpose_cons_cols m (r : vec) (T : mat) : length r = length T -> wfM R m T ->
  transpose R (S m) (map2 cons r T) = r :: transpose R m T.
Proof. revert T; induction r as [|a r IH]; intros [|t T] L W; simpl in *; try discriminate; auto.
  inversion W; subst. rewrite IH by (auto; lia). reflexivity. Qed.
Theorem transpose_involutive n (M : mat) : wfM R n M -> transpose R (length M) (transpose R n M) = M.
Proof. induction M as [|r M IH]; intros W; simpl.
  - induction n; simpl; auto.
  - inversion W; subst. rewrite transpose_cons_cols; [rewrite IH; auto | rewrite transpose_length; auto | apply wfM_transpose; auto]. Qed.

Lemma map2_cons_seq (r : vec) (g : nat -> vec) k : 
  map2 cons r (map g (seq k (length r))) = map (fun j => nth (j - k) r 0 :: g j) (seq k (length r)).
Proof. revert k; induction r as [|a r IH]; intros k; simpl; auto.
  rewrite Nat.sub_diag. f_equal. rewrite IH. apply map_ext_in; intros j Hj. apply in_seq in Hj.
  replace (j - k)%nat with (S (j - S k)) by lia. reflexivity. Qed.
Lemma cols_transpose n (M : mat) : wfM R n M -> map (fun j => col R j M) (seq 0 n) = transpose R n M.
Proof. induction M as [|r M IH]; intros W; simpl.
  - clear; generalize 0%nat; induction n; intros; simpl; auto. f_equal; auto.
  - inversion W; subst. rewrite <- IH by auto. rewrite map2_cons_seq. apply map_ext; intros j.
    rewrite Nat.sub_0_r. reflexivity. Qed.

(* dense view, tall path: the matrix whose columns are M e_j is M *)
Definition cols_of (f : vec -> vec) (n : nat) : mat := map (fun j => f (unit R n j)) (seq 0 n).
Theorem dense_of_columns n (M : mat) : wfM R n M -> transpose R (length M) (cols_of (mv R M) n) = M.
Proof. intros W. unfold cols_of.
  rewrite (map_ext_in _ (fun j => col R j M)); [| intros j Hj; apply in_seq in Hj; apply mv_unit; auto; lia].
  rewrite cols_transpose by auto. apply transpose_involutive; auto. Qed.

Lemma mvT_as_mv n (M : mat) y : wfM R n M -> length y = length M -> mvT R n M y = mv R (transpose R n M) y.
Proof. revert y; induction M as [|r M IH]; intros [|b y] W L; simpl in *; try discriminate.
  - unfold mv, zeros. clear. induction n; simpl; auto. f_equal; auto.
  - inversion W; subst. rewrite IH by (auto; lia).
    assert (LT : length (transpose R (length r) M) = length r) by (apply transpose_length; auto).
    revert LT. generalize (transpose R (length r) M) as T. clear. intros T.
    revert T; induction r as [|a r IHr]; intros [|t T] LT; simpl in *; try discriminate; auto.
    unfold vadd, vscale, mv in *; simpl. rewrite IHr by lia. f_equal. ring. Qed.
End MatT.

Section AdjT.
Variable S : StarRing.
Add Ring Rr6 : (rth S).
Notation vec := (list S).
Notation mat := (list (list S)).

Lemma mconj_length (M : mat) : length (mconj S M) = length M.
Proof. apply map_length. Qed.
Lemma mconj_invol (M : mat) : mconj S (mconj S M) = M.
Proof. unfold mconj. rewrite map_map. rewrite <- (map_id M) at 2. apply map_ext; intros; apply vconj_invol. Qed.
Theorem mvH_as_mv n (M : mat) y : wfM S n M -> length y = length M -> mvH S n M y = mv S (ctranspose S n M) y.
Proof. intros W L. unfold mvH, ctranspose. apply mvT_as_mv; [apply wfM_mconj; auto | rewrite mconj_length; auto]. Qed.

(* conj commutes with transpose *)
Lemma mconj_transpose n (M : mat) : mconj S (transpose S n M) = transpose S n (mconj S M).
Proof. induction M as [|r M IH]; simpl.
  - unfold mconj. induction n; simpl; auto. f_equal; auto.
  - rewrite <- IH. generalize (transpose S n M) as T. clear. intros T. revert T.
    induction r as [|a r IHr]; intros [|t T]; simpl; auto. unfold mconj in *; simpl. rewrite IHr. reflexivity. Qed.
Theorem ctranspose_involutive n (M : mat) : wfM S n M -> ctranspose S (length M) (ctranspose S n M) = M.
Proof. intros W. unfold ctranspose. rewrite mconj_transpose, mconj_invol. apply transpose_involutive; auto. Qed.

(* dense view, wide path: conjugating the list of columns of the ADJOINT map
   (numpy: (Op.H @ I).conj().T) gives back the matrix *)
Lemma wfM_ctranspose n (M : mat) : wfM S n M -> wfM S (length M) (ctranspose S n M).
Proof. intros W. unfold ctranspose. rewrite <- (mconj_length M). apply wfM_transpose, wfM_mconj; auto. Qed.
Lemma ctranspose_length n (M : mat) : wfM S n M -> length (ctranspose S n M) = n.
Proof. intros W. unfold ctranspose. apply transpose_length, wfM_mconj; auto. Qed.
Theorem dense_of_adjoint_columns n (M : mat) : wfM S n M ->
  mconj S (cols_of S (mv S (ctranspose S n M)) (length M)) = M.
Proof. intros W. unfold cols_of.
  rewrite (map_ext_in _ (fun j => col S j (ctranspose S n M)));
    [| intros j Hj; apply in_seq in Hj; apply mv_unit; [apply wfM_ctranspose; auto | lia]].
  rewrite cols_transpose by (apply wfM_ctranspose; auto).
  unfold ctranspose at 1. rewrite <- (mconj_length M) at 1.
  rewrite transpose_involutive by (apply wfM_mconj; auto). apply mconj_invol. Qed.

(* the adjoint is unique: if B satisfies the dot-test identity against A for
   all u, v then B is the conjugate transpose of A (entrywise) *)
Lemma dot_unit_l n j v : length v = n -> j < n -> dot S (unit S n j) v = nth j v 0.
Proof. intros L H. unfold dot.
  assert (E : vconj S (unit S n j) = unit S n j).
  { unfold vconj, unit. rewrite map_map. apply map_ext; intros i. destruct (Nat.eqb i j); [apply conj_one | apply conj_zero]. }
  rewrite E, dotu_comm. apply dotu_unit; auto. Qed.
Lemma vec_ext (u v : vec) : length u = length v -> (forall j, j < length u -> nth j u 0 = nth j v 0) -> u = v.
Proof. revert v; induction u as [|a u IH]; intros [|b v] L H; simpl in *; try discriminate; auto.
  f_equal; [apply (H 0%nat); lia | apply IH; [lia | intros j Hj; apply (H (Datatypes.S j)); lia]]. Qed.
Theorem adjoint_unique n m (A B : mat) : wfM S n A -> length A = m -> wfM S m B -> length B = n ->
  (forall u v, length u = n -> length v = m -> dot S (mv S A u) v = dot S u (mv S B v)) ->
  forall v, length v = m -> mv S B v = mv S (ctranspose S n A) v.
Proof. intros WA LA WB LB H v Lv.
  apply vec_ext.
  - rewrite !mv_length. unfold ctranspose. rewrite transpose_length, LB; auto using wfM_mconj.
  - intros j Hj. rewrite mv_length, LB in Hj.
    rewrite <- (dot_unit_l n j) by (auto; rewrite mv_length; auto).
    rewrite <- (dot_unit_l n j (mv S (ctranspose S n A) v)) by (auto; rewrite mv_length; unfold ctranspose; rewrite transpose_length; auto using wfM_mconj).
    rewrite <- H by (auto using unit_length).
    rewrite <- mvH_as_mv by (auto; lia). apply dot_mv_mvH; auto using unit_length; lia.
Qed.
End AdjT.
