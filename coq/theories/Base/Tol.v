(* Tol.v — what an entrywise tolerance comparison of the extracted matrices
   means for ALL vectors (real case, any ordered field): if every entry of
   B - A^T is bounded by eps in absolute value then the dot-test defect
   |<A u, v> - <u, B v>| is bounded by eps * |u|_1 * |v|_1 for all u, v. *)
From PV Require Import MatT OrdLemmas.
Local Open Scope R_scope.

Section Tol.
Variable F : OrdField.
Add Ring RrT : (rth F).
Notation K := (car F).
Notation vec := (list K).
Notation mat := (list (list K)).
Notation rabs := (rabs F).
Notation l1 := (l1 F).

Lemma rle_tr (a b c : K) : a <= b -> b <= c -> a <= c.
Proof. apply rle_trans. Qed.

Lemma rabs_triangle (a b : K) : rabs (a + b) <= rabs a + rabs b.
Proof. apply abs_le_iff. split.
  - apply le_add_mono; apply rabs_ge.
  - replace (- (a + b)) with (- a + - b) by ring. apply le_add_mono; apply rabs_ge_opp. Qed.
Lemma rabs_mul_le (a b : K) : rabs (a * b) <= rabs a * rabs b.
Proof. apply abs_le_iff. split; [apply mul_le_abs|].
  replace (- (a * b)) with ((- a) * b) by ring. rewrite <- (rabs_opp F a). apply mul_le_abs. Qed.

Definition bounded (eps : K) (r : vec) : Prop := Forall (fun a => rabs a <= eps) r.

Lemma dotu_bound_row eps (r v : vec) : 0 <= eps -> bounded eps r -> rabs (dotu F r v) <= eps * l1 v.
Proof. intros He. revert v; induction r as [|a r IH]; intros [|b v] H; simpl.
  - rewrite (rabs_0 F). replace (eps * l1 []) with (0 : K) by (unfold OrdLemmas.l1; simpl; ring). apply rle_refl.
  - rewrite (rabs_0 F). apply nn_mul; [exact He | apply l1_nn].
  - rewrite (rabs_0 F). replace (eps * l1 []) with (0 : K) by (unfold OrdLemmas.l1; simpl; ring). apply rle_refl.
  - inversion H as [|? ? Ha Hr]; subst.
    eapply rle_tr; [apply rabs_triangle|].
    unfold OrdLemmas.l1; simpl. fold (l1 v).
    replace (eps * (rabs b + l1 v)) with (eps * rabs b + eps * l1 v) by ring.
    apply le_add_mono; [| apply IH; exact Hr].
    eapply rle_tr; [apply rabs_mul_le|].
    replace (rabs a * rabs b) with (rabs b * rabs a) by ring. replace (eps * rabs b) with (rabs b * eps) by ring.
    apply mul_le_l; [apply rabs_nn | exact Ha].
Qed.

Definition msub (P Q : mat) : mat := map2 (vsub F) P Q.
Lemma mv_msub (P Q : mat) v n : wfM F n P -> wfM F n Q -> length P = length Q ->
  mv F (msub P Q) v = vsub F (mv F P v) (mv F Q v).
Proof. revert Q; induction P as [|p P IH]; intros [|q Q] WP WQ L; simpl in *; try discriminate; auto.
  inversion WP; inversion WQ; subst. unfold msub in *. simpl. unfold vsub in *. simpl.
  rewrite IH by (auto; lia). f_equal. apply (dotu_vsub_l F). congruence. Qed.

Lemma mv_bounded eps (D : mat) v : 0 <= eps -> Forall (bounded eps) D -> bounded (eps * l1 v) (mv F D v).
Proof. intros He H. unfold bounded, mv. apply Forall_map. eapply Forall_impl; [|exact H].
  intros r Hr. apply dotu_bound_row; assumption. Qed.

(* the dot-test defect of a candidate adjoint B against A, for ALL u, v *)
Theorem dot_defect_bound n m (A B : mat) eps u v :
  wfM F n A -> length A = m -> wfM F m B -> length B = n -> length u = n -> length v = m ->
  0 <= eps -> Forall (bounded eps) (msub (transpose F n A) B) ->
  rabs (dotu F (mv F A u) v - dotu F u (mv F B v)) <= eps * l1 u * l1 v.
Proof.
  intros WA LA WB LB Lu Lv He HD.
  rewrite (dotu_mv_mvT F n A u v) by (auto; lia).
  rewrite (mvT_as_mv F n A v) by (auto; lia).
  rewrite <- dotu_vsub_r by (rewrite !mv_length, transpose_length; auto).
  rewrite <- (mv_msub (transpose F n A) B v m); [| rewrite <- LA; apply wfM_transpose; auto | auto | rewrite transpose_length; auto].
  rewrite dotu_comm.
  eapply rle_tr; [apply (dotu_bound_row (eps * l1 v)); [apply nn_mul; [exact He | apply l1_nn] | apply mv_bounded; assumption]|].
  replace (eps * l1 v * l1 u) with (eps * l1 u * l1 v) by ring. apply rle_refl.
Qed.
End Tol.
