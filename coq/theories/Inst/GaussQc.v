(* GaussQc.v — Gaussian rationals Qc x Qc (re, im) as a star ring. *)
From Coq Require Import QArith Qcanon.
From PV Require Import Dict.
Local Open Scope Qc_scope.

Definition G := (Qc * Qc)%type.
Definition g0 : G := (0, 0).
Definition g1 : G := (1, 0).
Definition gadd (a b : G) : G := (fst a + fst b, snd a + snd b).
Definition gmul (a b : G) : G := (fst a * fst b - snd a * snd b, fst a * snd b + snd a * fst b).
Definition gopp (a : G) : G := (- fst a, - snd a).
Definition gsub (a b : G) : G := (fst a - fst b, snd a - snd b).
Definition gconj (a : G) : G := (fst a, - snd a).

Lemma Grt : ring_theory g0 g1 gadd gmul gsub gopp eq.
Proof. constructor; intros; repeat match goal with x : G |- _ => destruct x end;
  unfold gadd, gmul, gsub, gopp, g0, g1; simpl; f_equal; ring. Qed.

Definition GR : CRing := {| car := G; rth := Grt |}.
Definition GS : StarRing.
Proof. refine {| sring := GR; conj := gconj |}; intros; repeat match goal with x : car GR |- _ => destruct x end;
  unfold gconj; simpl; unfold gadd, gmul, gopp, g0, g1; simpl; f_equal; ring. Defined.
