(* QcInst.v — the exact rationals Qc (Leibniz equality) as ring, star ring
   (conj = id), field and ordered field.  No axioms. *)
From Coq Require Import QArith Qcanon Qabs.
From PV Require Import Dict.

Definition QcR : CRing := {| car := Qc; r0 := 0%Qc; r1 := 1%Qc; radd := Qcplus; rmul := Qcmult;
  rsub := Qcminus; ropp := Qcopp; rth := Qcrt |}.

Definition QcS : StarRing.
Proof. refine {| sring := QcR; conj := fun x => x |}; intros; reflexivity. Defined.

Definition QcF : FieldS := {| fstar := QcS; rdiv := Qcdiv; rinv := Qcinv; fth := Qcft |}.

Definition Qcleb (a b : Qc) : bool := Qle_bool (this a) (this b).
Lemma Qcleb_spec a b : Qcleb a b = true <-> (a <= b)%Qc.
Proof. unfold Qcleb, Qcle; apply Qle_bool_iff. Qed.

Definition QcO : OrdField.
Proof.
  refine {| ofield := QcF; rle := Qcle; rleb := Qcleb; rleb_spec := Qcleb_spec |}.
  - apply Qcle_refl.
  - apply Qcle_trans.
  - apply Qcle_antisym.
  - intros a b. destruct (Qclt_le_dec a b) as [H|H]; [left; apply Qclt_le_weak; exact H | right; exact H].
  - intros a b c H. simpl. apply Qcplus_le_compat; [exact H | apply Qcle_refl].
  - intros a b Ha Hb. simpl in *. replace 0%Qc with (0 * b)%Qc by ring. apply Qcmult_le_compat_r; assumption.
  - reflexivity.
Defined.
