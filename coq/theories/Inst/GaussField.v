(* GaussField.v — Gaussian rationals as a field with conjugation (FieldS). *)
From Coq Require Import QArith Qcanon Field.
From PV Require Import Dict GaussQc.
Local Open Scope Qc_scope.

Lemma Qc_sq_nonneg (a : Qc) : 0 <= a * a.
Proof.
  destruct (Qclt_le_dec a 0) as [H|H].
  - assert (H' : 0 <= - a) by (apply Qclt_le_weak in H; apply Qcopp_le_compat in H; replace (- 0) with 0 in H by ring; exact H).
    replace (a * a) with ((- a) * (- a)) by ring.
    replace 0 with (0 * (- a)) by ring. apply Qcmult_le_compat_r; assumption.
  - replace 0 with (0 * a) by ring. apply Qcmult_le_compat_r; assumption.
Qed.

Lemma Qc_sumsq_zero (a b : Qc) : a * a + b * b = 0 -> a = 0 /\ b = 0.
Proof.
  intros H.
  assert (Ha := Qc_sq_nonneg a). assert (Hb := Qc_sq_nonneg b).
  assert (Ea : a * a = 0).
  { apply Qcle_antisym; [|exact Ha]. replace (a * a) with (- (b * b)) by (rewrite <- (Qcplus_0_r (- (b*b))), <- H; ring).
    apply Qcopp_le_compat in Hb. replace (- 0) with 0 in Hb by ring. exact Hb. }
  assert (Eb : b * b = 0) by (rewrite Ea in H; rewrite <- H; ring).
  split; [destruct (Qcmult_integral _ _ Ea) | destruct (Qcmult_integral _ _ Eb)]; assumption.
Qed.

Definition gnorm2 (a : G) : Qc := fst a * fst a + snd a * snd a.
Definition ginv (a : G) : G := (fst a / gnorm2 a, - snd a / gnorm2 a).
Definition gdiv (a b : G) : G := gmul a (ginv b).

Lemma Gft : field_theory g0 g1 gadd gmul gsub gopp gdiv ginv eq.
Proof.
  constructor.
  - exact Grt.
  - unfold g1, g0; intros H; inversion H.
  - reflexivity.
  - intros [a b] H. unfold ginv, gmul, g1, gnorm2; simpl.
    assert (N : a * a + b * b <> 0).
    { intros E; apply Qc_sumsq_zero in E; destruct E; subst; apply H; reflexivity. }
    f_equal; field; exact N.
Qed.

Definition GF : FieldS := {| fstar := GS; rdiv := gdiv; rinv := ginv; fth := Gft |}.
