(* Expr.v — C03: deep embedding of PyLops operator expressions.
   [dense]  = numpy evaluation of the expression on its leaf matrices (spec);
   [ap d e] = what the private composite classes of pylops/linearoperator.py
              and VStack/HStack/BlockDiag compute (matvec for d = Fwd,
              rmatvec for d = Adj), written class by class as coded;
   [H]      = the expression returned by `.H` (the _adjoint overrides).
   Theorems are by structural induction, hence hold for every nesting depth
   and operator mix. *)
From PV Require Export MatAlg.
Local Open Scope R_scope.

Inductive dir := Fwd | Adj.
Definition flip (d : dir) : dir := match d with Fwd => Adj | Adj => Fwd end.

Section Expr.
Variable S : StarRing.
Variable RI : ReIm S.     (* real / imaginary part (used only by RealImag) *)
Add Ring RrE : (rth S).
Notation vec := (list S).
Notation mat := (list (list S)).

Inductive expr :=
| Leaf (m n : nat) (M : mat)          (* MatrixMult(M), M of shape m x n *)
| Add (a b : expr)                    (* _SumLinearOperator(a, b) *)
| Sub (a b : expr)                    (* a.__sub__(b) = _Sum(a, _Scaled(b, -1)) *)
| Mul (a b : expr)                    (* _ProductLinearOperator(a, b) *)
| Scale (alpha : S) (a : expr)        (* _ScaledLinearOperator(a, alpha) *)
| Neg (a : expr)                      (* _ScaledLinearOperator(a, -1) *)
| Pow (a : expr) (p : nat)            (* _PowerLinearOperator(a, p) *)
| AdjW (a : expr)                     (* _AdjointLinearOperator(a) *)
| TranspW (a : expr)                  (* _TransposedLinearOperator(a) *)
| ConjE (a : expr)                    (* _ConjLinearOperator(a) *)
| Cols (cs : list nat) (a : expr)     (* _ColumnLinearOperator(a, cs) *)
| VStack (es : list expr)
| HStack (es : list expr)
| BlockDiag (es : list expr)
| Kron (a b : expr)                    (* Kronecker(a, b) *)
| RealImag (fw aj rl : bool) (a : expr). (* _RealImagLinearOperator(a, forw, adj, real): toreal / toimag *)

(* Block(ops) wraps VStack([HStack(row) for row in ops]) *)
Definition Block (ess : list (list expr)) : expr := VStack (map HStack ess).

Section Ind.
Variable P : expr -> Prop.
Hypotheses (PLeaf : forall m n M, P (Leaf m n M))
  (PAdd : forall a b, P a -> P b -> P (Add a b)) (PSub : forall a b, P a -> P b -> P (Sub a b))
  (PMul : forall a b, P a -> P b -> P (Mul a b)) (PScale : forall al a, P a -> P (Scale al a))
  (PNeg : forall a, P a -> P (Neg a)) (PPow : forall a p, P a -> P (Pow a p))
  (PAdjW : forall a, P a -> P (AdjW a)) (PTranspW : forall a, P a -> P (TranspW a))
  (PConjE : forall a, P a -> P (ConjE a)) (PCols : forall cs a, P a -> P (Cols cs a))
  (PVStack : forall es, Forall P es -> P (VStack es)) (PHStack : forall es, Forall P es -> P (HStack es))
  (PBlockDiag : forall es, Forall P es -> P (BlockDiag es))
  (PKron : forall a b, P a -> P b -> P (Kron a b))
  (PRealImag : forall fw aj rl a, P a -> P (RealImag fw aj rl a)).
Fixpoint expr_ind' (e : expr) : P e :=
  let fix all (es : list expr) : Forall P es :=
    match es with [] => Forall_nil P | e :: es' => Forall_cons e (expr_ind' e) (all es') end in
  match e with
  | Leaf m n M => PLeaf m n M
  | Add a b => PAdd a b (expr_ind' a) (expr_ind' b) | Sub a b => PSub a b (expr_ind' a) (expr_ind' b)
  | Mul a b => PMul a b (expr_ind' a) (expr_ind' b) | Scale al a => PScale al a (expr_ind' a)
  | Neg a => PNeg a (expr_ind' a) | Pow a p => PPow a p (expr_ind' a)
  | AdjW a => PAdjW a (expr_ind' a) | TranspW a => PTranspW a (expr_ind' a)
  | ConjE a => PConjE a (expr_ind' a) | Cols cs a => PCols cs a (expr_ind' a)
  | VStack es => PVStack es (all es) | HStack es => PHStack es (all es)
  | BlockDiag es => PBlockDiag es (all es)
  | Kron a b => PKron a b (expr_ind' a) (expr_ind' b)
  | RealImag fw aj rl a => PRealImag fw aj rl a (expr_ind' a)
  end.
End Ind.

(* ---------- shape ---------- *)
Fixpoint shape (e : expr) : nat * nat :=
  match e with
  | Leaf m n _ => (m, n)
  | Add a _ | Sub a _ => shape a
  | Mul a b => (fst (shape a), snd (shape b))
  | Scale _ a | Neg a | ConjE a | Pow a _ | RealImag _ _ _ a => shape a
  | AdjW a | TranspW a => (snd (shape a), fst (shape a))
  | Cols cs a => (fst (shape a), length cs)
  | VStack es => (list_sum (map (fun e => fst (shape e)) es), match es with [] => 0%nat | e :: _ => snd (shape e) end)
  | HStack es => (match es with [] => 0%nat | e :: _ => fst (shape e) end, list_sum (map (fun e => snd (shape e)) es))
  | BlockDiag es => (list_sum (map (fun e => fst (shape e)) es), list_sum (map (fun e => snd (shape e)) es))
  | Kron a b => (fst (shape a) * fst (shape b), snd (shape a) * snd (shape b))%nat
  end.
Definition rows e := fst (shape e).
Definition cols e := snd (shape e).

(* ---------- specification: numpy evaluation on the leaf matrices ---------- *)
Fixpoint dense (e : expr) : mat :=
  match e with
  | Leaf _ _ M => M
  | Add a b => madd S (dense a) (dense b)
  | Sub a b => msub S (dense a) (dense b)
  | Mul a b => mm S (cols b) (dense a) (dense b)
  | Scale al a => mscale S al (dense a)
  | Neg a => mneg S (dense a)
  | Pow a p => mpow S (cols a) (dense a) p
  | AdjW a => ctranspose S (cols a) (dense a)
  | TranspW a => transpose S (cols a) (dense a)
  | ConjE a => mconj S (dense a)
  | Cols cs a => colsel S cs (dense a)
  | VStack es => concat (map dense es)
  | HStack es => hcat_all S (rows (HStack es)) (map dense es)
  | BlockDiag es => bdiag_all S (map (fun e => (cols e, dense e)) es)
  | Kron a b => kron S (dense a) (dense b)
  | RealImag _ _ rl a => if rl then mre S RI (dense a) else mim S RI (dense a)   (* Re(A) / Im(A) *)
  end.

(* ---------- operational semantics ---------- *)
(* `explicit` operators carry their matrix in .A: MatrixMult does, and
   _ColumnLinearOperator of an explicit operator is explicit with
   A = Op.A[:, cols]; every other wrapper sets explicit=False. *)
Fixpoint explicitA (e : expr) : option mat :=
  match e with
  | Leaf _ _ M => Some M
  | Cols cs a => option_map (colsel S cs) (explicitA a)
  | _ => None
  end.
(* scalar seen by matvec / rmatvec of _ScaledLinearOperator *)
Definition sc (d : dir) (al : S) : S := match d with Fwd => al | Adj => conj S al end.
Definition m1 : S := - (1).

Fixpoint ap (d : dir) (e : expr) (x : vec) {struct e} : vec :=
  match e with
  | Leaf _ n M => match d with Fwd => mv S M x | Adj => mvH S n M x end
  | Add a b => vadd S (ap d a x) (ap d b x)
  | Sub a b => vadd S (ap d a x) (vscale S (sc d m1) (ap d b x))
  | Mul a b => match d with Fwd => ap Fwd a (ap Fwd b x) | Adj => ap Adj b (ap Adj a x) end
  | Scale al a => vscale S (sc d al) (ap d a x)
  | Neg a => vscale S (sc d m1) (ap d a x)
  | Pow a p => Nat.iter p (ap d a) x
  | AdjW a => ap (flip d) a x
  | TranspW a => vconj S (ap (flip d) a (vconj S x))
  | ConjE a => vconj S (ap d a (vconj S x))
  | Cols cs a =>
      match explicitA a with
      | Some A => match d with Fwd => mv S (colsel S cs A) x | Adj => mvH S (length cs) (colsel S cs A) x end
      | None => match d with
                | Fwd => ap Fwd a (scatter S (snd (shape a)) cs x)
                | Adj => gather S cs (ap Adj a x)
                end
      end
  | VStack es =>
      match d with
      | Fwd => cat_all S (map (fun e => ap Fwd e) es) x
      | Adj => acc_slices S (snd (shape (VStack es))) (map (fun e => (fst (shape e), ap Adj e)) es) 0 x
      end
  | HStack es =>
      match d with
      | Fwd => acc_slices S (fst (shape (HStack es))) (map (fun e => (snd (shape e), ap Fwd e)) es) 0 x
      | Adj => cat_all S (map (fun e => ap Adj e) es) x
      end
  | BlockDiag es =>
      match d with
      | Fwd => cat_slices S (map (fun e => (snd (shape e), ap Fwd e)) es) 0 x
      | Adj => cat_slices S (map (fun e => (fst (shape e), ap Adj e)) es) 0 x
      end
  | Kron a b =>
      (* x.reshape; Op2.matmat(x.T).T; Op1.matmat(y).ravel(); matmat = column loop
         (theorem apmat_columns); Op1H/Op2H = a.H/b.H act as the adjoints (theorem ap_H) *)
      match d with
      | Fwd => kron_ap S (snd (shape a)) (snd (shape b)) (fst (shape b)) (fst (shape a)) (ap Fwd a) (ap Fwd b) x
      | Adj => kron_ap S (fst (shape a)) (fst (shape b)) (snd (shape b)) (snd (shape a)) (ap Adj a) (ap Adj b) x
      end
  | RealImag fw aj rl a =>
      match d with
      | Fwd => let y := ap Fwd a x in
               if fw then (if rl then vre S RI y else vim S RI y) else y
      | Adj => let y := ap Adj a x in
               if aj then (if rl then vre S RI y else vneg S (vim S RI y)) else y
      end
  end.

(* matmat / rmatmat on a list of columns: the default handler loops over
   the columns calling matvec; the overrides of the composite classes apply
   their children's matmat. *)
Fixpoint apmat (d : dir) (e : expr) (X : list vec) {struct e} : list vec :=
  match e with
  | Add a b => map2 (vadd S) (apmat d a X) (apmat d b X)
  | Sub a b => map2 (vadd S) (apmat d a X) (map (vscale S (sc d m1)) (apmat d b X))
  | Mul a b => match d with Fwd => apmat Fwd a (apmat Fwd b X) | Adj => apmat Adj b (apmat Adj a X) end
  | Scale al a => map (vscale S (sc d al)) (apmat d a X)
  | Neg a => map (vscale S (sc d m1)) (apmat d a X)
  | Pow a p => Nat.iter p (apmat d a) X
  | AdjW a => apmat (flip d) a X
  | TranspW a => map (vconj S) (apmat (flip d) a (map (vconj S) X))
  | _ => map (ap d e) X
  end.

(* ---------- well-formedness (what the constructors check) ---------- *)
Fixpoint wf (e : expr) : Prop :=
  match e with
  | Leaf m n M => length M = m /\ wfM S n M
  | Add a b | Sub a b => wf a /\ wf b /\ shape a = shape b
  | Mul a b => wf a /\ wf b /\ snd (shape a) = fst (shape b)
  | Scale _ a | Neg a | ConjE a | AdjW a | TranspW a => wf a
  | Pow a _ => wf a /\ fst (shape a) = snd (shape a)
  | Cols cs a => wf a /\ NoDup cs /\ Forall (fun c => c < snd (shape a)) cs
  | VStack es => (fix all l := match l with [] => True | e :: l' => wf e /\ all l' end) es
                 /\ Forall (fun e' => snd (shape e') = snd (shape (VStack es))) es
  | HStack es => (fix all l := match l with [] => True | e :: l' => wf e /\ all l' end) es
                 /\ Forall (fun e' => fst (shape e') = fst (shape (HStack es))) es
  | BlockDiag es => (fix all l := match l with [] => True | e :: l' => wf e /\ all l' end) es
  | Kron a b => wf a /\ wf b
  | RealImag _ _ _ _ => False      (* only R-linear: see [rwf] below *)
  end.
Lemma wf_all_Forall es : (fix all l := match l with [] => True | e :: l' => wf e /\ all l' end) es <-> Forall wf es.
Proof. induction es as [|e es IH]; split; intros H; auto.
  - destruct H; constructor; auto. apply IH; auto.
  - inversion H; subst; split; auto. apply IH; auto. Qed.

(* ---------- the adjoint / transpose / conj meta-operations ---------- *)
Fixpoint H (e : expr) : expr :=
  match e with
  | Add a b => Add (H a) (H b)
  | Sub a b => Add (H a) (Scale (conj S m1) (H b))
  | Mul a b => Mul (H b) (H a)
  | Scale al a => Scale (conj S al) (H a)
  | Neg a => Scale (conj S m1) (H a)
  | Pow a p => Pow (H a) p
  | ConjE a => ConjE (H a)
  | _ => AdjW e
  end.
Definition T (e : expr) : expr := TranspW e.     (* no class overrides _transpose *)
Definition Cj (e : expr) : expr := ConjE e.      (* .conj() *)

(* ================= main theorem ================= *)
Lemma sc_adj al : sc Adj al = conj S (sc Fwd al).
Proof. reflexivity. Qed.

Lemma Forall_and_wf (P : expr -> Prop) es : Forall (fun e => wf e -> P e) es -> Forall wf es -> Forall P es.
Proof. induction 1; intros W; inversion W; subst; constructor; auto. Qed.

Lemma explicitA_dense e : forall A, explicitA e = Some A -> dense e = A.
Proof. induction e using expr_ind'; cbn [explicitA dense]; intros A EA; try discriminate.
  - inversion EA; auto.
  - destruct (explicitA e) as [A'|]; cbn in EA; [|discriminate]. inversion EA; subst. f_equal. apply IHe; auto. Qed.

Theorem ap_repr e : wf e -> repr S (rows e) (cols e) (dense e) (ap Fwd e) (ap Adj e).
Proof. unfold rows, cols. induction e using expr_ind'; cbn [wf]; intros W.
  - destruct W. eapply repr_ext; [apply repr_leaf; eauto | reflexivity | reflexivity].
  - destruct W as (Wa & Wb & E). cbn [shape dense]. specialize (IHe1 Wa). specialize (IHe2 Wb). rewrite <- E in IHe2.
    eapply repr_ext; [apply repr_add; eauto | reflexivity | reflexivity].
  - destruct W as (Wa & Wb & E). cbn [shape dense]. specialize (IHe1 Wa). specialize (IHe2 Wb). rewrite <- E in IHe2.
    pose proof IHe1 as (W1 & L1 & _). pose proof IHe2 as (W2 & L2 & _).
    eapply repr_ext; [ | intros; cbn [ap sc]; reflexivity | intros; cbn [ap]; rewrite sc_adj; reflexivity ].
    eapply repr_mat_eq; [apply repr_add; [exact IHe1 | apply (repr_scale S _ _ _ _ _ m1 _ eq_refl IHe2)] | | | ].
    + apply msub_wf; auto.
    + unfold msub. rewrite map2_length; lia.
    + intros x Hx. rewrite (mv_msub S (snd (shape e1))), (mv_madd S (snd (shape e1))); auto using mscale_wf.
      * rewrite mv_mscale, vsub_vadd_neg, vneg_vscale. reflexivity.
      * unfold mscale; rewrite map_length; congruence.
      * congruence.
  - destruct W as (Wa & Wb & E). cbn [shape dense fst snd]. specialize (IHe1 Wa). specialize (IHe2 Wb). rewrite E in IHe1.
    eapply repr_ext; [apply (repr_mul S _ _ _ _ _ _ _ _ _ IHe1 IHe2) | reflexivity | reflexivity].
  - specialize (IHe W). cbn [shape dense].
    eapply repr_ext; [apply (repr_scale S _ _ _ _ _ al _ eq_refl IHe) | reflexivity | reflexivity].
  - specialize (IHe W). cbn [shape dense]. pose proof IHe as (W1 & L1 & _).
    eapply repr_ext; [ | intros; cbn [ap sc]; reflexivity | intros; cbn [ap]; rewrite sc_adj; reflexivity ].
    eapply repr_mat_eq; [apply (repr_scale S _ _ _ _ _ m1 _ eq_refl IHe) | apply mneg_wf; auto | unfold mneg; rewrite map_length; auto | ].
    intros x Hx. rewrite mv_mneg, mv_mscale, vneg_vscale. reflexivity.
  - destruct W as (Wa & E). specialize (IHe Wa). cbn [shape dense]. rewrite E in *.
    eapply repr_ext; [apply (repr_pow S _ _ _ _ p IHe) | reflexivity | reflexivity].
  - specialize (IHe W). cbn [shape dense fst snd].
    eapply repr_ext; [apply (repr_adj S _ _ _ _ _ IHe) | reflexivity | reflexivity].
  - specialize (IHe W). cbn [shape dense fst snd].
    eapply repr_ext; [apply (repr_transp S _ _ _ _ _ IHe) | reflexivity | reflexivity].
  - specialize (IHe W). cbn [shape dense].
    eapply repr_ext; [apply (repr_conj S _ _ _ _ _ IHe) | reflexivity | reflexivity].
  - destruct W as (Wa & ND & B). specialize (IHe Wa). cbn [shape dense fst snd].
    destruct (explicitA e) as [A|] eqn:EA.
    + (* explicit operator: Op.A[:, cols] is used directly *)
      pose proof (explicitA_dense _ _ EA) as ED. rewrite ED.
      eapply repr_ext; [apply repr_leaf | intros; cbn [ap]; rewrite EA; reflexivity | intros; cbn [ap]; rewrite EA; reflexivity].
      * apply colsel_wf.
      * rewrite colsel_length, <- ED. destruct IHe as (_ & L & _); exact L.
    + eapply repr_ext; [apply (repr_cols S _ _ _ _ _ cs IHe ND B) | intros; cbn [ap]; rewrite EA; reflexivity
                        | intros; cbn [ap]; rewrite EA; reflexivity].
  - destruct W as (Wl & Wc). apply wf_all_Forall in Wl. pose proof (Forall_and_wf _ _ H0 Wl) as HR. clear H0.
    cbn [shape dense fst snd]. set (n := match es with [] => 0%nat | e :: _ => snd (shape e) end) in *.
    assert (HR' : Forall (fun e => repr S (fst (shape e)) n (dense e) (ap Fwd e) (ap Adj e)) es).
    { apply Forall_forall. intros e He. pose proof (proj1 (Forall_forall _ _) HR e He) as Q.
      pose proof (proj1 (Forall_forall _ _) Wc e He) as Q2. cbv beta in Q, Q2. cbn [shape snd] in Q2. fold n in Q2. rewrite Q2 in Q. exact Q. }
    eapply repr_ext; [apply (repr_vstack S (fun e => fst (shape e)) dense (ap Fwd) (ap Adj) n es HR') | | ].
    + intros x. cbn [ap]. f_equal.
    + intros y. cbn [ap shape snd]. reflexivity.
  - destruct W as (Wl & Wc). apply wf_all_Forall in Wl. pose proof (Forall_and_wf _ _ H0 Wl) as HR. clear H0.
    cbn [dense]. unfold rows. cbn [shape fst snd]. set (m := match es with [] => 0%nat | e :: _ => fst (shape e) end) in *.
    assert (HR' : Forall (fun e => repr S m (snd (shape e)) (dense e) (ap Fwd e) (ap Adj e)) es).
    { apply Forall_forall. intros e He. pose proof (proj1 (Forall_forall _ _) HR e He) as Q.
      pose proof (proj1 (Forall_forall _ _) Wc e He) as Q2. cbv beta in Q, Q2. cbn [shape fst] in Q2. fold m in Q2. rewrite Q2 in Q. exact Q. }
    eapply repr_ext; [apply (repr_hstack S (fun e => snd (shape e)) dense (ap Fwd) (ap Adj) m es HR') | | ].
    + intros x. cbn [ap shape fst]. reflexivity.
    + intros y. cbn [ap]. f_equal.
  - apply wf_all_Forall in W. pose proof (Forall_and_wf _ _ H0 W) as HR. clear H0.
    cbn [shape dense fst snd]. unfold cols.
    eapply repr_ext; [apply (repr_blockdiag S (fun e => fst (shape e)) (fun e => snd (shape e)) dense (ap Fwd) (ap Adj) es HR) | | ].
    + intros x. cbn [ap]. reflexivity.
    + intros y. cbn [ap]. reflexivity.
  - destruct W as (Wa & Wb). specialize (IHe1 Wa). specialize (IHe2 Wb). cbn [shape dense fst snd].
    eapply repr_ext; [apply (repr_kron S _ _ _ _ _ _ _ _ _ _ IHe1 IHe2) | reflexivity | reflexivity].
  - destruct W.
Qed.

(* ---------- corollaries: the statements of C03 ---------- *)
Theorem dense_wf e : wf e -> wfM S (cols e) (dense e) /\ length (dense e) = rows e.
Proof. intros W. destruct (ap_repr e W) as (A & B & _); auto. Qed.
Theorem ap_fwd_dense e x : wf e -> length x = cols e -> ap Fwd e x = mv S (dense e) x.
Proof. intros W Hx. destruct (ap_repr e W) as (_ & _ & F & _); auto. Qed.
Theorem ap_adj_mvH e y : wf e -> length y = rows e -> ap Adj e y = mvH S (cols e) (dense e) y.
Proof. intros W Hy. destruct (ap_repr e W) as (_ & _ & _ & G); auto. Qed.
Theorem ap_adj_dense e y : wf e -> length y = rows e -> ap Adj e y = mv S (ctranspose S (cols e) (dense e)) y.
Proof. intros W Hy. rewrite ap_adj_mvH by auto. destruct (dense_wf e W) as [A B].
  symmetry; apply mv_ctranspose; auto; congruence. Qed.
Theorem ap_length e d x : wf e -> length x = (match d with Fwd => cols e | Adj => rows e end) ->
  length (ap d e x) = (match d with Fwd => rows e | Adj => cols e end).
Proof. intros W Hx. destruct d; [eapply repr_len_f | eapply repr_len_g]; eauto using ap_repr. Qed.
Theorem ap_dot_test e x y : wf e -> length x = cols e -> length y = rows e ->
  dot S (ap Fwd e x) y = dot S x (ap Adj e y).
Proof. intros W Hx Hy. eapply repr_pair; eauto using ap_repr. Qed.

(* matmat / rmatmat = column-wise matvec / rmatvec *)
Lemma map2_map_same {A B C D} (f : B -> C -> D) (g : A -> B) (h : A -> C) l :
  map2 f (map g l) (map h l) = map (fun a => f (g a) (h a)) l.
Proof. induction l; simpl; auto. f_equal; auto. Qed.
Lemma iter_map {A} (f : A -> A) p l : Nat.iter p (map f) l = map (fun a => Nat.iter p f a) l.
Proof. induction p; simpl. symmetry; apply map_id. rewrite IHp, map_map; auto. Qed.
Theorem apmat_columns e : forall d X, apmat d e X = map (ap d e) X.
Proof. induction e using expr_ind'; intros d X; cbn [apmat]; auto.
  - rewrite IHe1, IHe2. rewrite (map2_map_same (vadd S) (ap d e1) (ap d e2)). reflexivity.
  - rewrite IHe1, IHe2, map_map. rewrite (map2_map_same (vadd S) (ap d e1) (fun x => vscale S (sc d m1) (ap d e2 x))). reflexivity.
  - destruct d; rewrite ?IHe1, ?IHe2, ?IHe1, map_map; auto.
  - rewrite IHe, map_map; auto.
  - rewrite IHe, map_map; auto.
  - cbn [ap]. rewrite <- iter_map. clear -IHe. induction p; simpl; auto. rewrite IHp, IHe; auto.
  - rewrite IHe; auto.
  - rewrite IHe, !map_map; auto.
Qed.

(* shape algebra *)
Theorem H_shape e : shape (H e) = (snd (shape e), fst (shape e)).
Proof. induction e using expr_ind'; cbn [H shape fst snd]; auto;
  try (rewrite ?IHe, ?IHe1, ?IHe2; reflexivity). Qed.
Theorem T_shape e : shape (T e) = (snd (shape e), fst (shape e)).
Proof. reflexivity. Qed.

Theorem H_wf e : wf e -> wf (H e).
Proof. induction e using expr_ind'; cbn [H wf]; auto.
  - intros (A & B & E). rewrite !H_shape, E. auto.
  - intros (A & B & E). cbn [shape]. rewrite !H_shape, E. auto.
  - intros (A & B & E). rewrite !H_shape. cbn [fst snd]. auto.
  - intros (A & E). rewrite H_shape. cbn [fst snd]. auto.
Qed.

(* .H acts as the adjoint, for every expression (even ill-shaped ones) *)
Theorem ap_H e : forall d x, ap d (H e) x = ap (flip d) e x.
Proof. induction e using expr_ind'; intros d x; cbn [H]; try reflexivity.
  - cbn [ap]. rewrite IHe1, IHe2; auto.
  - cbn [ap]. rewrite IHe1, IHe2. destruct d; cbn [sc flip]; rewrite ?conj_invol; auto.
  - destruct d; cbn [ap flip]; rewrite ?IHe1, ?IHe2; cbn [flip]; rewrite ?IHe1, ?IHe2; auto.
  - cbn [ap]. rewrite IHe. destruct d; cbn [sc flip]; rewrite ?conj_invol; auto.
  - cbn [ap]. rewrite IHe. destruct d; cbn [sc flip]; rewrite ?conj_invol; auto.
  - cbn [ap]. revert x; induction p; intros x; simpl; auto. rewrite IHp, IHe; auto.
  - cbn [ap]. rewrite IHe; auto.
Qed.

Lemma flip_flip d : flip (flip d) = d.
Proof. destruct d; auto. Qed.
Theorem H_involutive e d x : ap d (H (H e)) x = ap d e x.
Proof. rewrite !ap_H, flip_flip; auto. Qed.
Theorem T_involutive e d x : ap d (T (T e)) x = ap d e x.
Proof. cbn [T ap]. rewrite !vconj_invol, flip_flip; auto. Qed.
Theorem Cj_involutive e d x : ap d (Cj (Cj e)) x = ap d e x.
Proof. cbn [Cj ap]. rewrite !vconj_invol; auto. Qed.

(* dense views of .H, .T, .conj() *)
Theorem H_dense e : wf e -> dense (H e) = ctranspose S (cols e) (dense e).
Proof. intros W. pose proof (H_wf e W) as WH. destruct (dense_wf _ WH) as [A B]. destruct (dense_wf _ W) as [A' B'].
  unfold rows, cols in *. rewrite H_shape in *. cbn [fst snd] in *.
  apply (mat_ext S (fst (shape e))); auto.
  - rewrite <- B'. apply ctranspose_wf.
  - rewrite ctranspose_length; auto.
  - intros x Hx. rewrite <- ap_fwd_dense by (auto; unfold cols; rewrite H_shape; auto).
    rewrite ap_H. cbn [flip]. apply ap_adj_dense; auto. Qed.
Theorem T_dense e : dense (T e) = transpose S (cols e) (dense e).
Proof. reflexivity. Qed.
Theorem Cj_dense e : dense (Cj e) = mconj S (dense e).
Proof. reflexivity. Qed.
Theorem T_T_dense e : wf e -> dense (T (T e)) = dense e.
Proof. intros W. destruct (dense_wf _ W) as [A B]. unfold rows, cols in *. cbn [T dense]. unfold cols, T. cbn [shape fst snd].
  rewrite <- B. apply transpose_involutive; auto. Qed.
Theorem H_H_dense e : wf e -> dense (H (H e)) = dense e.
Proof. intros W. pose proof (H_wf _ (H_wf _ W)) as W2.
  destruct (dense_wf _ W) as [A B]. destruct (dense_wf _ W2) as [A2 B2].
  unfold rows, cols in *. rewrite !H_shape in *. cbn [fst snd] in *.
  apply (mat_ext S (snd (shape e))); auto; try congruence.
  intros x Hx. rewrite <- !ap_fwd_dense; auto.
  - apply H_involutive.
  - unfold cols. rewrite !H_shape; auto. Qed.

(* powers *)
Theorem pow_zero a x : ap Fwd (Pow a 0) x = x.
Proof. reflexivity. Qed.
Theorem pow_succ a p x : ap Fwd (Pow a (Datatypes.S p)) x = ap Fwd a (ap Fwd (Pow a p) x).
Proof. reflexivity. Qed.

(* ================= toreal / toimag: the R-linear level =================
   _RealImagLinearOperator is not C-linear, so [wf] excludes it.  [rwf]
   describes the trees in which it IS a matrix action: real-coefficient
   trees (real leaves and scalars) applied to real vectors, in which
   toreal()/toimag() (forw = adj = True) wrap arbitrary C-linear ([wf])
   complex subtrees or further [rwf] trees. *)
Fixpoint rwf (e : expr) : Prop :=
  match e with
  | Leaf m n M => length M = m /\ wfM S n M /\ mconj S M = M
  | Add a b | Sub a b => rwf a /\ rwf b /\ shape a = shape b
  | Mul a b => rwf a /\ rwf b /\ snd (shape a) = fst (shape b)
  | Scale al a => isreal S al /\ rwf a
  | Neg a | ConjE a | AdjW a | TranspW a => rwf a
  | Pow a _ => rwf a /\ fst (shape a) = snd (shape a)
  | RealImag fw aj _ a => fw = true /\ aj = true /\ (wf a \/ rwf a)
  | Cols cs a => rwf a /\ NoDup cs /\ Forall (fun c => c < snd (shape a)) cs
  | VStack es => (fix all l := match l with [] => True | e :: l' => rwf e /\ all l' end) es
                 /\ Forall (fun e' => snd (shape e') = snd (shape (VStack es))) es
  | HStack es => (fix all l := match l with [] => True | e :: l' => rwf e /\ all l' end) es
                 /\ Forall (fun e' => fst (shape e') = fst (shape (HStack es))) es
  | BlockDiag es => (fix all l := match l with [] => True | e :: l' => rwf e /\ all l' end) es
  | Kron a b => rwf a /\ rwf b
  end.
Lemma rwf_all_Forall es : (fix all l := match l with [] => True | e :: l' => rwf e /\ all l' end) es <-> Forall rwf es.
Proof. induction es as [|e es IH]; split; intros H0; auto.
  - destruct H0; constructor; auto. apply IH; auto.
  - inversion H0; subst; split; auto. apply IH; auto. Qed.
Lemma Forall_mp {X} (P Q : X -> Prop) l : Forall (fun a => Q a -> P a) l -> Forall Q l -> Forall P l.
Proof. induction 1; intros W; inversion W; subst; constructor; auto. Qed.
(* replace every toreal/toimag node by a MatrixMult leaf holding Re / Im of its dense matrix *)
Fixpoint erase (e : expr) : expr :=
  match e with
  | Add a b => Add (erase a) (erase b) | Sub a b => Sub (erase a) (erase b)
  | Mul a b => Mul (erase a) (erase b) | Scale al a => Scale al (erase a)
  | Neg a => Neg (erase a) | Pow a p => Pow (erase a) p
  | AdjW a => AdjW (erase a) | TranspW a => TranspW (erase a) | ConjE a => ConjE (erase a)
  | RealImag _ _ rl a => Leaf (fst (shape a)) (snd (shape a)) (if rl then mre S RI (dense a) else mim S RI (dense a))
  | Cols cs a => Cols cs (erase a)
  | VStack es => VStack (map erase es) | HStack es => HStack (map erase es) | BlockDiag es => BlockDiag (map erase es)
  | Kron a b => Kron (erase a) (erase b)
  | Leaf _ _ _ => e
  end.
Definition inlen (d : dir) (e : expr) : nat := match d with Fwd => snd (shape e) | Adj => fst (shape e) end.

Lemma erase_shape e : shape (erase e) = shape e.
Proof. induction e using expr_ind'; cbn [erase shape]; rewrite ?IHe, ?IHe1, ?IHe2; auto;
  try (destruct (shape e); auto; fail);
  match goal with HF : Forall _ ?l |- _ =>
    assert (M1 : map (fun e => fst (shape e)) (map erase l) = map (fun e => fst (shape e)) l)
      by (rewrite map_map; apply map_ext_in; intros a Ha; rewrite (proj1 (Forall_forall _ _) HF a Ha); auto);
    assert (M2 : map (fun e => snd (shape e)) (map erase l) = map (fun e => snd (shape e)) l)
      by (rewrite map_map; apply map_ext_in; intros a Ha; rewrite (proj1 (Forall_forall _ _) HF a Ha); auto);
    rewrite ?M1, ?M2; f_equal; destruct HF as [|a0 l0 Ha0 _]; simpl; auto; rewrite Ha0; auto
  end. Qed.
Lemma isreal_sc d al : isreal S al -> sc d al = al.
Proof. destruct d; auto. Qed.

Lemma rwf_erase e : rwf e -> wf (erase e) /\ dense (erase e) = dense e.
Proof. induction e using expr_ind'; cbn [rwf erase wf dense]; try tauto.
  - intros (A & B & E). destruct (IHe1 A), (IHe2 B). rewrite !erase_shape. repeat split; auto; congruence.
  - intros (A & B & E). destruct (IHe1 A), (IHe2 B). rewrite !erase_shape. repeat split; auto; congruence.
  - intros (A & B & E). destruct (IHe1 A) as [W1 D1], (IHe2 B) as [W2 D2]. unfold cols. rewrite !erase_shape, D1, D2. auto.
  - intros (A & B). destruct (IHe B) as [W1 D1]. rewrite D1; auto.
  - intros B. destruct (IHe B) as [W1 D1]. rewrite D1; auto.
  - intros (B & E). destruct (IHe B) as [W1 D1]. unfold cols. rewrite !erase_shape, D1; auto.
  - intros B. destruct (IHe B) as [W1 D1]. unfold cols. rewrite !erase_shape, D1; auto.
  - intros B. destruct (IHe B) as [W1 D1]. unfold cols. rewrite !erase_shape, D1; auto.
  - intros B. destruct (IHe B) as [W1 D1]. rewrite D1; auto.
  - (* Cols *) intros (A & ND & B). destruct (IHe A) as [W1 D1]. rewrite erase_shape, D1. auto.
  - (* VStack *) intros (Rl & Wc). apply rwf_all_Forall in Rl. pose proof (Forall_mp _ _ _ H0 Rl) as HP.
    change (VStack (map erase es)) with (erase (VStack es)). rewrite erase_shape. repeat split.
    + apply wf_all_Forall. apply Forall_map. eapply Forall_impl; [|exact HP]. simpl; tauto.
    + apply Forall_map. apply Forall_forall. intros a Ha. rewrite erase_shape. apply (proj1 (Forall_forall _ _) Wc a Ha).
    + f_equal. rewrite map_map. apply map_ext_in. intros a Ha. apply (proj1 (Forall_forall _ _) HP a Ha).
  - (* HStack *) intros (Rl & Wc). apply rwf_all_Forall in Rl. pose proof (Forall_mp _ _ _ H0 Rl) as HP.
    unfold rows. change (HStack (map erase es)) with (erase (HStack es)). rewrite !erase_shape. repeat split.
    + apply wf_all_Forall. apply Forall_map. eapply Forall_impl; [|exact HP]. simpl; tauto.
    + apply Forall_map. apply Forall_forall. intros a Ha. rewrite erase_shape. apply (proj1 (Forall_forall _ _) Wc a Ha).
    + f_equal. rewrite map_map. apply map_ext_in. intros a Ha. apply (proj1 (Forall_forall _ _) HP a Ha).
  - (* BlockDiag *) intros Rl. apply rwf_all_Forall in Rl. pose proof (Forall_mp _ _ _ H0 Rl) as HP. split.
    + apply wf_all_Forall. apply Forall_map. eapply Forall_impl; [|exact HP]. simpl; tauto.
    + f_equal. rewrite map_map. apply map_ext_in. intros a Ha. unfold cols. rewrite erase_shape.
      f_equal. apply (proj1 (Forall_forall _ _) HP a Ha).
  - (* Kron *) intros (A & B). destruct (IHe1 A) as [W1 D1], (IHe2 B) as [W2 D2]. rewrite D1, D2. auto.
  - intros (-> & -> & [Wa | Ra]).
    + destruct (dense_wf _ Wa) as [Wd Ld]. unfold rows, cols in *.
      destruct rl; repeat split; auto; unfold mre, mim; rewrite ?map_length; auto; [apply mre_wf | apply mim_wf]; auto.
    + destruct (IHe Ra) as [W1 D1]. destruct (dense_wf _ W1) as [Wd Ld]. unfold rows, cols in *.
      rewrite erase_shape, D1 in Wd, Ld.
      destruct rl; repeat split; auto; unfold mre, mim; rewrite ?map_length; auto; [apply mre_wf | apply mim_wf]; auto.
Qed.

Lemma ap_len_erase e d x : rwf e -> length x = inlen d e ->
  length (ap d (erase e) x) = inlen (flip d) e.
Proof. intros R Hx. destruct (rwf_erase e R) as [W _].
  rewrite (ap_length (erase e) d x W); unfold rows, cols; rewrite erase_shape; destruct d; auto. Qed.

(* on real inputs a toreal/toimag tree acts like the erased (C-linear) tree
   and returns real vectors *)
Lemma ap_erase e : rwf e -> forall d x, vreal S x -> length x = inlen d e ->
  ap d e x = ap d (erase e) x /\ vreal S (ap d e x).
Proof. induction e using expr_ind'; cbn [rwf]; try tauto.
  - intros (L & W & C) d x Rx Hx. split; auto. destruct d; cbn [ap]; [apply vreal_mv | apply vreal_mvH]; auto.
  - intros (A & B & E) d x Rx Hx. cbn [erase ap].
    destruct (IHe1 A d x Rx) as [E1 R1]; [destruct d; auto|].
    destruct (IHe2 B d x Rx) as [E2 R2]; [destruct d; cbn [inlen shape] in *; congruence|].
    rewrite <- E1, <- E2. split; auto. apply vreal_vadd; auto.
  - intros (A & B & E) d x Rx Hx. cbn [erase ap].
    destruct (IHe1 A d x Rx) as [E1 R1]; [destruct d; auto|].
    destruct (IHe2 B d x Rx) as [E2 R2]; [destruct d; cbn [inlen shape] in *; congruence|].
    rewrite <- E1, <- E2. rewrite (isreal_sc d m1) by apply isreal_m1. split; auto.
    apply vreal_vadd; auto. apply vreal_vscale; auto. apply isreal_m1.
  - intros (A & B & E) d x Rx Hx. cbn [erase]. destruct d; cbn [ap inlen shape fst snd] in *.
    + destruct (IHe2 B Fwd x Rx Hx) as [E2 R2].
      assert (L2 : length (ap Fwd e2 x) = inlen Fwd e1).
      { rewrite E2. rewrite (ap_len_erase e2 Fwd x B Hx). cbn [inlen flip]. auto. }
      destruct (IHe1 A Fwd _ R2 L2) as [E1 R1]. rewrite <- E2, <- E1. auto.
    + destruct (IHe1 A Adj x Rx Hx) as [E1 R1].
      assert (L1 : length (ap Adj e1 x) = inlen Adj e2).
      { rewrite E1. rewrite (ap_len_erase e1 Adj x A Hx). cbn [inlen flip]. auto. }
      destruct (IHe2 B Adj _ R1 L1) as [E2 R2]. rewrite <- E1, <- E2. auto.
  - intros (A & B) d x Rx Hx. cbn [erase ap]. destruct (IHe B d x Rx) as [E1 R1]; [destruct d; auto|].
    rewrite <- E1. split; auto. apply vreal_vscale; auto. rewrite isreal_sc; auto.
  - intros B d x Rx Hx. cbn [erase ap]. destruct (IHe B d x Rx) as [E1 R1]; [destruct d; auto|].
    rewrite <- E1. split; auto. apply vreal_vscale; auto. rewrite isreal_sc; apply isreal_m1.
  - intros (B & E) d x Rx Hx. cbn [erase ap].
    assert (Hx' : length x = inlen d e) by (destruct d; exact Hx). clear Hx.
    assert (K : Nat.iter p (ap d e) x = Nat.iter p (ap d (erase e)) x /\ vreal S (Nat.iter p (ap d e) x)
                /\ length (Nat.iter p (ap d e) x) = inlen d e).
    { induction p as [|p IHp]; [simpl; repeat split; auto|]. simpl. destruct IHp as (E1 & R1 & L1).
      destruct (IHe B d _ R1 L1) as [E2 R2]. rewrite <- E1. repeat split; auto.
      rewrite E2. rewrite (ap_len_erase e d _ B L1). destruct d; cbn [inlen flip shape] in *; congruence. }
    tauto.
  - intros B d x Rx Hx. cbn [erase ap]. apply IHe; auto. destruct d; auto.
  - intros B d x Rx Hx. cbn [erase ap].
    destruct (IHe B (flip d) (vconj S x)) as [E1 R1]; [apply vreal_vconj; auto | rewrite vconj_length; destruct d; auto |].
    rewrite <- E1. split; auto. apply vreal_vconj; auto.
  - intros B d x Rx Hx. cbn [erase ap].
    destruct (IHe B d (vconj S x)) as [E1 R1]; [apply vreal_vconj; auto | rewrite vconj_length; destruct d; auto |].
    rewrite <- E1. split; auto. apply vreal_vconj; auto.
  - (* Cols: both paths (explicit / scatter-gather) reduce to the scatter-gather form on the erased child *)
    intros (A & ND & B) d x Rx Hx.
    destruct (rwf_erase e A) as [W1 D1].
    pose proof (ap_repr (erase e) W1) as HRe. unfold rows, cols in HRe. rewrite erase_shape in HRe.
    pose proof (repr_cols S _ _ _ _ _ cs HRe ND B) as (WC & LC & FC & GC).
    assert (W2 : wf (Cols cs (erase e))) by (cbn [wf]; rewrite erase_shape; auto).
    destruct d; cbn [inlen shape fst snd] in Hx.
    + destruct (IHe A Fwd (scatter S (snd (shape e)) cs x)) as [E1 R1];
        [apply vreal_scatter; auto | apply scatter_length |].
      assert (K1 : ap Fwd (Cols cs e) x = ap Fwd e (scatter S (snd (shape e)) cs x)).
      { cbn [ap]. destruct (explicitA e) as [A0|] eqn:EA; auto.
        rewrite (explicitA_dense _ _ EA) in D1. rewrite E1. rewrite (FC x Hx). rewrite D1. reflexivity. }
      assert (K2 : ap Fwd (erase (Cols cs e)) x = ap Fwd e (scatter S (snd (shape e)) cs x)).
      { cbn [erase]. rewrite (ap_fwd_dense _ x W2) by (unfold cols; cbn [shape snd]; auto).
        cbn [dense]. rewrite <- (FC x Hx). auto. }
      rewrite K1, K2. auto.
    + destruct (IHe A Adj x Rx Hx) as [E1 R1].
      assert (K1 : ap Adj (Cols cs e) x = gather S cs (ap Adj e x)).
      { cbn [ap]. destruct (explicitA e) as [A0|] eqn:EA; auto.
        rewrite (explicitA_dense _ _ EA) in D1. rewrite E1. rewrite (GC x Hx). rewrite D1. reflexivity. }
      assert (K2 : ap Adj (erase (Cols cs e)) x = gather S cs (ap Adj e x)).
      { cbn [erase]. rewrite (ap_adj_mvH _ x W2) by (unfold rows; cbn [shape fst]; rewrite erase_shape; auto).
        unfold cols. cbn [dense shape snd]. rewrite <- (GC x Hx). rewrite E1. auto. }
      rewrite K1, K2. split; auto. apply vreal_gather; auto.
  - (* VStack *) intros (Rl & Wc) d x Rx Hx. apply rwf_all_Forall in Rl. pose proof (Forall_mp _ _ _ H0 Rl) as HP. clear H0.
    destruct d; cbn [erase ap].
    + rewrite map_map.
      apply (cat_all_ext_real S (fun e => ap Fwd e) (fun e => ap Fwd (erase e))).
      apply Forall_forall. intros a Ha. apply (proj1 (Forall_forall _ _) HP a Ha); auto.
      cbn [inlen]. rewrite (proj1 (Forall_forall _ _) Wc a Ha). exact Hx.
    + change (VStack (map erase es)) with (erase (VStack es)). rewrite erase_shape. rewrite map_map.
      rewrite (map_ext (fun e => (fst (shape (erase e)), ap Adj (erase e))) (fun e => (fst (shape e), ap Adj (erase e))))
        by (intros; rewrite erase_shape; auto).
      apply (acc_slices_ext_real S (fun e => fst (shape e)) (fun e => ap Adj e) (fun e => ap Adj (erase e))); auto.
      apply Forall_forall. intros a Ha u Ru Lu. apply (proj1 (Forall_forall _ _) HP a Ha); auto.
  - (* HStack *) intros (Rl & Wc) d x Rx Hx. apply rwf_all_Forall in Rl. pose proof (Forall_mp _ _ _ H0 Rl) as HP. clear H0.
    destruct d; cbn [erase ap].
    + change (HStack (map erase es)) with (erase (HStack es)). rewrite erase_shape. rewrite map_map.
      rewrite (map_ext (fun e => (snd (shape (erase e)), ap Fwd (erase e))) (fun e => (snd (shape e), ap Fwd (erase e))))
        by (intros; rewrite erase_shape; auto).
      apply (acc_slices_ext_real S (fun e => snd (shape e)) (fun e => ap Fwd e) (fun e => ap Fwd (erase e))); auto.
      apply Forall_forall. intros a Ha u Ru Lu. apply (proj1 (Forall_forall _ _) HP a Ha); auto.
    + rewrite map_map.
      apply (cat_all_ext_real S (fun e => ap Adj e) (fun e => ap Adj (erase e))).
      apply Forall_forall. intros a Ha. apply (proj1 (Forall_forall _ _) HP a Ha); auto.
      cbn [inlen]. rewrite (proj1 (Forall_forall _ _) Wc a Ha). exact Hx.
  - (* BlockDiag *) intros Rl d x Rx Hx. apply rwf_all_Forall in Rl. pose proof (Forall_mp _ _ _ H0 Rl) as HP. clear H0.
    destruct d; cbn [erase ap]; rewrite map_map.
    + rewrite (map_ext (fun e => (snd (shape (erase e)), ap Fwd (erase e))) (fun e => (snd (shape e), ap Fwd (erase e))))
        by (intros; rewrite erase_shape; auto).
      apply (cat_slices_ext_real S (fun e => snd (shape e)) (fun e => ap Fwd e) (fun e => ap Fwd (erase e))); auto.
      apply Forall_forall. intros a Ha u Ru Lu. apply (proj1 (Forall_forall _ _) HP a Ha); auto.
    + rewrite (map_ext (fun e => (fst (shape (erase e)), ap Adj (erase e))) (fun e => (fst (shape e), ap Adj (erase e))))
        by (intros; rewrite erase_shape; auto).
      apply (cat_slices_ext_real S (fun e => fst (shape e)) (fun e => ap Adj e) (fun e => ap Adj (erase e))); auto.
      apply Forall_forall. intros a Ha u Ru Lu. apply (proj1 (Forall_forall _ _) HP a Ha); auto.
  - (* Kron *) intros (A & B) d x Rx Hx. destruct d; cbn [erase ap]; rewrite !erase_shape; cbn [inlen shape fst snd] in Hx.
    + apply kron_ap_ext_real; auto; intros u Ru Lu; first [apply (IHe2 B Fwd); auto; fail | apply (IHe1 A Fwd); auto; fail].
    + apply kron_ap_ext_real; auto; intros u Ru Lu; first [apply (IHe2 B Adj); auto; fail | apply (IHe1 A Adj); auto; fail].
  - intros (-> & -> & HA) d x Rx Hx. cbn [inlen shape] in Hx.
    assert (K : ap d e x = match d with Fwd => mv S (dense e) x | Adj => mvH S (snd (shape e)) (dense e) x end).
    { destruct HA as [Wa | Ra].
      - destruct d; [apply ap_fwd_dense | apply ap_adj_mvH]; auto.
      - destruct (IHe Ra d x Rx) as [E1 _]; [destruct d; auto|]. rewrite E1.
        destruct (rwf_erase e Ra) as [W1 D1].
        destruct d; [rewrite ap_fwd_dense | rewrite ap_adj_mvH]; auto; unfold rows, cols; rewrite ?erase_shape, ?D1; auto. }
    cbn [erase]. destruct d; cbn [ap]; rewrite K; destruct rl.
    + split; [apply vre_mv; auto | apply vreal_vre].
    + split; [apply vim_mv; auto | apply vreal_vim].
    + split; [apply vre_mvH; auto | apply vreal_vre].
    + split; [apply vnim_mvH; auto | apply vreal_vneg, vreal_vim].
Qed.

Theorem rap_fwd_dense e x : rwf e -> vreal S x -> length x = cols e -> ap Fwd e x = mv S (dense e) x.
Proof. intros R Rx Hx. destruct (ap_erase e R Fwd x Rx Hx) as [E _]. destruct (rwf_erase e R) as [W D].
  rewrite E, ap_fwd_dense, D; auto. unfold cols; rewrite erase_shape; auto. Qed.
Theorem rap_adj_dense e y : rwf e -> vreal S y -> length y = rows e ->
  ap Adj e y = mv S (ctranspose S (cols e) (dense e)) y.
Proof. intros R Ry Hy. destruct (ap_erase e R Adj y Ry Hy) as [E _]. destruct (rwf_erase e R) as [W D].
  rewrite E, ap_adj_dense; auto; unfold rows, cols; rewrite ?erase_shape, ?D; auto. Qed.
Theorem rap_real e d x : rwf e -> vreal S x -> length x = inlen d e -> vreal S (ap d e x).
Proof. intros R Rx Hx. apply ap_erase; auto. Qed.
(* dot test with the real inner product, on real vectors *)
Theorem rap_dot_test e x y : rwf e -> vreal S x -> vreal S y -> length x = cols e -> length y = rows e ->
  dotu S (ap Fwd e x) y = dotu S x (ap Adj e y).
Proof. intros R Rx Ry Hx Hy. destruct (ap_erase e R Fwd x Rx Hx) as [E1 R1]. destruct (ap_erase e R Adj y Ry Hy) as [E2 R2].
  destruct (rwf_erase e R) as [W D].
  pose proof (ap_dot_test (erase e) x y W) as P. unfold rows, cols in P. rewrite erase_shape in P.
  specialize (P Hx Hy). unfold dot in P. rewrite <- E1, <- E2 in P. rewrite R1, Rx in P. exact P. Qed.

(* any flags, root level, over a C-linear tree: as coded *)
Theorem realimag_fwd fw aj rl e x : wf e -> length x = cols e ->
  ap Fwd (RealImag fw aj rl e) x =
  (if fw then (if rl then vre S RI else vim S RI) else (fun y => y)) (mv S (dense e) x).
Proof. intros W Hx. cbn [ap]. rewrite ap_fwd_dense by auto. destruct fw, rl; reflexivity. Qed.
Theorem realimag_adj fw aj rl e y : wf e -> length y = rows e ->
  ap Adj (RealImag fw aj rl e) y =
  (if aj then (if rl then vre S RI else (fun v => vneg S (vim S RI v))) else (fun v => v))
    (mv S (ctranspose S (cols e) (dense e)) y).
Proof. intros W Hy. cbn [ap]. rewrite ap_adj_dense by auto. destruct aj, rl; reflexivity. Qed.
End Expr.

Arguments Leaf {S} m n M.
Arguments Add {S} a b. Arguments Sub {S} a b. Arguments Mul {S} a b.
Arguments Scale {S} alpha a. Arguments Neg {S} a. Arguments Pow {S} a p.
Arguments AdjW {S} a. Arguments TranspW {S} a. Arguments ConjE {S} a.
Arguments Cols {S} cs a. Arguments VStack {S} es. Arguments HStack {S} es. Arguments BlockDiag {S} es.
Arguments Kron {S} a b. Arguments RealImag {S} fw aj rl a.
