(* MatAlg.v — matrix algebra over list-of-rows matrices used by the operator
   expression semantics (C03): extensionality, transposition, products,
   identity/powers, block assembly, column selection, and the notion
   [repr m n D f g] = "f is x |-> D x and g is y |-> D^H y". *)
From PV Require Export Mat.
Local Open Scope R_scope.

Section MatAlgR.
Variable R : CRing.
Add Ring RrMA : (rth R).
Notation vec := (list R).
Notation mat := (list (list R)).

(* ---------- extensionality ---------- *)
Lemma dotu_cons a u b v : dotu R (a :: u) (b :: v) = a * b + dotu R u v.
Proof. reflexivity. Qed.

Lemma dotu_ext n (u v : vec) : length u = n -> length v = n ->
  (forall x, length x = n -> dotu R x u = dotu R x v) -> u = v.
Proof. revert u v; induction n as [|n IH]; intros [|a u] [|b v] Hu Hv H; simpl in *; try discriminate; auto.
  f_equal.
  - specialize (H (1 :: zeros R n)). simpl in H. rewrite !dotu_zeros_l in H.
    assert (E : 1 * a + 0 = 1 * b + 0) by (apply H; rewrite zeros_length; auto).
    transitivity (1 * a + 0); [ring|]. rewrite E; ring.
  - apply IH; try lia. intros x Hx. specialize (H (0 :: x)). simpl in H.
    assert (E : 0 * a + dotu R x u = 0 * b + dotu R x v) by (apply H; simpl; lia).
    transitivity (0 * a + dotu R x u); [ring|]. rewrite E; ring.
Qed.

Lemma mat_ext n (A B : mat) : wfM R n A -> wfM R n B -> length A = length B ->
  (forall x, length x = n -> mv R A x = mv R B x) -> A = B.
Proof. revert B; induction A as [|r A IH]; intros [|s B] WA WB L H; simpl in *; try discriminate; auto.
  inversion WA; inversion WB; subst. f_equal.
  - apply (dotu_ext (length r)); auto. intros x Hx. specialize (H x Hx). inversion H.
    rewrite (dotu_comm R x r), (dotu_comm R x s); auto.
  - apply IH; auto. intros x Hx. specialize (H x Hx). inversion H; auto.
Qed.

(* ---------- transposition ---------- *)
Lemma map2_cons_length (r : vec) (T : mat) : length (map2 cons r T) = Nat.min (length r) (length T).
Proof. apply map2_length. Qed.
Lemma transpose_length n M : wfM R n M -> length (transpose R n M) = n.
Proof. induction M as [|r M IH]; intros W; simpl; [apply repeat_length|].
  inversion W; subst. rewrite map2_length, IH; auto; lia. Qed.
Lemma wfM_map2_cons k (r : vec) (T : mat) : wfM R k T -> wfM R (S k) (map2 cons r T).
Proof. revert r; induction T as [|t T IH]; intros [|a r] W; simpl; try constructor.
  - inversion W; subst; simpl; auto.
  - inversion W; subst; apply IH; auto. Qed.
Lemma transpose_wf n M : wfM R (length M) (transpose R n M).
Proof. induction M as [|r M IH]; simpl.
  - unfold wfM. apply Forall_forall. intros x Hx. apply repeat_spec in Hx; subst; auto.
  - apply wfM_map2_cons; auto. Qed.

Lemma mv_nil_rows n : mv R (repeat [] n) [] = zeros R n.
Proof. induction n; simpl; auto. unfold zeros in *; simpl. f_equal; auto. Qed.
Lemma mv_map2_cons r T b y : length r = length T ->
  mv R (map2 cons r T) (b :: y) = vadd R (vscale R b r) (mv R T y).
Proof. revert T; induction r as [|a r IH]; intros [|t T] H; simpl in *; try discriminate; auto.
  unfold vadd in *; simpl. rewrite IH by lia. f_equal. ring. Qed.
Lemma mv_transpose n M y : wfM R n M -> length y = length M -> mv R (transpose R n M) y = mvT R n M y.
Proof. revert y; induction M as [|r M IH]; intros [|b y] W H; simpl in *; try discriminate.
  - apply mv_nil_rows.
  - inversion W; subst. rewrite mv_map2_cons by (rewrite transpose_length; auto). rewrite IH; auto. Qed.

Lemma mvT_nil_y n M : mvT R n M [] = zeros R n.
Proof. destruct M; reflexivity. Qed.

(* adjoint uniqueness in the bilinear form: g is M^T y as soon as it is the
   dotu-adjoint of M on y *)
Lemma mvT_unique n M y g : wfM R n M -> length y = length M -> length g = n ->
  (forall x, length x = n -> dotu R (mv R M x) y = dotu R x g) -> g = mvT R n M y.
Proof. intros W Hy Hg H. apply (dotu_ext n); auto. rewrite mvT_length; auto.
  intros x Hx. rewrite <- H by auto. apply dotu_mv_mvT; auto. Qed.

Lemma mv_transpose_transpose n M y : wfM R n M -> length y = n ->
  mv R (transpose R (length M) (transpose R n M)) y = mv R M y.
Proof. intros W Hy. rewrite mv_transpose; [| apply transpose_wf | rewrite transpose_length; auto].
  symmetry. apply mvT_unique; [apply transpose_wf | rewrite transpose_length; auto | apply mv_length |].
  intros x Hx. rewrite mv_transpose by auto. rewrite dotu_comm. rewrite <- (dotu_mv_mvT R n) by auto.
  apply dotu_comm. Qed.
Lemma transpose_involutive n M : wfM R n M -> transpose R (length M) (transpose R n M) = M.
Proof. intros W. apply (mat_ext n); auto.
  - pose proof (transpose_wf (length M) (transpose R n M)) as Q. rewrite transpose_length in Q; auto.
  - rewrite transpose_length; [auto | apply transpose_wf].
  - intros; apply mv_transpose_transpose; auto. Qed.

(* ---------- sums, scalings ---------- *)
Definition madd (A B : mat) : mat := map2 (vadd R) A B.
Definition msub (A B : mat) : mat := map2 (vsub R) A B.
Definition mscale (a : R) (A : mat) : mat := map (vscale R a) A.
Definition mneg (A : mat) : mat := map (vneg R) A.

Lemma madd_length A B : length (madd A B) = Nat.min (length A) (length B).
Proof. apply map2_length. Qed.
Lemma wfM_map2 n f (A B : mat) : (forall r s, length r = n -> length s = n -> length (f r s : vec) = n) ->
  wfM R n A -> wfM R n B -> wfM R n (map2 f A B).
Proof. intros Hf; revert B; induction A as [|r A IH]; intros [|s B] WA WB; simpl; try constructor.
  - inversion WA; inversion WB; subst; apply Hf; auto.
  - inversion WA; inversion WB; subst; apply IH; auto. Qed.
Lemma madd_wf n A B : wfM R n A -> wfM R n B -> wfM R n (madd A B).
Proof. apply wfM_map2. intros; rewrite vadd_length; lia. Qed.
Lemma msub_wf n A B : wfM R n A -> wfM R n B -> wfM R n (msub A B).
Proof. apply wfM_map2. intros; rewrite vsub_length; lia. Qed.
Lemma mscale_wf n a A : wfM R n A -> wfM R n (mscale a A).
Proof. intros W; apply Forall_map. eapply Forall_impl; eauto. simpl; intros; rewrite vscale_length; auto. Qed.
Lemma mneg_wf n A : wfM R n A -> wfM R n (mneg A).
Proof. intros W; apply Forall_map. eapply Forall_impl; eauto. simpl; intros; rewrite vneg_length; auto. Qed.

Lemma mv_madd n A B x : wfM R n A -> wfM R n B -> length A = length B -> length x = n ->
  mv R (madd A B) x = vadd R (mv R A x) (mv R B x).
Proof. revert B; induction A as [|r A IH]; intros [|s B] WA WB L Hx; simpl in *; try discriminate; auto.
  inversion WA; inversion WB; subst.
  change (dotu R (vadd R r s) x :: mv R (madd A B) x = (dotu R r x + dotu R s x) :: vadd R (mv R A x) (mv R B x)).
  f_equal; [apply dotu_vadd_l; congruence | apply IH; auto]. Qed.
Lemma mv_msub n A B x : wfM R n A -> wfM R n B -> length A = length B -> length x = n ->
  mv R (msub A B) x = vsub R (mv R A x) (mv R B x).
Proof. revert B; induction A as [|r A IH]; intros [|s B] WA WB L Hx; simpl in *; try discriminate; auto.
  inversion WA; inversion WB; subst.
  change (dotu R (vsub R r s) x :: mv R (msub A B) x = (dotu R r x - dotu R s x) :: vsub R (mv R A x) (mv R B x)).
  f_equal; [apply dotu_vsub_l; congruence | apply IH; auto]. Qed.
Lemma mv_mscale a A x : mv R (mscale a A) x = vscale R a (mv R A x).
Proof. unfold mv, mscale, vscale at 2; rewrite !map_map. apply map_ext; intros; apply dotu_vscale_l. Qed.
Lemma mv_mneg A x : mv R (mneg A) x = vneg R (mv R A x).
Proof. unfold mv, mneg, vneg at 2; rewrite !map_map. apply map_ext; intros; apply dotu_vneg_l. Qed.

(* ---------- products, identity, powers ---------- *)
(* p = number of columns of B *)
Definition mm (p : nat) (A B : mat) : mat := map (mvT R p B) A.
Definition ident (n : nat) : mat := map (unit R n) (seq 0 n).
Definition mpow (n : nat) (A : mat) (p : nat) : mat := Nat.iter p (mm n A) (ident n).

Lemma mm_length p A B : length (mm p A B) = length A.
Proof. apply map_length. Qed.
Lemma mm_wf p A B : wfM R p B -> wfM R p (mm p A B).
Proof. intros W. unfold mm. apply Forall_map. apply Forall_forall; intros r _. apply mvT_length; auto. Qed.
Lemma mv_mm p A B x : wfM R p B -> wfM R (length B) A -> length x = p ->
  mv R (mm p A B) x = mv R A (mv R B x).
Proof. intros WB WA Hx. unfold mm, mv at 1 2. rewrite map_map. apply map_ext_in. intros r Hr.
  rewrite dotu_comm, <- (dotu_mv_mvT R p); auto. apply dotu_comm.
  eapply Forall_forall in WA; eauto. Qed.

Lemma ident_length n : length (ident n) = n.
Proof. unfold ident; rewrite map_length, seq_length; auto. Qed.
Lemma ident_wf n : wfM R n (ident n).
Proof. unfold ident. apply Forall_map. apply Forall_forall; intros; apply unit_length. Qed.
Lemma map_nth_seq (x : vec) : map (fun j => nth j x 0) (seq 0 (length x)) = x.
Proof. induction x as [|a x IH]; simpl; auto. f_equal. rewrite <- seq_shift, map_map. exact IH. Qed.
Lemma mv_ident n x : length x = n -> mv R (ident n) x = x.
Proof. intros H. unfold mv, ident. rewrite map_map.
  transitivity (map (fun j => nth j x 0) (seq 0 n)); [| subst n; apply map_nth_seq].
  apply map_ext_in. intros j Hj. apply in_seq in Hj.
  rewrite dotu_comm. apply dotu_unit; auto; lia. Qed.

Lemma mpow_length n A p : length A = n -> length (mpow n A p) = n.
Proof. intros H; destruct p; simpl; [apply ident_length | rewrite mm_length; auto]. Qed.
Lemma mpow_wf n A p : wfM R n (mpow n A p).
Proof. induction p; simpl; [apply ident_wf | apply mm_wf; auto]. Qed.
Lemma mv_mpow n A p x : wfM R n A -> length A = n -> length x = n ->
  mv R (mpow n A p) x = Nat.iter p (mv R A) x.
Proof. intros W L Hx. induction p; simpl; [apply mv_ident; auto|].
  fold (mpow n A p). rewrite mv_mm; auto; [congruence | apply mpow_wf | rewrite mpow_length; auto]. Qed.

(* ---------- column selection / scatter / gather ---------- *)
Definition gather (cs : list nat) (v : vec) : vec := map (fun c => nth c v 0) cs.
Definition colsel (cs : list nat) (A : mat) : mat := map (gather cs) A.
Fixpoint upd (c : nat) (a : R) (v : vec) : vec :=
  match v, c with
  | [], _ => []
  | _ :: v', O => a :: v'
  | b :: v', S c' => b :: upd c' a v'
  end.
(* y = zeros n; y[cs] = x   (cs without repetitions) *)
Fixpoint scatter (n : nat) (cs : list nat) (x : vec) : vec :=
  match cs, x with
  | c :: cs', a :: x' => upd c a (scatter n cs' x')
  | _, _ => zeros R n
  end.

Lemma gather_length cs v : length (gather cs v) = length cs.
Proof. apply map_length. Qed.
Lemma colsel_wf cs A : wfM R (length cs) (colsel cs A).
Proof. apply Forall_map. apply Forall_forall; intros; apply gather_length. Qed.
Lemma colsel_length cs A : length (colsel cs A) = length A.
Proof. apply map_length. Qed.
Lemma upd_length c a v : length (upd c a v) = length v.
Proof. revert c; induction v as [|b v IH]; intros [|c]; simpl; auto. Qed.
Lemma scatter_length n cs x : length (scatter n cs x) = n.
Proof. revert x; induction cs as [|c cs IH]; intros [|a x]; simpl; try apply zeros_length.
  rewrite upd_length; auto. Qed.
Lemma nth_upd_same c a v : c < length v -> nth c (upd c a v) 0 = a.
Proof. revert c; induction v as [|b v IH]; intros [|c] H; simpl in *; try lia; auto. apply IH; lia. Qed.
Lemma nth_upd_other c d a v : c <> d -> nth d (upd c a v) 0 = nth d v 0.
Proof. revert c d; induction v as [|b v IH]; intros [|c] [|d] H; simpl; auto; try congruence. Qed.
Lemma nth_zeros n c : nth c (zeros R n) 0 = 0.
Proof. unfold zeros. revert c; induction n; intros [|c]; simpl; auto. Qed.
Lemma nth_scatter_notin n cs x c : ~ In c cs -> nth c (scatter n cs x) 0 = 0.
Proof. revert x; induction cs as [|d cs IH]; intros [|a x] H; simpl; try apply nth_zeros.
  rewrite nth_upd_other by (intros E; apply H; left; auto). apply IH. intros Q; apply H; right; auto. Qed.
Lemma dotu_upd r c a v : length r = length v -> c < length v ->
  dotu R r (upd c a v) = dotu R r v + nth c r 0 * (a - nth c v 0).
Proof. revert c v; induction r as [|s r IH]; intros c [|b v] L H; simpl in *; try lia.
  destruct c; simpl. ring. rewrite IH by lia. ring. Qed.
Lemma dotu_scatter n r cs x : length r = n -> NoDup cs -> Forall (fun c => c < n) cs -> length x = length cs ->
  dotu R r (scatter n cs x) = dotu R (gather cs r) x.
Proof. intros Hr. revert x; induction cs as [|c cs IH]; intros [|a x] ND B L; simpl in *; try discriminate.
  - apply dotu_zeros_r.
  - inversion ND; inversion B; subst.
    rewrite dotu_upd by (rewrite scatter_length; auto).
    rewrite nth_scatter_notin by auto. rewrite IH by (auto; lia). ring. Qed.
Lemma mv_scatter n A cs x : wfM R n A -> NoDup cs -> Forall (fun c => c < n) cs -> length x = length cs ->
  mv R A (scatter n cs x) = mv R (colsel cs A) x.
Proof. intros W ND B L. unfold mv, colsel. rewrite map_map. apply map_ext_in. intros r Hr.
  apply dotu_scatter; auto. eapply Forall_forall in W; eauto. Qed.
Lemma dotu_gather_scatter n cs x z : length z = n -> NoDup cs -> Forall (fun c => c < n) cs -> length x = length cs ->
  dotu R (scatter n cs x) z = dotu R x (gather cs z).
Proof. intros. rewrite dotu_comm, (dotu_scatter n) by auto. apply dotu_comm. Qed.

(* ---------- slices ---------- *)
Definition slice (a b : nat) (v : vec) : vec := firstn (b - a) (skipn a v).
Lemma skipn_add {A} r a (v : list A) : skipn (r + a) v = skipn a (skipn r v).
Proof. revert v; induction r; intros v; simpl; auto. destruct v; simpl; auto. destruct a; auto. Qed.
Lemma slice_shift r a b v : slice (r + a) (r + b) v = slice a b (skipn r v).
Proof. unfold slice. rewrite skipn_add. replace (r + b - (r + a))%nat with (b - a)%nat by lia. auto. Qed.
Lemma slice_0 b v : slice 0 b v = firstn b v.
Proof. unfold slice; simpl. rewrite Nat.sub_0_r; auto. Qed.

(* ---------- vertical / horizontal / diagonal assembly (binary) ---------- *)
Definition hcat (A B : mat) : mat := map2 (@app R) A B.
Definition bdiag (nA nB : nat) (A B : mat) : mat :=
  map (fun r => r ++ zeros R nB) A ++ map (fun r => zeros R nA ++ r) B.

Lemma vadd_zeros_l' n (u : vec) : length u = n -> vadd R (zeros R n) u = u.
Proof. intros <-; apply vadd_zeros_l. Qed.
Lemma vadd_zeros_r' n (u : vec) : length u = n -> vadd R u (zeros R n) = u.
Proof. intros <-; apply vadd_zeros_r. Qed.
Lemma mv_app A B x : mv R (A ++ B) x = mv R A x ++ mv R B x.
Proof. apply map_app. Qed.
Lemma wfM_app n A B : wfM R n A -> wfM R n B -> wfM R n (A ++ B).
Proof. apply Forall_app_intro || (intros; apply Forall_app; auto). Qed.
Lemma mvT_app n A B y : wfM R n A -> wfM R n B -> length y = (length A + length B)%nat ->
  mvT R n (A ++ B) y = vadd R (mvT R n A (firstn (length A) y)) (mvT R n B (skipn (length A) y)).
Proof. intros WA WB. revert y; induction A as [|r A IH]; intros y H; simpl in *.
  - symmetry. apply vadd_zeros_l'. apply mvT_length; auto.
  - destruct y as [|b y]; simpl in *; [lia|]. inversion WA; subst.
    rewrite IH by (auto; lia). apply vadd_assoc. Qed.

Lemma hcat_length A B : length (hcat A B) = Nat.min (length A) (length B).
Proof. apply map2_length. Qed.
Lemma hcat_wf nA nB A B : wfM R nA A -> wfM R nB B -> wfM R (nA + nB) (hcat A B).
Proof. revert B; induction A as [|r A IH]; intros [|s B] WA WB; simpl; try constructor.
  - inversion WA; inversion WB; subst. apply app_length.
  - inversion WA; inversion WB; subst. apply IH; auto. Qed.
Lemma dotu_app_split (r s x : vec) :
  dotu R (r ++ s) x = dotu R r (firstn (length r) x) + dotu R s (skipn (length r) x).
Proof. revert x; induction r as [|a r IHr]; intros [|b x]; simpl; try ring.
  - rewrite dotu_nil_r; ring.
  - rewrite IHr; ring. Qed.
Lemma mv_hcat nA A B x : wfM R nA A -> length A = length B ->
  mv R (hcat A B) x = vadd R (mv R A (firstn nA x)) (mv R B (skipn nA x)).
Proof. revert B; induction A as [|r A IH]; intros [|s B] WA L; simpl in *; try discriminate; auto.
  inversion WA; subst. unfold vadd at 1; simpl.
  fold (vadd R (mv R A (firstn (length r) x)) (mv R B (skipn (length r) x))).
  rewrite <- IH by auto. f_equal.
  apply dotu_app_split.
Qed.
Lemma mvT_hcat nA nB A B y : wfM R nA A -> wfM R nB B -> length A = length B ->
  mvT R (nA + nB) (hcat A B) y = mvT R nA A y ++ mvT R nB B y.
Proof. revert B y; induction A as [|r A IH]; intros [|s B] y WA WB L; simpl in *; try discriminate.
  - apply zeros_app.
  - destruct y as [|b y]; [apply zeros_app|]. inversion WA; inversion WB; subst.
    rewrite IH by auto. rewrite vscale_app. apply vadd_app. rewrite !vscale_length, mvT_length; auto. Qed.

Lemma mvT_padr n k A y : wfM R n A ->
  mvT R (n + k) (map (fun r => r ++ zeros R k) A) y = mvT R n A y ++ zeros R k.
Proof. revert y; induction A as [|r A IH]; intros [|b y] W; simpl; try apply zeros_app.
  inversion W; subst. rewrite IH by auto. rewrite vscale_app, vscale_zeros.
  rewrite vadd_app by (rewrite vscale_length, mvT_length; auto). f_equal.
  rewrite <- (zeros_length R k) at 1. apply vadd_zeros_l. Qed.
Lemma mvT_padl n k A y : wfM R n A ->
  mvT R (k + n) (map (fun r => zeros R k ++ r) A) y = zeros R k ++ mvT R n A y.
Proof. revert y; induction A as [|r A IH]; intros [|b y] W; simpl; try apply zeros_app.
  inversion W; subst. rewrite IH by auto. rewrite vscale_app, vscale_zeros.
  rewrite vadd_app by (rewrite !zeros_length; auto). f_equal.
  rewrite <- (zeros_length R k) at 1. apply vadd_zeros_l. Qed.
Lemma dotu_padr r k x : dotu R (r ++ zeros R k) x = dotu R r (firstn (length r) x).
Proof. revert x; induction r as [|a r IH]; intros [|b x]; simpl; auto.
  - apply dotu_zeros_l. - apply dotu_zeros_l. - rewrite IH; auto. Qed.
Lemma dotu_padl r k x : dotu R (zeros R k ++ r) x = dotu R r (skipn k x).
Proof. revert x; induction k as [|k IH]; intros x; simpl; auto.
  destruct x as [|b x]; simpl. destruct r; auto. rewrite IH. ring. Qed.
Lemma bdiag_wf nA nB A B : wfM R nA A -> wfM R nB B -> wfM R (nA + nB) (bdiag nA nB A B).
Proof. intros WA WB. unfold bdiag. apply wfM_app; apply Forall_map.
  - eapply Forall_impl; [|exact WA]. simpl; intros r Hr. rewrite app_length, zeros_length; lia.
  - eapply Forall_impl; [|exact WB]. simpl; intros r Hr. rewrite app_length, zeros_length; lia. Qed.
Lemma bdiag_length nA nB A B : length (bdiag nA nB A B) = (length A + length B)%nat.
Proof. unfold bdiag. rewrite app_length, !map_length; auto. Qed.
Lemma mv_bdiag nA nB A B x : wfM R nA A ->
  mv R (bdiag nA nB A B) x = mv R A (firstn nA x) ++ mv R B (skipn nA x).
Proof. intros WA. unfold bdiag. rewrite mv_app. f_equal; unfold mv; rewrite map_map.
  - apply map_ext_in. intros r Hr. rewrite dotu_padr. eapply Forall_forall in WA; eauto. simpl in WA. rewrite WA; auto.
  - apply map_ext. intros r. apply dotu_padl. Qed.

Lemma mv_nil_rows_any n (x : vec) : mv R (repeat [] n) x = zeros R n.
Proof. induction n; simpl; auto. unfold zeros in *; simpl. f_equal; auto. Qed.
Lemma mvT_zero_cols M y : wfM R 0 M -> mvT R 0 M y = [].
Proof. intros W. pose proof (mvT_length R 0 M y W) as L. destruct (mvT R 0 M y); simpl in *; auto; discriminate. Qed.
Lemma firstn_skipn_slice off k (v : vec) : firstn k (skipn off v) = slice off (off + k) v.
Proof. unfold slice. replace (off + k - off)%nat with k by lia. auto. Qed.
Lemma slice_length off k (v : vec) : length v = (off + k)%nat -> forall k1, (k1 <= k)%nat -> length (slice off (off + k1) v) = k1.
Proof. intros H k1 Hk. unfold slice. rewrite firstn_length, skipn_length. lia. Qed.

(* list-level block assembly *)
Definition hcat_all (m : nat) (Ds : list mat) : mat := fold_right hcat (repeat [] m) Ds.
Fixpoint bdiag_all (l : list (nat * mat)) : mat :=
  match l with
  | [] => []
  | (c, D) :: rest => bdiag c (list_sum (map fst rest)) D (bdiag_all rest)
  end.

(* the three traversal schemes of VStack / HStack / BlockDiag *)
Definition cat_all (fs : list (vec -> vec)) (x : vec) : vec := concat (map (fun f => f x) fs).
Fixpoint acc_slices (n : nat) (items : list (nat * (vec -> vec))) (off : nat) (x : vec) : vec :=
  match items with
  | [] => zeros R n
  | (k, f) :: rest => vadd R (f (slice off (off + k) x)) (acc_slices n rest (off + k) x)
  end.
Fixpoint cat_slices (items : list (nat * (vec -> vec))) (off : nat) (x : vec) : vec :=
  match items with
  | [] => []
  | (k, f) :: rest => f (slice off (off + k) x) ++ cat_slices rest (off + k) x
  end.

(* ---------- Kronecker product ---------- *)
(* r (x) w = [r_1 * w, r_2 * w, ...] *)
Definition ot (r w : vec) : vec := flat_map (fun a => vscale R a w) r.
Definition kron (A B : mat) : mat := flat_map (fun ra => map (fun rb => ot ra rb) B) A.
(* x.reshape(k, n): k chunks of length n *)
Fixpoint chunks (k n : nat) (x : vec) : list vec :=
  match k with O => [] | S k' => firstn n x :: chunks k' n (skipn n x) end.
(* Kronecker._matvec as coded, matmat = column loop:
     X = x.reshape(k1, k2); Y = Op2.matmat(X.T).T; Z = Op1.matmat(Y); Z.ravel() *)
Definition kron_ap (k1 k2 l2 l1 : nat) (f1 f2 : vec -> vec) (x : vec) : vec :=
  concat (transpose R l1 (map f1 (transpose R l2 (map f2 (chunks k1 k2 x))))).

Lemma ot_length r w : length (ot r w) = (length r * length w)%nat.
Proof. induction r as [|a r IH]; simpl; auto. unfold ot in *; simpl. rewrite app_length, vscale_length, IH; auto. Qed.
Lemma kron_length A B : length (kron A B) = (length A * length B)%nat.
Proof. induction A as [|ra A IH]; simpl; auto. unfold kron in *; simpl. rewrite app_length, map_length, IH; auto. Qed.
Lemma kron_wf n1 n2 A B : wfM R n1 A -> wfM R n2 B -> wfM R (n1 * n2) (kron A B).
Proof. intros WA WB. induction WA as [|ra A Hra WA IH]; simpl; [constructor|].
  unfold kron in *; simpl. apply wfM_app; auto. apply Forall_map. eapply Forall_impl; [|exact WB].
  simpl; intros rb Hrb. rewrite ot_length; congruence. Qed.
Lemma chunks_length k n x : length (chunks k n x) = k.
Proof. revert x; induction k; intros x; simpl; auto. Qed.
Lemma chunks_wf k n x : length x = (k * n)%nat -> wfM R n (chunks k n x).
Proof. revert x; induction k; intros x H; simpl; constructor.
  - rewrite firstn_length; simpl in H; lia.
  - apply IHk. rewrite skipn_length; simpl in H; lia. Qed.

Lemma transpose_map_map {X Y} (f : X -> Y -> R) (L1 : list X) (L2 : list Y) :
  transpose R (length L2) (map (fun a => map (fun b => f a b) L2) L1) = map (fun b => map (fun a => f a b) L1) L2.
Proof. induction L1 as [|a L1 IH]; simpl.
  - induction L2; simpl; auto. f_equal; auto.
  - rewrite IH. clear IH. induction L2 as [|b L2 IH2]; simpl; auto. f_equal; auto. Qed.

Lemma dotu_ot ra rb k x : length rb = k -> length x = (length ra * k)%nat ->
  dotu R (ot ra rb) x = dotu R ra (map (dotu R rb) (chunks (length ra) k x)).
Proof. intros Hk. revert x; induction ra as [|a ra IH]; intros x Hx; simpl; auto.
  unfold ot in *; simpl. rewrite <- (firstn_skipn k x) at 1.
  rewrite dotu_app by (rewrite vscale_length, firstn_length; simpl in Hx; lia).
  rewrite dotu_vscale_l, IH; auto. rewrite skipn_length; simpl in Hx; lia. Qed.

Lemma map_flat_map {X Y Z} (f : Y -> Z) (g : X -> list Y) l : map f (flat_map g l) = flat_map (fun a => map f (g a)) l.
Proof. induction l; simpl; auto. rewrite map_app, IHl; auto. Qed.
Lemma flat_map_ext_in {X Y} (f g : X -> list Y) l : (forall a, In a l -> f a = g a) -> flat_map f l = flat_map g l.
Proof. induction l; simpl; intros H; auto. rewrite H, IHl; auto. Qed.

(* (A (x) B) vec(X) = vec(A X B^T), with the two passes done as the code does *)
Lemma mv_kron_explicit n1 n2 A B x : wfM R n1 A -> wfM R n2 B -> length x = (n1 * n2)%nat ->
  mv R (kron A B) x = flat_map (fun ra => map (fun rb => dotu R ra (map (dotu R rb) (chunks n1 n2 x))) B) A.
Proof. intros WA WB Hx. unfold mv, kron. rewrite map_flat_map. apply flat_map_ext_in. intros ra Hra.
  rewrite map_map. apply map_ext_in. intros rb Hrb.
  pose proof (proj1 (Forall_forall _ _) WA ra Hra) as La. pose proof (proj1 (Forall_forall _ _) WB rb Hrb) as Lb.
  simpl in La, Lb. rewrite <- La. apply dotu_ot; auto. congruence. Qed.

Lemma kron_ap_explicit n1 n2 A B x : wfM R n1 A -> wfM R n2 B -> length x = (n1 * n2)%nat ->
  kron_ap n1 n2 (length B) (length A) (mv R A) (mv R B) x =
  flat_map (fun ra => map (fun rb => dotu R ra (map (dotu R rb) (chunks n1 n2 x))) B) A.
Proof. intros WA WB Hx. unfold kron_ap. set (X := chunks n1 n2 x).
  unfold mv at 2. rewrite (transpose_map_map (fun xr rb => dotu R rb xr) X B).
  rewrite map_map. unfold mv. rewrite (transpose_map_map (fun rb ra => dotu R ra (map (fun xr => dotu R rb xr) X)) B A).
  rewrite <- flat_map_concat_map. apply flat_map_ext_in. intros ra _. reflexivity. Qed.

Lemma mv_kron n1 n2 A B x : wfM R n1 A -> wfM R n2 B -> length x = (n1 * n2)%nat ->
  mv R (kron A B) x = kron_ap n1 n2 (length B) (length A) (mv R A) (mv R B) x.
Proof. intros. rewrite (mv_kron_explicit n1 n2), (kron_ap_explicit n1 n2); auto. Qed.

Lemma kron_ap_ext k1 k2 l2 l1 f1 f2 g1 g2 x : length x = (k1 * k2)%nat ->
  (forall u, length u = k2 -> f2 u = g2 u) -> (forall u, length u = l2 -> length (g2 u) = l2) ->
  (forall u, length u = k1 -> f1 u = g1 u) ->
  (forall u, length u = k2 -> length (g2 u) = l2) ->
  kron_ap k1 k2 l2 l1 f1 f2 x = kron_ap k1 k2 l2 l1 g1 g2 x.
Proof. intros Hx E2 _ E1 L2. unfold kron_ap. f_equal. f_equal.
  assert (EQ : map f2 (chunks k1 k2 x) = map g2 (chunks k1 k2 x)).
  { apply map_ext_in. intros u Hu. apply E2. eapply Forall_forall in Hu; [|apply chunks_wf; eauto]. auto. }
  rewrite EQ. apply map_ext_in. intros u Hu. apply E1.
  assert (W : wfM R (length (map g2 (chunks k1 k2 x))) (transpose R l2 (map g2 (chunks k1 k2 x)))) by apply transpose_wf.
  eapply Forall_forall in W; eauto. simpl in W. rewrite W, map_length, chunks_length; auto. Qed.

(* bilinearity of (x) in its second argument *)
Lemma ot_vadd r u v : length u = length v -> ot r (vadd R u v) = vadd R (ot r u) (ot r v).
Proof. intros H. induction r as [|a r IH]; simpl; auto. unfold ot in *; simpl.
  rewrite vscale_vadd, IH. symmetry; apply vadd_app. rewrite !vscale_length; auto. Qed.
Lemma ot_vscale r b u : ot r (vscale R b u) = vscale R b (ot r u).
Proof. induction r as [|a r IH]; simpl; auto. unfold ot in *; simpl. rewrite vscale_app, IH. f_equal.
  rewrite !vscale_vscale. f_equal. ring. Qed.
Lemma ot_zeros r n : ot r (zeros R n) = zeros R (length r * n).
Proof. induction r as [|a r IH]; simpl; auto. unfold ot in *; simpl. rewrite IH, vscale_zeros. symmetry; apply zeros_app. Qed.
Lemma mvT_map_ot n2 ra B y : wfM R n2 B ->
  mvT R (length ra * n2) (map (fun rb => ot ra rb) B) y = ot ra (mvT R n2 B y).
Proof. revert y; induction B as [|rb B IH]; intros [|b y] W; simpl; try (symmetry; apply ot_zeros).
  inversion W; subst. rewrite IH by auto. rewrite ot_vadd, ot_vscale; auto.
  rewrite vscale_length, mvT_length; auto. Qed.
Lemma mv_flat_map_mscale ra B' y : mv R (flat_map (fun a => map (vscale R a) B') ra) y = ot ra (mv R B' y).
Proof. induction ra as [|a ra IH]; simpl; auto. unfold ot in *; simpl. rewrite mv_app, IH. f_equal.
  apply (mv_mscale a B' y). Qed.
Lemma hcat_app A1 A2 B1 B2 : length A1 = length B1 -> hcat (A1 ++ A2) (B1 ++ B2) = hcat A1 B1 ++ hcat A2 B2.
Proof. revert B1; induction A1 as [|r A1 IH]; intros [|s B1] H; simpl in *; try discriminate; auto.
  unfold hcat in *; simpl. rewrite IH; auto. Qed.
Lemma kron_cons_cols ra T B' : length ra = length T ->
  kron (map2 cons ra T) B' = hcat (flat_map (fun a => map (vscale R a) B') ra) (kron T B').
Proof. revert T; induction ra as [|a ra IH]; intros [|t T] H; simpl in *; try discriminate; auto.
  unfold kron in *; simpl. rewrite hcat_app by (rewrite !map_length; auto). rewrite <- IH by lia. f_equal.
  unfold hcat. clear. induction B'; simpl; auto. f_equal; auto. Qed.
Lemma mv_empty_rows (M : mat) y : Forall (fun r => r = []) M -> mv R M y = zeros R (length M).
Proof. induction 1; simpl; auto. subst. unfold zeros in *; simpl. f_equal; auto. Qed.

(* (A (x) B)^T y = (A^T (x) B^T) y *)
Lemma mvT_kron n1 n2 A B y : wfM R n1 A -> wfM R n2 B -> length y = (length A * length B)%nat ->
  mvT R (n1 * n2) (kron A B) y = mv R (kron (transpose R n1 A) (transpose R n2 B)) y.
Proof. intros WA WB. revert y. induction A as [|ra A IH]; intros y Hy.
  - simpl. symmetry. rewrite mv_empty_rows.
    + rewrite kron_length, repeat_length, transpose_length; auto.
    + unfold kron. apply Forall_forall. intros r Hr. apply in_flat_map in Hr. destruct Hr as (e & He & Hr).
      apply repeat_spec in He; subst. apply in_map_iff in Hr. destruct Hr as (? & <- & _). reflexivity.
  - inversion WA; subst. simpl transpose. rewrite kron_cons_cols by (rewrite transpose_length; auto).
    unfold kron at 1; simpl. fold (kron A B).
    assert (W1 : wfM R (length ra * n2) (map (fun rb => ot ra rb) B)).
    { apply Forall_map. eapply Forall_impl; [|exact WB]. simpl; intros rb Hrb. rewrite ot_length; congruence. }
    rewrite mvT_app; auto; [| apply kron_wf; auto | rewrite map_length, kron_length; simpl in Hy; lia].
    rewrite map_length.
    rewrite (mv_hcat (length B)).
    + f_equal.
      * rewrite mvT_map_ot by auto. rewrite mv_flat_map_mscale. f_equal.
        symmetry. apply mv_transpose; auto. rewrite firstn_length; simpl in Hy; lia.
      * apply IH; auto. rewrite skipn_length; simpl in Hy; lia.
    + apply Forall_forall. intros r Hr. apply in_flat_map in Hr. destruct Hr as (a & _ & Hr).
      apply in_map_iff in Hr. destruct Hr as (t & <- & Ht). rewrite vscale_length.
      pose proof (transpose_wf n2 B) as Q. eapply Forall_forall in Q; eauto.
    + rewrite kron_length, transpose_length, transpose_length; auto.
      clear -WB. induction ra; simpl; auto. rewrite app_length, map_length, IHra, transpose_length; auto.
Qed.
End MatAlgR.


Section MatAlgS.
Variable S : StarRing.
Add Ring RrMAS : (rth S).
Notation vec := (list S).
Notation mat := (list (list S)).

Lemma dot_ext n (u v : vec) : length u = n -> length v = n ->
  (forall x, length x = n -> dot S x u = dot S x v) -> u = v.
Proof. intros Hu Hv H. apply (dotu_ext S n); auto. intros x Hx.
  specialize (H (vconj S x)). unfold dot in H. rewrite vconj_invol in H. apply H. rewrite vconj_length; auto. Qed.

Lemma mvH_length n M y : wfM S n M -> length (mvH S n M y) = n.
Proof. intros; unfold mvH; apply mvT_length; apply wfM_mconj; auto. Qed.
Lemma mconj_length (M : mat) : length (mconj S M) = length M.
Proof. apply map_length. Qed.
Lemma mconj_invol (M : mat) : mconj S (mconj S M) = M.
Proof. unfold mconj. rewrite map_map. rewrite <- (map_id M) at 2. apply map_ext; intros; apply vconj_invol. Qed.
Lemma ctranspose_length n M : wfM S n M -> length (ctranspose S n M) = n.
Proof. intros; unfold ctranspose; apply transpose_length; apply wfM_mconj; auto. Qed.
Lemma ctranspose_wf n M : wfM S (length M) (ctranspose S n M).
Proof. unfold ctranspose. rewrite <- (mconj_length M). apply transpose_wf. Qed.
Lemma mv_ctranspose n M y : wfM S n M -> length y = length M -> mv S (ctranspose S n M) y = mvH S n M y.
Proof. intros; unfold ctranspose, mvH. apply mv_transpose; [apply wfM_mconj; auto | rewrite mconj_length; auto]. Qed.

(* g is M^H y as soon as it is the adjoint of M on y *)
Lemma mvH_unique n M y g : wfM S n M -> length y = length M -> length g = n ->
  (forall x, length x = n -> dot S (mv S M x) y = dot S x g) -> g = mvH S n M y.
Proof. intros W Hy Hg H. apply (dot_ext n); auto. apply mvH_length; auto.
  intros x Hx. rewrite <- H by auto. apply dot_mv_mvH; auto. Qed.

Lemma vconj_mvT n M y : wfM S n M -> vconj S (mvT S n M y) = mvT S n (mconj S M) (vconj S y).
Proof. revert y; induction M as [|r M IH]; intros [|b y] W; simpl; try apply vconj_zeros.
  inversion W; subst. rewrite vconj_vadd, vconj_vscale, IH; auto. Qed.
Lemma mconj_transpose n (M : mat) : mconj S (transpose S n M) = transpose S n (mconj S M).
Proof. induction M as [|r M IH]; simpl.
  - unfold mconj. induction n; simpl; auto. f_equal; auto.
  - rewrite <- IH. generalize (transpose S n M). clear. induction r as [|a r IHr]; intros [|t T]; simpl; auto.
    f_equal. apply IHr. Qed.

(* ---------- represented linear maps ---------- *)
Definition repr (m n : nat) (D : mat) (f g : vec -> vec) : Prop :=
  wfM S n D /\ length D = m /\
  (forall x, length x = n -> f x = mv S D x) /\
  (forall y, length y = m -> g y = mvH S n D y).

Lemma repr_len_f m n D f g x : repr m n D f g -> length x = n -> length (f x) = m.
Proof. intros (W & L & F & G) H. rewrite F, mv_length; auto. Qed.
Lemma repr_len_g m n D f g y : repr m n D f g -> length y = m -> length (g y) = n.
Proof. intros (W & L & F & G) H. rewrite G, mvH_length; auto. Qed.
Lemma repr_pair m n D f g x y : repr m n D f g -> length x = n -> length y = m ->
  dot S (f x) y = dot S x (g y).
Proof. intros (W & L & F & G) Hx Hy. rewrite F, G by auto. apply dot_mv_mvH; auto; congruence. Qed.

(* introduce repr from the forward law + adjoint pairing *)
Lemma repr_intro m n D (f g : vec -> vec) : wfM S n D -> length D = m ->
  (forall x, length x = n -> f x = mv S D x) ->
  (forall y, length y = m -> length (g y) = n) ->
  (forall x y, length x = n -> length y = m -> dot S (f x) y = dot S x (g y)) ->
  repr m n D f g.
Proof. intros W L F Lg P. repeat split; auto. intros y Hy. apply mvH_unique; auto; try congruence.
  intros x Hx. rewrite <- F by auto. apply P; auto. Qed.

Lemma repr_leaf m n D : wfM S n D -> length D = m -> repr m n D (mv S D) (mvH S n D).
Proof. intros; repeat split; auto. Qed.

Lemma repr_add m n A B fa ga fb gb : repr m n A fa ga -> repr m n B fb gb ->
  repr m n (madd S A B) (fun x => vadd S (fa x) (fb x)) (fun y => vadd S (ga y) (gb y)).
Proof. intros HA HB. pose proof HA as (WA & LA & FA & GA). pose proof HB as (WB & LB & FB & GB).
  apply repr_intro.
  - apply madd_wf; auto.
  - rewrite madd_length; lia.
  - intros x Hx. rewrite (mv_madd S n), FA, FB by (auto; congruence). auto.
  - intros y Hy. rewrite vadd_length, (repr_len_g _ _ _ _ _ _ HA), (repr_len_g _ _ _ _ _ _ HB); auto; lia.
  - intros x y Hx Hy. rewrite dot_vadd_l, dot_vadd_r.
    + rewrite (repr_pair _ _ _ _ _ _ _ HA), (repr_pair _ _ _ _ _ _ _ HB); auto.
    + rewrite (repr_len_g _ _ _ _ _ _ HA), (repr_len_g _ _ _ _ _ _ HB); auto.
    + rewrite (repr_len_f _ _ _ _ _ _ HA), (repr_len_f _ _ _ _ _ _ HB); auto. Qed.

Lemma repr_scale m n A fa ga a ca : ca = conj S a -> repr m n A fa ga ->
  repr m n (mscale S a A) (fun x => vscale S a (fa x)) (fun y => vscale S ca (ga y)).
Proof. intros -> HA. pose proof HA as (WA & LA & FA & GA). apply repr_intro.
  - apply mscale_wf; auto.
  - unfold mscale; rewrite map_length; auto.
  - intros x Hx. rewrite mv_mscale, FA; auto.
  - intros y Hy. rewrite vscale_length. eapply repr_len_g; eauto.
  - intros x y Hx Hy. rewrite dot_vscale_l, dot_vscale_r. rewrite (repr_pair _ _ _ _ _ _ _ HA); auto. Qed.

Lemma repr_ext m n D f g f' g' : repr m n D f g -> (forall x, f' x = f x) -> (forall y, g' y = g y) -> repr m n D f' g'.
Proof. intros (W & L & F & G) Ef Eg. repeat split; auto; intros; [rewrite Ef | rewrite Eg]; auto. Qed.
Lemma repr_mat_eq m n D D' f g : repr m n D f g -> wfM S n D' -> length D' = m ->
  (forall x, length x = n -> mv S D' x = mv S D x) -> repr m n D' f g.
Proof. intros H W' L' E. pose proof H as (W & L & F & G).
  assert (D' = D) by (apply (mat_ext S n); auto; congruence). subst; auto. Qed.

Lemma repr_mul m k n A B fa ga fb gb : repr m k A fa ga -> repr k n B fb gb ->
  repr m n (mm S n A B) (fun x => fa (fb x)) (fun y => gb (ga y)).
Proof. intros HA HB. pose proof HA as (WA & LA & FA & GA). pose proof HB as (WB & LB & FB & GB).
  apply repr_intro.
  - apply mm_wf; auto.
  - rewrite mm_length; auto.
  - intros x Hx. rewrite mv_mm; auto; try congruence. rewrite <- FB by auto. apply FA.
    eapply repr_len_f; eauto.
  - intros y Hy. eapply repr_len_g; eauto. eapply repr_len_g; eauto.
  - intros x y Hx Hy. rewrite (repr_pair _ _ _ _ _ _ _ HA); auto; [| eapply repr_len_f; eauto].
    apply (repr_pair _ _ _ _ _ _ _ HB); auto. eapply repr_len_g; eauto. Qed.

Lemma iter_len {A} (P : A -> Prop) (f : A -> A) p x : (forall z, P z -> P (f z)) -> P x -> P (Nat.iter p f x).
Proof. intros Hf Hx; induction p; simpl; auto. Qed.
Lemma iter_comm {A} (f : A -> A) p x : Nat.iter p f (f x) = f (Nat.iter p f x).
Proof. induction p; simpl; auto. rewrite IHp; auto. Qed.
Lemma iter_ext_len {A} (P : A -> Prop) (f f' : A -> A) p x : (forall z, P z -> P (f z)) -> (forall z, P z -> f' z = f z) ->
  P x -> Nat.iter p f' x = Nat.iter p f x.
Proof. intros Hf E Hx; induction p; simpl; auto. rewrite IHp. apply E. apply iter_len; auto. Qed.

Lemma repr_pow n A fa ga p : repr n n A fa ga ->
  repr n n (mpow S n A p) (fun x => Nat.iter p fa x) (fun y => Nat.iter p ga y).
Proof. intros HA. pose proof HA as (WA & LA & FA & GA). apply repr_intro.
  - apply mpow_wf.
  - apply mpow_length; auto.
  - intros x Hx. rewrite mv_mpow by auto.
    apply (iter_ext_len (fun z => length z = n)); auto. intros; rewrite mv_length; auto.
  - intros y Hy. apply (iter_len (fun z => length z = n)); auto. intros; eapply repr_len_g; eauto.
  - intros x y Hx Hy. revert x y Hx Hy. induction p; intros x y Hx Hy; simpl; auto.
    rewrite (repr_pair _ _ _ _ _ _ _ HA); auto.
    + rewrite IHp; auto. rewrite iter_comm; auto. eapply repr_len_g; eauto.
    + apply (iter_len (fun z => length z = n)); auto. intros; eapply repr_len_f; eauto. Qed.

Lemma dot_vconj_l u v : dot S (vconj S u) v = dotu S u v.
Proof. unfold dot; rewrite vconj_invol; auto. Qed.

(* the _AdjointLinearOperator wrapper: swap the two maps *)
Lemma repr_adj m n A fa ga : repr m n A fa ga -> repr n m (ctranspose S n A) ga fa.
Proof. intros HA. pose proof HA as (WA & LA & FA & GA). apply repr_intro.
  - rewrite <- LA. apply ctranspose_wf.
  - apply ctranspose_length; auto.
  - intros y Hy. rewrite GA by auto. symmetry; apply mv_ctranspose; auto; congruence.
  - intros; eapply repr_len_f; eauto.
  - intros y x Hy Hx. rewrite <- (dot_conj_sym S x (ga y)). rewrite <- (repr_pair _ _ _ _ _ _ _ HA) by auto.
    apply dot_conj_sym. Qed.

(* the _ConjLinearOperator wrapper *)
Lemma repr_conj m n A fa ga : repr m n A fa ga ->
  repr m n (mconj S A) (fun x => vconj S (fa (vconj S x))) (fun y => vconj S (ga (vconj S y))).
Proof. intros HA. pose proof HA as (WA & LA & FA & GA). apply repr_intro.
  - apply wfM_mconj; auto.
  - rewrite mconj_length; auto.
  - intros x Hx. rewrite FA by (rewrite vconj_length; auto). rewrite vconj_mv, vconj_invol; auto.
  - intros y Hy. rewrite vconj_length. eapply repr_len_g; eauto. rewrite vconj_length; auto.
  - intros x y Hx Hy. rewrite dot_vconj_l. unfold dot. rewrite <- conj_dotu.
    pose proof (repr_pair _ _ _ _ _ (vconj S x) (vconj S y) HA) as P.
    unfold dot in P. rewrite vconj_invol in P. rewrite <- P by (rewrite vconj_length; auto).
    rewrite <- conj_dotu. rewrite conj_invol. reflexivity. Qed.

(* the _TransposedLinearOperator wrapper: conj . adjoint . conj *)
Lemma transpose_as_conj_ctranspose n A : transpose S n A = mconj S (ctranspose S n A).
Proof. unfold ctranspose. rewrite mconj_transpose, mconj_invol; auto. Qed.
Lemma repr_transp m n A fa ga : repr m n A fa ga ->
  repr n m (transpose S n A) (fun x => vconj S (ga (vconj S x))) (fun y => vconj S (fa (vconj S y))).
Proof. intros HA. rewrite transpose_as_conj_ctranspose. apply repr_conj. apply repr_adj; auto. Qed.

(* ---------- stacks ---------- *)
Lemma mconj_app (A B : mat) : mconj S (A ++ B) = mconj S A ++ mconj S B.
Proof. apply map_app. Qed.
Lemma mconj_hcat (A B : mat) : mconj S (hcat S A B) = hcat S (mconj S A) (mconj S B).
Proof. revert B; induction A as [|r A IH]; intros [|s B]; simpl; auto.
  unfold hcat in *; simpl. rewrite <- IH. unfold vconj; rewrite map_app; reflexivity. Qed.
Lemma mconj_bdiag nA nB (A B : mat) : mconj S (bdiag S nA nB A B) = bdiag S nA nB (mconj S A) (mconj S B).
Proof. unfold bdiag, mconj. rewrite map_app, !map_map. f_equal; apply map_ext; intros r;
  rewrite vconj_app, vconj_zeros; auto. Qed.
Lemma mvH_app n A B y : wfM S n A -> wfM S n B -> length y = (length A + length B)%nat ->
  mvH S n (A ++ B) y = vadd S (mvH S n A (firstn (length A) y)) (mvH S n B (skipn (length A) y)).
Proof. intros WA WB H. unfold mvH. rewrite mconj_app.
  rewrite mvT_app; [rewrite !mconj_length; auto | apply wfM_mconj; auto | apply wfM_mconj; auto | rewrite !mconj_length; auto]. Qed.
Lemma mvH_hcat nA nB A B y : wfM S nA A -> wfM S nB B -> length A = length B ->
  mvH S (nA + nB) (hcat S A B) y = mvH S nA A y ++ mvH S nB B y.
Proof. intros. unfold mvH. rewrite mconj_hcat. apply mvT_hcat; [apply wfM_mconj; auto | apply wfM_mconj; auto | rewrite !mconj_length; auto]. Qed.
Lemma mvH_bdiag nA nB A B y : wfM S nA A -> wfM S nB B -> length y = (length A + length B)%nat ->
  mvH S (nA + nB) (bdiag S nA nB A B) y = mvH S nA A (firstn (length A) y) ++ mvH S nB B (skipn (length A) y).
Proof. intros WA WB H. unfold mvH. rewrite mconj_bdiag. unfold bdiag.
  pose proof (wfM_mconj S _ _ WA) as WA'. pose proof (wfM_mconj S _ _ WB) as WB'.
  rewrite mvT_app.
  - rewrite !map_length, mconj_length. rewrite mvT_padr, (mvT_padl S nB nA) by auto.
    rewrite vadd_app by (rewrite mvT_length, zeros_length; auto). f_equal.
    + apply vadd_zeros_r' . apply mvT_length; auto.
    + apply vadd_zeros_l'. apply mvT_length; auto.
  - apply Forall_map. eapply Forall_impl; [|exact WA']. simpl; intros r Hr. rewrite app_length, zeros_length; lia.
  - apply Forall_map. eapply Forall_impl; [|exact WB']. simpl; intros r Hr. rewrite app_length, zeros_length; lia.
  - rewrite !map_length, !mconj_length; auto. Qed.

Section Stacks.
Context {E : Type}.
Variables (rw cl : E -> nat) (dn : E -> mat) (fw bw : E -> vec -> vec).

Lemma concat_wf n es : Forall (fun e => wfM S n (dn e)) es -> wfM S n (concat (map dn es)).
Proof. induction 1; simpl; [constructor | apply wfM_app; auto]. Qed.
Lemma concat_rows es : Forall (fun e => length (dn e) = rw e) es -> length (concat (map dn es)) = list_sum (map rw es).
Proof. induction 1; simpl; auto. rewrite app_length; congruence. Qed.

Lemma repr_vstack n es : Forall (fun e => repr (rw e) n (dn e) (fw e) (bw e)) es ->
  repr (list_sum (map rw es)) n (concat (map dn es)) (cat_all S (map fw es))
       (acc_slices S n (map (fun e => (rw e, bw e)) es) 0).
Proof. intros H.
  assert (W : wfM S n (concat (map dn es))) by (apply concat_wf; eapply Forall_impl; [|exact H]; intros e (?&?&?&?); auto).
  assert (L : length (concat (map dn es)) = list_sum (map rw es))
    by (apply concat_rows; eapply Forall_impl; [|exact H]; intros e (?&?&?&?); auto).
  repeat split; auto.
  - intros x Hx. unfold cat_all. induction H as [|e es He Hes IH]; simpl; auto.
    rewrite mv_app. f_equal. destruct He as (?&?&F&?); apply F; auto.
    apply IH. apply concat_wf; eapply Forall_impl; [|exact Hes]; intros e' (?&?&?&?); auto.
    apply concat_rows; eapply Forall_impl; [|exact Hes]; intros e' (?&?&?&?); auto.
  - intros y Hy. rewrite <- (skipn_O y) at 2. change (length y = (0 + list_sum (map rw es))%nat) in Hy.
    clear W L. revert Hy. generalize 0%nat as off. induction H as [|e es He Hes IH]; intros off Hy; simpl; auto.
    assert (We : wfM S n (concat (map dn es))) by (apply concat_wf; eapply Forall_impl; [|exact Hes]; intros e' (?&?&?&?); auto).
    assert (Le : length (concat (map dn es)) = list_sum (map rw es))
      by (apply concat_rows; eapply Forall_impl; [|exact Hes]; intros e' (?&?&?&?); auto).
    destruct He as (We0 & Le0 & F & G). simpl in Hy.
    rewrite mvH_app; auto; [| rewrite skipn_length; lia].
    rewrite Le0, firstn_skipn_slice, <- skipn_add. f_equal.
    + apply G. apply (slice_length S off (rw e + list_sum (map rw es))); auto; lia.
    + apply IH. lia.
Qed.

Lemma hcat_all_wf m es : Forall (fun e => wfM S (cl e) (dn e) /\ length (dn e) = m) es ->
  wfM S (list_sum (map cl es)) (hcat_all S m (map dn es)) /\ length (hcat_all S m (map dn es)) = m.
Proof. induction 1 as [|e es [We Le] Hes [IW IL]]; simpl.
  - split; [| apply repeat_length]. apply Forall_forall. intros x Hx. apply repeat_spec in Hx; subst; auto.
  - split; [apply hcat_wf; auto | rewrite hcat_length; lia]. Qed.

Lemma repr_hstack m es : Forall (fun e => repr m (cl e) (dn e) (fw e) (bw e)) es ->
  repr m (list_sum (map cl es)) (hcat_all S m (map dn es))
       (acc_slices S m (map (fun e => (cl e, fw e)) es) 0) (cat_all S (map bw es)).
Proof. intros H.
  assert (HW : forall es', Forall (fun e => repr m (cl e) (dn e) (fw e) (bw e)) es' ->
     wfM S (list_sum (map cl es')) (hcat_all S m (map dn es')) /\ length (hcat_all S m (map dn es')) = m).
  { intros es' H'. apply hcat_all_wf. eapply Forall_impl; [|exact H']. intros e (?&?&?&?); auto. }
  destruct (HW es H) as [W L]. repeat split; auto.
  - intros x Hx. rewrite <- (skipn_O x) at 2. change (length x = (0 + list_sum (map cl es))%nat) in Hx.
    clear W L. revert Hx. generalize 0%nat as off. induction H as [|e es He Hes IH]; intros off Hx; simpl.
    + symmetry; apply mv_nil_rows_any.
    + destruct (HW es Hes) as [W L]. destruct He as (We0 & Le0 & F & G). simpl in Hx.
      rewrite (mv_hcat S (cl e)) by (auto; congruence).
      rewrite firstn_skipn_slice, <- skipn_add. f_equal.
      * apply F. apply (slice_length S off (cl e + list_sum (map cl es))); auto; lia.
      * apply IH. lia.
  - intros y Hy. unfold cat_all. clear W L. induction H as [|e es He Hes IH]; simpl.
    + symmetry. apply mvT_zero_cols. apply wfM_mconj. apply Forall_forall. intros x Hx. apply repeat_spec in Hx; subst; auto.
    + destruct (HW es Hes) as [W L]. destruct He as (We0 & Le0 & F & G).
      rewrite mvH_hcat by (auto; congruence). f_equal; auto.
Qed.

Lemma bdiag_all_wf es : Forall (fun e => wfM S (cl e) (dn e) /\ length (dn e) = rw e) es ->
  wfM S (list_sum (map cl es)) (bdiag_all S (map (fun e => (cl e, dn e)) es)) /\
  length (bdiag_all S (map (fun e => (cl e, dn e)) es)) = list_sum (map rw es).
Proof. induction 1 as [|e es [We Le] Hes [IW IL]]; simpl.
  - split; [constructor | auto].
  - rewrite map_map; simpl. split; [apply bdiag_wf; auto | rewrite bdiag_length; lia]. Qed.

Lemma repr_blockdiag es : Forall (fun e => repr (rw e) (cl e) (dn e) (fw e) (bw e)) es ->
  repr (list_sum (map rw es)) (list_sum (map cl es)) (bdiag_all S (map (fun e => (cl e, dn e)) es))
       (cat_slices S (map (fun e => (cl e, fw e)) es) 0) (cat_slices S (map (fun e => (rw e, bw e)) es) 0).
Proof. intros H.
  assert (HW : forall es', Forall (fun e => repr (rw e) (cl e) (dn e) (fw e) (bw e)) es' ->
     wfM S (list_sum (map cl es')) (bdiag_all S (map (fun e => (cl e, dn e)) es')) /\
     length (bdiag_all S (map (fun e => (cl e, dn e)) es')) = list_sum (map rw es')).
  { intros es' H'. apply bdiag_all_wf. eapply Forall_impl; [|exact H']. intros e (?&?&?&?); auto. }
  destruct (HW es H) as [W L]. repeat split; auto.
  - intros x Hx. rewrite <- (skipn_O x) at 2. change (length x = (0 + list_sum (map cl es))%nat) in Hx.
    clear W L. revert Hx. generalize 0%nat as off. induction H as [|e es He Hes IH]; intros off Hx; simpl; auto.
    destruct He as (We0 & Le0 & F & G). simpl in Hx. rewrite map_map; simpl.
    rewrite mv_bdiag by auto. rewrite firstn_skipn_slice, <- skipn_add. f_equal.
    + apply F. apply (slice_length S off (cl e + list_sum (map cl es))); auto; lia.
    + apply IH. lia.
  - intros y Hy. rewrite <- (skipn_O y) at 2. change (length y = (0 + list_sum (map rw es))%nat) in Hy.
    clear W L. revert Hy. generalize 0%nat as off. induction H as [|e es He Hes IH]; intros off Hy; simpl; auto.
    destruct (HW es Hes) as [W L]. destruct He as (We0 & Le0 & F & G). simpl in Hy. rewrite map_map; simpl.
    rewrite mvH_bdiag; auto; [| rewrite skipn_length; lia].
    rewrite Le0, firstn_skipn_slice, <- skipn_add. f_equal.
    + apply G. apply (slice_length S off (rw e + list_sum (map rw es))); auto; lia.
    + apply IH. lia.
Qed.
End Stacks.

(* ---------- column selection (non-explicit path: scatter / gather) ---------- *)
Lemma vconj_gather cs (v : vec) : Forall (fun c => c < length v) cs -> vconj S (gather S cs v) = gather S cs (vconj S v).
Proof. intros H. unfold gather, vconj. rewrite map_map. apply map_ext_in. intros c Hc.
  eapply Forall_forall in H; eauto.
  rewrite <- (conj_zero S) at 2. rewrite map_nth. auto. Qed.
Lemma vconj_scatter n cs (x : vec) : vconj S (scatter S n cs x) = scatter S n cs (vconj S x).
Proof. revert x; induction cs as [|c cs IH]; intros [|a x]; simpl; try apply vconj_zeros.
  rewrite <- IH. generalize (scatter S n cs x). clear. intros v; revert c; induction v as [|b v IHv]; intros [|c]; simpl; auto.
  f_equal; apply IHv. Qed.
Lemma repr_cols m n A fa ga cs : repr m n A fa ga -> NoDup cs -> Forall (fun c => c < n) cs ->
  repr m (length cs) (colsel S cs A) (fun x => fa (scatter S n cs x)) (fun y => gather S cs (ga y)).
Proof. intros HA ND B. pose proof HA as (WA & LA & FA & GA). apply repr_intro.
  - apply colsel_wf.
  - rewrite colsel_length; auto.
  - intros x Hx. rewrite FA by apply scatter_length. apply mv_scatter; auto.
  - intros; apply gather_length.
  - intros x y Hx Hy. rewrite (repr_pair _ _ _ _ _ _ _ HA); auto; [| apply scatter_length].
    unfold dot. rewrite vconj_scatter. apply dotu_gather_scatter; auto.
    + eapply repr_len_g; eauto.
    + rewrite vconj_length; auto. Qed.

(* ---------- Kronecker ---------- *)
Lemma vconj_ot r w : vconj S (ot S r w) = ot S (vconj S r) (vconj S w).
Proof. induction r as [|a r IH]; simpl; auto. unfold ot in *; simpl. rewrite vconj_app, vconj_vscale, IH; auto. Qed.
Lemma mconj_kron (A B : mat) : mconj S (kron S A B) = kron S (mconj S A) (mconj S B).
Proof. induction A as [|ra A IH]; simpl; auto. unfold kron in *; simpl. rewrite mconj_app, IH. f_equal.
  unfold mconj. rewrite !map_map. apply map_ext. intros; apply vconj_ot. Qed.

Lemma repr_kron m1 n1 m2 n2 A B fa ga fb gb : repr m1 n1 A fa ga -> repr m2 n2 B fb gb ->
  repr (m1 * m2) (n1 * n2) (kron S A B) (kron_ap S n1 n2 m2 m1 fa fb) (kron_ap S m1 m2 n2 n1 ga gb).
Proof. intros HA HB. pose proof HA as (WA & LA & FA & GA). pose proof HB as (WB & LB & FB & GB).
  repeat split.
  - apply kron_wf; auto.
  - rewrite kron_length; congruence.
  - intros x Hx. rewrite (mv_kron S n1 n2) by auto. rewrite LA, LB.
    apply kron_ap_ext; auto; intros; rewrite ?mv_length; auto.
  - intros y Hy. unfold mvH. rewrite mconj_kron.
    rewrite (mvT_kron S n1 n2) by (auto using wfM_mconj; rewrite !mconj_length; congruence).
    fold (ctranspose S n1 A). fold (ctranspose S n2 B).
    rewrite (mv_kron S m1 m2); [| rewrite <- LA; apply ctranspose_wf | rewrite <- LB; apply ctranspose_wf | auto].
    rewrite !ctranspose_length by auto.
    apply kron_ap_ext; auto; intros.
    + rewrite GB by auto. symmetry; apply mv_ctranspose; auto; congruence.
    + rewrite mv_length, ctranspose_length; auto.
    + rewrite GA by auto. symmetry; apply mv_ctranspose; auto; congruence.
    + rewrite mv_length, ctranspose_length; auto.
Qed.
End MatAlgS.

(* ---------- real / imaginary parts (for toreal / toimag) ---------- *)
Definition isreal (S : StarRing) (a : S) : Prop := conj S a = a.
Record ReIm (S : StarRing) := {
  re : S -> S; im : S -> S;
  re_real : forall a, isreal S (re a);
  im_real : forall a, isreal S (im a);
  re_add : forall a b, re (radd S a b) = radd S (re a) (re b);
  im_add : forall a b, im (radd S a b) = radd S (im a) (im b);
  re_mulr : forall a b, isreal S b -> re (rmul S a b) = rmul S (re a) b;
  im_mulr : forall a b, isreal S b -> im (rmul S a b) = rmul S (im a) b;
  re_of_real : forall a, isreal S a -> re a = a;
  im_of_real : forall a, isreal S a -> im a = r0 S;
  re_conj : forall a, re (conj S a) = re a;
  im_conj : forall a, im (conj S a) = ropp S (im a) }.
Arguments re {S} r a. Arguments im {S} r a.

Section ReImS.
Variable S : StarRing.
Variable RI : ReIm S.
Add Ring RrRI : (rth S).
Notation vec := (list S).
Notation mat := (list (list S)).

Definition vreal (x : vec) : Prop := vconj S x = x.
Definition vre (x : vec) : vec := map (re RI) x.
Definition vim (x : vec) : vec := map (im RI) x.
Definition mre (M : mat) : mat := map vre M.
Definition mim (M : mat) : mat := map vim M.

Lemma isreal_zero : isreal S 0.
Proof. apply conj_zero. Qed.
Lemma isreal_m1 : isreal S (- (1)).
Proof. unfold isreal. rewrite conj_opp, conj_one; auto. Qed.
Lemma vreal_cons a x : vreal (a :: x) <-> isreal S a /\ vreal x.
Proof. unfold vreal, isreal; simpl; split; [intros H; inversion H; split; congruence | intros [-> ->]; auto]. Qed.
Lemma vreal_nil : vreal [].
Proof. reflexivity. Qed.
Lemma vreal_vre x : vreal (vre x).
Proof. induction x; simpl; [reflexivity | apply vreal_cons; split; auto; apply re_real]. Qed.
Lemma vreal_vim x : vreal (vim x).
Proof. induction x; simpl; [reflexivity | apply vreal_cons; split; auto; apply im_real]. Qed.
Lemma vreal_vadd x y : vreal x -> vreal y -> vreal (vadd S x y).
Proof. unfold vreal; intros Hx Hy. rewrite vconj_vadd, Hx, Hy; auto. Qed.
Lemma vreal_vscale a x : isreal S a -> vreal x -> vreal (vscale S a x).
Proof. unfold vreal, isreal; intros Ha Hx. rewrite vconj_vscale, Ha, Hx; auto. Qed.
Lemma vreal_vneg x : vreal x -> vreal (vneg S x).
Proof. intros; rewrite vneg_vscale; apply vreal_vscale; auto using isreal_m1. Qed.
Lemma vreal_vconj x : vreal x -> vreal (vconj S x).
Proof. unfold vreal; intros H; rewrite !H; auto. Qed.
Lemma vreal_zeros n : vreal (zeros S n).
Proof. apply vconj_zeros. Qed.
Lemma vreal_app x y : vreal x -> vreal y -> vreal (x ++ y).
Proof. unfold vreal; intros Hx Hy. rewrite vconj_app, Hx, Hy; auto. Qed.
Lemma vreal_firstn k x : vreal x -> vreal (firstn k x).
Proof. unfold vreal, vconj; intros H. rewrite <- firstn_map, H; auto. Qed.
Lemma vreal_skipn k x : vreal x -> vreal (skipn k x).
Proof. unfold vreal, vconj; intros H. rewrite <- skipn_map, H; auto. Qed.
Lemma vreal_mv M x : mconj S M = M -> vreal x -> vreal (mv S M x).
Proof. unfold vreal; intros HM Hx. rewrite vconj_mv, HM, Hx; auto. Qed.
Lemma vreal_mvH n M x : wfM S n M -> mconj S M = M -> vreal x -> vreal (mvH S n M x).
Proof. unfold vreal, mvH; intros W HM Hx. rewrite vconj_mvT by (rewrite HM; auto). rewrite !HM, Hx; auto. Qed.

Lemma re_zero : re RI 0 = 0.
Proof. apply re_of_real, isreal_zero. Qed.
Lemma im_zero : im RI 0 = 0.
Proof. apply im_of_real, isreal_zero. Qed.
Lemma re_dotu r x : vreal x -> re RI (dotu S r x) = dotu S (vre r) x.
Proof. revert x; induction r as [|a r IH]; intros [|b x] H; simpl; try apply re_zero.
  apply vreal_cons in H; destruct H. rewrite re_add, re_mulr, IH; auto. Qed.
Lemma im_dotu r x : vreal x -> im RI (dotu S r x) = dotu S (vim r) x.
Proof. revert x; induction r as [|a r IH]; intros [|b x] H; simpl; try apply im_zero.
  apply vreal_cons in H; destruct H. rewrite im_add, im_mulr, IH; auto. Qed.
Lemma vre_mv M x : vreal x -> vre (mv S M x) = mv S (mre M) x.
Proof. intros H. unfold vre, mv, mre. rewrite !map_map. apply map_ext; intros; apply re_dotu; auto. Qed.
Lemma vim_mv M x : vreal x -> vim (mv S M x) = mv S (mim M) x.
Proof. intros H. unfold vim, mv, mim. rewrite !map_map. apply map_ext; intros; apply im_dotu; auto. Qed.

Lemma vre_vadd u v : vre (vadd S u v) = vadd S (vre u) (vre v).
Proof. revert v; induction u as [|a u IH]; intros [|b v]; simpl; auto. unfold vadd, vre in *; simpl. rewrite re_add, IH; auto. Qed.
Lemma vim_vadd u v : vim (vadd S u v) = vadd S (vim u) (vim v).
Proof. revert v; induction u as [|a u IH]; intros [|b v]; simpl; auto. unfold vadd, vim in *; simpl. rewrite im_add, IH; auto. Qed.
Lemma vre_vscale b u : isreal S b -> vre (vscale S b u) = vscale S b (vre u).
Proof. intros H. unfold vre, vscale. rewrite !map_map. apply map_ext. intros a.
  replace (b * a) with (a * b) by ring. rewrite re_mulr by auto. ring. Qed.
Lemma vim_vscale b u : isreal S b -> vim (vscale S b u) = vscale S b (vim u).
Proof. intros H. unfold vim, vscale. rewrite !map_map. apply map_ext. intros a.
  replace (b * a) with (a * b) by ring. rewrite im_mulr by auto. ring. Qed.
Lemma vre_zeros n : vre (zeros S n) = zeros S n.
Proof. unfold vre, zeros. induction n; simpl; auto. rewrite re_zero, IHn; auto. Qed.
Lemma vim_zeros n : vim (zeros S n) = zeros S n.
Proof. unfold vim, zeros. induction n; simpl; auto. rewrite im_zero, IHn; auto. Qed.
Lemma vre_vconj u : vre (vconj S u) = vre u.
Proof. unfold vre, vconj. rewrite map_map. apply map_ext; intros; apply re_conj. Qed.
Lemma vim_vconj u : vim (vconj S u) = vneg S (vim u).
Proof. unfold vim, vconj, vneg. rewrite !map_map. apply map_ext; intros; apply im_conj. Qed.
Lemma mconj_mre M : mconj S (mre M) = mre M.
Proof. unfold mconj, mre. rewrite map_map. apply map_ext; intros; apply vreal_vre. Qed.
Lemma mconj_mim M : mconj S (mim M) = mim M.
Proof. unfold mconj, mim. rewrite map_map. apply map_ext; intros; apply vreal_vim. Qed.
Lemma mre_wf n M : wfM S n M -> wfM S n (mre M).
Proof. intros W. apply Forall_map. eapply Forall_impl; [|exact W]. simpl; intros; unfold vre; rewrite map_length; auto. Qed.
Lemma mim_wf n M : wfM S n M -> wfM S n (mim M).
Proof. intros W. apply Forall_map. eapply Forall_impl; [|exact W]. simpl; intros; unfold vim; rewrite map_length; auto. Qed.

(* Re(M^H y) = Re(M)^T y and -Im(M^H y) = Im(M)^T y for real y *)
Lemma vre_mvH n M y : vreal y -> vre (mvH S n M y) = mvH S n (mre M) y.
Proof. unfold mvH. rewrite mconj_mre. revert y. induction M as [|r M IH]; intros [|b y] H; simpl; try apply vre_zeros.
  apply vreal_cons in H; destruct H. rewrite vre_vadd, vre_vscale, vre_vconj, IH; auto. Qed.
Lemma vneg_vadd u v : vneg S (vadd S u v) = vadd S (vneg S u) (vneg S v).
Proof. rewrite !vneg_vscale. apply vscale_vadd. Qed.
Lemma vneg_zeros n : vneg S (zeros S n) = zeros S n.
Proof. rewrite vneg_vscale. apply vscale_zeros. Qed.
Lemma vnim_mvH n M y : vreal y -> vneg S (vim (mvH S n M y)) = mvH S n (mim M) y.
Proof. unfold mvH. rewrite mconj_mim. revert y. induction M as [|r M IH]; intros [|b y] H; simpl;
    try (rewrite vim_zeros; apply vneg_zeros).
  apply vreal_cons in H; destruct H. rewrite vim_vadd, vneg_vadd, IH by auto. f_equal.
  rewrite vim_vscale, vim_vconj by auto. rewrite !vneg_vscale, !vscale_vscale. f_equal. ring. Qed.
End ReImS.

(* ---------- real-input extensionality of the traversal schemes
   (used for toreal/toimag below stacks / apply_columns / Kronecker) ---------- *)
Section RealExt.
Variable S : StarRing.
Notation vec := (list S).
Notation mat := (list (list S)).

Lemma mreal_cons (r : vec) (M : mat) : mconj S (r :: M) = r :: M <-> vreal S r /\ mconj S M = M.
Proof. unfold vreal; simpl; split; [intros H; inversion H; split; congruence | intros [-> ->]; auto]. Qed.
Lemma mreal_in (M : mat) u : mconj S M = M -> In u M -> vreal S u.
Proof. induction M as [|r M IH]; simpl; intros H []; apply mreal_cons in H; destruct H; subst; auto. Qed.
Lemma mreal_map {X} (f : X -> vec) l : (forall a, In a l -> vreal S (f a)) -> mconj S (map f l) = map f l.
Proof. intros H. unfold mconj. rewrite map_map. apply map_ext_in. intros a Ha. apply H; auto. Qed.
Lemma vreal_concat (M : mat) : mconj S M = M -> vreal S (concat M).
Proof. intros H. unfold vreal, vconj. rewrite concat_map. change (map (map (conj S)) M) with (mconj S M). rewrite H; auto. Qed.
Lemma mreal_chunks k n (x : vec) : vreal S x -> mconj S (chunks S k n x) = chunks S k n x.
Proof. revert x; induction k; intros x H; simpl; auto. apply mreal_cons. split; [apply vreal_firstn | apply IHk, vreal_skipn]; auto. Qed.
Lemma mreal_transpose n (M : mat) : mconj S M = M -> mconj S (transpose S n M) = transpose S n M.
Proof. intros H. rewrite mconj_transpose, H; auto. Qed.
Lemma vreal_slice a b (x : vec) : vreal S x -> vreal S (slice S a b x).
Proof. intros; unfold slice. apply vreal_firstn, vreal_skipn; auto. Qed.
Lemma vreal_scatter n cs (x : vec) : vreal S x -> vreal S (scatter S n cs x).
Proof. unfold vreal; intros H. rewrite vconj_scatter, H; auto. Qed.
Lemma vreal_gather cs (v : vec) : vreal S v -> vreal S (gather S cs v).
Proof. unfold vreal, gather, vconj; intros H. rewrite map_map. apply map_ext. intros c.
  rewrite <- H at 2. rewrite <- (conj_zero S) at 2. symmetry. apply map_nth. Qed.

Lemma kron_ap_ext_real k1 k2 l2 l1 (f1 f2 g1 g2 : vec -> vec) x : length x = (k1 * k2)%nat -> vreal S x ->
  (forall u, vreal S u -> length u = k2 -> f2 u = g2 u /\ vreal S (f2 u)) ->
  (forall u, vreal S u -> length u = k1 -> f1 u = g1 u /\ vreal S (f1 u)) ->
  kron_ap S k1 k2 l2 l1 f1 f2 x = kron_ap S k1 k2 l2 l1 g1 g2 x /\ vreal S (kron_ap S k1 k2 l2 l1 f1 f2 x).
Proof. intros Hx Rx E2 E1. unfold kron_ap.
  pose proof (mreal_chunks k1 k2 x Rx) as RC. pose proof (chunks_wf S k1 k2 x Hx) as WC.
  assert (EQ2 : map f2 (chunks S k1 k2 x) = map g2 (chunks S k1 k2 x)).
  { apply map_ext_in. intros u Hu. apply E2; [eapply mreal_in; eauto | eapply Forall_forall in WC; eauto]. }
  assert (R2 : mconj S (map f2 (chunks S k1 k2 x)) = map f2 (chunks S k1 k2 x)).
  { apply mreal_map. intros u Hu. apply E2; [eapply mreal_in; eauto | eapply Forall_forall in WC; eauto]. }
  set (Y := map f2 (chunks S k1 k2 x)) in *.
  assert (LT : forall u, In u (transpose S l2 Y) -> vreal S u /\ length u = k1).
  { intros u Hu. split.
    - apply (mreal_in (transpose S l2 Y)); auto. apply mreal_transpose; auto.
    - pose proof (proj1 (Forall_forall _ _) (transpose_wf S l2 Y) u Hu) as W. simpl in W.
      rewrite W. unfold Y. rewrite map_length, chunks_length; auto. }
  assert (EQ1 : map f1 (transpose S l2 Y) = map g1 (transpose S l2 Y)).
  { apply map_ext_in. intros u Hu. destruct (LT u Hu). apply E1; auto. }
  split.
  - rewrite <- EQ2. fold Y. rewrite EQ1. reflexivity.
  - apply vreal_concat. apply mreal_transpose. apply mreal_map. intros u Hu. destruct (LT u Hu). apply E1; auto.
Qed.

Section StacksReal.
Context {E : Type}.
Variables (key : E -> nat) (f g : E -> vec -> vec).

Lemma cat_all_ext_real es x :
  Forall (fun e => f e x = g e x /\ vreal S (f e x)) es ->
  cat_all S (map f es) x = cat_all S (map g es) x /\ vreal S (cat_all S (map f es) x).
Proof. unfold cat_all. induction 1 as [|e es [E1 R1] _ [IE IR]]; simpl; [split; reflexivity|].
  rewrite !map_map in *. split; [rewrite E1, IE; auto | apply vreal_app; auto]. Qed.

Lemma acc_slices_ext_real n es :
  Forall (fun e => forall u, vreal S u -> length u = key e -> f e u = g e u /\ vreal S (f e u)) es ->
  forall off x, vreal S x -> length x = (off + list_sum (map key es))%nat ->
  acc_slices S n (map (fun e => (key e, f e)) es) off x = acc_slices S n (map (fun e => (key e, g e)) es) off x /\
  vreal S (acc_slices S n (map (fun e => (key e, f e)) es) off x).
Proof. induction 1 as [|e es He _ IH]; intros off x Rx Hx; simpl.
  - split; [reflexivity | apply vreal_zeros].
  - simpl in Hx. destruct (He (slice S off (off + key e) x)) as [E1 R1].
    + apply vreal_slice; auto.
    + apply (slice_length S off (key e + list_sum (map key es))); auto; lia.
    + destruct (IH (off + key e)%nat x Rx) as [E2 R2]; [lia|].
      split; [rewrite E1, E2; auto | apply vreal_vadd; auto].
Qed.

Lemma cat_slices_ext_real es :
  Forall (fun e => forall u, vreal S u -> length u = key e -> f e u = g e u /\ vreal S (f e u)) es ->
  forall off x, vreal S x -> length x = (off + list_sum (map key es))%nat ->
  cat_slices S (map (fun e => (key e, f e)) es) off x = cat_slices S (map (fun e => (key e, g e)) es) off x /\
  vreal S (cat_slices S (map (fun e => (key e, f e)) es) off x).
Proof. induction 1 as [|e es He _ IH]; intros off x Rx Hx; simpl.
  - split; reflexivity.
  - simpl in Hx. destruct (He (slice S off (off + key e) x)) as [E1 R1].
    + apply vreal_slice; auto.
    + apply (slice_length S off (key e + list_sum (map key es))); auto; lia.
    + destruct (IH (off + key e)%nat x Rx) as [E2 R2]; [lia|].
      split; [rewrite E1, E2; auto | apply vreal_app; auto].
Qed.
End StacksReal.
End RealExt.
