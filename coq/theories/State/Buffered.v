(* Buffered.v — operators that carry internal buffers (pyFFTW plans: the
   input is copied into an aligned buffer, the plan writes the other buffer,
   the result is a COPY of it; real-FFT rescaling is done on the buffer, never
   on the caller's array).  Heap model: locations 0 and 1 are the operator's
   buffers, locations >= 2 belong to the caller (inputs and returned arrays).
   A history is any sequence of calls and of caller writes into arrays the
   caller holds.  Stateless operators are the special case in which the
   buffers are never read. *)
From Coq Require Import List Arith Lia Bool.
Import ListNotations.

Section Buffered.
Variable V : Type.
Variable prep : bool -> V -> V.      (* what is copied into the plan's input buffer (shift / pad / rescale) *)
Variable plan : bool -> V -> V.      (* the transform executed from input buffer to output buffer *)
Variable post : bool -> V -> V.      (* post-processing applied to the COPY of the output buffer *)
Definition f (d : bool) (x : V) : V := post d (plan d (prep d x)).

Definition loc := nat.
Definition heap := loc -> V.
Definition upd (h : heap) (l : loc) (v : V) : heap := fun k => if Nat.eqb k l then v else h k.
Definition inbuf (d : bool) : loc := if d then 0 else 1.
Definition outbuf (d : bool) : loc := if d then 1 else 0.

Inductive ev := Call (d : bool) (src : loc) | Write (l : loc) (v : V).
Record st := { hp : heap; next : loc }.

(* one call as coded: copyto(buffer, prep x); plan(); result = post(copy(out buffer)) *)
Definition call (copyout : bool) (s : st) (d : bool) (src : loc) : st * loc :=
  let x := hp s src in
  let h1 := upd (hp s) (inbuf d) (prep d x) in
  let h2 := upd h1 (outbuf d) (plan d (prep d x)) in
  if copyout then ({| hp := upd h2 (next s) (post d (plan d (prep d x))); next := S (next s) |}, next s)
  else ({| hp := h2; next := next s |}, outbuf d).

Definition step (copyout : bool) (s : st) (e : ev) : st * option loc :=
  match e with
  | Call d src => let (s', r) := call copyout s d src in (s', Some r)
  | Write l v => ({| hp := upd (hp s) l v; next := next s |}, None)
  end.

Fixpoint run (copyout : bool) (s : st) (es : list ev) : st * list (option loc) :=
  match es with
  | [] => (s, [])
  | e :: es' => let (s1, r) := step copyout s e in let (s2, rs) := run copyout s1 es' in (s2, r :: rs)
  end.

(* the caller only touches locations it owns *)
Definition ev_ok (n : loc) (e : ev) : Prop :=
  match e with Call _ src => 2 <= src < n | Write l _ => 2 <= l < n end.
Fixpoint hist_ok (n : loc) (es : list ev) : Prop :=
  match es with
  | [] => True
  | e :: es' => ev_ok n e /\ hist_ok (match e with Call _ _ => S n | Write _ _ => n end) es'
  end.

Lemma upd_same h l v : upd h l v l = v.
Proof. unfold upd. rewrite Nat.eqb_refl. reflexivity. Qed.
Lemma upd_other h l v k : k <> l -> upd h l v k = h k.
Proof. unfold upd. intros H. destruct (Nat.eqb_spec k l); [contradiction | reflexivity]. Qed.
Lemma inbuf_lt2 d : inbuf d < 2. Proof. destruct d; simpl; lia. Qed.
Lemma outbuf_lt2 d : outbuf d < 2. Proof. destruct d; simpl; lia. Qed.

(* ---- one call, as coded (result is a copy) ---- *)
Theorem call_result s d src : 2 <= next s -> 2 <= src < next s ->
  let (s', r) := call true s d src in
  r = next s /\ next s' = S (next s) /\ hp s' r = f d (hp s src) /\
  (forall l, 2 <= l -> l <> r -> hp s' l = hp s l).
Proof.
  intros Hn Hs. unfold call. simpl. repeat split.
  - apply upd_same.
  - intros l Hl Hr. pose proof (inbuf_lt2 d). pose proof (outbuf_lt2 d).
    rewrite !upd_other by lia. reflexivity.
Qed.

(* ---- every history ---- *)
(* value the k-th returned array should hold: f applied to the value the
   input had when the call was made; by the theorem below it still holds it
   at the end of ANY history unless the caller itself overwrote that array. *)
Definition written (l : loc) (es : list ev) : Prop := exists v, In (Write l v) es.

Theorem results_persist : forall es s, 2 <= next s -> hist_ok (next s) es ->
  forall l, 2 <= l < next s -> ~ written l es -> hp (fst (run true s es)) l = hp s l.
Proof.
  induction es as [|e es IH]; intros s Hn Hok l Hl Hw; simpl; [reflexivity|].
  destruct Hok as [He Hok].
  destruct e as [d src | l' v]; simpl in *.
  - destruct (run true _ es) as [s2 rs] eqn:E. simpl.
    change s2 with (fst (s2, rs)). rewrite <- E.
    rewrite IH; simpl; try lia.
    + pose proof (inbuf_lt2 d). pose proof (outbuf_lt2 d). rewrite !upd_other by lia. reflexivity.
    + exact Hok.
    + intros [v Hv]. apply Hw. exists v. right. exact Hv.
  - destruct (run true _ es) as [s2 rs] eqn:E. simpl.
    change s2 with (fst (s2, rs)). rewrite <- E.
    rewrite IH; simpl; try lia.
    + apply upd_other. intros ->. apply Hw. exists v. left. reflexivity.
    + exact Hok.
    + intros [v' Hv]. apply Hw. exists v'. right. exact Hv.
Qed.

(* a call made after any history returns f of its current input, in a fresh
   array, whatever was computed before (history independence) *)
Theorem call_after_history : forall es s d src, 2 <= next s -> hist_ok (next s) es ->
  let s1 := fst (run true s es) in 2 <= src < next s1 ->
  let (s', r) := call true s1 d src in hp s' r = f d (hp s1 src) /\ r = next s1.
Proof. intros es s d src Hn Hok s1 Hs. unfold call; simpl. split; [apply upd_same | reflexivity]. Qed.

Lemma step_next_ge c s e : next s <= next (fst (step c s e)).
Proof. destruct e as [d src|l v]; simpl; [destruct c; simpl; lia | lia]. Qed.
Lemma run_next_ge : forall es c s, next s <= next (fst (run c s es)).
Proof. induction es as [|e es IH]; intros c s; simpl; [lia|].
  destruct (step c s e) as [s1 r] eqn:E1. destruct (run c s1 es) as [s2 rs] eqn:E2. simpl.
  pose proof (step_next_ge c s e) as H1. rewrite E1 in H1. simpl in H1.
  pose proof (IH c s1) as H2. rewrite E2 in H2. simpl in H2. lia. Qed.

(* inputs are never modified by the operator: follows from results_persist
   (an input is just a caller-owned array that the caller did not overwrite) *)
Corollary input_intact : forall es s d src, 2 <= next s -> 2 <= src < next s -> hist_ok (S (next s)) es ->
  ~ written src es -> hp (fst (run true s (Call d src :: es))) src = hp s src.
Proof.
  intros es s d src Hn Hs Hok Hw.
  apply (results_persist (Call d src :: es) s Hn); [split; [exact Hs | exact Hok] | exact Hs |].
  intros [v [Hv | Hv]]; [discriminate | apply Hw; exists v; exact Hv].
Qed.
End Buffered.

(* ---- the variant WITHOUT the copy is refuted: a later call changes an
   earlier result (the reason for `.copy()` in the code) ---- *)
Example nocopy_refuted :
  let s0 := {| hp := fun l => if Nat.eqb l 2 then 5 else if Nat.eqb l 3 then 7 else 0; next := 4 |} in
  let id2 := fun (_ : bool) (x : nat) => x in
  let '(s1, r1) := call nat id2 (fun _ x => 2 * x) id2 false s0 true 2 in
  let v1 := hp nat s1 r1 in
  let '(s2, _) := call nat id2 (fun _ x => 2 * x) id2 false s1 true 3 in
  v1 = 10 /\ hp nat s2 r1 = 14.
Proof. vm_compute. split; reflexivity. Qed.

Example copy_ok :
  let s0 := {| hp := fun l => if Nat.eqb l 2 then 5 else if Nat.eqb l 3 then 7 else 0; next := 4 |} in
  let id2 := fun (_ : bool) (x : nat) => x in
  let '(s1, r1) := call nat id2 (fun _ x => 2 * x) id2 true s0 true 2 in
  let '(s2, _) := call nat id2 (fun _ x => 2 * x) id2 true s1 true 3 in
  hp nat s1 r1 = 10 /\ hp nat s2 r1 = 10 /\ hp nat s2 2 = 5.
Proof. vm_compute. repeat split; reflexivity. Qed.
