(* ConfigFlag.v — the process-wide N-d multiplication flag of pylops/config.py
   as a state machine.

   Two layers:
   * [core] mirrors the Python constructs that config.py is written in:
     assignment to the global, reading the global into a local ([CBind]),
     sequencing, [raise], [try ... finally ...] and (for test programs that
     keep running after an exception) [try ... except: pass].
   * [prog] is the language of client programs: [SetFlag b] is
     [pylops.set_ndarray_multiplication(b)], [WithEnabled p] / [WithDisabled p]
     are [with pylops.enabled_ndarray_multiplication(): p] /
     [with pylops.disabled_ndarray_multiplication(): p], [Obs] records
     [pylops.get_ndarray_multiplication()], [Raise] raises, [Catch p] is
     [try: p / except Exception: pass].  [compile] translates the two context
     managers line by line:

         enabled = get_ndarray_multiplication()      CBind (fun saved =>
         set_ndarray_multiplication(False)             CSeq (CSet false)
         try:    yield enabled                           (CFinally body
         finally: set_ndarray_multiplication(enabled)              (CSet saved)))

   The value restored is the one SAVED AT ENTRY, whatever the body does to the
   flag (including [SetFlag]); that is exactly what [flag_restored] states. *)
From Coq Require Import Bool List.
Import ListNotations.

Inductive outcome := Normal | Raised.

(* ------------------------------------------------------------------ core *)
Inductive core :=
| CSet (b : bool)
| CObs
| CSkip
| CRaise
| CSeq (p q : core)
| CBind (k : bool -> core)          (* local := get_ndarray_multiplication() *)
| CFinally (body handler : core)    (* try: body  finally: handler *)
| CCatch (body : core).             (* try: body  except Exception: pass *)

(* state = (flag, outcome, observations in reverse chronological order are
   avoided: the trace is appended in order) *)
Fixpoint crun (p : core) (f : bool) : bool * outcome * list bool :=
  match p with
  | CSet b => (b, Normal, [])
  | CObs => (f, Normal, [f])
  | CSkip => (f, Normal, [])
  | CRaise => (f, Raised, [])
  | CSeq p q =>
      match crun p f with
      | (f1, Normal, t1) => match crun q f1 with (f2, o2, t2) => (f2, o2, t1 ++ t2) end
      | (f1, Raised, t1) => (f1, Raised, t1)
      end
  | CBind k => crun (k f) f
  | CFinally b h =>
      match crun b f with
      | (f1, o1, t1) =>
          match crun h f1 with
          (* an exception raised by the handler replaces the pending one *)
          | (f2, Raised, t2) => (f2, Raised, t1 ++ t2)
          | (f2, Normal, t2) => (f2, o1, t1 ++ t2)
          end
      end
  | CCatch b => match crun b f with (f1, _, t1) => (f1, Normal, t1) end
  end.

(* ------------------------------------------------------------------ prog *)
Inductive prog :=
| SetFlag (b : bool)
| Obs
| Skip
| Raise
| Seq (p q : prog)
| WithEnabled (p : prog)
| WithDisabled (p : prog)
| Catch (p : prog).

Definition with_cm (v : bool) (body : core) : core :=
  CBind (fun saved => CSeq (CSet v) (CFinally body (CSet saved))).

Fixpoint compile (p : prog) : core :=
  match p with
  | SetFlag b => CSet b
  | Obs => CObs
  | Skip => CSkip
  | Raise => CRaise
  | Seq p q => CSeq (compile p) (compile q)
  | WithEnabled p => with_cm true (compile p)
  | WithDisabled p => with_cm false (compile p)
  | Catch p => CCatch (compile p)
  end.

Definition run3 (p : prog) (f : bool) : bool * outcome * list bool := crun (compile p) f.
Definition run (p : prog) (f : bool) : bool * outcome := fst (run3 p f).
Definition trace (p : prog) (f : bool) : list bool := snd (run3 p f).
Definition final (p : prog) (f : bool) : bool := fst (run p f).
Definition outcome_of (p : prog) (f : bool) : outcome := snd (run p f).

(* --- equations of the derived semantics (what a reader expects) --- *)
Lemma run3_with (v : bool) p f :
  crun (with_cm v (compile p)) f =
  (f, snd (fst (crun (compile p) v)), snd (crun (compile p) v)).
Proof.
  unfold with_cm. cbn [crun].
  destruct (crun (compile p) v) as [[f1 o1] t1]. cbn.
  rewrite app_nil_r. reflexivity.
Qed.

Lemma run_WithDisabled p f : run (WithDisabled p) f = (f, outcome_of p false).
Proof. unfold run, outcome_of, run, run3. cbn [compile]. rewrite run3_with. reflexivity. Qed.
Lemma run_WithEnabled p f : run (WithEnabled p) f = (f, outcome_of p true).
Proof. unfold run, outcome_of, run, run3. cbn [compile]. rewrite run3_with. reflexivity. Qed.
Lemma trace_WithDisabled p f : trace (WithDisabled p) f = trace p false.
Proof. unfold trace, run3. cbn [compile]. rewrite run3_with. reflexivity. Qed.
Lemma trace_WithEnabled p f : trace (WithEnabled p) f = trace p true.
Proof. unfold trace, run3. cbn [compile]. rewrite run3_with. reflexivity. Qed.

Lemma run_Seq p q f :
  run (Seq p q) f = match run p f with (f1, Normal) => run q f1 | (f1, Raised) => (f1, Raised) end.
Proof.
  unfold run, run3. cbn [compile crun].
  destruct (crun (compile p) f) as [[f1 o1] t1]. destruct o1; cbn.
  - destruct (crun (compile q) f1) as [[f2 o2] t2]. reflexivity.
  - reflexivity.
Qed.
Lemma run_SetFlag b f : run (SetFlag b) f = (b, Normal). Proof. reflexivity. Qed.
Lemma run_Raise f : run Raise f = (f, Raised). Proof. reflexivity. Qed.
Lemma run_Skip f : run Skip f = (f, Normal). Proof. reflexivity. Qed.
Lemma run_Obs f : run Obs f = (f, Normal). Proof. reflexivity. Qed.
Lemma run_Catch p f : run (Catch p) f = (final p f, Normal).
Proof. unfold final, run, run3. cbn [compile crun]. destruct (crun (compile p) f) as [[f1 o1] t1]. reflexivity. Qed.

(* ------------------------------------------------------------- theorems *)
(* The flag after the with-block equals the flag before it, for EVERY body
   (any nesting, any position of Raise, any SetFlag inside the body), whether
   the body terminates normally or raises. *)
Theorem flag_restored_disabled : forall p f, final (WithDisabled p) f = f.
Proof. intros. unfold final. rewrite run_WithDisabled. reflexivity. Qed.
Theorem flag_restored_enabled : forall p f, final (WithEnabled p) f = f.
Proof. intros. unfold final. rewrite run_WithEnabled. reflexivity. Qed.

Theorem flag_restored :
  forall p f, final (WithDisabled p) f = f /\ final (WithEnabled p) f = f.
Proof. intros; split; [apply flag_restored_disabled | apply flag_restored_enabled]. Qed.

(* ... and the exception, if any, still escapes (it is not swallowed). *)
Theorem with_propagates :
  forall p f, outcome_of (WithDisabled p) f = outcome_of p false /\ outcome_of (WithEnabled p) f = outcome_of p true.
Proof. intros. unfold outcome_of at 1 3. rewrite run_WithDisabled, run_WithEnabled. split; reflexivity. Qed.

(* the body of the context manager starts with the flag forced *)
Theorem body_sees_forced_flag :
  forall p f, trace (WithDisabled (Seq Obs p)) f = false :: trace p false
           /\ trace (WithEnabled (Seq Obs p)) f = true :: trace p true.
Proof.
  intros. rewrite trace_WithDisabled, trace_WithEnabled. unfold trace, run3. cbn [compile crun].
  destruct (crun (compile p) false) as [[a b] c]; destruct (crun (compile p) true) as [[a' b'] c'].
  split; reflexivity.
Qed.

(* Programs that never call the setter directly (only context managers,
   raise, catch, sequencing) leave the flag where it was: whole-program
   invariant, by induction on the program. *)
Fixpoint set_free (p : prog) : bool :=
  match p with
  | SetFlag _ => false
  | Obs | Skip | Raise => true
  | Seq p q => set_free p && set_free q
  | WithEnabled p | WithDisabled p => true     (* whatever is inside is undone *)
  | Catch p => set_free p
  end.

Theorem set_free_preserves : forall p f, set_free p = true -> final p f = f.
Proof.
  induction p; intros f H; cbn [set_free] in H; try discriminate.
  - reflexivity.
  - reflexivity.
  - reflexivity.
  - apply andb_true_iff in H as [H1 H2]. unfold final. rewrite run_Seq.
    specialize (IHp1 f H1). unfold final in IHp1.
    destruct (run p1 f) as [f1 o1]. cbn in IHp1. subst f1. destruct o1.
    + apply IHp2; assumption.
    + reflexivity.
  - apply flag_restored_enabled.
  - apply flag_restored_disabled.
  - unfold final. rewrite run_Catch. cbn. apply IHp; assumption.
Qed.

(* Non-vacuity / sharpness: restoring only on the normal path (no try/finally)
   leaks the forced value when the body raises. *)
Definition with_cm_nofinally (v : bool) (body : core) : core :=
  CBind (fun saved => CSeq (CSet v) (CSeq body (CSet saved))).
Example nofinally_leaks : fst (fst (crun (with_cm_nofinally false CRaise) true)) = false.
Proof. reflexivity. Qed.
Example finally_restores_on_raise :
  run (WithDisabled (Seq (SetFlag true) (Seq (WithEnabled Raise) (SetFlag false)))) true = (true, Raised).
Proof. reflexivity. Qed.
(* a SetFlag inside the body does not survive the block: the value saved at entry wins *)
Example set_inside_is_undone : run (WithEnabled (SetFlag false)) true = (true, Normal).
Proof. reflexivity. Qed.
Example nested_trace :
  trace (Seq Obs (Seq (WithDisabled (Seq Obs (Seq (Catch (WithEnabled (Seq Obs Raise))) Obs))) Obs)) true
  = [true; false; true; false; true].
Proof. reflexivity. Qed.
