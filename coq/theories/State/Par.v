(* State/Par.v — shared-memory parallel loops (numba prange) as interleavings
   of atomic events; schedule independence under disjoint footprints and the
   lost-update counterexample when footprints overlap.

   Memory: a total map addr(nat) -> value over a commutative ring (cells
   never touched keep their initial value, so only finitely many matter).
   An iteration body is a list of operations on the shared output:
     Acc a d   the statement  y[a] += d   (d computed from read-only inputs)
     Asg a v   the statement  y[a]  = v
   An accumulation is NOT atomic: it is the two events  Rd a ; Wr a d  where
   Rd loads y[a] into an iteration-private temporary and Wr stores
   temporary + d.  A thread is the concatenation of the (tagged) event lists
   of the iterations assigned to it; a schedule is any partition of the
   iterations 0..n-1 into any number of threads together with any
   interleaving of the threads' event lists. *)
From Coq Require Import List Arith Lia Bool Permutation Sorting.Mergesort Sorting.Sorted.
From PV Require Import Dict.
Import ListNotations.

(* ------------------------------------------------------------------ maps *)
Definition upd {A} (m : nat -> A) (a : nat) (v : A) : nat -> A :=
  fun b => if Nat.eqb b a then v else m b.

Lemma upd_same {A} (m : nat -> A) a v : upd m a v a = v.
Proof. unfold upd. now rewrite Nat.eqb_refl. Qed.

Lemma upd_other {A} (m : nat -> A) a v b : b <> a -> upd m a v b = m b.
Proof. intro H. unfold upd. destruct (Nat.eqb_spec b a); [contradiction | reflexivity]. Qed.

(* ----------------------------------------------------------- interleaving *)
Section Interleave.
  Variable X : Type.

  Inductive merge : list X -> list X -> list X -> Prop :=
  | merge_nil : merge [] [] []
  | merge_l x l1 l2 l : merge l1 l2 l -> merge (x :: l1) l2 (x :: l)
  | merge_r x l1 l2 l : merge l1 l2 l -> merge l1 (x :: l2) (x :: l).

  (* n-ary interleaving: merge the first thread with an interleaving of the others *)
  Inductive interleave : list (list X) -> list X -> Prop :=
  | il_nil : interleave [] []
  | il_cons th ths tr tr' : interleave ths tr -> merge th tr tr' -> interleave (th :: ths) tr'.

  Lemma merge_nil_r l : merge l [] l.
  Proof. induction l; constructor; auto. Qed.

  Lemma merge_nil_l l : merge [] l l.
  Proof. induction l; constructor; auto. Qed.

  Lemma merge_inv_nil_r l1 l : merge l1 [] l -> l = l1.
  Proof.
    intro H. remember [] as e eqn:E. induction H; subst; try discriminate; auto.
    f_equal; auto.
  Qed.

  Lemma merge_inv_nil_l l2 l : merge [] l2 l -> l = l2.
  Proof.
    intro H. remember [] as e eqn:E. induction H; subst; try discriminate; auto.
    f_equal; auto.
  Qed.

  Lemma merge_filter p l1 l2 l : merge l1 l2 l -> merge (filter p l1) (filter p l2) (filter p l).
  Proof.
    induction 1; cbn.
    - constructor.
    - destruct (p x); [constructor|]; auto.
    - destruct (p x); [constructor|]; auto.
  Qed.

  Lemma merge_app_l A l1 l2 l : merge l1 l2 l -> merge (A ++ l1) l2 (A ++ l).
  Proof. intro H. induction A; cbn; [assumption | constructor; assumption]. Qed.

  Lemma merge_app_r C l1 l : merge l1 [] l -> merge l1 C (C ++ l).
  Proof. intro H. induction C; cbn; [assumption | constructor; assumption]. Qed.

  (* a thread A ++ B pre-empted once, between A and B, by the whole of C *)
  Lemma merge_app3 A B C : merge (A ++ B) C (A ++ C ++ B).
  Proof. apply merge_app_l, merge_app_r, merge_nil_r. Qed.

  Lemma interleave_filter_none p ths tr :
    interleave ths tr -> Forall (fun th => filter p th = []) ths -> filter p tr = [].
  Proof.
    induction 1; intro F; [reflexivity|].
    inversion F; subst.
    pose proof (merge_filter p _ _ _ H0) as M.
    rewrite H3, (IHinterleave H4) in M.
    now apply merge_inv_nil_l in M.
  Qed.

  Lemma interleave_filter_one p l1 : forall th l2 tr,
    interleave (l1 ++ th :: l2) tr ->
    Forall (fun t => filter p t = []) l1 -> Forall (fun t => filter p t = []) l2 ->
    filter p tr = filter p th.
  Proof.
    induction l1 as [|a l1 IH]; intros th l2 tr H F1 F2; cbn in H; inversion H; subst.
    - pose proof (merge_filter p _ _ _ H4) as M.
      rewrite (interleave_filter_none p _ _ H2 F2) in M.
      now apply merge_inv_nil_r in M.
    - inversion F1; subst.
      pose proof (merge_filter p _ _ _ H4) as M.
      rewrite H3 in M. apply merge_inv_nil_l in M. rewrite M.
      eapply IH; eauto.
  Qed.
End Interleave.
Arguments merge {X}.
Arguments interleave {X}.

(* ------------------------------------------------------- NoDup / concat *)
Lemma NoDup_app_disj {A} (l1 l2 : list A) x : NoDup (l1 ++ l2) -> In x l1 -> In x l2 -> False.
Proof.
  induction l1 as [|a l1 IH]; cbn; intros N H1 H2; [contradiction|].
  inversion N; subst. destruct H1 as [->|H1].
  - apply H3, in_or_app; auto.
  - eauto.
Qed.

Lemma NoDup_app_remove_l {A} (l1 l2 : list A) : NoDup (l1 ++ l2) -> NoDup l2.
Proof. induction l1 as [|a l1 IH]; cbn; intro N; [assumption|]. inversion N; auto. Qed.

Lemma NoDup_app_remove_r {A} (l1 l2 : list A) : NoDup (l1 ++ l2) -> NoDup l1.
Proof.
  induction l1 as [|a l1 IH]; cbn; intro N; [constructor|]. inversion N; subst.
  constructor; [|auto]. intro H. apply H1, in_or_app. auto.
Qed.

Lemma in_nth_concat {A} (l : list (list A)) j a : In a (nth j l []) -> In a (concat l).
Proof.
  intro H. destruct (lt_dec j (length l)) as [L|L].
  - apply in_concat. exists (nth j l []). split; [apply nth_In; assumption | assumption].
  - rewrite nth_overflow in H by lia. contradiction.
Qed.

Lemma NoDup_concat_disjoint (fps : list (list nat)) :
  NoDup (concat fps) ->
  forall i j a, i <> j -> In a (nth i fps []) -> In a (nth j fps []) -> False.
Proof.
  induction fps as [|f fps IH]; intros N i j a D Hi Hj.
  - destruct i; cbn in Hi; contradiction.
  - cbn in N. destruct i as [|i], j as [|j]; cbn in Hi, Hj.
    + congruence.
    + eapply NoDup_app_disj; eauto using in_nth_concat.
    + eapply NoDup_app_disj; eauto using in_nth_concat.
    + apply NoDup_app_remove_l in N. apply (IH N i j a); auto.
Qed.

(* --------------------------------------- executable disjointness checker *)
Fixpoint incb (l : list nat) : bool :=
  match l with
  | a :: (b :: _) as t => Nat.ltb a b && incb t
  | _ => true
  end.

Lemma incb_lt a l : incb (a :: l) = true -> forall x, In x l -> a < x.
Proof.
  revert a. induction l as [|b l IH]; intros a H x Hx; [contradiction|].
  cbn [incb] in H. apply andb_true_iff in H. destruct H as [H1 H2].
  apply Nat.ltb_lt in H1. destruct Hx as [->|Hx]; [assumption|].
  specialize (IH b H2 x Hx). lia.
Qed.

Lemma incb_NoDup l : incb l = true -> NoDup l.
Proof.
  induction l as [|a l IH]; intro H; constructor.
  - intro Hin. pose proof (incb_lt a l H a Hin). lia.
  - apply IH. destruct l as [|b l]; [reflexivity|].
    cbn [incb] in H. apply andb_true_iff in H. tauto.
Qed.

Definition nodupb (l : list nat) : bool := incb (NatSort.sort l).

Lemma nodupb_NoDup l : nodupb l = true -> NoDup l.
Proof.
  intro H. apply incb_NoDup in H.
  eapply Permutation_NoDup; [apply Permutation_sym, NatSort.Permuted_sort | exact H].
Qed.

(* an iteration may touch the same cell several times: footprint as a set *)
Fixpoint uniq (l : list nat) : list nat :=
  match l with
  | a :: (b :: _) as t => if Nat.eqb a b then uniq t else a :: uniq t
  | _ => l
  end.

Lemma uniq_In x l : In x l -> In x (uniq l).
Proof.
  induction l as [|a l IH]; [auto|]. destruct l as [|b l']; [auto|].
  intro H. cbn [uniq]. destruct (Nat.eqb_spec a b) as [->|N].
  - apply IH. destruct H as [->|H]; [now left | exact H].
  - destruct H as [->|H]; [now left | right; apply IH, H].
Qed.

Definition dedup (l : list nat) : list nat := uniq (NatSort.sort l).

Lemma dedup_In x l : In x l -> In x (dedup l).
Proof. intro H. apply uniq_In. eapply Permutation_in; [apply NatSort.Permuted_sort | exact H]. Qed.

(* measured footprints: one address list per iteration *)
Definition footprints_disjointb (fps : list (list nat)) : bool := nodupb (concat (map dedup fps)).

Lemma footprints_disjointb_sound fps :
  footprints_disjointb fps = true ->
  forall i j a, i <> j -> In a (nth i fps []) -> In a (nth j fps []) -> False.
Proof.
  intros H i j a N Hi Hj. apply nodupb_NoDup in H.
  apply (NoDup_concat_disjoint _ H i j a N).
  - change (@nil nat) with (dedup []). rewrite map_nth. now apply dedup_In.
  - change (@nil nat) with (dedup []). rewrite map_nth. now apply dedup_In.
Qed.

(* "the loop variable is the leading index of every written element" *)
Definition rows_ownedb (row : nat -> nat) (fps : list (list nat)) : bool :=
  forallb (fun p => forallb (fun a => Nat.eqb (row a) (fst p)) (snd p))
          (combine (seq 0 (length fps)) fps).

Lemma rows_ownedb_sound row fps :
  rows_ownedb row fps = true -> forall i a, In a (nth i fps []) -> row a = i.
Proof.
  unfold rows_ownedb. intros H i a Ha.
  destruct (lt_dec i (length fps)) as [L|L]; [|rewrite nth_overflow in Ha by lia; contradiction].
  rewrite forallb_forall in H.
  assert (In (i, nth i fps []) (combine (seq 0 (length fps)) fps)) as Hin.
  { replace (i, nth i fps []) with (nth i (combine (seq 0 (length fps)) fps) (0, [])).
    - apply nth_In. rewrite combine_length, seq_length. lia.
    - rewrite combine_nth by now rewrite seq_length. rewrite seq_nth by assumption. reflexivity. }
  specialize (H _ Hin). cbn in H. rewrite forallb_forall in H.
  now apply Nat.eqb_eq, H.
Qed.

(* ================================================================ model *)
Section Par.
  Variable R : CRing.
  Add Ring Rr : (rth R).
  Notation "a +r b" := (radd R a b) (at level 50, left associativity).

  Definition mem := nat -> R.

  Inductive op := Acc (a : nat) (d : R) | Asg (a : nat) (v : R).
  Inductive ev := Rd (a : nat) | Wr (a : nat) (d : R) | St (a : nat) (v : R).

  Definition op_addr (o : op) := match o with Acc a _ => a | Asg a _ => a end.
  Definition ev_addr (e : ev) := match e with Rd a => a | Wr a _ => a | St a _ => a end.

  Definition compile1 (o : op) : list ev :=
    match o with Acc a d => [Rd a; Wr a d] | Asg a v => [St a v] end.
  Definition compile (b : list op) : list ev := flat_map compile1 b.

  (* write / update footprint of a body *)
  Definition fp (b : list op) : list nat := map op_addr b.

  Lemma compile_addr b e : In e (compile b) -> In (ev_addr e) (fp b).
  Proof.
    unfold compile, fp. intro H. apply in_flat_map in H. destruct H as (o & Ho & He).
    apply in_map_iff. exists o. split; [|assumption].
    destruct o; cbn in He; intuition (subst; reflexivity).
  Qed.

  (* ------------------------------------------------ interleaved semantics *)
  (* shared memory + one private temporary per iteration *)
  Definition state := (mem * (nat -> R))%type.

  Definition step (te : nat * ev) (s : state) : state :=
    match te, s with
    | (i, Rd a), (m, r) => (m, upd r i (m a))
    | (i, Wr a d), (m, r) => (upd m a (r i +r d), r)
    | (i, St a v), (m, r) => (upd m a v, r)
    end.

  Definition exec (tr : list (nat * ev)) (s : state) : state :=
    fold_left (fun s te => step te s) tr s.

  Lemma exec_app t1 t2 s : exec (t1 ++ t2) s = exec t2 (exec t1 s).
  Proof. apply fold_left_app. Qed.

  (* one iteration run alone *)
  Definition step1 (e : ev) (s : mem * R) : mem * R :=
    match e, s with
    | Rd a, (m, r) => (m, m a)
    | Wr a d, (m, r) => (upd m a (r +r d), r)
    | St a v, (m, r) => (upd m a v, r)
    end.
  Definition run1 (l : list ev) (s : mem * R) := fold_left (fun s e => step1 e s) l s.

  Lemma run1_app l1 l2 s : run1 (l1 ++ l2) s = run1 l2 (run1 l1 s).
  Proof. apply fold_left_app. Qed.

  Definition tagb (i : nat) (te : nat * ev) : bool := Nat.eqb (fst te) i.
  Definition proj (i : nat) (tr : list (nat * ev)) : list ev := map snd (filter (tagb i) tr).

  Lemma proj_app i t1 t2 : proj i (t1 ++ t2) = proj i t1 ++ proj i t2.
  Proof. unfold proj. now rewrite filter_app, map_app. Qed.

  Lemma in_proj i e tr : In (i, e) tr -> In e (proj i tr).
  Proof.
    intro H. unfold proj. apply in_map_iff. exists (i, e). split; [reflexivity|].
    apply filter_In. split; [assumption|]. unfold tagb. cbn. apply Nat.eqb_refl.
  Qed.

  Lemma proj_in i e tr : In e (proj i tr) -> In (i, e) tr.
  Proof.
    unfold proj. intro H. apply in_map_iff in H. destruct H as ([j e'] & E & H).
    apply filter_In in H. destruct H as [H T]. unfold tagb in T. cbn in *.
    apply Nat.eqb_eq in T. now subst.
  Qed.

  (* ------------------------------------------------------------ program *)
  Variable bodies : list (list op).
  Definition body (i : nat) : list op := nth i bodies [].
  Definition niter := length bodies.

  Definition disjoint : Prop :=
    forall i j a, i <> j -> In a (fp (body i)) -> In a (fp (body j)) -> False.

  (* Invariant of ANY trace whose events stay inside the footprint of the
     iteration they are tagged with, when footprints are disjoint: every
     iteration sees exactly what it would see running alone. *)
  Lemma exec_invariant : forall tr m0 r0,
    (forall i e, In (i, e) tr -> In (ev_addr e) (fp (body i))) ->
    disjoint ->
    (forall i, snd (exec tr (m0, r0)) i = snd (run1 (proj i tr) (m0, r0 i))) /\
    (forall i a, In a (fp (body i)) ->
                 fst (exec tr (m0, r0)) a = fst (run1 (proj i tr) (m0, r0 i)) a) /\
    (forall a, (forall i e, In (i, e) tr -> ev_addr e <> a) -> fst (exec tr (m0, r0)) a = m0 a).
  Proof.
    intros tr m0 r0. induction tr as [|[i e] tr IH] using rev_ind; intros WT D.
    - cbn. repeat split; auto.
    - assert (WT' : forall i e, In (i, e) tr -> In (ev_addr e) (fp (body i)))
        by (intros; apply WT, in_or_app; auto).
      destruct (IH WT' D) as (I1 & I2 & I3). clear IH.
      assert (Ha : In (ev_addr e) (fp (body i)))
        by (apply WT, in_or_app; right; left; reflexivity).
      assert (P : forall j, proj j (tr ++ [(i, e)]) = proj j tr ++ (if Nat.eqb i j then [e] else [])).
      { intro j. rewrite proj_app. f_equal. unfold proj, tagb. cbn.
        destruct (Nat.eqb i j); reflexivity. }
      rewrite exec_app. cbn [exec fold_left].
      destruct (exec tr (m0, r0)) as [m r] eqn:E. cbn [fst snd] in *.
      split; [|split].
      + (* registers *)
        intro j. rewrite P, run1_app. specialize (I1 j).
        destruct (Nat.eqb_spec i j) as [->|N].
        * cbn [run1 fold_left]. specialize (I2 j (ev_addr e) Ha).
          destruct (run1 (proj j tr) (m0, r0 j)) as [m1 r1]. cbn [fst snd] in *.
          destruct e; cbn [step step1 fst snd ev_addr] in *; try assumption.
          rewrite upd_same. assumption.
        * cbn [run1 fold_left]. destruct e; cbn [step snd]; try assumption.
          rewrite upd_other by congruence. assumption.
      + (* owned cells *)
        intros j b Hb. rewrite P, run1_app. specialize (I1 j). pose proof (I2 j b Hb) as I2b.
        destruct (Nat.eqb_spec i j) as [->|N].
        * cbn [run1 fold_left].
          destruct (run1 (proj j tr) (m0, r0 j)) as [m1 r1]. cbn [fst snd] in *.
          destruct e; cbn [step step1 fst snd ev_addr] in *; try assumption.
          -- destruct (Nat.eq_dec b a) as [->|Nb].
             ++ rewrite !upd_same. now rewrite I1.
             ++ rewrite !upd_other by assumption. assumption.
          -- destruct (Nat.eq_dec b a) as [->|Nb].
             ++ now rewrite !upd_same.
             ++ rewrite !upd_other by assumption. assumption.
        * cbn [run1 fold_left].
          assert (b <> ev_addr e) as Nb by (intros ->; exact (D i j _ N Ha Hb)).
          destruct e; cbn [step fst ev_addr] in *; try assumption;
            rewrite upd_other by assumption; assumption.
      + (* untouched cells *)
        intros b Hb.
        assert (fst (m, r) b = m0 b) as I3b.
        { cbn. apply I3. intros i' e' Hin. apply (Hb i'), in_or_app. auto. }
        assert (ev_addr e <> b) as Nb by (apply (Hb i), in_or_app; right; left; reflexivity).
        cbn in I3b.
        destruct e; cbn [step fst ev_addr] in *; try assumption;
          rewrite upd_other by congruence; assumption.
  Qed.

  (* a trace is complete when it contains, for every iteration, exactly the
     events of that iteration in program order *)
  Definition complete (tr : list (nat * ev)) : Prop := forall i, proj i tr = compile (body i).

  Lemma complete_well_tagged tr : complete tr ->
    forall i e, In (i, e) tr -> In (ev_addr e) (fp (body i)).
  Proof. intros C i e H. apply compile_addr. rewrite <- C. now apply in_proj. Qed.

  Lemma complete_traces_agree tr1 tr2 s :
    disjoint -> complete tr1 -> complete tr2 ->
    forall a, fst (exec tr1 s) a = fst (exec tr2 s) a.
  Proof.
    intros D C1 C2 a. destruct s as [m0 r0].
    destruct (exec_invariant tr1 m0 r0 (complete_well_tagged _ C1) D) as (_ & A2 & A3).
    destruct (exec_invariant tr2 m0 r0 (complete_well_tagged _ C2) D) as (_ & B2 & B3).
    destruct (existsb (fun te => Nat.eqb (ev_addr (snd te)) a) tr1) eqn:E.
    - apply existsb_exists in E. destruct E as ([i e] & Hin & Ea). cbn in Ea.
      apply Nat.eqb_eq in Ea. subst a.
      pose proof (complete_well_tagged _ C1 i e Hin) as Hfp.
      rewrite (A2 i _ Hfp), (B2 i _ Hfp). now rewrite C1, C2.
    - assert (N1 : forall i e, In (i, e) tr1 -> ev_addr e <> a).
      { intros i e Hin Ea.
        assert (existsb (fun te => Nat.eqb (ev_addr (snd te)) a) tr1 = true).
        { apply existsb_exists. exists (i, e). split; [assumption|]. cbn. now apply Nat.eqb_eq. }
        congruence. }
      rewrite (A3 a N1), (B3 a); [reflexivity|].
      intros i e Hin. apply (N1 i). apply proj_in. rewrite C1, <- C2. now apply in_proj.
  Qed.

  (* ---------------------------------------------- threads and schedules *)
  Definition tagged (i : nat) : list (nat * ev) := map (pair i) (compile (body i)).
  Definition thread_prog (its : list nat) : list (nat * ev) := flat_map tagged its.

  Lemma filter_tag_map i j (l : list ev) :
    filter (tagb i) (map (pair j) l) = if Nat.eqb j i then map (pair j) l else [].
  Proof.
    induction l as [|e l IH]; cbn [map filter]; [now destruct (Nat.eqb j i)|].
    rewrite IH. unfold tagb. cbn [fst]. destruct (Nat.eqb j i); reflexivity.
  Qed.

  Lemma filter_tagged_same i : filter (tagb i) (tagged i) = tagged i.
  Proof. unfold tagged. now rewrite filter_tag_map, Nat.eqb_refl. Qed.

  Lemma filter_tagged_other i j : i <> j -> filter (tagb i) (tagged j) = [].
  Proof.
    intro N. unfold tagged. rewrite filter_tag_map.
    destruct (Nat.eqb_spec j i); [congruence | reflexivity].
  Qed.

  Lemma proj_tagged i : proj i (tagged i) = compile (body i).
  Proof.
    unfold proj. rewrite filter_tagged_same. unfold tagged. rewrite map_map. cbn. apply map_id.
  Qed.

  Lemma filter_thread_notin i its : ~ In i its -> filter (tagb i) (thread_prog its) = [].
  Proof.
    unfold thread_prog. induction its as [|j its IH]; cbn [flat_map In]; intro N; [reflexivity|].
    rewrite filter_app, filter_tagged_other, IH; auto.
  Qed.

  Lemma filter_thread_in i its : NoDup its -> In i its -> filter (tagb i) (thread_prog its) = tagged i.
  Proof.
    induction its as [|j its IH]; intros N H; [contradiction|].
    change (thread_prog (j :: its)) with (tagged j ++ thread_prog its).
    inversion N; subst. rewrite filter_app. destruct H as [->|H].
    - rewrite filter_tagged_same, filter_thread_notin by assumption. apply app_nil_r.
    - rewrite filter_tagged_other by (intros ->; contradiction). cbn [app]. auto.
  Qed.

  (* P : for each thread, the iterations it executes, in order *)
  Definition partition (P : list (list nat)) : Prop := Permutation (concat P) (seq 0 niter).
  Definition schedule (P : list (list nat)) (tr : list (nat * ev)) : Prop :=
    partition P /\ interleave (map thread_prog P) tr.

  Lemma schedule_complete P tr : schedule P tr -> complete tr.
  Proof.
    intros [HP HI] i.
    assert (ND : NoDup (concat P)).
    { eapply Permutation_NoDup; [apply Permutation_sym, HP | apply seq_NoDup]. }
    destruct (lt_dec i niter) as [L|L].
    - assert (In i (concat P)) as Hin.
      { eapply Permutation_in; [apply Permutation_sym, HP | apply in_seq; lia]. }
      apply in_concat in Hin. destruct Hin as (its & HitsP & Hi).
      apply in_split in HitsP. destruct HitsP as (l1 & l2 & ->).
      rewrite concat_app in ND. cbn in ND.
      assert (N1 : forall t, In t l1 -> ~ In i t).
      { intros t Ht Hit. eapply (NoDup_app_disj _ _ i ND).
        - apply in_concat. eauto.
        - apply in_or_app. auto. }
      pose proof (NoDup_app_remove_l _ _ ND) as ND2.
      assert (N2 : forall t, In t l2 -> ~ In i t).
      { intros t Ht Hit. eapply (NoDup_app_disj _ _ i ND2); [eassumption|].
        apply in_concat. eauto. }
      pose proof (NoDup_app_remove_r _ _ ND2) as NDits.
      rewrite map_app in HI. cbn in HI.
      unfold proj. erewrite interleave_filter_one; [| exact HI | |].
      + rewrite filter_thread_in by assumption. rewrite <- (filter_tagged_same i). apply proj_tagged.
      + apply Forall_forall. intros t Ht. apply in_map_iff in Ht.
        destruct Ht as (t' & <- & Ht'). apply filter_thread_notin; auto.
      + apply Forall_forall. intros t Ht. apply in_map_iff in Ht.
        destruct Ht as (t' & <- & Ht'). apply filter_thread_notin; auto.
    - unfold proj. rewrite (interleave_filter_none _ (tagb i) _ _ HI).
      + unfold body. rewrite nth_overflow by (unfold niter in L; lia). reflexivity.
      + apply Forall_forall. intros t Ht. apply in_map_iff in Ht.
        destruct Ht as (t' & <- & Ht'). apply filter_thread_notin.
        intro Hit. assert (In i (seq 0 niter)) as Hs.
        { eapply Permutation_in; [exact HP|]. apply in_concat. eauto. }
        apply in_seq in Hs. lia.
  Qed.

  Definition s0 (m : mem) : state := (m, fun _ => r0 R).
  Definition seq_trace : list (nat * ev) := thread_prog (seq 0 niter).
  Definition exec_sched (tr : list (nat * ev)) (m : mem) : mem := fst (exec tr (s0 m)).
  Definition exec_seq (m : mem) : mem := exec_sched seq_trace m.

  Lemma seq_is_schedule : schedule [seq 0 niter] seq_trace.
  Proof.
    split.
    - unfold partition. cbn. now rewrite app_nil_r.
    - cbn. econstructor; [constructor | apply merge_nil_r].
  Qed.

  Theorem disjoint_footprints_deterministic :
    disjoint -> forall P tr, schedule P tr -> forall m a, exec_sched tr m a = exec_seq m a.
  Proof.
    intros D P tr S m a. unfold exec_seq, exec_sched.
    apply complete_traces_agree; [assumption | eapply schedule_complete; eassumption |].
    eapply schedule_complete, seq_is_schedule.
  Qed.

  Theorem leading_index_disjoint (row : nat -> nat) :
    (forall i a, In a (fp (body i)) -> row a = i) -> disjoint.
  Proof. intros H i j a N Hi Hj. apply N. rewrite <- (H i a Hi). exact (H j a Hj). Qed.

  Lemma nth_map_fp i : nth i (map fp bodies) [] = fp (body i).
  Proof. unfold body. now rewrite <- (map_nth fp). Qed.

  Theorem disjointb_disjoint : footprints_disjointb (map fp bodies) = true -> disjoint.
  Proof.
    intros H i j a N Hi Hj. rewrite <- nth_map_fp in Hi, Hj.
    exact (footprints_disjointb_sound _ H i j a N Hi Hj).
  Qed.

  Theorem rows_ownedb_disjoint row : rows_ownedb row (map fp bodies) = true -> disjoint.
  Proof.
    intro H. apply (leading_index_disjoint row). intros i a Ha.
    rewrite <- nth_map_fp in Ha. exact (rows_ownedb_sound _ _ H i a Ha).
  Qed.

  (* -------------------------- sequential execution = the obvious for loop *)
  Definition apply_op (o : op) (m : mem) : mem :=
    match o with Acc a d => upd m a (m a +r d) | Asg a v => upd m a v end.
  Definition apply_body (b : list op) (m : mem) : mem := fold_left (fun m o => apply_op o m) b m.
  Definition run_loop (its : list nat) (m : mem) : mem :=
    fold_left (fun m i => apply_body (body i) m) its m.

  Lemma exec_tagged_body i b : forall m r,
    exists r', exec (map (pair i) (compile b)) (m, r) = (apply_body b m, r') /\
               forall j, j <> i -> r' j = r j.
  Proof.
    induction b as [|o b IH]; intros m r.
    - exists r. cbn. auto.
    - cbn [compile flat_map]. rewrite map_app, exec_app. destruct o as [a d|a v].
      + cbn [compile1 map exec fold_left step]. rewrite upd_same.
        destruct (IH (upd m a (m a +r d)) (upd r i (m a))) as (r' & E & Hr).
        exists r'. split; [exact E|]. intros j Hj. rewrite Hr by assumption.
        now apply upd_other.
      + cbn [compile1 map exec fold_left step].
        destruct (IH (upd m a v) r) as (r' & E & Hr). exists r'. auto.
  Qed.

  Lemma exec_thread_prog its : forall m r,
    exists r', exec (thread_prog its) (m, r) = (run_loop its m, r') /\
               forall j, ~ In j its -> r' j = r j.
  Proof.
    induction its as [|i its IH]; intros m r.
    - exists r. cbn. auto.
    - change (thread_prog (i :: its)) with (tagged i ++ thread_prog its).
      rewrite exec_app. unfold tagged.
      destruct (exec_tagged_body i (body i) m r) as (r1 & E1 & H1). rewrite E1.
      destruct (IH (apply_body (body i) m) r1) as (r2 & E2 & H2).
      exists r2. split; [exact E2|]. intros j Hj. cbn in Hj.
      rewrite H2 by tauto. apply H1. intros ->. tauto.
  Qed.

  Theorem exec_seq_is_loop m : exec_seq m = run_loop (seq 0 niter) m.
  Proof.
    unfold exec_seq, exec_sched, seq_trace, s0.
    destruct (exec_thread_prog (seq 0 niter) m (fun _ => r0 R)) as (r' & E & _). now rewrite E.
  Qed.

  (* ------------------------------------------------------- lost update *)
  Fixpoint delta_on (a : nat) (b : list op) : R :=
    match b with
    | [] => r0 R
    | Acc a' d :: b' => if Nat.eqb a' a then d +r delta_on a b' else delta_on a b'
    | Asg _ _ :: b' => delta_on a b'
    end.
  Definition asg_free (a : nat) (b : list op) : Prop := forall v, ~ In (Asg a v) b.

  Lemma delta_on_app a b1 b2 : delta_on a (b1 ++ b2) = delta_on a b1 +r delta_on a b2.
  Proof.
    induction b1 as [|[a' d|a' v] b1 IH]; cbn; [ring | | assumption].
    destruct (Nat.eqb a' a); [rewrite IH; ring | assumption].
  Qed.

  Lemma asg_free_app a b1 b2 : asg_free a (b1 ++ b2) -> asg_free a b1 /\ asg_free a b2.
  Proof. intro H. split; intros v Hin; apply (H v), in_or_app; auto. Qed.

  Lemma asg_free_cons a o b : asg_free a (o :: b) -> asg_free a b.
  Proof. intros H v Hin. apply (H v). now right. Qed.

  Lemma apply_body_acc a b : forall m, asg_free a b -> apply_body b m a = m a +r delta_on a b.
  Proof.
    induction b as [|[a' d|a' v] b IH]; intros m F; cbn [apply_body fold_left delta_on].
    - ring.
    - change (apply_body b (apply_op (Acc a' d) m) a = m a +r (if Nat.eqb a' a then d +r delta_on a b else delta_on a b)).
      rewrite IH by (eapply asg_free_cons; eassumption). cbn [apply_op].
      destruct (Nat.eqb_spec a' a) as [->|N].
      + rewrite upd_same. ring.
      + rewrite upd_other by congruence. reflexivity.
    - change (apply_body b (apply_op (Asg a' v) m) a = m a +r delta_on a b).
      rewrite IH by (eapply asg_free_cons; eassumption). cbn [apply_op].
      rewrite upd_other; [reflexivity|]. intros ->. apply (F v). now left.
  Qed.

  Fixpoint Dsum (a : nat) (its : list nat) : R :=
    match its with [] => r0 R | i :: t => delta_on a (body i) +r Dsum a t end.

  Lemma Dsum_app a l1 l2 : Dsum a (l1 ++ l2) = Dsum a l1 +r Dsum a l2.
  Proof. induction l1 as [|i l1 IH]; cbn; [ring | rewrite IH; ring]. Qed.

  Lemma run_loop_acc a its : (forall k, asg_free a (body k)) ->
    forall m, run_loop its m a = m a +r Dsum a its.
  Proof.
    intro F. induction its as [|i its IH]; intro m; cbn [run_loop fold_left Dsum].
    - ring.
    - change (run_loop its (apply_body (body i) m) a = m a +r (delta_on a (body i) +r Dsum a its)).
      rewrite IH, apply_body_acc by apply F. ring.
  Qed.

  (* Two distinct iterations that update the same cell (iteration i with an
     accumulate statement, iteration j with non-zero net increment) and no
     plain assignment to that cell anywhere: the schedule "i reads a; j runs
     completely; i writes a" loses j's update. *)
  Theorem overlap_lost_update i j a d :
    i <> j -> i < niter -> j < niter ->
    (forall k, asg_free a (body k)) ->
    In (Acc a d) (body i) -> delta_on a (body j) <> r0 R ->
    exists P tr, schedule P tr /\ forall m, exec_sched tr m a <> exec_seq m a.
  Proof.
    intros Nij Li Lj F Hacc Hdj.
    assert (In j (seq 0 niter)) as Hj by (apply in_seq; lia).
    apply in_split in Hj. destruct Hj as (l1 & l2 & Hseq).
    assert (In i (l1 ++ l2)) as Hi.
    { assert (In i (seq 0 niter)) as H by (apply in_seq; lia). rewrite Hseq in H.
      apply in_app_or in H. apply in_or_app. destruct H as [H|[H|H]]; auto. congruence. }
    apply in_split in Hi. destruct Hi as (k1 & k2 & Hk).
    apply in_split in Hacc. destruct Hacc as (b1 & b2 & Hb).
    set (A := thread_prog k1 ++ map (pair i) (compile b1) ++ [(i, Rd a)]).
    set (B := (i, Wr a d) :: map (pair i) (compile b2) ++ thread_prog k2).
    assert (HAB : thread_prog (k1 ++ i :: k2) = A ++ B).
    { unfold thread_prog, A, B. rewrite flat_map_app. cbn [flat_map]. unfold tagged at 2.
      rewrite Hb. unfold compile. rewrite flat_map_app. cbn [flat_map compile1].
      rewrite !map_app. cbn [map app]. rewrite <- !app_assoc. cbn [app]. reflexivity. }
    exists [k1 ++ i :: k2; [j]], (A ++ tagged j ++ B). split.
    - split.
      + unfold partition. cbn [concat]. rewrite app_nil_r, <- Hk, Hseq.
        eapply Permutation_trans; [apply Permutation_sym, Permutation_cons_append|].
        apply Permutation_middle.
      + cbn [map]. rewrite HAB. econstructor.
        * econstructor; [constructor | apply merge_nil_r].
        * cbn [thread_prog flat_map]. rewrite app_nil_r. apply merge_app3.
    - intro m.
      (* sequential value *)
      assert (S : exec_seq m a = m a +r Dsum a (l1 ++ j :: l2)).
      { rewrite exec_seq_is_loop, Hseq. now apply run_loop_acc. }
      (* racy value *)
      assert (T : exec_sched (A ++ tagged j ++ B) m a =
                  m a +r Dsum a k1 +r delta_on a b1 +r d +r delta_on a b2 +r Dsum a k2).
      { unfold exec_sched, s0, A, B. rewrite !exec_app.
        destruct (exec_thread_prog k1 m (fun _ => r0 R)) as (r1 & E1 & _). rewrite E1.
        destruct (exec_tagged_body i b1 (run_loop k1 m) r1) as (r2 & E2 & _). rewrite E2.
        cbn [exec fold_left step].
        set (m2 := apply_body b1 (run_loop k1 m)).
        unfold tagged.
        destruct (exec_tagged_body j (body j) m2 (upd r2 i (m2 a))) as (r4 & E4 & H4).
        change (fold_left (fun s te => step te s) (map (pair j) (compile (body j))) (m2, upd r2 i (m2 a)))
          with (exec (map (pair j) (compile (body j))) (m2, upd r2 i (m2 a))).
        rewrite E4.
        change (fold_left (fun s te => step te s) ((i, Wr a d) :: map (pair i) (compile b2) ++ thread_prog k2)
                  (apply_body (body j) m2, r4))
          with (exec (map (pair i) (compile b2) ++ thread_prog k2)
                  (step (i, Wr a d) (apply_body (body j) m2, r4))).
        cbn [step]. rewrite exec_app.
        rewrite (H4 i Nij), upd_same.
        set (m5 := upd (apply_body (body j) m2) a (m2 a +r d)).
        destruct (exec_tagged_body i b2 m5 r4) as (r6 & E6 & _). unfold mem in *. rewrite E6.
        destruct (exec_thread_prog k2 (apply_body b2 m5) r6) as (r7 & E7 & _). unfold mem in *. rewrite E7.
        cbn [fst].
        pose proof (F i) as Fi. unfold body in Fi. fold (body i) in Fi. rewrite Hb in Fi.
        apply asg_free_app in Fi. destruct Fi as [F1 F2]. apply asg_free_cons in F2.
        rewrite run_loop_acc by assumption. rewrite apply_body_acc by assumption.
        unfold m5. rewrite upd_same. unfold m2. rewrite apply_body_acc by assumption.
        rewrite run_loop_acc by assumption. reflexivity. }
      rewrite S, T. intro EQ. apply Hdj.
      assert (Dsum a (l1 ++ l2) = Dsum a k1 +r delta_on a b1 +r d +r delta_on a b2 +r Dsum a k2) as HD.
      { rewrite Hk, Dsum_app. cbn [Dsum]. rewrite Hb, delta_on_app. cbn [delta_on].
        rewrite Nat.eqb_refl. ring. }
      rewrite Dsum_app in EQ. cbn [Dsum] in EQ. rewrite Dsum_app in HD.
      set (x := delta_on a (body j)) in *.
      assert (x = rsub R (m a +r (Dsum a l1 +r (x +r Dsum a l2))) (m a +r (Dsum a l1 +r Dsum a l2))) as X by ring.
      rewrite X, <- EQ, HD. ring.
  Qed.

End Par.

(* statements with the definitions of schedule / disjoint spelled out *)
Theorem deterministic_spelled_out (R : CRing) (bodies : list (list (op R))) :
  (forall i j a, i <> j -> In a (fp R (body R bodies i)) -> In a (fp R (body R bodies j)) -> False) ->
  forall (P : list (list nat)) (tr : list (nat * ev R)),
    Permutation (concat P) (seq 0 (length bodies)) ->
    interleave (map (thread_prog R bodies) P) tr ->
    forall m a, exec_sched R tr m a = exec_seq R bodies m a.
Proof.
  intros D P tr HP HI. exact (disjoint_footprints_deterministic R bodies D P tr (Logic.conj HP HI)).
Qed.

Theorem checked_footprints_schedule_independent (R : CRing) (bodies : list (list (op R))) :
  footprints_disjointb (map (fp R) bodies) = true ->
  forall P tr, schedule R bodies P tr -> forall m a, exec_sched R tr m a = exec_seq R bodies m a.
Proof. intro H. exact (disjoint_footprints_deterministic R bodies (disjointb_disjoint R bodies H)). Qed.

Theorem rows_owned_schedule_independent (R : CRing) (bodies : list (list (op R))) row :
  rows_ownedb row (map (fp R) bodies) = true ->
  forall P tr, schedule R bodies P tr -> forall m a, exec_sched R tr m a = exec_seq R bodies m a.
Proof. intro H. exact (disjoint_footprints_deterministic R bodies (rows_ownedb_disjoint R bodies row H)). Qed.

(* ------------------------------------------------ multi-process stacks
   VStack/HStack/BlockDiag/Block with nproc > 1: every operator is applied
   by a worker process with PRIVATE memory (so task k's result f k depends
   only on its own argument), results come back in any completion order and
   are stored in the slot of their task (the contract of Pool.starmap, an
   oracle); the parent then combines the slot list by hstack / sum. *)
Section Starmap.
  Variable A : Type.
  Definition gather (order : list nat) (f : nat -> A) (slots : nat -> A) : nat -> A :=
    fold_left (fun s k => upd s k (f k)) order slots.

  Lemma gather_spec order f : forall slots k,
    (In k order -> gather order f slots k = f k) /\
    (~ In k order -> gather order f slots k = slots k).
  Proof.
    induction order as [|x o IH]; intros slots k; cbn [gather fold_left In].
    - tauto.
    - change (fold_left (fun s k0 => upd s k0 (f k0)) o (upd slots x (f x))) with (gather o f (upd slots x (f x))).
      destruct (IH (upd slots x (f x)) k) as [I1 I2]. split.
      + intros [->|H].
        * destruct (in_dec Nat.eq_dec k o) as [Hin|Hin]; [auto|].
          rewrite I2 by assumption. apply upd_same.
        * auto.
      + intro H. rewrite I2 by tauto. apply upd_other. intros ->. tauto.
  Qed.

  Theorem starmap_order_independent n order1 order2 f slots :
    Permutation order1 (seq 0 n) -> Permutation order2 (seq 0 n) ->
    map (gather order1 f slots) (seq 0 n) = map (gather order2 f slots) (seq 0 n) /\
    map (gather order1 f slots) (seq 0 n) = map f (seq 0 n).
  Proof.
    intros P1 P2.
    assert (forall order, Permutation order (seq 0 n) ->
                          map (gather order f slots) (seq 0 n) = map f (seq 0 n)) as H.
    { intros order P. apply map_ext_in. intros k Hk.
      apply (proj1 (gather_spec order f slots k)).
      eapply Permutation_in; [apply Permutation_sym, P | exact Hk]. }
    split; [rewrite (H _ P1), (H _ P2); reflexivity | apply H, P1].
  Qed.
End Starmap.
