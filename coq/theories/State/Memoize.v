(* Memoize.v — C16: pylops.MemoizeOperator as a state machine.

   memo2 (run2/call2/init2/store2) = THE CURRENT CODE of
   /repo/pylops/basicoperators/memoizeoperator.py (after the fix "direction-tagged
   store entries, copies returned"):
     state   = (store : list (forward, x, y), neval, max_neval)
     _matvec x  : first entry with forward and allclose(xstored, x)      -> return ystored.copy()
     _rmatvec y : first entry with not forward and allclose(ystored, y)  -> return xstored.copy()
     miss       : if len(store)+1 > max_neval: del store[0]; w = Op(v); neval += 1;
                  store.append((d, x.copy(), y.copy())); return w
   Entries are modelled as (d, a, b) = (direction, input, output).  The caller
   only ever holds copies, so its in-place writes (history operation Mut k w)
   cannot reach the store.

   memo1 (run/call/init/store) = LEGACY: the code BEFORE the fix (one store of
   (x, y) searched on x by matvec and on y by rmatvec, stored arrays returned
   without copy).  Aliasing: every entry carries a unique identity [eid] (the
   value of neval when it was created); a call returns, next to the value, the
   identity of the stored array the returned array IS (Some (eid, d)) or None
   for a fresh array; [Mut k w] rewrites that stored vector if the entry is
   still in the store.  Kept to document the two defects (mixed-direction
   lookup, aliasing of returned arrays) and as the regression model: if the
   implementation ever behaves like memo1 again the check reports a violation.

   [close stored query] is an abstract boolean relation; only reflexivity is
   ever assumed (np.allclose(a, b) := all |a-b| <= atol + rtol*|b| is neither
   symmetric nor transitive). *)
From Coq Require Import QArith Qcanon ZArith List Arith Lia Bool.
From PV Require Import Dict Vec Dot Mat QcInst GaussQc.
Import ListNotations.
Local Close Scope Qc_scope.
Local Close Scope Q_scope.
Local Open Scope nat_scope.

Inductive dir := Fwd | Adj.
Definition dir_eqb (a b : dir) : bool :=
  match a, b with Fwd, Fwd => true | Adj, Adj => true | _, _ => false end.
Lemma dir_eqb_eq a b : dir_eqb a b = true <-> a = b.
Proof. destruct a, b; simpl; split; congruence. Qed.
Lemma dir_eqb_refl a : dir_eqb a a = true.
Proof. destruct a; reflexivity. Qed.

(* len(store) + 1 > max_neval  ->  del store[0] *)
Definition evict {A} (m : nat) (l : list A) : list A := if m <? length l + 1 then tl l else l.

Lemma evict_app_len {A} m (l : list A) e :
  1 <= m -> length l <= m -> length (evict m l ++ [e]) <= m.
Proof.
  intros Hm Hl. unfold evict. rewrite app_length. simpl.
  destruct (Nat.ltb_spec m (length l + 1)).
  - destruct l; simpl in *; lia.
  - lia.
Qed.
Lemma evict_incl {A} m (l : list A) x : In x (evict m l) -> In x l.
Proof. unfold evict. destruct (m <? length l + 1); auto. destruct l; simpl; auto. Qed.
Lemma evict_Forall {A} (P : A -> Prop) m l : Forall P l -> Forall P (evict m l).
Proof. intros H. apply Forall_forall. intros x Hx. apply evict_incl in Hx.
  rewrite Forall_forall in H. auto. Qed.

(* one observation per call: returned value, hit?, neval after, len(store) after *)
Record obs (V : Type) := mkO { o_res : V; o_hit : bool; o_neval : nat; o_len : nat }.
Arguments mkO {V}. Arguments o_res {V}. Arguments o_hit {V}. Arguments o_neval {V}. Arguments o_len {V}.

Inductive hop (V : Type) :=
| Call (d : dir) (v : V)          (* matvec / rmatvec with input v *)
| Mut (k : nat) (w : V)            (* caller overwrites, in place, the array RETURNED by call k with w *)
| MutIn (k : nat) (w : V).         (* caller overwrites, in place, the array of its own that it PASSED AS INPUT to
                                      call k (and may pass again, as the same object, later) with w *)
Arguments Call {V}. Arguments Mut {V}. Arguments MutIn {V}.

Definition calls {V} (h : list (hop V)) : list (dir * V) :=
  flat_map (fun o => match o with Call d v => [(d, v)] | Mut _ _ => [] | MutIn _ _ => [] end) h.
Definition misses {V} (os : list (obs V)) : nat := length (filter (fun o => negb (o_hit o)) os).

Section Memo.
Variable V : Type.
Variable op : dir -> V -> V.           (* the wrapped operator: op Fwd = Op, op Adj = Op^H *)
Variable close : V -> V -> bool.       (* close stored query *)
Hypothesis close_refl : forall v, close v v = true.

(* ================================================================ memo1 (LEGACY: pre-fix code) *)
Record entry := mkE { eid : nat; ex : V; ey : V }.
Definition key (d : dir) (e : entry) : V := match d with Fwd => ex e | Adj => ey e end.
Definition val (d : dir) (e : entry) : V := match d with Fwd => ey e | Adj => ex e end.
Record st := mkS { store : list entry; neval : nat; maxn : nat }.
Definition init (m : nat) : st := mkS [] 0 m.
Definition alias := option (nat * dir).

Definition lookup (d : dir) (v : V) (l : list entry) : option entry :=
  find (fun e => close (key d e) v) l.
(* store.append((x.copy(), y.copy())): x is always the model-space member *)
Definition new_entry (d : dir) (i : nat) (v w : V) : entry :=
  match d with Fwd => mkE i v w | Adj => mkE i w v end.

Definition call (d : dir) (v : V) (s : st) : st * V * alias :=
  match lookup d v (store s) with
  | Some e => (s, val d e, Some (eid e, d))
  | None => let w := op d v in
      (mkS (evict (maxn s) (store s) ++ [new_entry d (neval s) v w]) (S (neval s)) (maxn s), w, None)
  end.

Definition setval (d : dir) (w : V) (e : entry) : entry :=
  match d with Fwd => mkE (eid e) (ex e) w | Adj => mkE (eid e) w (ey e) end.
Definition mutate (a : alias) (w : V) (s : st) : st :=
  match a with
  | None => s
  | Some (i, d) => mkS (map (fun e => if eid e =? i then setval d w e else e) (store s)) (neval s) (maxn s)
  end.

Definition is_hit (a : alias) : bool := match a with Some _ => true | None => false end.

(* log = aliases of the arrays returned so far, in call order *)
Fixpoint run (h : list (hop V)) (s : st) (log : list alias) : list (obs V) * st :=
  match h with
  | [] => ([], s)
  | Call d v :: h' =>
      let c := call d v s in
      let s' := fst (fst c) in
      let rs := run h' s' (log ++ [snd c]) in
      (mkO (snd (fst c)) (is_hit (snd c)) (neval s') (length (store s')) :: fst rs, snd rs)
  | Mut k w :: h' => run h' (mutate (nth k log None) w s) log
  | MutIn _ _ :: h' => run h' s log     (* inputs are stored as copies (x.copy()): invisible *)
  end.

(* ---- facts about one call *)
Lemma call_miss_iff d v s :
  snd (call d v s) = None <-> (forall e, In e (store s) -> close (key d e) v = false).
Proof.
  unfold call, lookup. destruct (find _ (store s)) eqn:E; simpl; split; intros H; auto; try discriminate.
  - apply find_some in E. destruct E as [Hi Hc]. rewrite (H e Hi) in Hc. discriminate.
  - intros e Hi. exact (find_none _ _ E e Hi).
Qed.

Lemma call_bound d v s : 1 <= maxn s -> length (store s) <= maxn s ->
  length (store (fst (fst (call d v s)))) <= maxn s /\ maxn (fst (fst (call d v s))) = maxn s.
Proof.
  intros Hm Hl. unfold call. destruct (lookup d v (store s)); simpl; split; auto.
  apply evict_app_len; auto.
Qed.

Lemma call_neval d v s :
  neval (fst (fst (call d v s))) = neval s + (if is_hit (snd (call d v s)) then 0 else 1).
Proof. unfold call. destruct (lookup d v (store s)); simpl; lia. Qed.

Lemma mutate_len a w s : length (store (mutate a w s)) = length (store s).
Proof. destruct a as [[i d]|]; simpl; auto. apply map_length. Qed.
Lemma mutate_maxn a w s : maxn (mutate a w s) = maxn s.
Proof. destruct a as [[i d]|]; reflexivity. Qed.
Lemma mutate_neval a w s : neval (mutate a w s) = neval s.
Proof. destruct a as [[i d]|]; reflexivity. Qed.

(* ---- memo_store_bounded: every history, including caller mutations *)
Lemma run_bounded h : forall s log, 1 <= maxn s -> length (store s) <= maxn s ->
  length (store (snd (run h s log))) <= maxn s /\
  maxn (snd (run h s log)) = maxn s /\
  Forall (fun o => o_len o <= maxn s) (fst (run h s log)).
Proof.
  induction h as [|[d v|k w|k w] h IH]; intros s log Hm Hl; cbn [run fst snd].
  - auto.
  - destruct (call_bound d v s Hm Hl) as [Hb Hx].
    destruct (IH (fst (fst (call d v s))) (log ++ [snd (call d v s)])) as (A & B & C);
      try rewrite Hx; auto.
    rewrite Hx in *. repeat split; auto.
  - destruct (IH (mutate (nth k log None) w s) log) as (A & B & C);
      rewrite ?mutate_maxn, ?mutate_len; auto.
    rewrite mutate_maxn in *. auto.
  - apply IH; auto.
Qed.

Theorem memo_store_bounded h m : 1 <= m ->
  length (store (snd (run h (init m) []))) <= m /\
  Forall (fun o => o_len o <= m) (fst (run h (init m) [])).
Proof. intros Hm. destruct (run_bounded h (init m) []) as (A & B & C); simpl; auto; lia. Qed.

(* ---- memo_neval_counts_misses *)
Lemma run_neval h : forall s log,
  neval (snd (run h s log)) = neval s + misses (fst (run h s log)).
Proof.
  induction h as [|[d v|k w|k w] h IH]; intros s log; cbn [run fst snd].
  - unfold misses; simpl; lia.
  - rewrite IH, call_neval. unfold misses. cbn [filter o_hit].
    destruct (is_hit (snd (call d v s))); simpl; lia.
  - rewrite IH, mutate_neval. reflexivity.
  - apply IH.
Qed.

Theorem memo_neval_counts_misses h m :
  neval (snd (run h (init m) [])) = misses (fst (run h (init m) [])).
Proof. rewrite run_neval. reflexivity. Qed.

(* ---- memo_single_direction: one direction, no caller mutation *)
Definition inv1 (d0 : dir) (l : list entry) : Prop := Forall (fun e => val d0 e = op d0 (key d0 e)) l.

Lemma call_single d0 v s : inv1 d0 (store s) ->
  inv1 d0 (store (fst (fst (call d0 v s)))) /\
  exists x', close x' v = true /\ snd (fst (call d0 v s)) = op d0 x' /\
             (is_hit (snd (call d0 v s)) = false -> x' = v) /\
             (is_hit (snd (call d0 v s)) = true -> exists e, In e (store s) /\ key d0 e = x').
Proof.
  intros Hi. unfold call, lookup. destruct (find _ (store s)) eqn:E; simpl.
  - apply find_some in E. destruct E as [Hin Hc]. split; auto.
    exists (key d0 e). repeat split; auto.
    + unfold inv1 in Hi. rewrite Forall_forall in Hi. auto.
    + discriminate.
    + intros _. exists e. auto.
  - split.
    + apply Forall_app. split. apply evict_Forall; auto.
      constructor; auto. destruct d0; reflexivity.
    + exists v. repeat split; auto. discriminate.
Qed.

Lemma run_single d0 vs : forall s log, inv1 d0 (store s) ->
  Forall2 (fun v o => exists x', close x' v = true /\ o_res o = op d0 x' /\ (o_hit o = false -> x' = v))
          vs (fst (run (map (Call d0) vs) s log)).
Proof.
  induction vs as [|v vs IH]; intros s log Hi; cbn [map run fst snd]; constructor.
  - destruct (call_single d0 v s Hi) as (_ & x' & A & B & C & _). exists x'. simpl. auto.
  - apply IH. apply (call_single d0 v s Hi).
Qed.

Theorem memo_single_direction d0 vs m :
  Forall2 (fun v o => exists x', close x' v = true /\ o_res o = op d0 x' /\ (o_hit o = false -> x' = v))
          vs (fst (run (map (Call d0) vs) (init m) [])).
Proof. apply run_single. constructor. Qed.

(* ---- the two defects, for EVERY wrapped operator and every max_neval *)
Lemma evict_nil {A} m : @evict A m [] = [].
Proof. unfold evict. destruct (m <? length (@nil A) + 1); reflexivity. Qed.

(* rmatvec y ; matvec (Op^H y)  returns  y  (not Op (Op^H y)) and does not evaluate Op *)
Theorem memo_mixed_returns_y y m :
  map (fun o => (o_res o, o_neval o)) (fst (run [Call Adj y; Call Fwd (op Adj y)] (init m) []))
  = [(op Adj y, 1); (y, 1)].
Proof.
  assert (call Adj y (init m) = (mkS [mkE 0 (op Adj y) y] 1 m, op Adj y, None)) as H1.
  { unfold call. simpl. rewrite evict_nil. reflexivity. }
  assert (call Fwd (op Adj y) (mkS [mkE 0 (op Adj y) y] 1 m)
          = (mkS [mkE 0 (op Adj y) y] 1 m, y, Some (0, Fwd))) as H2.
  { unfold call. simpl. rewrite close_refl. reflexivity. }
  cbn [run]. rewrite H1. cbn [fst snd]. rewrite H2. reflexivity.
Qed.

(* matvec x ; matvec x ; caller overwrites the 2nd result with w ; matvec x  returns  w *)
Theorem memo_alias_returns_w x w m :
  map o_res (fst (run [Call Fwd x; Call Fwd x; Mut 1 w; Call Fwd x] (init m) [])) = [op Fwd x; op Fwd x; w].
Proof.
  assert (call Fwd x (init m) = (mkS [mkE 0 x (op Fwd x)] 1 m, op Fwd x, None)) as H1.
  { unfold call. simpl. rewrite evict_nil. reflexivity. }
  assert (forall z, call Fwd x (mkS [mkE 0 x z] 1 m) = (mkS [mkE 0 x z] 1 m, z, Some (0, Fwd))) as H2.
  { intros z. unfold call. simpl. rewrite close_refl. reflexivity. }
  cbn [run]. rewrite H1. cbn [fst snd]. rewrite H2. cbn [fst snd app nth].
  unfold mutate. cbn [store map eid Nat.eqb setval ex neval maxn]. rewrite H2. reflexivity.
Qed.

(* ================================================================ memo2 (current code) *)
Record entry2 := mkE2 { ed : dir; ea : V; eb : V }.
Record st2 := mkS2 { store2 : list entry2; neval2 : nat; maxn2 : nat }.
Definition init2 (m : nat) : st2 := mkS2 [] 0 m.
Definition lookup2 (d : dir) (v : V) (l : list entry2) : option entry2 :=
  find (fun e => dir_eqb (ed e) d && close (ea e) v) l.
Definition call2 (d : dir) (v : V) (s : st2) : st2 * V * bool :=
  match lookup2 d v (store2 s) with
  | Some e => (s, eb e, true)                                   (* a COPY of the stored output *)
  | None => (mkS2 (evict (maxn2 s) (store2 s) ++ [mkE2 d v (op d v)]) (S (neval2 s)) (maxn2 s), op d v, false)
  end.
Fixpoint run2 (h : list (hop V)) (s : st2) : list (obs V) * st2 :=
  match h with
  | [] => ([], s)
  | Call d v :: h' =>
      let c := call2 d v s in
      let s' := fst (fst c) in
      let rs := run2 h' s' in
      (mkO (snd (fst c)) (snd c) (neval2 s') (length (store2 s')) :: fst rs, snd rs)
  | Mut _ _ :: h' => run2 h' s          (* returned arrays are copies of the stored outputs *)
  | MutIn _ _ :: h' => run2 h' s        (* stored keys are copies of the inputs *)
  end.

Definition inv2 (l : list entry2) : Prop := Forall (fun e => eb e = op (ed e) (ea e)) l.

(* specification of one call in any state satisfying the invariant *)
Lemma call2_spec d v s : inv2 (store2 s) -> 1 <= maxn2 s -> length (store2 s) <= maxn2 s ->
  let c := call2 d v s in let s' := fst (fst c) in
  inv2 (store2 s') /\ maxn2 s' = maxn2 s /\ length (store2 s') <= maxn2 s /\
  neval2 s' = neval2 s + (if snd c then 0 else 1) /\
  (snd c = true -> s' = s) /\
  (snd c = true <-> exists e, In e (store2 s) /\ ed e = d /\ close (ea e) v = true) /\
  exists x', close x' v = true /\ snd (fst c) = op d x' /\
             (snd c = false -> x' = v) /\
             (snd c = true -> exists e, In e (store2 s) /\ ed e = d /\ ea e = x').
Proof.
  intros Hi Hm Hl. unfold call2, lookup2. destruct (find _ (store2 s)) eqn:E; cbn [fst snd].
  - apply find_some in E. destruct E as [Hin Hc]. apply andb_true_iff in Hc. destruct Hc as [Hd Hc].
    apply dir_eqb_eq in Hd. repeat split; auto; try lia.
    + intros _. exists e. auto.
    + exists (ea e). repeat split; auto.
      * unfold inv2 in Hi. rewrite Forall_forall in Hi. rewrite (Hi e Hin), Hd. reflexivity.
      * discriminate.
      * intros _. exists e. auto.
  - cbn [store2 neval2 maxn2]. repeat split; auto; try lia; try discriminate.
    + apply Forall_app. split. apply evict_Forall; auto. constructor; auto.
    + apply evict_app_len; auto.
    + intros (e & Hin & Hd & Hc). pose proof (find_none _ _ E e Hin) as F. cbn in F.
      rewrite Hd, dir_eqb_refl, Hc in F. discriminate.
    + exists v. repeat split; auto. discriminate.
Qed.

(* "at most one evaluation per stored input": while (d, a, _) is stored, a call
   in direction d with an input close to a (in particular a itself) does not
   evaluate the wrapped operator and leaves the state unchanged *)
Theorem memo2_no_reevaluation d v s e : In e (store2 s) -> ed e = d -> close (ea e) v = true ->
  fst (fst (call2 d v s)) = s /\ snd (call2 d v s) = true.
Proof.
  intros Hin Hd Hc. unfold call2, lookup2. destruct (find _ (store2 s)) eqn:E; cbn [fst snd]; auto.
  pose proof (find_none _ _ E e Hin) as F. cbn in F. rewrite Hd, dir_eqb_refl, Hc in F. discriminate.
Qed.
Corollary memo2_no_reevaluation_same s e : In e (store2 s) ->
  fst (fst (call2 (ed e) (ea e) s)) = s /\ snd (call2 (ed e) (ea e) s) = true.
Proof. intros H. apply (memo2_no_reevaluation _ _ s e); auto. Qed.

(* ---- hypothesis-free facts about memo2 *)
Lemma call2_hit_iff d v s :
  snd (call2 d v s) = true <-> exists e, In e (store2 s) /\ ed e = d /\ close (ea e) v = true.
Proof.
  unfold call2, lookup2. destruct (find _ (store2 s)) eqn:E; cbn [fst snd]; split; auto; try discriminate.
  - intros _. apply find_some in E. destruct E as [Hin Hc]. apply andb_true_iff in Hc. destruct Hc as [Hd Hc].
    apply dir_eqb_eq in Hd. exists e. auto.
  - intros (e & Hin & Hd & Hc). pose proof (find_none _ _ E e Hin) as F. cbn in F.
    rewrite Hd, dir_eqb_refl, Hc in F. discriminate.
Qed.

Lemma call2_bound d v s : 1 <= maxn2 s -> length (store2 s) <= maxn2 s ->
  length (store2 (fst (fst (call2 d v s)))) <= maxn2 s /\ maxn2 (fst (fst (call2 d v s))) = maxn2 s.
Proof.
  intros Hm Hl. unfold call2. destruct (lookup2 d v (store2 s)); simpl; split; auto.
  apply evict_app_len; auto.
Qed.
Lemma call2_neval d v s :
  neval2 (fst (fst (call2 d v s))) = neval2 s + (if snd (call2 d v s) then 0 else 1).
Proof. unfold call2. destruct (lookup2 d v (store2 s)); simpl; lia. Qed.

Lemma run2_bounded h : forall s, 1 <= maxn2 s -> length (store2 s) <= maxn2 s ->
  length (store2 (snd (run2 h s))) <= maxn2 s /\
  maxn2 (snd (run2 h s)) = maxn2 s /\
  Forall (fun o => o_len o <= maxn2 s) (fst (run2 h s)).
Proof.
  induction h as [|[d v|k w|k w] h IH]; intros s Hm Hl; cbn [run2 fst snd].
  - auto.
  - destruct (call2_bound d v s Hm Hl) as [Hb Hx].
    destruct (IH (fst (fst (call2 d v s)))) as (A & B & C); try rewrite Hx; auto.
    rewrite Hx in *. repeat split; auto.
  - apply IH; auto.
  - apply IH; auto.
Qed.
Theorem memo2_store_bounded h m : 1 <= m ->
  length (store2 (snd (run2 h (init2 m)))) <= m /\
  Forall (fun o => o_len o <= m) (fst (run2 h (init2 m))).
Proof. intros Hm. destruct (run2_bounded h (init2 m)) as (A & B & C); simpl; auto; lia. Qed.

Lemma run2_neval h : forall s, neval2 (snd (run2 h s)) = neval2 s + misses (fst (run2 h s)).
Proof.
  induction h as [|[d v|k w|k w] h IH]; intros s; cbn [run2 fst snd].
  - unfold misses; simpl; lia.
  - rewrite IH, call2_neval. unfold misses. cbn [filter o_hit].
    destruct (snd (call2 d v s)); simpl; lia.
  - apply IH.
  - apply IH.
Qed.
Theorem memo2_neval_counts_misses h m :
  neval2 (snd (run2 h (init2 m))) = misses (fst (run2 h (init2 m))).
Proof. rewrite run2_neval. reflexivity. Qed.

(* caller writes — into arrays returned earlier (Mut) AND into arrays of its own that it
   passed as inputs and may pass again as the same object (MutIn) — are invisible: the
   run is the run of the calls alone *)
Theorem memo2_mutation_invisible h s :
  run2 h s = run2 (map (fun c => Call (fst c) (snd c)) (calls h)) s.
Proof.
  revert s. induction h as [|[d v|k w|k w] h IH]; intros s; cbn [run2 calls flat_map map app fst snd]; auto.
  rewrite IH. reflexivity.
Qed.

Definition transparent_obs (m : nat) (c : dir * V) (o : obs V) : Prop :=
  (exists x', close x' (snd c) = true /\ o_res o = op (fst c) x' /\ (o_hit o = false -> x' = snd c)) /\
  o_len o <= m.

Lemma run2_transparent h : forall s, inv2 (store2 s) -> 1 <= maxn2 s -> length (store2 s) <= maxn2 s ->
  Forall2 (transparent_obs (maxn2 s)) (calls h) (fst (run2 h s)) /\
  inv2 (store2 (snd (run2 h s))) /\
  length (store2 (snd (run2 h s))) <= maxn2 s /\
  neval2 (snd (run2 h s)) = neval2 s + misses (fst (run2 h s)).
Proof.
  induction h as [|[d v|k w|k w] h IH]; intros s Hi Hm Hl; cbn [run2 calls flat_map fst snd app].
  - repeat split; auto; try (unfold misses; simpl; lia).
  - destruct (call2_spec d v s Hi Hm Hl) as (A & B & C & D & _ & _ & x' & X1 & X2 & X3 & _).
    destruct (IH (fst (fst (call2 d v s)))) as (F & G & H & I); try rewrite B; auto.
    rewrite B in *. repeat split; auto.
    + constructor; auto. split; cbn; auto. exists x'. auto.
    + rewrite I, D. unfold misses. cbn [filter o_hit]. destruct (snd (call2 d v s)); simpl; lia.
  - apply IH; auto.
  - apply IH; auto.
Qed.

Theorem memo_transparent h m : 1 <= m ->
  Forall2 (transparent_obs m) (calls h) (fst (run2 h (init2 m))) /\
  length (store2 (snd (run2 h (init2 m)))) <= m /\
  neval2 (snd (run2 h (init2 m))) = misses (fst (run2 h (init2 m))) /\
  inv2 (store2 (snd (run2 h (init2 m)))).
Proof.
  intros Hm. destruct (run2_transparent h (init2 m)) as (A & B & C & D); simpl; auto; try lia.
  constructor.
Qed.

End Memo.

Arguments mkE {V}. Arguments mkS {V}. Arguments mkE2 {V}. Arguments mkS2 {V}.

(* ================================================================ instances *)
Local Open Scope Qc_scope.

Fixpoint all2 {A} (f : A -> A -> bool) (u v : list A) : bool :=
  match u, v with
  | [], [] => true
  | a :: u', b :: v' => f a b && all2 f u' v'
  | _, _ => false
  end.
Lemma all2_refl {A} (f : A -> A -> bool) : (forall a, f a a = true) -> forall u, all2 f u u = true.
Proof. intros H u; induction u; simpl; auto. rewrite H, IHu. reflexivity. Qed.

(* numpy defaults (MemoizeOperator calls np.allclose(stored, query) with no tolerances) *)
Definition rtol : Qc := Q2Qc (1 # 100000).
Definition atol : Qc := Q2Qc (1 # 100000000).
Definition Qcabs_b (a : Qc) : Qc := if Qcleb 0 a then a else - a.

Lemma Qcabs_b_nonneg a : 0 <= Qcabs_b a.
Proof.
  unfold Qcabs_b. destruct (Qcleb 0 a) eqn:E.
  - apply Qcleb_spec; exact E.
  - destruct (Qclt_le_dec a 0) as [H|H].
    + apply Qclt_le_weak in H. apply Qcopp_le_compat in H. exact H.
    + apply Qcleb_spec in H. congruence.
Qed.
Lemma tol_nonneg t : 0 <= t -> 0 <= atol + rtol * t.
Proof.
  intros H. replace 0 with (0 + 0) by ring. apply Qcplus_le_compat.
  - apply Qcleb_spec. reflexivity.
  - replace 0 with (0 * t) by ring. apply Qcmult_le_compat_r; auto. apply Qcleb_spec. reflexivity.
Qed.

(* real: |a - b| <= atol + rtol * |b| *)
Definition isclose_q (a b : Qc) : bool := Qcleb (Qcabs_b (a - b)) (atol + rtol * Qcabs_b b).
Definition allclose_q : list Qc -> list Qc -> bool := all2 isclose_q.
Lemma isclose_q_refl a : isclose_q a a = true.
Proof.
  unfold isclose_q. replace (a - a) with 0 by ring. apply Qcleb_spec.
  change (Qcabs_b 0) with 0. apply tol_nonneg, Qcabs_b_nonneg.
Qed.
Lemma allclose_q_refl v : allclose_q v v = true.
Proof. apply all2_refl, isclose_q_refl. Qed.

(* complex: |a - b| <= atol + rtol * |b| with the complex modulus, decided
   exactly without square roots:  nd <= c + 2 atol rtol sqrt(nb),
   nd = |a-b|^2, nb = |b|^2, c = atol^2 + rtol^2 nb *)
Definition gnorm2 (a : G) : Qc := fst a * fst a + snd a * snd a.
Definition isclose_g (a b : G) : bool :=
  let nd := gnorm2 (gsub a b) in
  let nb := gnorm2 b in
  let c := atol * atol + rtol * rtol * nb in
  if Qcleb nd c then true
  else let t := (nd - c) / (Q2Qc 2 * atol * rtol) in Qcleb (t * t) nb.
Definition allclose_g : list G -> list G -> bool := all2 isclose_g.

Lemma Qcsq_nonneg a : 0 <= a * a.
Proof.
  destruct (Qclt_le_dec a 0) as [H|H].
  - replace (a * a) with ((- a) * (- a)) by ring.
    assert (0 <= - a) as P by (apply Qclt_le_weak in H; apply Qcopp_le_compat in H; exact H).
    replace 0 with (0 * - a) by ring. apply Qcmult_le_compat_r; auto.
  - replace 0 with (0 * a) by ring. apply Qcmult_le_compat_r; auto.
Qed.
Lemma isclose_g_refl a : isclose_g a a = true.
Proof.
  unfold isclose_g. destruct a as [x y]. unfold gsub, gnorm2. cbn [fst snd].
  replace ((x - x) * (x - x) + (y - y) * (y - y)) with 0 by ring.
  assert (Qcleb 0 (atol * atol + rtol * rtol * (x * x + y * y)) = true) as E.
  { apply Qcleb_spec. replace 0 with (0 + 0) by ring. apply Qcplus_le_compat.
    - apply Qcleb_spec; reflexivity.
    - replace 0 with (0 * (x * x + y * y)) by ring. apply Qcmult_le_compat_r.
      + apply Qcleb_spec; reflexivity.
      + replace 0 with (0 + 0) by ring. apply Qcplus_le_compat; apply Qcsq_nonneg. }
  rewrite E. reflexivity.
Qed.
Lemma allclose_g_refl v : allclose_g v v = true.
Proof. apply all2_refl, isclose_g_refl. Qed.

(* wrapped operator = MatrixMult(A): forward A x, adjoint A^H y (n = number of columns) *)
Definition opQ (n : nat) (A : list (list Qc)) (d : dir) : list Qc -> list Qc :=
  match d with Fwd => mv QcR A | Adj => mvH QcS n A end.
Definition opG (n : nat) (A : list (list G)) (d : dir) : list G -> list G :=
  match d with Fwd => mv GR A | Adj => mvH GS n A end.

(* ---- concrete refutations of transparency for the code as it stands *)
Local Close Scope Qc_scope.
Local Open Scope nat_scope.
Definition qi (z : Z) : Qc := Q2Qc (z # 1).
Definition A32 : list (list Qc) := [[qi 1; qi 2]; [qi 3; qi 4]; [qi 0; qi 1]].
Definition y3 : list Qc := [qi 1; qi 2; qi 3].
Definition x2 : list Qc := [qi 1; qi 1].

(* history  rmatvec y ; matvec (A^H y): the second call returns y = [1;2;3]
   while A (A^H y) = [33;73;13]; not allclose. *)
Theorem memo_mixed_refuted :
  exists (n : nat) (A : list (list Qc)) (m : nat) (h : list (hop (list Qc))) (d : dir) (x r : list Qc),
    1 <= m /\ nth_error (calls h) 1 = Some (d, x) /\
    nth_error (map o_res (fst (run _ (opQ n A) allclose_q h (init _ m) []))) 1 = Some r /\
    opQ n A d x = [qi 33; qi 73; qi 13] /\ r = y3 /\
    allclose_q r (opQ n A d x) = false /\ allclose_q (opQ n A d x) r = false.
Proof.
  exists 2, A32, 3, [Call Adj y3; Call Fwd (opQ 2 A32 Adj y3)], Fwd, (opQ 2 A32 Adj y3), y3.
  split; [lia|]. vm_compute. repeat split; reflexivity.
Qed.

(* history  matvec x ; matvec x (hit) ; caller adds 100 to the array it got ; matvec x:
   the last call returns the caller's numbers. *)
Theorem memo_alias_refuted :
  exists (n : nat) (A : list (list Qc)) (m : nat) (h : list (hop (list Qc))) (d : dir) (x r : list Qc),
    1 <= m /\ nth_error (calls h) 2 = Some (d, x) /\
    nth_error (map o_res (fst (run _ (opQ n A) allclose_q h (init _ m) []))) 2 = Some r /\
    opQ n A d x = [qi 3; qi 7; qi 1] /\ r = [qi 103; qi 107; qi 101] /\
    allclose_q r (opQ n A d x) = false /\ allclose_q (opQ n A d x) r = false.
Proof.
  exists 2, A32, 3, [Call Fwd x2; Call Fwd x2; Mut 1 [qi 103; qi 107; qi 101]; Call Fwd x2],
    Fwd, x2, [qi 103; qi 107; qi 101].
  split; [lia|]. vm_compute. repeat split; reflexivity.
Qed.

(* the same two histories on the repaired design are transparent (sanity of memo2 by execution) *)
Example memo2_mixed_ok :
  map o_res (fst (run2 _ (opQ 2 A32) allclose_q [Call Adj y3; Call Fwd (opQ 2 A32 Adj y3)] (init2 _ 3)))
  = [[qi 7; qi 13]; [qi 33; qi 73; qi 13]].
Proof. vm_compute. reflexivity. Qed.
Example memo2_alias_ok :
  map o_res (fst (run2 _ (opQ 2 A32) allclose_q
     [Call Fwd x2; Call Fwd x2; Mut 1 [qi 103; qi 107; qi 101]; Call Fwd x2] (init2 _ 3)))
  = [[qi 3; qi 7; qi 1]; [qi 3; qi 7; qi 1]; [qi 3; qi 7; qi 1]].
Proof. vm_compute. reflexivity. Qed.

(* matvec x (x a caller array) ; caller rewrites x in place to x' ; matvec x (same object, now x'):
   the stored key is a copy, the second call is a miss and returns A x' *)
Example memo2_inkey_ok :
  map (fun o => (o_res o, o_neval o)) (fst (run2 _ (opQ 2 A32) allclose_q
     [Call Fwd x2; MutIn 0 [qi 2; qi 5]; Call Fwd [qi 2; qi 5]] (init2 _ 3)))
  = [([qi 3; qi 7; qi 1], 1); ([qi 12; qi 26; qi 5], 2)].
Proof. vm_compute. reflexivity. Qed.
(* square operator, the same vector once as model and once as data: two evaluations, A v and A^H v *)
Definition A22 : list (list Qc) := [[qi 1; qi 2]; [qi 3; qi 4]].
Example memo2_square_ok :
  map (fun o => (o_res o, o_neval o)) (fst (run2 _ (opQ 2 A22) allclose_q
     [Call Fwd x2; Call Adj x2; Call Fwd x2] (init2 _ 3)))
  = [([qi 3; qi 7], 1); ([qi 4; qi 6], 2); ([qi 3; qi 7], 2)].
Proof. vm_compute. reflexivity. Qed.
