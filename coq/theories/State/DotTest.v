(* DotTest.v — model of pylops/utils/dottest.py (C18).

   Code being modelled (numpy backend):
     u = randn(nc) [+ 1j*randn(nc) if complexflag in (1,3)]
     v = randn(nr) [+ 1j*randn(nr) if complexflag in (2,3)]
     y = Op.matvec(u);  x = Op.rmatvec(v)
     clinear:      yy = vdot(y, v);  xx = vdot(u, x)        (vdot conjugates its FIRST argument)
     not clinear:  yy = dot(y.re, v.re) + dot(y.im, v.im);  xx = dot(u.re, x.re) + dot(u.im, x.im)
     passed = isclose(xx, yy, rtol, atol)   i.e.  |xx - yy| <= atol + rtol * |yy|   (a = xx, b = yy)
     not passed and raiseerror -> AssertionError;  else return passed.

   An operator is a pair (A, B) of matrices: forward x |-> A x, adjoint
   y |-> B y with B chosen independently of A.  For operators that are only
   real-linear, A and B are REAL matrices acting on the stacked vector
   (re ++ im), exactly as the code's comment says ("treat complex numbers as
   elements of R^2"). *)
From PV Require Export Mat.
Local Open Scope R_scope.

(* ------------------------------------------------------------------ *)
(* the transposed matrix, as a matrix                                  *)
Section Transp.
Variable R : CRing.
Add Ring RrT : (rth R).

Lemma map_repeat' {A B} (f : A -> B) a n : map f (repeat a n) = repeat (f a) n.
Proof. induction n; simpl; congruence. Qed.

Lemma transpose_length n M : wfM R n M -> length (transpose R n M) = n.
Proof. induction M as [|r M IH]; intros W; simpl.
  - apply repeat_length.
  - inversion W; subst. rewrite map2_length, IH by auto. lia. Qed.

Lemma wfM_map2_cons k r T : wfM R k T -> wfM R (S k) (map2 cons r T).
Proof. unfold wfM. revert T; induction r as [|a r IH]; intros [|t T] H; simpl; auto.
  inversion H; subst. constructor; simpl; auto. Qed.
Lemma wfM_transpose n M : wfM R n M -> wfM R (length M) (transpose R n M).
Proof. induction M as [|r M IH]; intros W; simpl.
  - unfold wfM. apply Forall_forall. intros x Hx. apply repeat_spec in Hx. subst; reflexivity.
  - inversion W; subst. apply wfM_map2_cons; auto. Qed.

Lemma mv_map2_cons r T b y : length r = length T ->
  mv R (map2 cons r T) (b :: y) = vadd R (vscale R b r) (mv R T y).
Proof. revert T; induction r as [|a r IH]; intros [|t T] H; simpl in *; try discriminate; auto.
  unfold vadd, vscale, mv in *; simpl. rewrite IH by lia. f_equal. ring. Qed.

Lemma mv_transpose n M y : wfM R n M -> length y = length M ->
  mv R (transpose R n M) y = mvT R n M y.
Proof. revert y; induction M as [|r M IH]; intros [|b y] W H; simpl in *; try discriminate.
  - unfold mv; rewrite map_repeat'; reflexivity.
  - inversion W; subst. rewrite mv_map2_cons by (rewrite transpose_length; auto).
    rewrite IH by (auto; lia). reflexivity. Qed.

Definition mscale (c : R) (M : list (list R)) : list (list R) := map (vscale R c) M.
Definition msub (M N : list (list R)) : list (list R) := map2 (vsub R) M N.

Lemma mv_mscale c M x : mv R (mscale c M) x = vscale R c (mv R M x).
Proof. unfold mv, mscale, vscale at 2; rewrite !map_map; apply map_ext; intros; apply dotu_vscale_l. Qed.

Lemma mv_msub n M N x : wfM R n M -> wfM R n N -> length M = length N ->
  mv R (msub M N) x = vsub R (mv R M x) (mv R N x).
Proof. revert N; induction M as [|r M IH]; intros [|s N] WM WN H; simpl in *; try discriminate; auto.
  inversion WM; inversion WN; subst. unfold msub, vsub, mv in *; simpl. rewrite IH by (auto; lia).
  f_equal. apply dotu_vsub_l. congruence. Qed.
End Transp.

Section AdjMat.
Variable S : StarRing.
Lemma mv_ctranspose n (A : list (list S)) v : wfM S n A -> length v = length A ->
  mv S (ctranspose S n A) v = mvH S n A v.
Proof. intros W H; unfold ctranspose, mvH. apply mv_transpose; auto using wfM_mconj.
  unfold mconj; rewrite map_length; auto. Qed.
Lemma ctranspose_length n (A : list (list S)) : wfM S n A -> length (ctranspose S n A) = n.
Proof. intros; unfold ctranspose; apply transpose_length; auto using wfM_mconj. Qed.
End AdjMat.

(* ------------------------------------------------------------------ *)
(* facts about an abstract ordered field                               *)
Section OrdFacts.
Variable F : OrdField.
Add Field FfO : (fth F).
Notation "a <== b" := (rle F a b) (at level 70).

Lemma le_sub a b : a <== b -> 0 <== b - a.
Proof. intros H. apply (rle_add F a b (- a)) in H.
  replace (a + - a) with (r0 F) in H by ring. replace (b + - a) with (b - a) in H by ring. exact H. Qed.
Lemma sub_le a b : 0 <== b - a -> a <== b.
Proof. intros H. apply (rle_add F 0 (b - a) a) in H.
  replace (0 + a) with a in H by ring. replace (b - a + a) with b in H by ring. exact H. Qed.
Lemma le_add2 a b c d : a <== b -> c <== d -> a + c <== b + d.
Proof. intros H1 H2. apply (rle_trans F _ (b + c)).
  - apply rle_add; auto.
  - replace (b + c) with (c + b) by ring. replace (b + d) with (d + b) by ring. apply rle_add; auto. Qed.
Lemma nonneg_add a b : 0 <== a -> 0 <== b -> 0 <== a + b.
Proof. intros. replace (r0 F) with (r0 F + r0 F) by ring. apply le_add2; auto. Qed.
Lemma le_opp a : a <== 0 -> 0 <== - a.
Proof. intros H. apply le_sub in H. replace (0 - a) with (- a) in H by ring. exact H. Qed.
Lemma sq_nonneg a : 0 <== a * a.
Proof. destruct (rle_total F 0 a) as [H|H].
  - apply rle_mul; auto.
  - apply le_opp in H. replace (a * a) with (- a * - a) by ring. apply rle_mul; auto. Qed.
Lemma mul_le_l c a b : 0 <== c -> a <== b -> c * a <== c * b.
Proof. intros Hc H. apply sub_le. replace (c * b - c * a) with (c * (b - a)) by ring.
  apply rle_mul; auto using le_sub. Qed.
Lemma eq0_dec (a : F) : a = 0 \/ a <> 0.
Proof. destruct (rleb F 0 a) eqn:E1; destruct (rleb F a 0) eqn:E2.
  - left. apply rle_antisym; apply rleb_spec; auto.
  - right; intros ->. rewrite (proj2 (rleb_spec F 0 0) (rle_refl F 0)) in E2; discriminate.
  - right; intros ->. rewrite (proj2 (rleb_spec F 0 0) (rle_refl F 0)) in E1; discriminate.
  - right; intros ->. rewrite (proj2 (rleb_spec F 0 0) (rle_refl F 0)) in E1; discriminate. Qed.
Lemma mul_eq0 (a b : F) : a * b = 0 -> a = 0 \/ b = 0.
Proof. intros H. destruct (eq0_dec a) as [Ha|Ha]; [left; auto | right].
  replace b with ((a * b) / a) by (field; auto). rewrite H. field; auto. Qed.
Lemma sq_le_inv a b : 0 <== a -> 0 <== b -> a * a <== b * b -> a <== b.
Proof. intros Ha Hb H. destruct (rle_total F a b) as [L|L]; auto.
  assert (H2 : b * b <== a * a).
  { apply sub_le. replace (a * a - b * b) with ((a - b) * (a + b)) by ring.
    apply rle_mul; auto using le_sub, nonneg_add. }
  assert (E : (a - b) * (a + b) = 0).
  { replace ((a - b) * (a + b)) with (a * a - b * b) by ring. rewrite (rle_antisym F _ _ H H2). ring. }
  destruct (mul_eq0 _ _ E) as [E1|E1].
  - replace a with b; [apply rle_refl|]. replace b with (b + 0) by ring. rewrite <- E1. ring.
  - apply sub_le. replace (b - a) with (b + b - (a + b)) by ring. rewrite E1.
    replace (b + b - 0) with (b + b) by ring. apply nonneg_add; auto. Qed.
Lemma sq_inj a b : 0 <== a -> 0 <== b -> a * a = b * b -> a = b.
Proof. intros Ha Hb H. apply rle_antisym; apply sq_le_inv; auto; rewrite H; apply rle_refl. Qed.
Lemma sumsq0 (a b : F) : a * a + b * b = 0 -> a = 0 /\ b = 0.
Proof. intros H.
  assert (A0 : a * a = 0).
  { apply rle_antisym; [|apply sq_nonneg]. apply sub_le. replace (0 - a * a) with (b * b); [apply sq_nonneg|].
    replace (b * b) with (a * a + b * b - a * a) by ring. rewrite H. ring. }
  assert (B0 : b * b = 0).
  { replace (b * b) with (a * a + b * b - a * a) by ring. rewrite H, A0. ring. }
  split; [destruct (mul_eq0 _ _ A0) | destruct (mul_eq0 _ _ B0)]; auto. Qed.

(* numpy's abs on reals *)
Definition fabs (a : F) : F := if rleb F 0 a then a else - a.
Lemma fabs_nonneg a : 0 <== fabs a.
Proof. unfold fabs. destruct (rleb F 0 a) eqn:E.
  - apply rleb_spec; auto.
  - destruct (rle_total F 0 a) as [H|H]; [apply rleb_spec in H; congruence | apply le_opp; auto]. Qed.
Lemma fabs_sq a : fabs a * fabs a = a * a.
Proof. unfold fabs; destruct (rleb F 0 a); ring. Qed.
Lemma fabs_mul a b : fabs (a * b) = fabs a * fabs b.
Proof. apply sq_inj; [apply fabs_nonneg | apply rle_mul; apply fabs_nonneg |].
  replace (fabs a * fabs b * (fabs a * fabs b)) with ((fabs a * fabs a) * (fabs b * fabs b)) by ring.
  rewrite !fabs_sq. ring. Qed.
Lemma fabs_0 : fabs 0 = 0.
Proof. unfold fabs; destruct (rleb F 0 0); ring. Qed.
Lemma fabs_eq0 a : fabs a = 0 -> a = 0.
Proof. intros H. pose proof (fabs_sq a) as E. rewrite H in E.
  destruct (mul_eq0 a a) as [X|X]; auto. rewrite <- E; ring. Qed.
End OrdFacts.

(* ------------------------------------------------------------------ *)
(* complex numbers as pairs over a ring (re, im)                       *)
Section CPairDef.
Variable K : CRing.
Add Ring RrK : (rth K).
Definition cp : Type := (K * K)%type.
Definition cp0 : cp := (0, 0).
Definition cp1 : cp := (1, 0).
Definition cpadd (a b : cp) : cp := (fst a + fst b, snd a + snd b).
Definition cpmul (a b : cp) : cp := (fst a * fst b - snd a * snd b, fst a * snd b + snd a * fst b).
Definition cpopp (a : cp) : cp := (- fst a, - snd a).
Definition cpsub (a b : cp) : cp := (fst a - fst b, snd a - snd b).
Definition cpconj (a : cp) : cp := (fst a, - snd a).
Lemma cp_rt : ring_theory cp0 cp1 cpadd cpmul cpsub cpopp eq.
Proof. constructor; intros; repeat match goal with x : cp |- _ => destruct x end;
  unfold cpadd, cpmul, cpsub, cpopp, cp0, cp1; simpl; f_equal; ring. Qed.
Definition CP : CRing := {| car := cp; rth := cp_rt |}.
Definition CPS : StarRing.
Proof. refine {| sring := CP; conj := cpconj |}; intros; repeat match goal with x : car CP |- _ => destruct x end;
  unfold cpconj; simpl; unfold cpadd, cpmul, cpopp, cp0, cp1; simpl; f_equal; ring. Defined.
Definition nrm2 (z : cp) : K := fst z * fst z + snd z * snd z.
Lemma nrm2_mul a b : nrm2 (cpmul a b) = nrm2 a * nrm2 b.
Proof. destruct a, b; unfold nrm2, cpmul; simpl; ring. Qed.
End CPairDef.

(* ------------------------------------------------------------------ *)
(* the two inner products of the clinear branch and the tolerance
   predicate, generic in the scalar ring S and in what "modulus" means
   (isMod z m : "m is |z|").  Real instance: m = fabs z.  Complex
   instance: 0 <= m and m*m = re^2 + im^2 (no square root function is
   needed, and the instance over Qc is not vacuous). *)
Section Generic.
Variable S : StarRing.
Variable F : OrdField.
Add Ring RrS : (rth S).
Add Field FfG : (fth F).
Variable isMod : S -> F -> Prop.
Hypothesis mod_nonneg : forall z m, isMod z m -> rle F 0 m.
Hypothesis mod_zero : forall m, isMod 0 m -> m = 0.
Hypothesis mod_mul : forall a b ma mb m, isMod a ma -> isMod b mb -> isMod (a * b) m -> m = ma * mb.

(* yy = vdot(Op u, v),  xx = vdot(u, Op^H v) with Op = A, Op^H = B *)
Definition dt_yy (A : list (list S)) (u v : list S) : S := dot S (mv S A u) v.
Definition dt_xx (B : list (list S)) (u v : list S) : S := dot S u (mv S B v).

(* isclose(a, b, rtol, atol): |a - b| <= atol + rtol*|b| *)
Definition close_rel (rtol atol : F) (a b : S) : Prop :=
  forall D Y, isMod (a - b) D -> isMod b Y -> rle F D (atol + rtol * Y).
Definition far_rel (rtol atol : F) (a b : S) : Prop :=
  forall D Y, isMod (a - b) D -> isMod b Y -> ~ rle F D (atol + rtol * Y).

Lemma adjoint_pair_equal n A B u v : wfM S n A -> length u = n -> length v = length A ->
  B = ctranspose S n A -> dt_xx B u v = dt_yy A u v.
Proof. intros W Hu Hv ->. unfold dt_xx, dt_yy. rewrite mv_ctranspose by auto. symmetry; apply dot_mv_mvH; auto. Qed.

Theorem accepts_gen n A B u v rtol atol : wfM S n A -> length u = n -> length v = length A ->
  B = ctranspose S n A -> rle F 0 rtol -> rle F 0 atol ->
  close_rel rtol atol (dt_xx B u v) (dt_yy A u v).
Proof. intros W Hu Hv HB Hr Ha D Y HD HY.
  rewrite (adjoint_pair_equal n A B u v) in HD by auto.
  replace (dt_yy A u v - dt_yy A u v) with (r0 S) in HD by ring.
  rewrite (mod_zero D HD). apply nonneg_add; auto. apply rle_mul; eauto. Qed.

Lemma scaled_pair n A B u v d : wfM S n A -> length u = n -> length v = length A ->
  B = mscale S (1 + d) (ctranspose S n A) -> dt_xx B u v - dt_yy A u v = d * dt_yy A u v.
Proof. intros W Hu Hv ->. unfold dt_xx. rewrite mv_mscale, dot_vscale_r.
  fold (dt_xx (ctranspose S n A) u v). rewrite (adjoint_pair_equal n A _ u v) by auto. ring. Qed.

Theorem rejects_scaled_gen n A B u v d rtol atol : wfM S n A -> length u = n -> length v = length A ->
  B = mscale S (1 + d) (ctranspose S n A) ->
  forall dm D Y, isMod d dm -> isMod (dt_xx B u v - dt_yy A u v) D -> isMod (dt_yy A u v) Y ->
  ~ rle F (dm * Y) (atol + rtol * Y) -> ~ rle F D (atol + rtol * Y).
Proof. intros W Hu Hv HB dm D Y Hd HD HY H.
  rewrite (scaled_pair n A B u v d) in HD by auto.
  rewrite (mod_mul _ _ _ _ _ Hd HY HD). exact H. Qed.

(* the defect of ANY candidate adjoint B is u^H (B - A^H) v *)
Theorem defect_gen n A B u v : wfM S n A -> length u = n -> length v = length A ->
  wfM S (length A) B -> length B = n ->
  dt_xx B u v - dt_yy A u v = dot S u (mv S (msub S B (ctranspose S n A)) v).
Proof. intros W Hu Hv WB HB. unfold dt_xx.
  assert (WC : wfM S (length A) (ctranspose S n A)).
  { unfold ctranspose. replace (length A) with (length (mconj S A)) by (unfold mconj; apply map_length).
    apply wfM_transpose. apply wfM_mconj; auto. }
  rewrite (mv_msub S (length A) B (ctranspose S n A) v WB WC) by (rewrite ctranspose_length; auto).
  rewrite dot_vsub_r by (rewrite !mv_length, ctranspose_length; auto).
  fold (dt_xx B u v). fold (dt_xx (ctranspose S n A) u v). rewrite (adjoint_pair_equal n A (ctranspose S n A) u v) by auto.
  reflexivity. Qed.
End Generic.

(* ------------------------------------------------------------------ *)
(* real operators / real inner products: executable boolean verdict    *)
Section RealInst.
Variable F : OrdField.
Add Field FfR : (fth F).
Definition isModR (a : F) (m : F) : Prop := m = fabs F a.

(* numpy.isclose(a, b, rtol, atol) on finite reals *)
Definition isclose (rtol atol a b : F) : bool := rleb F (fabs F (a - b)) (atol + rtol * fabs F b).

Lemma isModR_nonneg z m : isModR z m -> rle F 0 m.
Proof. intros ->; apply fabs_nonneg. Qed.
Lemma isModR_zero m : isModR 0 m -> m = 0.
Proof. intros ->; apply fabs_0. Qed.
Lemma isModR_mul a b ma mb m : isModR a ma -> isModR b mb -> isModR (a * b) m -> m = ma * mb.
Proof. intros -> -> ->; apply fabs_mul. Qed.

Lemma isclose_rel rtol atol a b : isclose rtol atol a b = true <-> close_rel F F isModR rtol atol a b.
Proof. unfold isclose, close_rel, isModR; split.
  - intros H D Y -> ->. apply rleb_spec; auto.
  - intros H. apply rleb_spec. apply H; reflexivity. Qed.

(* dottest on a real operator (A forward, B adjoint) and real u, v *)
Definition dottest_real (A B : list (list F)) (u v : list F) (rtol atol : F) : bool :=
  isclose rtol atol (dt_xx F B u v) (dt_yy F A u v).

Theorem verdict_is_predicate_real A B u v rtol atol :
  dottest_real A B u v rtol atol = true <->
  rle F (fabs F (dot F u (mv F B v) - dot F (mv F A u) v)) (atol + rtol * fabs F (dot F (mv F A u) v)).
Proof. unfold dottest_real, isclose, dt_xx, dt_yy. apply rleb_spec. Qed.

Theorem dottest_accepts_adjoint_real n A B u v rtol atol :
  wfM F n A -> length u = n -> length v = length A -> B = ctranspose F n A ->
  rle F 0 rtol -> rle F 0 atol -> dottest_real A B u v rtol atol = true.
Proof. intros. apply isclose_rel.
  apply (accepts_gen F F isModR isModR_nonneg isModR_zero n); auto. Qed.

Theorem dottest_rejects_scaled_real n A B u v d rtol atol :
  wfM F n A -> length u = n -> length v = length A -> B = mscale F (1 + d) (ctranspose F n A) ->
  ~ rle F (fabs F d * fabs F (dt_yy F A u v)) (atol + rtol * fabs F (dt_yy F A u v)) ->
  dottest_real A B u v rtol atol = false.
Proof. intros W Hu Hv HB H. destruct (dottest_real A B u v rtol atol) eqn:E; auto. exfalso.
  apply verdict_is_predicate_real in E. revert E.
  apply (rejects_scaled_gen F F isModR isModR_mul n A B u v d rtol atol W Hu Hv HB (fabs F d)); unfold isModR; auto. Qed.

(* relative form: with atol = 0 and <Au, v> <> 0 every |d| > rtol is rejected *)
Theorem dottest_rejects_scaled_rel_real n A B u v d rtol :
  wfM F n A -> length u = n -> length v = length A -> B = mscale F (1 + d) (ctranspose F n A) ->
  dt_yy F A u v <> 0 -> ~ rle F (fabs F d) rtol ->
  dottest_real A B u v rtol 0 = false.
Proof. intros W Hu Hv HB Hy H. apply (dottest_rejects_scaled_real n A B u v d); auto.
  set (Y := fabs F (dt_yy F A u v)). intros L.
  replace (0 + rtol * Y) with (rtol * Y) in L by ring.
  assert (HR : rle F rtol (fabs F d)) by (destruct (rle_total F rtol (fabs F d)); tauto).
  assert (L2 : rle F (rtol * Y) (fabs F d * Y)).
  { replace (rtol * Y) with (Y * rtol) by ring. replace (fabs F d * Y) with (Y * fabs F d) by ring.
    apply mul_le_l; auto. apply fabs_nonneg. }
  assert (E : (fabs F d - rtol) * Y = 0).
  { replace ((fabs F d - rtol) * Y) with (fabs F d * Y - rtol * Y) by ring.
    rewrite (rle_antisym F _ _ L L2). ring. }
  destruct (mul_eq0 F _ _ E) as [E1|E1].
  - apply H. replace (fabs F d) with rtol; [apply rle_refl|]. replace rtol with (rtol + 0) by ring. rewrite <- E1. ring.
  - apply Hy. apply fabs_eq0; auto. Qed.

(* wrong sign B = -A^H is the scaled case d = -2 *)
Theorem dottest_rejects_sign_real n A B u v rtol atol :
  wfM F n A -> length u = n -> length v = length A -> B = mscale F (- (1)) (ctranspose F n A) ->
  ~ rle F ((1 + 1) * fabs F (dt_yy F A u v)) (atol + rtol * fabs F (dt_yy F A u v)) ->
  dottest_real A B u v rtol atol = false.
Proof. intros W Hu Hv HB H. apply (dottest_rejects_scaled_real n A B u v (- (1 + 1))); auto.
  - rewrite HB. f_equal. ring.
  - replace (fabs F (- (1 + 1))) with (r1 F + r1 F); auto.
    apply sq_inj; [apply nonneg_add | apply fabs_nonneg | rewrite fabs_sq; ring];
    (replace (r1 F) with (r1 F * r1 F) by ring); apply sq_nonneg. Qed.

(* any candidate adjoint: rejected iff its defect |u^H (B - A^H) v| exceeds the tolerance *)
Theorem dottest_defect_real n A B u v rtol atol :
  wfM F n A -> length u = n -> length v = length A -> wfM F (length A) B -> length B = n ->
  (dottest_real A B u v rtol atol = true <->
   rle F (fabs F (dot F u (mv F (msub F B (ctranspose F n A)) v))) (atol + rtol * fabs F (dt_yy F A u v))).
Proof. intros. unfold dottest_real, isclose. rewrite (defect_gen F n A B u v) by auto. apply rleb_spec. Qed.

(* ---- operators that are only R-linear: real matrices on (re ++ im) ---- *)
Definition split (z : list (F * F)) : list F := map fst z ++ map snd z.
Definition unsplit (k : nat) (w : list F) : list (F * F) := combine (firstn k w) (skipn k w).
Definition rl_apply (M : list (list F)) (k : nat) (z : list (F * F)) : list (F * F) := unsplit k (mv F M (split z)).
(* dot(a.real, b.real) + dot(a.imag, b.imag) *)
Definition rdot (a b : list (F * F)) : F := dotu F (map fst a) (map fst b) + dotu F (map snd a) (map snd b).
Definition rl_yy M nr (u v : list (F * F)) : F := rdot (rl_apply M nr u) v.
Definition rl_xx N nc (u v : list (F * F)) : F := rdot u (rl_apply N nc v).
Definition dottest_rlin (M N : list (list F)) (nr nc : nat) (u v : list (F * F)) (rtol atol : F) : bool :=
  isclose rtol atol (rl_xx N nc u v) (rl_yy M nr u v).

Lemma map_fst_combine {X Y} (a : list X) (b : list Y) : length a = length b -> map fst (combine a b) = a.
Proof. revert b; induction a as [|x a IH]; intros [|y b] H; simpl in *; try discriminate; auto. rewrite IH; auto. Qed.
Lemma map_snd_combine {X Y} (a : list X) (b : list Y) : length a = length b -> map snd (combine a b) = b.
Proof. revert b; induction a as [|x a IH]; intros [|y b] H; simpl in *; try discriminate; auto. rewrite IH; auto. Qed.
Lemma split_unsplit k w : length w = (k + k)%nat -> split (unsplit k w) = w.
Proof. intros H. unfold split, unsplit.
  assert (L : length (firstn k w) = length (skipn k w)) by (rewrite firstn_length, skipn_length; lia).
  rewrite map_fst_combine, map_snd_combine by auto. apply firstn_skipn. Qed.
Lemma rdot_split a b : length a = length b -> rdot a b = dotu F (split a) (split b).
Proof. intros H. unfold rdot, split. rewrite dotu_app by (rewrite !map_length; auto). reflexivity. Qed.
Lemma split_length z : length (split z) = (length z + length z)%nat.
Proof. unfold split; rewrite app_length, !map_length; auto. Qed.
Lemma unsplit_length k w : length w = (k + k)%nat -> length (unsplit k w) = k.
Proof. intros H; unfold unsplit. rewrite combine_length, firstn_length, skipn_length. lia. Qed.

Lemma rl_yy_flat M nr u v : length M = (nr + nr)%nat -> length v = nr ->
  rl_yy M nr u v = dotu F (mv F M (split u)) (split v).
Proof. intros HM Hv. unfold rl_yy, rl_apply. rewrite rdot_split by (rewrite unsplit_length; rewrite ?mv_length; auto).
  rewrite split_unsplit by (rewrite mv_length; auto). reflexivity. Qed.
Lemma rl_xx_flat N nc u v : length N = (nc + nc)%nat -> length u = nc ->
  rl_xx N nc u v = dotu F (split u) (mv F N (split v)).
Proof. intros HN Hu. unfold rl_xx, rl_apply. rewrite rdot_split by (rewrite unsplit_length; rewrite ?mv_length; auto).
  rewrite split_unsplit by (rewrite mv_length; auto). reflexivity. Qed.

Lemma rlin_pair_equal M N nr nc u v : wfM F (nc + nc) M -> length M = (nr + nr)%nat ->
  N = transpose F (nc + nc) M -> length u = nc -> length v = nr -> rl_xx N nc u v = rl_yy M nr u v.
Proof. intros W HM -> Hu Hv.
  rewrite rl_yy_flat, rl_xx_flat by (auto; rewrite transpose_length; auto).
  rewrite mv_transpose by (auto; rewrite split_length; lia).
  symmetry; apply dotu_mv_mvT; auto; rewrite split_length; lia. Qed.

Theorem dottest_accepts_adjoint_rlin M N nr nc u v rtol atol :
  wfM F (nc + nc) M -> length M = (nr + nr)%nat -> N = transpose F (nc + nc) M ->
  length u = nc -> length v = nr -> rle F 0 rtol -> rle F 0 atol ->
  dottest_rlin M N nr nc u v rtol atol = true.
Proof. intros W HM HN Hu Hv Hr Ha. unfold dottest_rlin, isclose.
  rewrite (rlin_pair_equal M N nr nc u v) by auto.
  replace (rl_yy M nr u v - rl_yy M nr u v) with (r0 F) by ring. rewrite fabs_0.
  apply rleb_spec. apply nonneg_add; auto. apply rle_mul; auto. apply fabs_nonneg. Qed.

Theorem dottest_rejects_scaled_rlin M N nr nc u v d rtol atol :
  wfM F (nc + nc) M -> length M = (nr + nr)%nat -> N = mscale F (1 + d) (transpose F (nc + nc) M) ->
  length u = nc -> length v = nr ->
  ~ rle F (fabs F d * fabs F (rl_yy M nr u v)) (atol + rtol * fabs F (rl_yy M nr u v)) ->
  dottest_rlin M N nr nc u v rtol atol = false.
Proof. intros W HM HN Hu Hv H. unfold dottest_rlin, isclose.
  assert (E : rl_xx N nc u v - rl_yy M nr u v = d * rl_yy M nr u v).
  { rewrite <- (rlin_pair_equal M (transpose F (nc + nc) M) nr nc u v) by auto.
    rewrite !rl_xx_flat by (auto; subst N; unfold mscale; rewrite ?map_length, transpose_length; auto).
    subst N. rewrite mv_mscale, dotu_vscale_r. ring. }
  rewrite E, fabs_mul.
  destruct (rleb F _ _) eqn:B; auto. apply rleb_spec in B. contradiction. Qed.

Theorem verdict_is_predicate_rlin M N nr nc u v rtol atol :
  dottest_rlin M N nr nc u v rtol atol = true <->
  rle F (fabs F (rl_xx N nc u v - rl_yy M nr u v)) (atol + rtol * fabs F (rl_yy M nr u v)).
Proof. apply rleb_spec. Qed.
End RealInst.

(* ------------------------------------------------------------------ *)
(* complex operators / vdot branch: |z| characterised by its square    *)
Section CplxInst.
Variable F : OrdField.
Add Field FfC : (fth F).
Notation C := (CPS F).
Definition isModC (z : C) (m : F) : Prop := rle F 0 m /\ m * m = nrm2 F z.

Lemma isModC_nonneg z m : isModC z m -> rle F 0 m.
Proof. intros [H _]; exact H. Qed.
Lemma isModC_zero m : isModC 0 m -> m = 0.
Proof. intros [_ H]. unfold nrm2 in H; simpl in H.
  destruct (mul_eq0 F m m) as [X|X]; auto. rewrite H. ring. Qed.
Lemma isModC_mul a b ma mb m : isModC a ma -> isModC b mb -> isModC (a * b) m -> m = ma * mb.
Proof. intros [Pa Ea] [Pb Eb] [Pm Em]. apply sq_inj; auto. apply rle_mul; auto.
  rewrite Em. change (rmul C a b) with (cpmul F a b). rewrite nrm2_mul, <- Ea, <- Eb. ring. Qed.
Lemma isModC_eq0 z : isModC z 0 -> z = 0.
Proof. intros [_ H]. destruct z as [x y]. unfold nrm2 in H; simpl in H.
  destruct (sumsq0 F x y) as [-> ->]; auto. rewrite <- H. ring. Qed.

(* the verdict of the clinear branch on Gaussian data, as a relation *)
Definition dottest_cplx_passes (A B : list (list C)) (u v : list C) (rtol atol : F) : Prop :=
  close_rel C F isModC rtol atol (dt_xx C B u v) (dt_yy C A u v).
Definition dottest_cplx_fails (A B : list (list C)) (u v : list C) (rtol atol : F) : Prop :=
  far_rel C F isModC rtol atol (dt_xx C B u v) (dt_yy C A u v).

Theorem dottest_accepts_adjoint_cplx n A B u v rtol atol :
  wfM C n A -> length u = n -> length v = length A -> B = ctranspose C n A ->
  rle F 0 rtol -> rle F 0 atol -> dottest_cplx_passes A B u v rtol atol.
Proof. intros. apply (accepts_gen C F isModC isModC_nonneg isModC_zero n); auto. Qed.

Theorem dottest_rejects_scaled_cplx n A B u v d dm Y rtol atol :
  wfM C n A -> length u = n -> length v = length A -> B = mscale C (1 + d) (ctranspose C n A) ->
  isModC d dm -> isModC (dt_yy C A u v) Y -> ~ rle F (dm * Y) (atol + rtol * Y) ->
  dottest_cplx_fails A B u v rtol atol.
Proof. intros W Hu Hv HB Hd HY H D Y' HD HY'.
  assert (Y' = Y) as ->. { destruct HY, HY'. apply sq_inj; auto; congruence. }
  apply (rejects_scaled_gen C F isModC isModC_mul n A B u v d rtol atol W Hu Hv HB dm D Y); auto. Qed.

(* plain transpose instead of conjugate transpose etc.: the defect is u^H (B - A^H) v *)
Theorem dottest_defect_cplx n A B u v : wfM C n A -> length u = n -> length v = length A ->
  wfM C (length A) B -> length B = n ->
  dt_xx C B u v - dt_yy C A u v = dot C u (mv C (msub C B (ctranspose C n A)) v).
Proof. apply defect_gen. Qed.
End CplxInst.

(* ------------------------------------------------------------------ *)
(* three-valued evaluation from enclosures of |xx-yy| and |yy| with a
   float-noise margin; sound for the exact predicate *)
Inductive verdict3 := VTrue | VFalse | VBorder.

Section Decide.
Variable F : OrdField.
Add Field FfD : (fth F).

Definition decide3 (noise rtol atol dlo dhi ylo yhi : F) : verdict3 :=
  if rleb F (dhi + noise) (atol + rtol * ylo) then VTrue
  else if rleb F (dlo - noise) (atol + rtol * yhi) then VBorder else VFalse.

Theorem decide3_true_sound noise rtol atol dlo dhi ylo yhi D Y :
  rle F 0 noise -> rle F 0 rtol -> rle F D dhi -> rle F ylo Y ->
  decide3 noise rtol atol dlo dhi ylo yhi = VTrue -> rle F D (atol + rtol * Y).
Proof. unfold decide3; intros Hn Hr HD HY H.
  destruct (rleb F (dhi + noise) (atol + rtol * ylo)) eqn:E; [|destruct (rleb F (dlo - noise) (atol + rtol * yhi)) in H; discriminate].
  apply rleb_spec in E.
  apply (rle_trans F _ (dhi + noise)).
  - replace D with (D + 0) by ring. apply le_add2; auto.
  - apply (rle_trans F _ _ _ E). replace (atol + rtol * ylo) with (rtol * ylo + atol) by ring.
    replace (atol + rtol * Y) with (rtol * Y + atol) by ring. apply rle_add. apply mul_le_l; auto. Qed.

Theorem decide3_false_sound noise rtol atol dlo dhi ylo yhi D Y :
  rle F 0 noise -> rle F 0 rtol -> rle F dlo D -> rle F Y yhi ->
  decide3 noise rtol atol dlo dhi ylo yhi = VFalse -> ~ rle F D (atol + rtol * Y).
Proof. unfold decide3; intros Hn Hr HD HY H L.
  destruct (rleb F (dhi + noise) (atol + rtol * ylo)); [discriminate|].
  destruct (rleb F (dlo - noise) (atol + rtol * yhi)) eqn:E; [discriminate|].
  assert (X : rle F (dlo - noise) (atol + rtol * yhi)); [|apply rleb_spec in X; congruence].
  apply (rle_trans F _ D).
  - apply sub_le. replace (D - (dlo - noise)) with ((D - dlo) + noise) by ring. apply nonneg_add; auto using le_sub.
  - apply (rle_trans F _ _ _ L). replace (atol + rtol * Y) with (rtol * Y + atol) by ring.
    replace (atol + rtol * yhi) with (rtol * yhi + atol) by ring. apply rle_add. apply mul_le_l; auto. Qed.

(* a candidate enclosure [lo, hi] of sqrt x is checked, not trusted *)
Definition valid_enc (x lo hi : F) : bool :=
  rleb F 0 lo && rleb F (lo * lo) x && rleb F x (hi * hi) && rleb F 0 hi.
Lemma valid_enc_sound x lo hi m : valid_enc x lo hi = true -> rle F 0 m -> m * m = x ->
  rle F lo m /\ rle F m hi.
Proof. unfold valid_enc; intros H Hm E. apply andb_prop in H; destruct H as [H H4].
  apply andb_prop in H; destruct H as [H H3]. apply andb_prop in H; destruct H as [H1 H2].
  apply rleb_spec in H1, H2, H3, H4. subst x. split; apply sq_le_inv; auto. Qed.

(* executable verdict of the vdot branch on Gaussian data; eD, eY are
   candidate enclosures of |xx - yy| and |yy| *)
Definition dottest3_cplx (noise : F) (A B : list (list (CPS F))) (u v : list (CPS F)) (rtol atol : F)
  (eD eY : F * F) : verdict3 :=
  let xx := dt_xx (CPS F) B u v in let yy := dt_yy (CPS F) A u v in
  if valid_enc (nrm2 F (xx - yy)) (fst eD) (snd eD) && valid_enc (nrm2 F yy) (fst eY) (snd eY)
  then decide3 noise rtol atol (fst eD) (snd eD) (fst eY) (snd eY) else VBorder.

Theorem dottest3_cplx_sound noise A B u v rtol atol eD eY :
  rle F 0 noise -> rle F 0 rtol ->
  (dottest3_cplx noise A B u v rtol atol eD eY = VTrue -> dottest_cplx_passes F A B u v rtol atol) /\
  (dottest3_cplx noise A B u v rtol atol eD eY = VFalse -> dottest_cplx_fails F A B u v rtol atol).
Proof. intros Hn Hr. unfold dottest3_cplx.
  destruct (valid_enc _ (fst eD) (snd eD) && valid_enc _ (fst eY) (snd eY))%bool eqn:V;
    [|split; discriminate].
  apply andb_prop in V; destruct V as [V1 V2].
  split; intros H D Y [PD ED] [PY EY];
    destruct (valid_enc_sound _ _ _ D V1 PD ED) as [D1 D2]; destruct (valid_enc_sound _ _ _ Y V2 PY EY) as [Y1 Y2].
  - exact (decide3_true_sound noise rtol atol _ _ _ _ D Y Hn Hr D2 Y1 H).
  - exact (decide3_false_sound noise rtol atol _ _ _ _ D Y Hn Hr D1 Y2 H). Qed.

(* same for real xx, yy (real operators with real vectors, R-linear branch): exact abs *)
Definition decide3_real (noise rtol atol xx yy : F) : verdict3 :=
  decide3 noise rtol atol (fabs F (xx - yy)) (fabs F (xx - yy)) (fabs F yy) (fabs F yy).
Theorem decide3_real_sound noise rtol atol xx yy : rle F 0 noise -> rle F 0 rtol ->
  (decide3_real noise rtol atol xx yy = VTrue -> isclose F rtol atol xx yy = true) /\
  (decide3_real noise rtol atol xx yy = VFalse -> isclose F rtol atol xx yy = false).
Proof. intros Hn Hr; unfold decide3_real, isclose; split; intros H.
  - apply rleb_spec.
    exact (decide3_true_sound noise rtol atol _ _ _ _ _ _ Hn Hr (rle_refl F _) (rle_refl F _) H).
  - destruct (rleb F _ _) eqn:E; auto. apply rleb_spec in E. exfalso; revert E.
    exact (decide3_false_sound noise rtol atol _ _ _ _ _ _ Hn Hr (rle_refl F _) (rle_refl F _) H). Qed.
End Decide.

(* ------------------------------------------------------------------ *)
(* drawing of u, v (complexflag) and the return / raise logic          *)
Section Draw.
Variable K : CRing.
(* s = the successive randn draws; the code draws u.re, [u.im], v.re, [v.im] in this order;
   u is complex iff complexflag not in (0, 2), v iff complexflag not in (0, 1) *)
Definition u_cplx (cf : nat) : bool := negb (Nat.eqb cf 0 || Nat.eqb cf 2).
Definition v_cplx (cf : nat) : bool := negb (Nat.eqb cf 0 || Nat.eqb cf 1).
Definition draw (cf nc nr : nat) (s : list K) : list (K * K) * list (K * K) :=
  let ur := firstn nc s in let s1 := skipn nc s in
  let ui := if u_cplx cf then firstn nc s1 else zeros K nc in
  let s2 := if u_cplx cf then skipn nc s1 else s1 in
  let vr := firstn nr s2 in let s3 := skipn nr s2 in
  let vi := if v_cplx cf then firstn nr s3 else zeros K nr in
  (combine ur ui, combine vr vi).
Definition draws_needed (cf nc nr : nat) : nat :=
  (nc + (if u_cplx cf then nc else 0) + nr + (if v_cplx cf then nr else 0))%nat.

Lemma draw_real_u cf nc nr s : u_cplx cf = false -> map snd (fst (draw cf nc nr s)) = zeros K (Nat.min nc (length s)).
Proof. intros H; unfold draw; rewrite H; simpl.
  assert (G : forall n (l : list K), map snd (combine l (zeros K n)) = zeros K (Nat.min n (length l))).
  { induction n; intros [|a l]; simpl; auto. unfold zeros in *; simpl; rewrite IHn; auto. }
  rewrite G, firstn_length. f_equal; lia. Qed.
End Draw.

Inductive outcome := RetTrue | RetFalse | RaiseAssert.
Definition outcome_of (raiseerror passed : bool) : outcome :=
  if passed then RetTrue else if raiseerror then RaiseAssert else RetFalse.
(* nr / nc arguments: None -> taken from the shape; a mismatch raises before anything is drawn *)
Definition shape_ok (onr onc : option nat) (m n : nat) : bool :=
  Nat.eqb (match onr with Some a => a | None => m end) m && Nat.eqb (match onc with Some a => a | None => n end) n.
Definition dottest_outcome (onr onc : option nat) (m n : nat) (raiseerror passed : bool) : outcome :=
  if shape_ok onr onc m n then outcome_of raiseerror passed else RaiseAssert.

Lemma outcome_true r p : outcome_of r p = RetTrue <-> p = true.
Proof. destruct r, p; simpl; split; intros; congruence. Qed.
Lemma outcome_false r p : outcome_of r p = RetFalse <-> (p = false /\ r = false).
Proof. destruct r, p; simpl; (split; [intros H | intros [H1 H2]]); try split; congruence. Qed.
Lemma outcome_raise r p : outcome_of r p = RaiseAssert <-> (p = false /\ r = true).
Proof. destruct r, p; simpl; (split; [intros H | intros [H1 H2]]); try split; congruence. Qed.
Lemma outcome_explicit_shape m n r p : dottest_outcome (Some m) (Some n) m n r p = dottest_outcome None None m n r p.
Proof. unfold dottest_outcome, shape_ok; rewrite !Nat.eqb_refl; reflexivity. Qed.
