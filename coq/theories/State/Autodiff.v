(* State/Autodiff.v — C19: autodiff wrappers differentiate to the adjoint.
   (i)   calculus-free gradient identity of 0.5||A x - y||^2 over any
         commutative ring, vector-Jacobian product = transposed product;
   (ii)  the layout logic of TorchOperator (pylops/torchoperator.py): numpy
         strided views, x.transpose(perm), np.roll(np.arange(k), -/+1),
         LinearOperator.dot's N-d reshaping and the column-wise matmat, as
         pure functions on shapes and flat C-order data;
   (iii) the shape test of JaxOperator.rmatvecad (pylops/jaxoperator.py) as
         coded;
   (iv)  PyTensorOperator.grad = the same wrapper around LOp.H.
   The models follow the CURRENT code (None = numpy's ValueError for "axes
   don't match array" / size-changing reshape); module Legacy at the end
   documents the pre-fix code and its four repaired defects. *)
From Coq Require Import Arith Lia List Bool.
From PV Require Import Mat.
Import ListNotations.

(* ------------------------------------------------------------------ (i) *)
Section Grad.
Local Open Scope R_scope.
Variable R : CRing.
Add Ring RrAD : (rth R).
Notation vec := (list R).
Notation mat := (list (list R)).

Definition nrm2 (v : vec) : R := dotu R v v.

Lemma vsub_vadd_l (u w y : vec) : vsub R (vadd R u w) y = vadd R (vsub R u y) w.
Proof. revert w y; induction u as [|a u IH]; intros [|b w] [|c y]; simpl; auto.
  unfold vsub, vadd in *; simpl; rewrite IH; f_equal; ring. Qed.

Lemma nrm2_expand (r w : vec) t : length r = length w ->
  nrm2 (vadd R r (vscale R t w)) = nrm2 r + (1 + 1) * t * dotu R r w + t * t * nrm2 w.
Proof. intros H; unfold nrm2.
  rewrite dotu_vadd_l by (rewrite vscale_length; auto).
  rewrite !dotu_vadd_r by (rewrite vscale_length; auto).
  rewrite !dotu_vscale_l, !dotu_vscale_r, (dotu_comm R w r). ring. Qed.

(* ||A(x + t d) - y||^2 = ||Ax - y||^2 + 2 t <d, A^T(Ax - y)> + t^2 ||A d||^2 *)
Theorem grad_sq_expand n (A : mat) (x d y : vec) t :
  wfM R n A -> length x = n -> length d = n -> length y = length A ->
  nrm2 (vsub R (mv R A (vadd R x (vscale R t d))) y) =
  nrm2 (vsub R (mv R A x) y) + (1 + 1) * t * dotu R d (mvT R n A (vsub R (mv R A x) y)) + t * t * nrm2 (mv R A d).
Proof. intros W Hx Hd Hy.
  rewrite mv_vadd by (rewrite vscale_length; congruence).
  rewrite mv_vscale, vsub_vadd_l.
  rewrite nrm2_expand by (rewrite vsub_length, !mv_length, Hy, Nat.min_id; auto).
  f_equal. f_equal. f_equal.
  rewrite dotu_comm. apply dotu_mv_mvT; auto.
  rewrite vsub_length, mv_length, Hy, Nat.min_id; auto. Qed.

(* the same with the factor one half: h is any ring element with h + h = 1 *)
Theorem grad_half_sq n (A : mat) (x d y : vec) t h : h + h = 1 ->
  wfM R n A -> length x = n -> length d = n -> length y = length A ->
  h * nrm2 (vsub R (mv R A (vadd R x (vscale R t d))) y) =
  h * nrm2 (vsub R (mv R A x) y) + t * dotu R d (mvT R n A (vsub R (mv R A x) y)) + t * t * (h * nrm2 (mv R A d)).
Proof. intros Hh W Hx Hd Hy. rewrite (grad_sq_expand n) by auto.
  set (g := dotu R d _). replace (t * g) with ((h + h) * (t * g)) by (rewrite Hh; ring). ring. Qed.

(* reverse mode through x |-> A x: cotangent g is pulled back to A^T g *)
Theorem vjp_is_adjoint n (A : mat) (g d : vec) :
  wfM R n A -> length d = n -> length g = length A ->
  dotu R g (mv R A d) = dotu R (mvT R n A g) d.
Proof. intros W Hd Hg. rewrite dotu_comm, (dotu_comm R (mvT R n A g)). apply dotu_mv_mvT; auto. Qed.

(* the gradient is determined by the directional derivatives *)
Theorem grad_unique n (g1 g2 : vec) : length g1 = n -> length g2 = n ->
  (forall d, length d = n -> dotu R d g1 = dotu R d g2) -> g1 = g2.
Proof. intros H1 H2 H. apply nth_ext with (d := 0) (d' := 0); [congruence|].
  intros j Hj. rewrite H1 in Hj. specialize (H (unit R n j) (unit_length R n j)).
  rewrite !(dotu_comm R (unit R n j)) in H. rewrite !dotu_unit in H by auto. exact H. Qed.

(* (iv) PyTensorOperator.grad applies _PyTensorOperatorNoGrad(LOp.H) to the
   output gradient: on flat data it IS the transposed product; the result
   has the shape of the input (Op.H.dimsd = Op.dims). *)
Definition pytensor_grad (n : nat) (A : mat) (g : vec) : vec := mvT R n A g.
Lemma pytensor_grad_length n A g : wfM R n A -> length (pytensor_grad n A g) = n.
Proof. apply mvT_length. Qed.
End Grad.

(* ----------------------------------------------------------------- (ii) *)
Section ListAux.
Context {X Y Z : Type}.
Lemma flat_map_single (g : X -> Y) l : flat_map (fun x => [g x]) l = map g l.
Proof. induction l; simpl; congruence. Qed.
Lemma flat_map_flat_map (g : X -> list Y) (h : Y -> list Z) l :
  flat_map h (flat_map g l) = flat_map (fun x => flat_map h (g x)) l.
Proof. induction l; simpl; auto. rewrite flat_map_app, IHl; auto. Qed.
Lemma map_flat_map (g : X -> list Y) (h : Y -> Z) l : map h (flat_map g l) = flat_map (fun x => map h (g x)) l.
Proof. induction l; simpl; auto. rewrite map_app, IHl; auto. Qed.
Lemma flat_map_map' (g : X -> Y) (h : Y -> list Z) l : flat_map h (map g l) = flat_map (fun x => h (g x)) l.
Proof. induction l; simpl; auto. rewrite IHl; auto. Qed.
Lemma flat_map_ext_in' (f g : X -> list Y) l : (forall a, In a l -> f a = g a) -> flat_map f l = flat_map g l.
Proof. induction l; simpl; intros H; auto. rewrite H, IHl; auto. Qed.
Lemma length_flat_map_uniform (f : X -> list Y) k l : (forall x, In x l -> length (f x) = k) ->
  length (flat_map f l) = length l * k.
Proof. induction l; simpl; intros H; auto. rewrite app_length, H, IHl; auto. Qed.
Lemma length_concat_uniform k (l : list (list X)) : Forall (fun r => length r = k) l -> length (concat l) = length l * k.
Proof. induction 1; simpl; auto. rewrite app_length; lia. Qed.
End ListAux.

Lemma map_seq_shift {X} (f : nat -> X) a n : map f (seq a n) = map (fun p => f (a + p)) (seq 0 n).
Proof. revert a; induction n as [|n IH]; intros a; simpl; auto. f_equal; [f_equal; lia|].
  rewrite IH, <- seq_shift, map_map. apply map_ext; intros; f_equal; lia. Qed.
Lemma map_seq_blocks {X} (f : nat -> X) s P :
  map f (seq 0 (s * P)) = flat_map (fun i => map (fun p => f (i * P + p)) (seq 0 P)) (seq 0 s).
Proof. induction s as [|s IH]; auto.
  rewrite seq_S, flat_map_app. cbn [flat_map]. rewrite app_nil_r.
  replace (S s * P) with (s * P + P) by lia. rewrite seq_app, map_app, IH. f_equal.
  cbn [Nat.add]. apply map_seq_shift. Qed.
Lemma map_nth_seq {X} (dx : X) l : map (fun p => nth p l dx) (seq 0 (length l)) = l.
Proof. induction l as [|a l IH]; simpl; auto. f_equal. rewrite <- seq_shift, map_map. exact IH. Qed.
Lemma nth_map_seq {X} (g : nat -> X) dx r i : i < r -> nth i (map g (seq 0 r)) dx = g i.
Proof. intros H. rewrite nth_indep with (d' := g 0) by (rewrite map_length, seq_length; auto).
  rewrite map_nth, seq_nth; auto. Qed.
Lemma nth_flat_map_uniform {X Y} (f : X -> list Y) k l dx dy j i :
  (forall x, length (f x) = k) -> i < k -> j < length l ->
  nth (j * k + i) (flat_map f l) dy = nth i (f (nth j l dx)) dy.
Proof. intros Hf Hi. revert j; induction l as [|a l IH]; intros j Hj; simpl in Hj; [lia|].
  destruct j as [|j]; simpl.
  - rewrite app_nth1; auto. rewrite Hf; auto.
  - rewrite app_nth2 by (rewrite Hf; lia). rewrite Hf. replace (k + j * k + i - k) with (j * k + i) by lia.
    apply IH; lia. Qed.

(* boolean equality of shapes *)
Fixpoint leqb (a b : list nat) : bool :=
  match a, b with
  | [], [] => true
  | x :: a', y :: b' => Nat.eqb x y && leqb a' b'
  | _, _ => false
  end.
Lemma leqb_eq a b : leqb a b = true <-> a = b.
Proof. revert b; induction a as [|x a IH]; intros [|y b]; simpl; split; intros H; try discriminate; auto.
  - apply andb_prop in H; destruct H as [H1 H2]. apply Nat.eqb_eq in H1; apply IH in H2; congruence.
  - inversion H; subst. rewrite Nat.eqb_refl. apply IH; auto. Qed.
Lemma leqb_refl a : leqb a a = true.
Proof. apply leqb_eq; auto. Qed.
Lemma leqb_neq a b : a <> b -> leqb a b = false.
Proof. intros H. destruct (leqb a b) eqn:E; auto. apply leqb_eq in E; contradiction. Qed.

(* ---- shapes, C-order strides, strided views ---- *)
Fixpoint prod (sh : list nat) : nat := match sh with [] => 1 | s :: sh' => s * prod sh' end.
Fixpoint strides (sh : list nat) : list nat := match sh with [] => [] | s :: sh' => prod sh' :: strides sh' end.
(* element offsets of a strided view enumerated in C order (what any
   consumer of a transposed numpy view reads) *)
Fixpoint offsets (sh st : list nat) (off : nat) : list nat :=
  match sh, st with
  | s :: sh', t :: st' => flat_map (fun i => offsets sh' st' (off + i * t)) (seq 0 s)
  | _, _ => [off]
  end.
(* numpy: out.shape[i] = in.shape[perm[i]], out.strides[i] = in.strides[perm[i]] *)
Definition perm_list (perm l : list nat) : list nat := map (fun p => nth p l 0) perm.
(* np.roll(np.arange(k), -1)[i] = (i + 1) mod k ; np.roll(np.arange(k), 1)[i] = (i - 1) mod k *)
Definition roll_m1 (k : nat) : list nat := map (fun i => (i + 1) mod k) (seq 0 k).
Definition roll_p1 (k : nat) : list nat := map (fun i => (i + (k - 1)) mod k) (seq 0 k).

Lemma strides_length sh : length (strides sh) = length sh.
Proof. induction sh; simpl; auto. Qed.
Lemma prod_app1 sh b : prod (sh ++ [b]) = prod sh * b.
Proof. induction sh as [|s sh IH]; simpl; [lia | rewrite IH; lia]. Qed.
Lemma strides_app1 sh b : strides (sh ++ [b]) = map (fun t => t * b) (strides sh) ++ [1].
Proof. induction sh as [|s sh IH]; simpl; auto. rewrite IH, prod_app1; auto. Qed.
Lemma roll_m1_length k : length (roll_m1 k) = k.
Proof. unfold roll_m1; rewrite map_length, seq_length; auto. Qed.
Lemma roll_p1_length k : length (roll_p1 k) = k.
Proof. unfold roll_p1; rewrite map_length, seq_length; auto. Qed.
Lemma roll_m1_closed m : roll_m1 (S m) = seq 1 m ++ [0].
Proof. unfold roll_m1. rewrite seq_S, map_app. cbn [map Nat.add]. f_equal.
  - rewrite <- seq_shift. apply map_ext_in. intros i Hi; apply in_seq in Hi.
    rewrite Nat.mod_small by lia. lia.
  - f_equal. replace (m + 1) with (S m) by lia. apply Nat.mod_same; lia. Qed.
Lemma roll_p1_closed m : roll_p1 (S m) = m :: seq 0 m.
Proof. unfold roll_p1. cbn [seq map]. f_equal.
  - rewrite Nat.mod_small; lia.
  - rewrite <- seq_shift, map_map. rewrite <- (map_id (seq 0 m)) at 2. apply map_ext_in. intros i Hi; apply in_seq in Hi.
    replace (S i + (S m - 1)) with (i + 1 * S m) by lia. rewrite Nat.mod_add by lia. apply Nat.mod_small; lia. Qed.
Lemma perm_list_roll_m1 m b rest : length rest = m -> perm_list (roll_m1 (S m)) (b :: rest) = rest ++ [b].
Proof. intros H. rewrite roll_m1_closed. unfold perm_list. rewrite map_app. cbn [map nth]. f_equal.
  rewrite <- seq_shift, map_map. cbn [nth]. subst m. apply map_nth_seq. Qed.
Lemma perm_list_roll_p1 m b rest : length rest = m -> perm_list (roll_p1 (S m)) (rest ++ [b]) = b :: rest.
Proof. intros H. rewrite roll_p1_closed. unfold perm_list. cbn [map]. f_equal.
  - rewrite app_nth2 by lia. subst m. rewrite Nat.sub_diag. reflexivity.
  - transitivity (map (fun p => nth p rest 0) (seq 0 m)).
    + apply map_ext_in. intros p Hp; apply in_seq in Hp. apply app_nth1; lia.
    + subst m. apply map_nth_seq. Qed.

Lemma offsets_scaled c sh : forall off,
  offsets sh (map (fun t => t * c) (strides sh)) off = map (fun p => off + p * c) (seq 0 (prod sh)).
Proof. induction sh as [|s sh IH]; intros off; cbn [offsets strides map prod seq].
  - f_equal; lia.
  - erewrite flat_map_ext by (intros; apply IH). rewrite map_seq_blocks.
    apply flat_map_ext; intros i. apply map_ext; intros p. lia. Qed.
Lemma offsets_contig sh off : offsets sh (strides sh) off = map (fun p => off + p) (seq 0 (prod sh)).
Proof. replace (strides sh) with (map (fun t => t * 1) (strides sh)).
  - rewrite offsets_scaled. apply map_ext; intros; lia.
  - rewrite <- (map_id (strides sh)) at 2. apply map_ext; intros; lia. Qed.
Lemma offsets_app_axis B T sh : forall st off, length sh = length st ->
  offsets (sh ++ [B]) (st ++ [T]) off = flat_map (fun o => map (fun b => o + b * T) (seq 0 B)) (offsets sh st off).
Proof. induction sh as [|s sh IH]; intros [|t st] off H; simpl in H; try discriminate.
  - cbn [app offsets flat_map]. rewrite app_nil_r. apply flat_map_single.
  - cbn [app offsets]. rewrite flat_map_flat_map. apply flat_map_ext; intros i. apply IH; lia. Qed.

Section Layout.
Variable T : Type.
Variable d0 : T.

Record nd := mk_nd { shp : list nat; dat : list T }.   (* C-contiguous N-d array *)

Definition gather (data : list T) (offs : list nat) : list T := map (fun o => nth o data d0) offs.
(* a.transpose(perm) read back in C order; numpy raises ValueError("axes
   don't match array") when len(perm) != a.ndim *)
Definition np_transpose (perm : list nat) (a : nd) : option nd :=
  if Nat.eqb (length perm) (length (shp a)) then
    Some (mk_nd (perm_list perm (shp a))
                (gather (dat a) (offsets (perm_list perm (shp a)) (perm_list perm (strides (shp a))) 0)))
  else None.
(* transposition of a row-major r x c matrix: out[j*r + i] = in[i*c + j] *)
Definition tr2 (r c : nat) (data : list T) : list T :=
  flat_map (fun j => map (fun i => nth (i * c + j) data d0) (seq 0 r)) (seq 0 c).
Definition rows (r c : nat) (data : list T) : list (list T) :=
  map (fun i => firstn c (skipn (i * c) data)) (seq 0 r).

Lemma tr2_length r c data : length (tr2 r c data) = c * r.
Proof. unfold tr2. rewrite length_flat_map_uniform with (k := r).
  - rewrite seq_length; auto.
  - intros; rewrite map_length, seq_length; auto. Qed.
Lemma nth_tr2 r c data i j : i < r -> j < c -> nth (j * r + i) (tr2 r c data) d0 = nth (i * c + j) data d0.
Proof. intros Hi Hj. unfold tr2.
  rewrite nth_flat_map_uniform with (k := r) (dx := 0); auto.
  - rewrite seq_nth by auto. cbn [Nat.add]. apply (nth_map_seq (fun i0 => nth (i0 * c + j) data d0)); auto.
  - intros; rewrite map_length, seq_length; auto.
  - rewrite seq_length; auto. Qed.
Lemma chunk_reassemble r c data : length data = r * c ->
  flat_map (fun i => map (fun j => nth (i * c + j) data d0) (seq 0 c)) (seq 0 r) = data.
Proof. intros H. rewrite <- (map_seq_blocks (fun k => nth k data d0)). rewrite <- H. apply map_nth_seq. Qed.
Theorem tr2_invol r c data : length data = r * c -> tr2 c r (tr2 r c data) = data.
Proof. intros H. unfold tr2 at 1.
  etransitivity; [|exact (chunk_reassemble r c data H)].
  apply flat_map_ext_in'; intros j Hj; apply in_seq in Hj.
  apply map_ext_in; intros i Hi; apply in_seq in Hi.
  apply nth_tr2; lia. Qed.

(* moving the leading (batch) axis last = 2-D transposition of B x prod(rest) *)
Theorem np_transpose_roll_m1 m B rest x : length rest = m ->
  np_transpose (roll_m1 (S m)) (mk_nd (B :: rest) x) = Some (mk_nd (rest ++ [B]) (tr2 B (prod rest) x)).
Proof. intros H. unfold np_transpose. cbn [shp dat strides length].
  rewrite roll_m1_length, H, Nat.eqb_refl.
  rewrite !perm_list_roll_m1 by (rewrite ?strides_length; auto).
  rewrite offsets_app_axis by (rewrite strides_length; auto). rewrite offsets_contig.
  f_equal. f_equal. unfold gather, tr2. rewrite flat_map_map', map_flat_map.
  apply flat_map_ext; intros p. rewrite map_map. apply map_ext; intros b. f_equal. lia. Qed.
(* moving the trailing axis first = 2-D transposition of prod(rest) x B *)
Theorem np_transpose_roll_p1 m B rest y : length rest = m ->
  np_transpose (roll_p1 (S m)) (mk_nd (rest ++ [B]) y) = Some (mk_nd (B :: rest) (tr2 (prod rest) B y)).
Proof. intros H. unfold np_transpose. cbn [shp dat].
  rewrite roll_p1_length, app_length, H. cbn [length]. replace (m + 1) with (S m) by lia. rewrite Nat.eqb_refl.
  rewrite strides_app1.
  rewrite !perm_list_roll_p1 by (rewrite ?map_length, ?strides_length; auto).
  cbn [offsets]. erewrite flat_map_ext by (intros; apply offsets_scaled).
  f_equal. f_equal. unfold gather, tr2. rewrite map_flat_map.
  apply flat_map_ext; intros b. rewrite map_map. apply map_ext; intros p. f_equal. lia. Qed.
Lemma np_transpose_rank perm a : length perm <> length (shp a) -> np_transpose perm a = None.
Proof. intros H. unfold np_transpose. apply Nat.eqb_neq in H. rewrite H; auto. Qed.

(* transpb o transpf = id, on shapes and on data *)
Theorem transp_inverse_shape k sh : length sh = k -> perm_list (roll_p1 k) (perm_list (roll_m1 k) sh) = sh.
Proof. intros H. destruct sh as [|b rest]; simpl in H; subst k; [reflexivity|].
  rewrite perm_list_roll_m1, perm_list_roll_p1; auto. Qed.
Theorem transp_inverse k (a : nd) : length (shp a) = k -> k <> 0 -> length (dat a) = prod (shp a) ->
  match np_transpose (roll_m1 k) a with Some a1 => np_transpose (roll_p1 k) a1 | None => None end = Some a.
Proof. destruct a as [sh x]; cbn [shp dat]. intros H K L. destruct sh as [|b rest]; simpl in H; [lia|].
  subst k. rewrite np_transpose_roll_m1, np_transpose_roll_p1 by auto.
  rewrite tr2_invol; auto. Qed.

(* ---- LinearOperator.dot on arrays (ndarray multiplication enabled,
   forceflat None) and the column-wise default matmat; f is the flat
   matvec (of Op or of Op.H), M its output size ---- *)
Variable f : list T -> list T.
Variable M : nat.

Definition matmat (N B : nat) (X : list T) : list T :=   (* X: N x B, result M x B *)
  tr2 B M (concat (map f (rows B N (tr2 N B X)))).

Definition lop_dot (dims dimsd : list nat) (a : nd) : option nd :=
  let N := prod dims in
  let s := shp a in
  if leqb s dims then Some (mk_nd dimsd (f (dat a)))
  else if Nat.ltb 1 (length s) && leqb (removelast s) dims then
    Some (mk_nd (dimsd ++ [last s 0]) (matmat N (last s 0) (dat a)))
  else match s with
       | [n] => if Nat.eqb n N then Some (mk_nd [M] (f (dat a))) else None
       | [n; b] => if Nat.eqb n N then Some (mk_nd [M; b] (matmat N b (dat a))) else None
       | _ => None
       end.

(* TorchOperator with batch=True (torchoperator.py, after the fix commits):
     ndimf = 2 if flatten else len(dims)+1 ; ndimb = 2 if flatten else len(dimsd)+1
     transpf = roll(arange(ndimf), -1) ; transpb  = roll(arange(ndimb), 1)
     transpfH = roll(arange(ndimb), -1) ; transpbH = roll(arange(ndimf), 1)
     _batched(Op1, x, tin, tout): y = Op1 @ x.transpose(tin)
                                  if flatten: y = y.reshape(-1, y.shape[-1])
                                  return y.transpose(tout)
   matvec = _batched(Op, ., transpf, transpb), rmatvec = _batched(Op.H, ., transpfH, transpbH):
   the input permutation has the rank of the OPERAND side, the output one the
   rank of the RESULT side. *)
Definition torch_rank (flatten : bool) (side : list nat) : nat := if flatten then 2 else S (length side).
(* y.reshape(-1, y.shape[-1]) of a C-contiguous array: same data *)
Definition reshape_m1_last (a : nd) : nd :=
  mk_nd [prod (removelast (shp a)); last (shp a) 1] (dat a).
Definition torch_batched (flatten : bool) (din dout : list nat) (x : nd) : option nd :=
  match np_transpose (roll_m1 (torch_rank flatten din)) x with
  | None => None
  | Some x1 => match lop_dot din dout x1 with
               | None => None
               | Some y1 => np_transpose (roll_p1 (torch_rank flatten dout))
                                         (if flatten then reshape_m1_last y1 else y1)
               end
  end.
(* _TorchOperator.backward: x = ctx.adj(y).reshape(ctx.xshape); numpy reshape
   needs equal sizes (else ValueError) *)
Definition grad_reshape (xs : list nat) (r : option nd) : option nd :=
  match r with
  | Some a => if Nat.eqb (prod xs) (prod (shp a)) then Some (mk_nd xs (dat a)) else None
  | None => None
  end.

Hypothesis f_len : forall v, length (f v) = M.

Lemma rows_lengths B N X : length X = B * N -> Forall (fun r => length r = N) (rows B N X).
Proof. intros H. unfold rows. apply Forall_forall. intros r Hr. apply in_map_iff in Hr.
  destruct Hr as [i [<- Hi]]. apply in_seq in Hi. rewrite firstn_length, skipn_length. nia. Qed.
Lemma batch_out_length B N X : length (concat (map f (rows B N X))) = B * M.
Proof. rewrite length_concat_uniform with (k := M).
  - unfold rows. rewrite !map_length, seq_length; auto.
  - apply Forall_forall. intros r Hr. apply in_map_iff in Hr. destruct Hr as [v [<- _]]. apply f_len. Qed.
Lemma matmat_tr N B X : length X = B * N ->
  matmat N B (tr2 B N X) = tr2 B M (concat (map f (rows B N X))).
Proof. intros H. unfold matmat. rewrite tr2_invol; auto. Qed.

(* flatten=True: every row of the batch is mapped by f, for ALL ranks of dims
   and dimsd.  Remaining guard: the degenerate shape coincidence
   dims = (N, B) (i.e. dims = (N,1) with a batch of one), where dot takes the
   (N,B) operand for ONE dims-shaped model. *)
Theorem batch_rows dims dimsd B N X :
  prod dims = N -> prod dimsd = M -> dims <> [N; B] -> length X = B * N ->
  torch_batched true dims dimsd (mk_nd [B; N] X) = Some (mk_nd [B; M] (concat (map f (rows B N X)))).
Proof. intros HN HM Hne HX. unfold torch_batched, torch_rank.
  rewrite (np_transpose_roll_m1 1 B [N] X eq_refl). cbn [prod app]. rewrite Nat.mul_1_r.
  assert (Y : np_transpose (roll_p1 2) (mk_nd [M; B] (tr2 B M (concat (map f (rows B N X)))))
              = Some (mk_nd [B; M] (concat (map f (rows B N X))))).
  { rewrite (np_transpose_roll_p1 1 B [M] _ eq_refl). cbn [prod]. rewrite Nat.mul_1_r.
    rewrite tr2_invol; auto. apply batch_out_length. }
  unfold lop_dot. cbn [shp dat]. rewrite (leqb_neq [N; B] dims) by congruence.
  cbn [length removelast last]. change (Nat.ltb 1 2) with true. cbn [andb].
  destruct (leqb [N] dims) eqn:E.
  - apply leqb_eq in E. subst dims. unfold reshape_m1_last. cbn [shp dat].
    rewrite removelast_last, last_last, HM. cbn [prod]. rewrite Nat.mul_1_r, matmat_tr by auto. exact Y.
  - rewrite HN, Nat.eqb_refl. unfold reshape_m1_last. cbn [shp dat removelast last prod].
    rewrite Nat.mul_1_r, matmat_tr by auto. exact Y. Qed.

(* flatten=False, ALL ranks of dims and dimsd *)
Theorem batch_nd dims dimsd B X :
  dims <> [] -> prod dimsd = M -> length X = B * prod dims ->
  torch_batched false dims dimsd (mk_nd (B :: dims) X)
  = Some (mk_nd (B :: dimsd) (concat (map f (rows B (prod dims) X)))).
Proof. intros Hne HM HX. unfold torch_batched, torch_rank.
  rewrite np_transpose_roll_m1 by auto.
  unfold lop_dot. cbn [shp dat].
  rewrite leqb_neq by (intros E; apply (f_equal (@length nat)) in E; rewrite app_length in E; simpl in E; lia).
  replace (Nat.ltb 1 (length (dims ++ [B]))) with true
    by (symmetry; apply Nat.ltb_lt; rewrite app_length; destruct dims; [contradiction | simpl; lia]).
  rewrite removelast_last, last_last, leqb_refl. cbn [andb].
  rewrite matmat_tr by auto.
  rewrite np_transpose_roll_p1 by auto. rewrite HM, tr2_invol; auto. apply batch_out_length. Qed.
End Layout.

Arguments mk_nd {T} _ _.
Arguments shp {T} _.
Arguments dat {T} _.

(* ---- non-batched wrapper (batch=False): matvec = Op @ x, rmatvec = Op.H @ g,
   whatever [flatten] says; the gradient is reshaped to the input's shape ---- *)
Section NonBatched.
Variable T : Type.
Variable d0 : T.
Variables (f fH : list T -> list T) (M N : nat).   (* matvec of Op and of Op.H *)

(* N-d input (shape dims), cotangent shaped like the result (dimsd) *)
Theorem nonbatch_nd dims dimsd x g : prod dims = N ->
  lop_dot T d0 f M dims dimsd (mk_nd dims x) = Some (mk_nd dimsd (f x)) /\
  grad_reshape T dims (lop_dot T d0 fH N dimsd dims (mk_nd dimsd g)) = Some (mk_nd dims (fH g)).
Proof. intros HN. unfold lop_dot; cbn [shp dat]. rewrite !leqb_refl. split; auto.
  unfold grad_reshape; cbn [shp dat]. rewrite Nat.eqb_refl; auto. Qed.
(* flat input, operator with more than one model dimension: flat value, and the
   gradient has the input's shape (N,) whatever the ranks of dims / dimsd *)
Theorem flat_forward dims dimsd x : prod dims = N -> 1 < length dims ->
  lop_dot T d0 f M dims dimsd (mk_nd [N] x) = Some (mk_nd [M] (f x)).
Proof. intros HN Hl. unfold lop_dot; cbn [shp dat length].
  rewrite leqb_neq by (intros E; rewrite <- E in Hl; simpl in Hl; lia).
  change (Nat.ltb 1 1) with false. cbn [andb]. rewrite HN, Nat.eqb_refl; auto. Qed.
Theorem flat_backward_input_shape dims dimsd g : prod dims = N -> prod dimsd = M ->
  grad_reshape T [N] (lop_dot T d0 fH N dimsd dims (mk_nd [M] g)) = Some (mk_nd [N] (fH g)).
Proof. intros HN HM. unfold lop_dot; cbn [shp dat length].
  change (Nat.ltb 1 1) with false. cbn [andb].
  destruct (leqb [M] dimsd); unfold grad_reshape; cbn [shp dat prod].
  - rewrite HN, Nat.mul_1_r, Nat.eqb_refl; auto.
  - rewrite HM, Nat.eqb_refl. cbn [shp dat prod]. rewrite Nat.eqb_refl; auto. Qed.
End NonBatched.

(* ---------------------------------------------------------------- (iii) *)
(* JaxOperator.rmatvecad(x, y) (after the fix):   M, N = self.shape
     if x.shape != (N,) and x.shape != (N, 1): raise ValueError
   x is the primal point (a model vector: valid shapes are (N,), (N,1)). *)
Definition jax_check_accepts (N : nat) (xshape : list nat) : bool :=
  leqb xshape [N] || leqb xshape [N; 1].
Definition jax_valid_primal (N : nat) (xshape : list nat) : Prop := xshape = [N] \/ xshape = [N; 1].

Section Jax.
Variable R : CRing.
(* value: jax.vjp of the (linear) jitted forward = transposed product; the
   autodiff engine is an oracle *)
Definition jax_rmatvecad (n : nat) (A : list (list R)) (xshape : list nat) (y : list R) : option (list R) :=
  if jax_check_accepts n xshape then Some (mvT R n A y) else None.
End Jax.

Theorem jax_check_exact N xshape : jax_check_accepts N xshape = true <-> jax_valid_primal N xshape.
Proof. unfold jax_check_accepts, jax_valid_primal. rewrite orb_true_iff, !leqb_eq. tauto. Qed.

(* ---- (iv') identity of the PyTensor Ops (after fix d8aeac6).  pytensor's
   Op.__eq__/__hash__ use the class and __props__, and _PyTensorOperatorNoGrad
   declares __props__ = ("dims", "dimsd", "shape", "_LOp"); LinearOperator has
   no __eq__, so _LOp is compared by object identity (pt_obj = the object's
   id).  The graph-merge pass replaces equal Ops applied to the same variable
   by ONE node. ---- *)
Record pt_op (R : Type) := { pt_grad_support : bool;    (* class: PyTensorOperator / _PyTensorOperatorNoGrad *)
  pt_dims : list nat; pt_dimsd : list nat; pt_obj : nat; pt_mat : list (list R) }.
Arguments pt_grad_support {R} _. Arguments pt_dims {R} _. Arguments pt_dimsd {R} _.
Arguments pt_obj {R} _. Arguments pt_mat {R} _.
Definition pt_props_eqb {R} (a b : pt_op R) : bool :=       (* class, dims, dimsd, shape *)
  Bool.eqb (pt_grad_support a) (pt_grad_support b) && leqb (pt_dims a) (pt_dims b) && leqb (pt_dimsd a) (pt_dimsd b)
  && leqb [prod (pt_dimsd a); prod (pt_dims a)] [prod (pt_dimsd b); prod (pt_dims b)].
Definition pt_eqb {R} (a b : pt_op R) : bool := pt_props_eqb a b && Nat.eqb (pt_obj a) (pt_obj b).
(* PyTensorOperator(LOp) and the gradient Op it builds, _PyTensorOperatorNoGrad(LOp.H) *)
Definition pt_wrap {R} dims dimsd (id : nat) (A : list (list R)) : pt_op R :=
  {| pt_grad_support := true; pt_dims := dims; pt_dimsd := dimsd; pt_obj := id; pt_mat := A |}.
Definition pt_gradient_op {R} dims dimsd (idH : nat) (AH : list (list R)) : pt_op R :=
  {| pt_grad_support := false; pt_dims := dimsd; pt_dimsd := dims; pt_obj := idH; pt_mat := AH |}.
(* the forward Op and its own gradient Op are of different classes: never merged *)
Theorem pt_forward_gradient_distinct {R} dims dimsd id idH (A AH : list (list R)) :
  pt_eqb (pt_wrap dims dimsd id A) (pt_gradient_op dims dimsd idH AH) = false.
Proof. reflexivity. Qed.
(* wrappers of different operator objects are different Ops *)
Theorem pt_different_operators_distinct {R} (a b : pt_op R) : pt_obj a <> pt_obj b -> pt_eqb a b = false.
Proof. intros H. unfold pt_eqb. apply Nat.eqb_neq in H. rewrite H. apply andb_false_r. Qed.
(* hence equal Ops compute the same map (heap: an object id determines the operator) *)
Theorem pt_equal_ops_same_operator {R} (heap : nat -> list (list R)) (a b : pt_op R) :
  pt_mat a = heap (pt_obj a) -> pt_mat b = heap (pt_obj b) -> pt_eqb a b = true -> pt_mat a = pt_mat b.
Proof. intros Ha Hb H. unfold pt_eqb in H. apply andb_prop in H. destruct H as [_ H].
  apply Nat.eqb_eq in H. congruence. Qed.

(* ===================================================================== *)
(* Legacy: the code BEFORE the fix commits (dfcf977 jax, 1310770 torch batch
   ranks, 5b7f0c6 gradient shape, d8aeac6 pytensor __props__).  Kept as
   documentation of the five repaired defects; nothing here describes the current code and Props/C19.v
   does not use it. *)
Module Legacy.
Section L.
Variable T : Type.
Variable d0 : T.
Variable f : list T -> list T.
Variable M : nat.
(* one rank k = 2 or len(dims)+1 for BOTH permutations and BOTH directions, no reshape *)
Definition torch_k (flatten : bool) (dims : list nat) : nat := if flatten then 2 else S (length dims).
Definition torch_batched (k : nat) (din dout : list nat) (x : nd T) : option (nd T) :=
  match np_transpose T d0 (roll_m1 k) x with
  | None => None
  | Some x1 => match lop_dot T d0 f M din dout x1 with
               | None => None
               | Some y1 => np_transpose T d0 (roll_p1 k) y1
               end
  end.
Theorem batch_nd_rank_mismatch_forward dims dimsd B X :
  dims <> [] -> length dims <> length dimsd ->
  torch_batched (S (length dims)) dims dimsd (mk_nd (B :: dims) X) = None.
Proof. intros Hne Hrank. unfold torch_batched.
  rewrite np_transpose_roll_m1 by auto.
  unfold lop_dot. cbn [shp dat].
  rewrite leqb_neq by (intros E; apply (f_equal (@length nat)) in E; rewrite app_length in E; simpl in E; lia).
  replace (Nat.ltb 1 (length (dims ++ [B]))) with true
    by (symmetry; apply Nat.ltb_lt; rewrite app_length; destruct dims; [contradiction | simpl; lia]).
  rewrite removelast_last, last_last, leqb_refl. cbn [andb].
  apply np_transpose_rank. cbn [shp]. rewrite roll_p1_length, app_length. simpl. lia. Qed.
Theorem batch_nd_rank_mismatch_backward dims dimsd B G :
  length dims <> length dimsd ->
  torch_batched (S (length dims)) dimsd dims (mk_nd (B :: dimsd) G) = None.
Proof. intros Hrank. unfold torch_batched. rewrite np_transpose_rank; auto.
  cbn [shp length]. rewrite roll_m1_length. lia. Qed.
Theorem batch_flat_rank_mismatch N dout B X :
  length dout <> 1 -> torch_batched 2 [N] dout (mk_nd [B; N] X) = None.
Proof. intros Hrank. unfold torch_batched.
  rewrite (np_transpose_roll_m1 T d0 1 B [N] X eq_refl). cbn [app].
  unfold lop_dot. cbn [shp dat leqb length removelast last]. rewrite Nat.eqb_refl. cbn [andb].
  change (Nat.ltb 1 2) with true. cbn [andb].
  apply np_transpose_rank. cbn [shp]. rewrite roll_p1_length, app_length. simpl. lia. Qed.
(* no reshape of the gradient: torch.autograd's validation (input shape must
   be expandable to the gradient's) rejected Op.H @ g shaped dims for a flat x *)
Definition torch_grad_accepts (xs r : list nat) : bool :=
  Nat.leb (length xs) (length r) && leqb r (repeat 1 (length r - length xs) ++ xs).
Definition torch_grad_check (xs : list nat) (r : option (nd T)) : option (nd T) :=
  match r with
  | Some a => if torch_grad_accepts xs (shp a) then Some (mk_nd xs (dat a)) else None
  | None => None
  end.
Theorem flat_backward_nd_fails (fH : list T -> list T) N dims g :
  torch_grad_accepts [N] dims = false ->
  torch_grad_check [N] (lop_dot T d0 fH N [M] dims (mk_nd [M] g)) = None.
Proof. intros Hacc. unfold lop_dot; cbn [shp dat length]. rewrite leqb_refl.
  unfold torch_grad_check; cbn [shp]. rewrite Hacc; auto. Qed.
End L.
(* rmatvecad compared x.shape with (M,) / (M,1) *)
Definition jax_check_accepts (M N : nat) (xshape : list nat) : bool :=
  leqb xshape [M] || leqb xshape [M; 1].
Theorem jax_check_rejects_rectangular M N xshape : M <> N -> jax_valid_primal N xshape -> jax_check_accepts M N xshape = false.
Proof. intros H [-> | ->]; unfold jax_check_accepts; cbn [leqb];
  replace (Nat.eqb N M) with false by (symmetry; apply Nat.eqb_neq; auto); reflexivity. Qed.
(* before d8aeac6: __props__ = ("dims","dimsd","shape") - the wrapped operator was not
   part of the identity, so wrappers of two different same-shaped operators were equal *)
Theorem pt_wrap_eq_ignores_operator {R} dims dimsd idA idB (A B : list (list R)) :
  pt_props_eqb (pt_wrap dims dimsd idA A) (pt_wrap dims dimsd idB B) = true.
Proof. unfold pt_props_eqb, pt_wrap; cbn. rewrite !leqb_refl, !Nat.eqb_refl. reflexivity. Qed.
End Legacy.
