(* DotDispatch.v — pure decision logic of pylops/linearoperator.py over shapes
   ([list nat]): the size checks of matvec / rmatvec / matmat / rmatmat, the
   [reshaped] decorator, [LinearOperator.dot] on arrays (detection of
   dims-shaped and dims+(k,) inputs, ravel / reshape, the N-d flag, forceflat)
   and the shape / dims / dimsd attribute machinery (setters with
   cross-validation, __init__, _copy_attributes as used by _adjoint /
   _transpose / dot(operator) / __add__ / scaling).

   What is NOT modelled (oracle): the numbers computed by _matvec / _matmat.
   The model assumes only that the operator-specific [_matvec] returns
   [prod dimsd] elements and [_matmat] an (M, k) array (the harness checks
   the observed output shapes against the model, so a wrong-size kernel
   shows up as a disagreement).  Zero-length trailing axes of inputs that are
   not dims+(0,)-shaped are left to the operator-specific [_matmat]. *)
From Coq Require Import Bool Arith List Lia.
Import ListNotations.

Definition prod (l : list nat) : nat := fold_right Nat.mul 1 l.

Fixpoint leqb (a b : list nat) : bool :=
  match a, b with
  | [], [] => true
  | x :: a', y :: b' => (x =? y) && leqb a' b'
  | _, _ => false
  end.

Lemma leqb_eq a b : leqb a b = true <-> a = b.
Proof.
  revert b; induction a as [|x a IH]; destruct b as [|y b]; cbn; split; intro H; try reflexivity; try discriminate.
  - apply andb_true_iff in H as [H1 H2]. apply Nat.eqb_eq in H1. apply IH in H2. congruence.
  - inversion H; subst. rewrite Nat.eqb_refl. cbn. apply IH. reflexivity.
Qed.
Lemma leqb_refl a : leqb a a = true. Proof. apply leqb_eq; reflexivity. Qed.
Lemma leqb_len a b : length a <> length b -> leqb a b = false.
Proof. intro H. destruct (leqb a b) eqn:E; [|reflexivity]. apply leqb_eq in E. subst. contradiction. Qed.

Lemma prod_app a b : prod (a ++ b) = prod a * prod b.
Proof. unfold prod. induction a; cbn [app fold_right]; [lia|]. rewrite IHa. lia. Qed.
Lemma prod_single n : prod [n] = n. Proof. unfold prod; cbn; lia. Qed.

(* ------------------------------------------------------------ results *)
Inductive route := RMatvec | RMatmat.
Inductive errc := EValue.                       (* every check raises ValueError *)
Inductive result := Error (e : errc) | Ok (r : route) (s : list nat).

(* python truthiness of forceflat in [not self.forceflat]: None and False are falsy *)
Definition truthy (ff : option bool) : bool := match ff with Some true => true | _ => false end.

(* matvec(x) of an operator of shape (M, N): accepts (N,) and (N,1) only *)
Definition matvec_shape (M N : nat) (xs : list nat) : result :=
  if leqb xs [N] then Ok RMatvec [M]
  else if leqb xs [N; 1] then Ok RMatvec [M; 1]
  else Error EValue.
Definition rmatvec_shape (M N : nat) := matvec_shape N M.
(* matmat(X): 2-d with first dimension N *)
Definition matmat_shape (M N : nat) (xs : list nat) : result :=
  match xs with
  | [n; k] => if n =? N then Ok RMatmat [M; k] else Error EValue
  | _ => Error EValue
  end.
Definition rmatmat_shape (M N : nat) := matmat_shape N M.

(* the [reshaped] decorator: x.reshape(dims) of a flat array of n elements
   succeeds iff n = prod dims; the decorated kernel then returns an array
   whose ravel is handed back *)
Definition reshaped_in (dims : list nat) (n : nat) : option (list nat) :=
  if prod dims =? n then Some dims else None.

(* ------------------------------------------------------------ dot(array) *)
Definition dot_dispatch (dims dimsd : list nat) (forceflat : option bool) (ndflag : bool)
           (xs : list nat) : result :=
  let N := prod dims in
  let M := prod dimsd in
  let nd := length xs in
  (* if not get_ndarray_multiplication() and (x.ndim > 2 or (x.ndim == 2 and x.shape[0] != self.shape[1])) *)
  if negb ndflag && ((2 <? nd) || ((nd =? 2) && negb (hd 0 xs =? N))) then Error EValue else
  let is_ds := leqb xs dims in                                   (* x.shape == self.dims *)
  let is_dsm := (1 <? nd) && leqb (removelast xs) dims in        (* len(x.shape) > 1 and x.shape[:-1] == self.dims *)
  let x1 := if is_ds then [prod xs] else xs in                   (* x = x.ravel() *)
  let resh := is_dsm && negb (truthy forceflat) in
  let k := last x1 0 in
  (* x.reshape((-1, x.shape[-1])): numpy cannot infer -1 next to a 0 *)
  if resh && (k =? 0) then Error EValue else
  let x2 := if resh then [prod x1 / k; k] else x1 in
  match x2 with
  | [_] =>                                                       (* x.ndim == 1 *)
      match matvec_shape M N x2 with
      | Ok _ ys => Ok RMatvec (if is_ds && negb (truthy forceflat) && ndflag then dimsd else ys)
      | Error e => Error e
      end
  | [_; _] =>                                                    (* x.ndim == 2 *)
      match matmat_shape M N x2 with
      | Ok _ ys =>
          if is_dsm && negb (truthy forceflat) && ndflag then
            (* y.reshape of (M,k) to dimsd+(-1,): -1 cannot be inferred when prod dimsd = 0 *)
            if M =? 0 then Error EValue else Ok RMatmat (dimsd ++ [last ys 0])
          else Ok RMatmat ys
      | Error e => Error e
      end
  | _ => Error EValue                                            (* "Wrong shape" *)
  end.

(* ------------------------------------------------------------ helper facts *)
Lemma removelast_app1 (s : list nat) k : removelast (s ++ [k]) = s.
Proof. apply removelast_last. Qed.
Lemma last_app1 (s : list nat) k d : last (s ++ [k]) d = k.
Proof. apply last_last. Qed.
Lemma removelast_len (s : list nat) : s <> [] -> length (removelast s) = pred (length s).
Proof.
  intro H. destruct (exists_last H) as [s' [a E]]. subst. rewrite removelast_last, app_length. cbn. lia.
Qed.
Lemma is_dsm_false_when_ds dims : (1 <? length dims) && leqb (removelast dims) dims = false.
Proof.
  destruct dims as [|a d]; [reflexivity|].
  rewrite leqb_len; [apply andb_false_r|]. rewrite removelast_len by discriminate. cbn. lia.
Qed.

(* ------------------------------------------------------------ theorems *)
(* an array shaped like dims, flag on, forceflat not True -> array shaped like dimsd *)
Theorem dispatch_dims :
  forall dims dimsd ff, ff <> Some true ->
    dot_dispatch dims dimsd ff true dims = Ok RMatvec dimsd.
Proof.
  intros dims dimsd ff Hff. unfold dot_dispatch. cbn [negb andb].
  rewrite leqb_refl, is_dsm_false_when_ds. cbn [andb].
  unfold matvec_shape. rewrite leqb_refl.
  assert (truthy ff = false) as -> by (destruct ff as [[|]|]; [contradiction Hff| |]; reflexivity).
  reflexivity.
Qed.

(* forceflat = True: same input accepted, result stays flat *)
Theorem dispatch_dims_forceflat :
  forall dims dimsd f, dot_dispatch dims dimsd (Some true) f dims = Ok RMatvec [prod dimsd]
                       \/ (f = false /\ 2 <= length dims).
Proof.
  intros dims dimsd f. unfold dot_dispatch.
  destruct f; cbn [negb andb].
  - left. rewrite leqb_refl, is_dsm_false_when_ds. cbn [andb].
    unfold matvec_shape. rewrite leqb_refl. reflexivity.
  - destruct (Nat.le_gt_cases 2 (length dims)) as [H|H]; [right; auto|left].
    destruct dims as [|a [|b d]]; cbn in H; try lia.
    + cbn. reflexivity.
    + cbn [length Nat.ltb Nat.leb Nat.eqb orb andb]. rewrite leqb_refl. cbn.
      unfold matvec_shape. rewrite leqb_refl. reflexivity.
Qed.

(* dims + (k,) -> dimsd + (k,) *)
Theorem dispatch_cols :
  forall dims dimsd ff k, ff <> Some true -> dims <> [] -> k <> 0 -> prod dimsd <> 0 ->
    dot_dispatch dims dimsd ff true (dims ++ [k]) = Ok RMatmat (dimsd ++ [k]).
Proof.
  intros dims dimsd ff k Hff Hd Hk HM. unfold dot_dispatch. cbn [negb andb].
  assert (truthy ff = false) as -> by (destruct ff as [[|]|]; [contradiction Hff| |]; reflexivity).
  rewrite (leqb_len (dims ++ [k]) dims) by (rewrite app_length; cbn; lia).
  rewrite removelast_app1, leqb_refl.
  assert (1 <? length (dims ++ [k]) = true) as ->.
  { apply Nat.ltb_lt. rewrite app_length. destruct dims; [contradiction|]. cbn. lia. }
  cbn [andb negb]. rewrite last_app1.
  assert (k =? 0 = false) as -> by (apply Nat.eqb_neq; assumption).
  rewrite prod_app, prod_single, Nat.div_mul by assumption.
  unfold matmat_shape. rewrite Nat.eqb_refl.
  assert (prod dimsd =? 0 = false) as -> by (apply Nat.eqb_neq; assumption).
  reflexivity.
Qed.

(* forceflat = True and 1-d dims: (N, k) is an ordinary matrix; N-d dims: rejected *)
Theorem dispatch_cols_forceflat :
  forall dims dimsd k f,
    dot_dispatch dims dimsd (Some true) f (dims ++ [k]) =
      match dims with
      | [_] => Ok RMatmat [prod dimsd; k]
      | [] => dot_dispatch [] dimsd (Some true) f [k]
      | _ => Error EValue
      end.
Proof.
  intros dims dimsd k f. destruct dims as [|a [|b d]]; [reflexivity| |].
  - unfold dot_dispatch. cbn [app length Nat.ltb Nat.leb Nat.eqb orb andb hd prod fold_right].
    replace (a * 1) with a by lia. rewrite Nat.eqb_refl. cbn [negb andb].
    replace (if negb f && false then Error EValue else _) with
      (let is_ds := leqb [a; k] [a] in
       let is_dsm := true && leqb (removelast [a; k]) [a] in
       let x1 := if is_ds then [prod [a; k]] else [a; k] in
       let resh := is_dsm && negb (truthy (Some true)) in
       let k0 := last x1 0 in
       if resh && (k0 =? 0) then Error EValue else
       let x2 := if resh then [prod x1 / k0; k0] else x1 in
       match x2 with
       | [_] => match matvec_shape (prod dimsd) a x2 with
                | Ok _ ys => Ok RMatvec (if is_ds && negb (truthy (Some true)) && f then dimsd else ys)
                | Error e => Error e end
       | [_; _] => match matmat_shape (prod dimsd) a x2 with
                   | Ok _ ys => if is_dsm && negb (truthy (Some true)) && f
                                then if prod dimsd =? 0 then Error EValue else Ok RMatmat (dimsd ++ [last ys 0])
                                else Ok RMatmat ys
                   | Error e => Error e end
       | _ => Error EValue end) by (destruct f; reflexivity).
    cbn. rewrite Nat.eqb_refl. cbn. rewrite Nat.eqb_refl. reflexivity.
  - unfold dot_dispatch.
    set (xs := (a :: b :: d) ++ [k]).
    assert (Hlen : length xs = S (S (S (length d)))) by (unfold xs; rewrite app_length; cbn; lia).
    destruct (negb f && ((2 <? length xs) || ((length xs =? 2) && negb (hd 0 xs =? prod (a :: b :: d))))); [reflexivity|].
    rewrite (leqb_len xs (a :: b :: d)) by (rewrite Hlen; cbn; lia).
    cbn [truthy negb andb]. rewrite !andb_false_r. cbn [andb].
    unfold xs. cbn [app]. destruct (d ++ [k]) eqn:E; [destruct d; discriminate|]. reflexivity.
Qed.

(* flat input: flat output, except that for an operator whose dims is itself
   1-d the flat array IS dims-shaped and the first rule applies *)
Theorem dispatch_flat :
  forall dims dimsd ff f, dims <> [prod dims] ->
    dot_dispatch dims dimsd ff f [prod dims] = Ok RMatvec [prod dimsd].
Proof.
  intros dims dimsd ff f H. unfold dot_dispatch. cbn [length Nat.ltb Nat.leb Nat.eqb orb andb].
  rewrite andb_false_r. cbn [andb].
  assert (leqb [prod dims] dims = false) as ->.
  { destruct (leqb [prod dims] dims) eqn:E; [|reflexivity]. apply leqb_eq in E. congruence. }
  cbn [andb]. unfold matvec_shape. rewrite leqb_refl. reflexivity.
Qed.
Theorem dispatch_flat_1d :
  forall n dimsd ff f,
    dot_dispatch [n] dimsd ff f [n] =
      Ok RMatvec (if negb (truthy ff) && f then dimsd else [prod dimsd]).
Proof.
  intros n dimsd ff f. unfold dot_dispatch. cbn [length Nat.ltb Nat.leb Nat.eqb orb andb].
  rewrite andb_false_r. cbn [andb]. rewrite leqb_refl. cbn [andb prod fold_right].
  unfold matvec_shape. replace (n * 1) with n by lia. rewrite leqb_refl. reflexivity.
Qed.
(* (N, k) always goes column-wise, whatever dims is, both flag values, forceflat not True *)
Theorem dispatch_matrix :
  forall dims dimsd ff f k, length dims <> 1 -> [prod dims; k] <> dims ->
    dot_dispatch dims dimsd ff f [prod dims; k] = Ok RMatmat [prod dimsd; k].
Proof.
  intros dims dimsd ff f k H1 H2. unfold dot_dispatch.
  cbn [length Nat.ltb Nat.leb Nat.eqb orb andb hd removelast]. rewrite Nat.eqb_refl. cbn [negb andb orb].
  rewrite andb_false_r.
  assert (leqb [prod dims; k] dims = false) as ->.
  { destruct (leqb [prod dims; k] dims) eqn:E; [|reflexivity]. apply leqb_eq in E. contradiction. }
  rewrite (leqb_len [prod dims] dims) by (cbn; lia).
  cbn [andb]. unfold matmat_shape. rewrite Nat.eqb_refl. reflexivity.
Qed.

(* nothing of a wrong size is accepted: an accepted input has exactly N
   elements, or is s' ++ [k] with prod s' = N *)
Theorem dispatch_rejects :
  forall dims dimsd ff f xs r s,
    dot_dispatch dims dimsd ff f xs = Ok r s ->
    prod xs = prod dims \/ exists k s', xs = s' ++ [k] /\ prod s' = prod dims.
Proof.
  intros dims dimsd ff f xs r s. unfold dot_dispatch.
  destruct (negb f && _); [discriminate|].
  destruct (leqb xs dims) eqn:Eds.
  - intros _. left. apply leqb_eq in Eds. congruence.
  - destruct ((1 <? length xs) && leqb (removelast xs) dims) eqn:Edsm.
    + intros _. right. apply andb_true_iff in Edsm as [Hl He]. apply leqb_eq in He.
      apply Nat.ltb_lt in Hl. assert (xs <> []) as Hne by (destruct xs; cbn in Hl; [lia|discriminate]).
      exists (last xs 0), (removelast xs). split; [apply app_removelast_last; assumption|congruence].
    + cbn [andb]. destruct xs as [|a [|b [|c xs']]]; try discriminate.
      * unfold matvec_shape. destruct (leqb [a] [prod dims]) eqn:E1.
        -- intros _. left. apply leqb_eq in E1. inversion E1. cbn. lia.
        -- cbn [leqb]. rewrite andb_false_r. discriminate.
      * unfold matmat_shape. destruct (a =? prod dims) eqn:E1; [|discriminate].
        intros _. right. exists b, [a]. apply Nat.eqb_eq in E1. split; [reflexivity|cbn; lia].
Qed.

(* accepted input: the output carries M elements per N input elements
   (no truncation / broadcast of the result either) *)
Theorem dispatch_out_size :
  forall dims dimsd ff f xs r s,
    dot_dispatch dims dimsd ff f xs = Ok r s ->
    match r with
    | RMatvec => prod xs = prod dims /\ prod s = prod dimsd
    | RMatmat => exists k, prod xs = prod dims * k /\ prod s = prod dimsd * k
    end.
Proof.
  intros dims dimsd ff f xs r s. unfold dot_dispatch.
  destruct (negb f && _); [discriminate|].
  destruct (leqb xs dims) eqn:Eds.
  - apply leqb_eq in Eds. subst xs. rewrite is_dsm_false_when_ds. cbn [andb].
    unfold matvec_shape. rewrite leqb_refl. intro H. inversion H; subst. split; [reflexivity|].
    destruct (negb (truthy ff) && f); cbn; lia.
  - destruct ((1 <? length xs) && leqb (removelast xs) dims) eqn:Edsm.
    + apply andb_true_iff in Edsm as [Hl He]. apply leqb_eq in He. apply Nat.ltb_lt in Hl.
      assert (xs <> []) as Hne by (destruct xs; cbn in Hl; [lia|discriminate]).
      pose proof (app_removelast_last 0 Hne) as Hx. rewrite He in Hx.
      remember (last xs 0) as k eqn:Hk. clear Hk He Hne Eds. subst xs.
      cbn [andb]. destruct (truthy ff) eqn:Et; cbn [negb andb].
      * (* forceflat: x untouched *)
        destruct dims as [|a [|b d]].
        -- cbn in Hl. lia.
        -- cbn [app]. unfold matmat_shape. unfold prod at 1 2 3. cbn [fold_right]. replace (a * 1) with a by lia.
           rewrite Nat.eqb_refl. intro H. inversion H; subst. exists k. unfold prod; cbn. lia.
        -- cbn [app]. destruct (d ++ [k]) eqn:E; [destruct d; discriminate|]. discriminate.
      * destruct (k =? 0) eqn:Ek; [discriminate|]. apply Nat.eqb_neq in Ek.
        rewrite prod_app, prod_single, Nat.div_mul by assumption.
        unfold matmat_shape. rewrite Nat.eqb_refl.
        destruct f; cbn [andb last].
        -- destruct (prod dimsd =? 0); [discriminate|]. intro H; inversion H; subst.
           exists k. rewrite ?prod_app, ?prod_single. split; reflexivity.
        -- intro H; inversion H; subst. exists k. split; [reflexivity|unfold prod; cbn; lia].
    + cbn [andb]. destruct xs as [|a [|b [|c xs']]]; try discriminate.
      * unfold matvec_shape. destruct (leqb [a] [prod dims]) eqn:E1.
        -- apply leqb_eq in E1. inversion E1. intro H; inversion H; subst. cbn. lia.
        -- cbn [leqb]. rewrite andb_false_r. discriminate.
      * unfold matmat_shape. destruct (a =? prod dims) eqn:E1; [|discriminate].
        apply Nat.eqb_eq in E1. cbn [andb]. intro H; inversion H; subst. exists b. cbn. lia.
Qed.

(* flag off: every N-d input (ndim > 2, or 2-d whose first axis is not N) is an error *)
Theorem dispatch_flag_off :
  forall dims dimsd ff xs,
    2 < length xs \/ (length xs = 2 /\ hd 0 xs <> prod dims) ->
    dot_dispatch dims dimsd ff false xs = Error EValue.
Proof.
  intros dims dimsd ff xs H. unfold dot_dispatch. cbn [negb andb].
  assert ((2 <? length xs) || ((length xs =? 2) && negb (hd 0 xs =? prod dims)) = true) as ->; [|reflexivity].
  destruct H as [H|[H1 H2]].
  - apply Nat.ltb_lt in H. rewrite H. reflexivity.
  - apply Nat.eqb_eq in H1. apply Nat.eqb_neq in H2. rewrite H1, H2. apply orb_true_r.
Qed.
(* flag off: flat and (N, k) inputs still work, and give flat / (M, k) outputs *)
Theorem dispatch_flag_off_flat :
  forall dims dimsd ff, dot_dispatch dims dimsd ff false [prod dims] = Ok RMatvec [prod dimsd].
Proof.
  intros. unfold dot_dispatch. cbn [length Nat.ltb Nat.leb Nat.eqb orb andb negb].
  unfold matvec_shape. rewrite andb_false_r. cbn [andb].
  destruct (leqb [prod dims] dims); cbn [prod fold_right]; replace (prod dims * 1) with (prod dims) by lia;
    rewrite leqb_refl; rewrite ?andb_false_r; reflexivity.
Qed.

(* the matvec size check makes the reshape of the [reshaped] decorator total *)
Theorem reshaped_after_check :
  forall dims dimsd xs r s, matvec_shape (prod dimsd) (prod dims) xs = Ok r s ->
    reshaped_in dims (prod xs) = Some dims.
Proof.
  intros dims dimsd xs r s. unfold matvec_shape, reshaped_in.
  destruct (leqb xs [prod dims]) eqn:E1.
  - apply leqb_eq in E1. subst. intros _. rewrite prod_single, Nat.eqb_refl. reflexivity.
  - destruct (leqb xs [prod dims; 1]) eqn:E2; [|discriminate].
    apply leqb_eq in E2. subst. intros _.
    assert (prod [prod dims; 1] = prod dims) as -> by (unfold prod; cbn; lia). rewrite Nat.eqb_refl. reflexivity.
Qed.
Theorem reshaped_rejects : forall dims n, reshaped_in dims n <> None -> n = prod dims.
Proof. intros dims n. unfold reshaped_in. destruct (prod dims =? n) eqn:E; [apply Nat.eqb_eq in E; auto|congruence]. Qed.

(* add_ndarray_support_to_solver: b and x0 are raveled, the wrapped solver runs
   with the flag disabled and returns a flat N-vector, which is reshaped to dims
   unless x0 was given flat or the operator has forceflat = True *)
Definition solver_wrap_shape (dims : list nat) (ff : option bool) (x0 : option (list nat)) : list nat :=
  let x0flat := match x0 with Some s => length s =? 1 | None => false end in
  if negb x0flat && negb (truthy ff) then dims else [prod dims].
Lemma solver_wrap_size dims ff x0 : prod (solver_wrap_shape dims ff x0) = prod dims.
Proof. unfold solver_wrap_shape. destruct (_ && _); [reflexivity|apply prod_single]. Qed.

(* ============================================================ attributes *)
(* The three private fields may be unset (None); public getters fall back. *)
Arguments prod : simpl never.
Record ostate := { o_shape : option (nat * nat); o_dims : option (list nat);
                   o_dimsd : option (list nat); o_ff : option bool }.
Record attrs := { a_shape : nat * nat; a_dims : list nat; a_dimsd : list nat; a_ff : option bool }.
Definition wf (a : attrs) : Prop := a_shape a = (prod (a_dimsd a), prod (a_dims a)).
Definition wfb (a : attrs) : bool :=
  (fst (a_shape a) =? prod (a_dimsd a)) && (snd (a_shape a) =? prod (a_dims a)).

Definition empty : ostate := {| o_shape := None; o_dims := None; o_dimsd := None; o_ff := None |}.

(* property shape: _shape, else (prod dimsd, prod dims) if both known, else AttributeError *)
Definition get_shape (st : ostate) : option (nat * nat) :=
  match o_shape st with
  | Some s => Some s
  | None => match o_dims st, o_dimsd st with
            | Some d, Some dd => Some (prod dd, prod d)
            | _, _ => None
            end
  end.
Definition get_dims (st : ostate) : option (list nat) :=
  match o_dims st with Some d => Some d
  | None => match o_shape st with Some s => Some [snd s] | None => None end end.
Definition get_dimsd (st : ostate) : option (list nat) :=
  match o_dimsd st with Some d => Some d
  | None => match o_shape st with Some s => Some [fst s] | None => None end end.
Definition view (st : ostate) : option attrs :=
  match get_shape st, get_dims st, get_dimsd st with
  | Some s, Some d, Some dd => Some {| a_shape := s; a_dims := d; a_dimsd := dd; a_ff := o_ff st |}
  | _, _, _ => None
  end.

(* setters; None = ValueError *)
(* shape setter (after commit 55eb95e): each of dims / dimsd that is already set is validated *)
Definition set_shape (s : nat * nat) (st : ostate) : option ostate :=
  let baddimsd := match o_dimsd st with Some dd => negb (prod dd =? fst s) | None => false end in
  let baddims := match o_dims st with Some d => negb (prod d =? snd s) | None => false end in
  if baddimsd || baddims then None
  else Some {| o_shape := Some s; o_dims := o_dims st; o_dimsd := o_dimsd st; o_ff := o_ff st |}.
Definition set_dims (d : list nat) (st : ostate) : option ostate :=
  match o_shape st with
  | None => Some {| o_shape := None; o_dims := Some d; o_dimsd := o_dimsd st; o_ff := o_ff st |}
  | Some s => if prod d =? snd s
              then Some {| o_shape := Some s; o_dims := Some d; o_dimsd := o_dimsd st; o_ff := o_ff st |}
              else None
  end.
Definition set_dimsd (d : list nat) (st : ostate) : option ostate :=
  match o_shape st with
  | None => Some {| o_shape := None; o_dims := o_dims st; o_dimsd := Some d; o_ff := o_ff st |}
  | Some s => if prod d =? fst s
              then Some {| o_shape := Some s; o_dims := o_dims st; o_dimsd := Some d; o_ff := o_ff st |}
              else None
  end.
Definition set_ff (f : option bool) (st : ostate) : ostate :=
  {| o_shape := o_shape st; o_dims := o_dims st; o_dimsd := o_dimsd st; o_ff := f |}.

Definition bind {A B} (x : option A) (f : A -> option B) : option B :=
  match x with Some a => f a | None => None end.
Definition opt_apply {A} (o : option A) (f : A -> ostate -> option ostate) (st : ostate) : option ostate :=
  match o with Some a => f a st | None => Some st end.

(* LinearOperator.__init__ without Op: shape, then dims, then dimsd, then forceflat *)
Definition init (shape : option (nat * nat)) (dims dimsd : option (list nat)) (ff : option bool) : option ostate :=
  bind (opt_apply shape set_shape empty) (fun st1 =>
  bind (opt_apply dims set_dims st1) (fun st2 =>
  bind (opt_apply dimsd set_dimsd st2) (fun st3 =>
  Some (match ff with Some _ => set_ff ff st3 | None => st3 end)))).

(* invariant of the private fields *)
Definition oinv (st : ostate) : Prop :=
  match o_shape st with
  | None => True
  | Some s => (forall d, o_dims st = Some d -> prod d = snd s) /\ (forall d, o_dimsd st = Some d -> prod d = fst s)
  end.

Lemma view_wf st a : oinv st -> view st = Some a -> wf a.
Proof.
  unfold oinv, view, get_shape, get_dims, get_dimsd, wf.
  destruct st as [[[m n]|] [d|] [dd|] ff]; cbn; intros H E; inversion E; subst; cbn.
  all: try (destruct H as [H1 H2]).
  all: repeat match goal with
    | H : forall d, Some ?x = Some d -> _ |- _ => specialize (H _ eq_refl)
    | H : forall d, None = Some d -> _ |- _ => clear H end.
  all: unfold prod in *; cbn in *; try reflexivity; f_equal; lia.
Qed.

Lemma set_dims_inv d st st' : oinv st -> set_dims d st = Some st' -> oinv st'.
Proof.
  unfold oinv, set_dims. destruct st as [[s|] dm ddm ff]; cbn.
  - destruct (prod d =? snd s) eqn:E; [|discriminate]. intros [H1 H2] H. inversion H; subst; cbn.
    apply Nat.eqb_eq in E. split; [intros d0 E0; inversion E0; subst; assumption|assumption].
  - intros _ H; inversion H; subst; cbn. exact I.
Qed.
Lemma set_dimsd_inv d st st' : oinv st -> set_dimsd d st = Some st' -> oinv st'.
Proof.
  unfold oinv, set_dimsd. destruct st as [[s|] dm ddm ff]; cbn.
  - destruct (prod d =? fst s) eqn:E; [|discriminate]. intros [H1 H2] H. inversion H; subst; cbn.
    apply Nat.eqb_eq in E. split; [assumption|intros d0 E0; inversion E0; subst; assumption].
  - intros _ H; inversion H; subst; cbn. exact I.
Qed.
Lemma set_ff_inv f st : oinv st -> oinv (set_ff f st).
Proof. unfold oinv, set_ff. destruct st as [[s|] dm ddm ff]; cbn; auto. Qed.
Lemma set_shape_inv s st st' : set_shape s st = Some st' -> oinv st'.
Proof.
  unfold oinv, set_shape. destruct st as [sh [d|] [dd|] ff]; cbn.
  - destruct (prod dd =? fst s) eqn:E1; destruct (prod d =? snd s) eqn:E2; cbn; try discriminate.
    intro H; inversion H; subst; cbn. apply Nat.eqb_eq in E1, E2.
    split; intros d0 E0; inversion E0; subst; assumption.
  - destruct (prod d =? snd s) eqn:E2; cbn; try discriminate.
    intro H; inversion H; subst; cbn. apply Nat.eqb_eq in E2.
    split; intros d0 E0; inversion E0; subst; assumption.
  - destruct (prod dd =? fst s) eqn:E1; cbn; try discriminate.
    intro H; inversion H; subst; cbn. apply Nat.eqb_eq in E1.
    split; intros d0 E0; inversion E0; subst; assumption.
  - intro H; inversion H; subst; cbn. split; intros; discriminate.
Qed.

(* arbitrary sequences of assignments to shape / dims / dimsd on a bare LinearOperator *)
Inductive sop := SShape (m n : nat) | SDims (d : list nat) | SDimsd (d : list nat).
Fixpoint run_sops (l : list sop) (st : ostate) : option ostate :=
  match l with
  | [] => Some st
  | SShape m n :: l' => bind (set_shape (m, n) st) (run_sops l')
  | SDims d :: l' => bind (set_dims d st) (run_sops l')
  | SDimsd d :: l' => bind (set_dimsd d st) (run_sops l')
  end.
Lemma run_sops_inv l : forall st st', oinv st -> run_sops l st = Some st' -> oinv st'.
Proof.
  induction l as [|o l IH]; intros st st' Hi H; cbn in H.
  - inversion H; subst; assumption.
  - destruct o as [m n|d|d]; cbn [bind] in H.
    + destruct (set_shape (m, n) st) as [s1|] eqn:E; [|discriminate]. eapply IH; [|exact H]. eapply set_shape_inv; eauto.
    + destruct (set_dims d st) as [s1|] eqn:E; [|discriminate]. eapply IH; [|exact H]. eapply set_dims_inv; eauto.
    + destruct (set_dimsd d st) as [s1|] eqn:E; [|discriminate]. eapply IH; [|exact H]. eapply set_dimsd_inv; eauto.
Qed.
(* ANY non-raising sequence of setter calls, in any order, leaves
   shape = (prod dimsd, prod dims) on the attributes read back *)
Theorem setters_any_order_wf :
  forall l st a, run_sops l empty = Some st -> view st = Some a -> wf a.
Proof. intros l st a H Hv. eapply view_wf; [|exact Hv]. eapply run_sops_inv; [|exact H]. exact I. Qed.

(* __init__ either raises or yields consistent attributes *)
Theorem init_wf :
  forall shape dims dimsd ff st a, init shape dims dimsd ff = Some st -> view st = Some a -> wf a.
Proof.
  intros shape dims dimsd ff st a Hi Hv. apply (view_wf st); [|assumption]. clear Hv a.
  unfold init in Hi.
  assert (H1 : forall st1, opt_apply shape set_shape empty = Some st1 -> oinv st1).
  { intros st1. destruct shape as [s|]; cbn.
    - intro H; inversion H; subst; cbn. split; intros; discriminate.
    - intro H; inversion H; subst. exact I. }
  destruct (opt_apply shape set_shape empty) as [st1|] eqn:E1; [|discriminate]. cbn [bind] in Hi.
  specialize (H1 _ eq_refl).
  destruct (opt_apply dims set_dims st1) as [st2|] eqn:E2; [|discriminate]. cbn [bind] in Hi.
  assert (H2 : oinv st2).
  { destruct dims as [d|]; cbn in E2; [eapply set_dims_inv; eauto|inversion E2; subst; assumption]. }
  destruct (opt_apply dimsd set_dimsd st2) as [st3|] eqn:E3; [|discriminate]. cbn [bind] in Hi.
  assert (H3 : oinv st3).
  { destruct dimsd as [d|]; cbn in E3; [eapply set_dimsd_inv; eauto|inversion E3; subst; assumption]. }
  inversion Hi; subst. destruct ff; [apply set_ff_inv|]; assumption.
Qed.

(* Legacy (before commit 55eb95e): the shape setter validated only when BOTH
   dims and dimsd were set, so `Op.dims = (5,); Op.shape = (3, 4)` on a bare
   LinearOperator was accepted although inconsistent.  Kept as the witness of
   what the fixed guard excludes. *)
Module Legacy.
Definition set_shape_legacy (s : nat * nat) (st : ostate) : option ostate :=
  match o_dims st, o_dimsd st with
  | Some d, Some dd =>
      if (prod dd =? fst s) && (prod d =? snd s)
      then Some {| o_shape := Some s; o_dims := o_dims st; o_dimsd := o_dimsd st; o_ff := o_ff st |}
      else None
  | _, _ => Some {| o_shape := Some s; o_dims := o_dims st; o_dimsd := o_dimsd st; o_ff := o_ff st |}
  end.
Example setter_order_hole :
  exists st a, bind (set_dims [5] empty) (set_shape_legacy (3, 4)) = Some st /\ view st = Some a /\ wfb a = false.
Proof. eexists; eexists; split; [reflexivity|split; reflexivity]. Qed.
End Legacy.
Example setter_order_now_rejected : bind (set_dims [5] empty) (set_shape (3, 4)) = None.
Proof. reflexivity. Qed.

(* ---- constructions (all start from a fresh object whose shape is given) ---- *)
Definition of_ostate (o : option ostate) : option attrs := bind o view.

(* forceflat merge rule of dot(operator) / __add__; None = ValueError *)
Definition merge_ff (fa fb : option bool) : option (option bool) :=
  match fa, fb with
  | None, None => Some None
  | Some x, Some y => if Bool.eqb x y then Some (Some x) else None
  | Some x, None => Some (Some x)
  | None, Some y => Some (Some y)
  end.

(* _adjoint / _transpose: fresh (N, M) object; copy all but dims, dimsd, explicit, name; dims := dimsd, dimsd := dims *)
Definition adjoint (a : attrs) : option attrs :=
  of_ostate (
    bind (init (Some (snd (a_shape a), fst (a_shape a))) None None None) (fun st =>
    let st := set_ff (a_ff a) st in
    bind (set_dims (a_dimsd a) st) (fun st => set_dimsd (a_dims a) st))).

(* dot(operator): shape check, fresh (M_a, N_b); copy dimsd (+clinear) from a; forceflat merge; dims := b.dims *)
Definition product (a b : attrs) : option attrs :=
  if negb (snd (a_shape a) =? fst (a_shape b)) then None else
  of_ostate (
    bind (init (Some (fst (a_shape a), snd (a_shape b))) None None None) (fun st =>
    bind (set_dimsd (a_dimsd a) st) (fun st =>
    bind (merge_ff (a_ff a) (a_ff b)) (fun f =>
    set_dims (a_dims b) (set_ff f st))))).

(* __add__: shapes equal, fresh a.shape; copy dims, dimsd from a; merge; replace 1-d dims / dimsd by b's *)
Definition sum (a b : attrs) : option attrs :=
  if negb ((fst (a_shape a) =? fst (a_shape b)) && (snd (a_shape a) =? snd (a_shape b))) then None else
  of_ostate (
    bind (init (Some (a_shape a)) None None None) (fun st =>
    bind (set_dims (a_dims a) st) (fun st =>
    bind (set_dimsd (a_dimsd a) st) (fun st =>
    bind (merge_ff (a_ff a) (a_ff b)) (fun f =>
    let st := set_ff f st in
    bind (if length (a_dims a) =? 1 then set_dims (a_dims b) st else Some st) (fun st =>
    if length (a_dimsd a) =? 1 then set_dimsd (a_dimsd b) st else Some st)))))).

(* alpha * Op, -Op: fresh a.shape; copy dims, dimsd, forceflat *)
Definition scaled (a : attrs) : option attrs :=
  of_ostate (
    bind (init (Some (a_shape a)) None None None) (fun st =>
    bind (set_dims (a_dims a) st) (fun st =>
    bind (set_dimsd (a_dimsd a) st) (fun st => Some (set_ff (a_ff a) st))))).

Definition mk (dims dimsd : list nat) (ff : option bool) : attrs :=
  {| a_shape := (prod dimsd, prod dims); a_dims := dims; a_dimsd := dimsd; a_ff := ff |}.
Lemma wf_mk_eq a : wf a -> a = mk (a_dims a) (a_dimsd a) (a_ff a).
Proof. destruct a as [s d dd f]; unfold wf, mk; cbn. intros ->. reflexivity. Qed.
Lemma wf_mk d dd f : wf (mk d dd f). Proof. reflexivity. Qed.

(* taking the adjoint swaps dims and dimsd (and never fails on a consistent operator) *)
Theorem adjoint_swaps :
  forall a, wf a -> adjoint a = Some (mk (a_dimsd a) (a_dims a) (a_ff a)).
Proof.
  intros a H. rewrite (wf_mk_eq a H) at 1. destruct a as [s d dd f]; cbn.
  unfold adjoint, init, set_dims, set_dimsd, of_ostate, view, mk; cbn. repeat (rewrite Nat.eqb_refl; cbn). reflexivity.
Qed.

(* a product takes dims from its right factor and dimsd from its left factor *)
Theorem product_takes :
  forall a b f, wf a -> wf b -> prod (a_dims a) = prod (a_dimsd b) -> merge_ff (a_ff a) (a_ff b) = Some f ->
    product a b = Some (mk (a_dims b) (a_dimsd a) f).
Proof.
  intros a b f Ha Hb Hs Hm. rewrite (wf_mk_eq a Ha), (wf_mk_eq b Hb) at 1.
  destruct a as [sa da dda fa], b as [sb db ddb fb]; cbn in *.
  unfold product; cbn. rewrite Hs, Nat.eqb_refl. cbn.
  unfold init, set_dims, set_dimsd, of_ostate, view; cbn. repeat (rewrite Nat.eqb_refl; cbn). rewrite Hm. cbn.
  repeat (rewrite Nat.eqb_refl; cbn). reflexivity.
Qed.
Theorem product_shape_mismatch :
  forall a b, snd (a_shape a) <> fst (a_shape b) -> product a b = None.
Proof. intros a b H. unfold product. apply Nat.eqb_neq in H. rewrite H. reflexivity. Qed.

(* sum: N-d dims / dimsd of the left summand win; 1-d ones are replaced by the right summand's *)
Theorem sum_takes :
  forall a b f, wf a -> wf b -> a_shape a = a_shape b -> merge_ff (a_ff a) (a_ff b) = Some f ->
    sum a b = Some (mk (if length (a_dims a) =? 1 then a_dims b else a_dims a)
                       (if length (a_dimsd a) =? 1 then a_dimsd b else a_dimsd a) f).
Proof.
  intros a b f Ha Hb Hs Hm. unfold wf in Ha, Hb.
  destruct a as [sa da dda fa], b as [sb db ddb fb]; cbn in *.
  rewrite Ha in Hs. subst sa. rewrite <- Hs in Hb. rewrite <- Hs. clear Hs sb.
  inversion Hb as [[E1 E2]].
  unfold sum; cbn. repeat (rewrite Nat.eqb_refl; cbn).
  unfold init, set_dims, set_dimsd, of_ostate, view, mk; cbn. repeat (rewrite Nat.eqb_refl; cbn). rewrite Hm. cbn.
  destruct (length da =? 1); destruct (length dda =? 1); cbn;
    rewrite <- ?E1, <- ?E2; repeat (rewrite Nat.eqb_refl; cbn); reflexivity.
Qed.

Theorem scaled_keeps : forall a, wf a -> scaled a = Some a.
Proof.
  intros a H. rewrite (wf_mk_eq a H). destruct a as [s d dd f]; cbn.
  unfold scaled, init, set_dims, set_dimsd, of_ostate, view, mk; cbn. repeat (rewrite Nat.eqb_refl; cbn). reflexivity.
Qed.

(* whatever the inputs, a construction that does not raise yields shape = (prod dimsd, prod dims) *)
Lemma of_ostate_wf o a : (forall st, o = Some st -> oinv st) -> of_ostate o = Some a -> wf a.
Proof. intros H E. destruct o as [st|]; [|discriminate]. cbn in E. eapply view_wf; eauto. Qed.

Lemma init_shape_only_inv s st : init (Some s) None None None = Some st -> oinv st.
Proof. intro H; inversion H; subst; cbn. split; intros; discriminate. Qed.

Theorem constructions_wf :
  forall a b c, adjoint a = Some c \/ product a b = Some c \/ sum a b = Some c \/ scaled a = Some c -> wf c.
Proof.
  intros a b c [H|[H|[H|H]]].
  - unfold adjoint in H. eapply of_ostate_wf; [|exact H]. intros st E.
    destruct (init _ None None None) as [s0|] eqn:E0; [|discriminate]. apply init_shape_only_inv in E0. cbn [bind] in E.
    destruct (set_dims (a_dimsd a) (set_ff (a_ff a) s0)) as [s1|] eqn:E1; [|discriminate]. cbn [bind] in E.
    eapply set_dimsd_inv; [|exact E]. eapply set_dims_inv; [|exact E1]. apply set_ff_inv; assumption.
  - unfold product in H. destruct (negb _); [discriminate|]. eapply of_ostate_wf; [|exact H]. intros st E.
    destruct (init _ None None None) as [s0|] eqn:E0; [|discriminate]. apply init_shape_only_inv in E0. cbn [bind] in E.
    destruct (set_dimsd (a_dimsd a) s0) as [s1|] eqn:E1; [|discriminate]. cbn [bind] in E.
    destruct (merge_ff (a_ff a) (a_ff b)) as [f|]; [|discriminate]. cbn [bind] in E.
    eapply set_dims_inv; [|exact E]. apply set_ff_inv. eapply set_dimsd_inv; eauto.
  - unfold sum in H. destruct (negb _); [discriminate|]. eapply of_ostate_wf; [|exact H]. intros st E.
    destruct (init _ None None None) as [s0|] eqn:E0; [|discriminate]. apply init_shape_only_inv in E0. cbn [bind] in E.
    destruct (set_dims (a_dims a) s0) as [s1|] eqn:E1; [|discriminate]. cbn [bind] in E.
    destruct (set_dimsd (a_dimsd a) s1) as [s2|] eqn:E2; [|discriminate]. cbn [bind] in E.
    destruct (merge_ff (a_ff a) (a_ff b)) as [f|]; [|discriminate]. cbn [bind] in E.
    assert (I2 : oinv (set_ff f s2)) by (apply set_ff_inv; eapply set_dimsd_inv; [eapply set_dims_inv|]; eauto).
    destruct (length (a_dims a) =? 1).
    + destruct (set_dims (a_dims b) (set_ff f s2)) as [s3|] eqn:E3; [|discriminate]. cbn [bind] in E.
      assert (I3 : oinv s3) by (eapply set_dims_inv; eauto).
      destruct (length (a_dimsd a) =? 1); [eapply set_dimsd_inv; eauto|inversion E; subst; assumption].
    + cbn [bind] in E.
      destruct (length (a_dimsd a) =? 1); [eapply set_dimsd_inv; eauto|inversion E; subst; assumption].
  - unfold scaled in H. eapply of_ostate_wf; [|exact H]. intros st E.
    destruct (init _ None None None) as [s0|] eqn:E0; [|discriminate]. apply init_shape_only_inv in E0. cbn [bind] in E.
    destruct (set_dims (a_dims a) s0) as [s1|] eqn:E1; [|discriminate]. cbn [bind] in E.
    destruct (set_dimsd (a_dimsd a) s1) as [s2|] eqn:E2; [|discriminate]. cbn [bind] in E.
    inversion E; subst. apply set_ff_inv. eapply set_dimsd_inv; [eapply set_dims_inv|]; eauto.
Qed.

(* dot of an operator described by attributes *)
Definition dot_attrs (a : attrs) (ndflag : bool) (xs : list nat) : result :=
  dot_dispatch (a_dims a) (a_dimsd a) (a_ff a) ndflag xs.

(* Op.H applied to a dimsd-shaped array gives a dims-shaped array *)
Corollary adjoint_dispatch :
  forall a a', wf a -> a_ff a <> Some true -> adjoint a = Some a' ->
    dot_attrs a' true (a_dimsd a) = Ok RMatvec (a_dims a).
Proof.
  intros a a' H Hf E. rewrite adjoint_swaps in E by assumption. inversion E; subst.
  unfold dot_attrs, mk; cbn. apply dispatch_dims; assumption.
Qed.
(* (A @ B) applied to a B.dims-shaped array gives an A.dimsd-shaped array *)
Corollary product_dispatch :
  forall a b c, wf a -> wf b -> product a b = Some c -> a_ff c <> Some true ->
    dot_attrs c true (a_dims b) = Ok RMatvec (a_dimsd a).
Proof.
  intros a b c Ha Hb E Hf.
  assert (Hs : prod (a_dims a) = prod (a_dimsd b)).
  { unfold product in E. destruct (snd (a_shape a) =? fst (a_shape b)) eqn:E1; [|discriminate].
    apply Nat.eqb_eq in E1. rewrite Ha, Hb in E1. exact E1. }
  destruct (merge_ff (a_ff a) (a_ff b)) as [f|] eqn:Em.
  - rewrite (product_takes a b f) in E by assumption. inversion E; subst. unfold dot_attrs, mk; cbn.
    apply dispatch_dims. exact Hf.
  - exfalso. unfold product in E. rewrite Ha, Hb in E. cbn in E. rewrite Hs, Nat.eqb_refl in E. cbn in E.
    unfold init, set_dimsd in E; cbn in E. rewrite Nat.eqb_refl in E. cbn in E. rewrite Em in E. discriminate.
Qed.
