(* Heap.v — a small ownership / alias model for the statement sequences of
   the solvers' setup and step methods (hand-transcribed from
   pylops/optimization/cls_basic.py, cls_sparsity.py, cls_leastsquares.py).

   Variables point to buffers (locations).  numpy semantics needed here:
     v = w.copy()          allocates                      SCopy
     v = w ; self.y = y ; b.ravel() of a contiguous b     SAlias  (same buffer)
     v = <arithmetic>      allocates the result           SFresh
     v = Op.matvec(w)      allocates, unless the operator returns its input
                           (Identity(inplace=True), N = M)  SApply v view w
     v += e ; v -= e ; v[...] = e   writes the buffer of v  SInplace
   Theorem: a static ownership analysis (`analyse`) accepts a sequence only
   if, for EVERY initial environment (any aliasing among the caller's
   arrays), no buffer that existed before the call is written. *)
From Coq Require Import List Arith Lia Bool.
Import ListNotations.

Definition var := nat.
Definition loc := nat.

Inductive stmt :=
| SCopy (v w : var)
| SAlias (v w : var)
| SFresh (v : var)
| SApply (v : var) (view : bool) (w : var)
| SInplace (v : var).

(* ---- dynamic semantics *)
Definition env := var -> option loc.
Definition upd (e : env) (v : var) (o : option loc) : env := fun u => if Nat.eqb u v then o else e u.
Record heap := { henv : env; hnext : loc; hwritten : list loc }.

Definition exec1 (h : heap) (s : stmt) : heap :=
  match s with
  | SCopy v _ | SFresh v => {| henv := upd (henv h) v (Some (hnext h)); hnext := S (hnext h); hwritten := hwritten h |}
  | SAlias v w => {| henv := upd (henv h) v (henv h w); hnext := hnext h; hwritten := hwritten h |}
  | SApply v view w =>
      if view then {| henv := upd (henv h) v (henv h w); hnext := hnext h; hwritten := hwritten h |}
      else {| henv := upd (henv h) v (Some (hnext h)); hnext := S (hnext h); hwritten := hwritten h |}
  | SInplace v =>
      match henv h v with
      | Some l => {| henv := henv h; hnext := hnext h; hwritten := l :: hwritten h |}
      | None => h
      end
  end.
Definition exec (p : list stmt) (h : heap) : heap := fold_left exec1 p h.

(* ---- static analysis: the set of variables known to point to buffers
   allocated during the call *)
Definition mem (v : var) (O : list var) : bool := existsb (Nat.eqb v) O.
Definition add (v : var) (O : list var) : list var := if mem v O then O else v :: O.
Definition del (v : var) (O : list var) : list var := filter (fun u => negb (Nat.eqb u v)) O.

Definition analyse1 (O : list var) (s : stmt) : option (list var) :=
  match s with
  | SCopy v _ | SFresh v => Some (add v O)
  | SAlias v w => Some (if mem w O then add v O else del v O)
  | SApply v view w => Some (if view then (if mem w O then add v O else del v O) else add v O)
  | SInplace v => if mem v O then Some O else None
  end.
Fixpoint analyse (p : list stmt) (O : list var) : option (list var) :=
  match p with
  | [] => Some O
  | s :: r => match analyse1 O s with Some O' => analyse r O' | None => None end
  end.

Lemma analyse_app a b O : analyse (a ++ b) O = match analyse a O with Some O' => analyse b O' | None => None end.
Proof. revert O; induction a as [|s a IH]; intros O; cbn [analyse app]; [reflexivity|]. destruct (analyse1 O s); auto. Qed.

Lemma analyse_repeat s O : analyse s O = Some O -> forall k, analyse (concat (repeat s k)) O = Some O.
Proof. intros H k. induction k; cbn [repeat concat]; [reflexivity|]. rewrite analyse_app, H. exact IHk. Qed.

(* ---- soundness *)
Lemma mem_In v O : mem v O = true <-> In v O.
Proof.
  unfold mem. rewrite existsb_exists. split.
  - intros (u & Hu & E). apply Nat.eqb_eq in E. subst. exact Hu.
  - intros H. exists v. split; [exact H|apply Nat.eqb_refl].
Qed.
Lemma In_add u v O : In u (add v O) -> u = v \/ In u O.
Proof. unfold add. destruct (mem v O); cbn; intuition. Qed.
Lemma In_del u v O : In u (del v O) -> u <> v /\ In u O.
Proof.
  unfold del. rewrite filter_In. intros [H1 H2]. split; [|exact H1].
  intros ->. rewrite Nat.eqb_refl in H2. discriminate.
Qed.

Definition inv (n0 : loc) (O : list var) (h : heap) : Prop :=
  n0 <= hnext h /\ (forall v l, In v O -> henv h v = Some l -> n0 <= l) /\ (forall l, In l (hwritten h) -> n0 <= l).

Lemma upd_same e v o : upd e v o v = o.
Proof. unfold upd. rewrite Nat.eqb_refl. reflexivity. Qed.
Lemma upd_other e v o u : u <> v -> upd e v o u = e u.
Proof. unfold upd. intros H. destruct (Nat.eqb_spec u v); [contradiction|reflexivity]. Qed.

Lemma inv_fresh n0 O h v :
  inv n0 O h -> inv n0 (add v O) {| henv := upd (henv h) v (Some (hnext h)); hnext := S (hnext h); hwritten := hwritten h |}.
Proof.
  intros (A & B & C). repeat split; cbn; [lia| |exact C].
  intros u l Hu E. destruct (Nat.eq_dec u v) as [->|N].
  - rewrite upd_same in E. injection E as <-. exact A.
  - rewrite upd_other in E by exact N. apply In_add in Hu. destruct Hu; [contradiction|eauto].
Qed.

Lemma inv_alias n0 O h v w :
  inv n0 O h -> inv n0 (if mem w O then add v O else del v O)
                   {| henv := upd (henv h) v (henv h w); hnext := hnext h; hwritten := hwritten h |}.
Proof.
  intros (A & B & C). repeat split; cbn; [exact A| |exact C].
  intros u l Hu E. destruct (mem w O) eqn:M.
  - destruct (Nat.eq_dec u v) as [->|N].
    + rewrite upd_same in E. apply mem_In in M. eauto.
    + rewrite upd_other in E by exact N. apply In_add in Hu. destruct Hu; [contradiction|eauto].
  - apply In_del in Hu. destruct Hu as [N Hu]. rewrite upd_other in E by exact N. eauto.
Qed.

Lemma inv_step n0 O O' h s : inv n0 O h -> analyse1 O s = Some O' -> inv n0 O' (exec1 h s).
Proof.
  intros I H. destruct s as [v w|v w|v|v view w|v]; cbn [analyse1 exec1] in *.
  - injection H as <-. apply inv_fresh; exact I.
  - injection H as <-. apply inv_alias; exact I.
  - injection H as <-. apply inv_fresh; exact I.
  - injection H as <-. destruct view; [apply inv_alias|apply inv_fresh]; exact I.
  - destruct (mem v O) eqn:M; [|discriminate]. injection H as <-.
    destruct (henv h v) as [l|] eqn:E; [|exact I].
    destruct I as (A & B & C). repeat split; cbn; auto.
    intros l' [<-|Hl]; [|auto]. apply mem_In in M. eauto.
Qed.

Lemma inv_exec n0 : forall p O O' h, inv n0 O h -> analyse p O = Some O' -> inv n0 O' (exec p h).
Proof.
  induction p as [|s r IH]; intros O O' h I H; cbn [analyse] in H.
  - injection H as <-. exact I.
  - destruct (analyse1 O s) as [O1|] eqn:E; [|discriminate].
    change (exec (s :: r) h) with (exec r (exec1 h s)). eapply IH; [eapply inv_step; eauto|exact H].
Qed.

(* every buffer the caller can reach lives below n0 *)
Definition caller_heap (e : env) (n0 : loc) : heap := {| henv := e; hnext := n0; hwritten := [] |}.

Theorem no_caller_write p O' : analyse p [] = Some O' ->
  forall (e : env) (n0 : loc) l, In l (hwritten (exec p (caller_heap e n0))) -> n0 <= l.
Proof.
  intros H e n0. assert (I : inv n0 [] (caller_heap e n0)).
  { repeat split; cbn; [lia|intros ? ? []|intros ? []]. }
  destruct (inv_exec n0 p [] O' _ I H) as (_ & _ & C). exact C.
Qed.

Corollary no_caller_write_var p O' : analyse p [] = Some O' ->
  forall (e : env) (n0 : loc), (forall v l, e v = Some l -> l < n0) ->
  forall v l, e v = Some l -> ~ In l (hwritten (exec p (caller_heap e n0))).
Proof. intros H e n0 He v l Hv Hin. pose proof (no_caller_write p O' H e n0 l Hin). pose proof (He v l Hv). lia. Qed.

(* all driving programs: setup followed by any number of steps *)
Theorem no_caller_write_driver setup step O : analyse setup [] = Some O -> analyse step O = Some O ->
  forall k (e : env) (n0 : loc) l, In l (hwritten (exec (setup ++ concat (repeat step k)) (caller_heap e n0))) -> n0 <= l.
Proof.
  intros A B k. apply (no_caller_write _ O). rewrite analyse_app, A. apply analyse_repeat. exact B.
Qed.

(* ------------------------------------------------------------------ *)
(* Transcriptions.  Caller variables: y = 0, x0 = 1, datareg = 2.
   `view` = the operator returns its input array (worst case assumed for
   EVERY application). *)
Definition Y := 0. Definition X0 := 1. Definition DREG := 2.
Definition sy := 10. Definition x := 11. Definition r := 12. Definition c := 13. Definition t := 14.
Definition opc := 15. Definition s := 16. Definition q := 17. Definition u := 18. Definition v := 19.
Definition w := 20. Definition xold := 21. Definition res := 22. Definition grad := 23. Definition z := 24.
Definition yn := 25. Definition dk := 26. Definition dtot := 27. Definition sz := 28.

(* cls_basic.CG.setup / step *)
Definition cg_setup (x0given view : bool) : list stmt :=
  SAlias sy Y ::
  (if x0given then [SCopy x X0; SApply t view x; SFresh r] else [SFresh x; SCopy r sy]) ++ [SCopy c r].
Definition cg_step (view : bool) : list stmt :=
  [SApply opc view c; SInplace x; SInplace r; SFresh c].

(* cls_basic.CGLS *)
Definition cgls_setup (x0given view : bool) : list stmt :=
  SAlias sy Y ::
  (if x0given then [SCopy x X0; SApply t view x; SFresh s; SApply t view s; SFresh r]
   else [SFresh x; SCopy s sy; SApply r view s]) ++ [SCopy c r; SApply q view c].
Definition cgls_step (view : bool) : list stmt :=
  [SFresh x; SFresh s; SApply t view s; SFresh r; SFresh c; SApply q view c].

(* cls_basic.LSQR (beta > 0, alfa > 0 branch; the other branch has v = x.copy()) *)
Definition lsqr_setup (x0given view : bool) : list stmt :=
  SAlias sy Y ::
  (if x0given then [SCopy x X0; SApply t view X0; SFresh u] else [SFresh x; SCopy u Y]) ++
  [SFresh u; SApply v view u; SFresh v; SCopy w v].
Definition lsqr_step (view : bool) : list stmt :=
  [SApply t view v; SFresh u; SFresh u; SApply t view u; SFresh v; SFresh v; SFresh dk; SFresh x; SFresh w].

(* cls_sparsity.ISTA / FISTA *)
Definition ista_setup (x0given : bool) : list stmt :=
  SAlias sy Y :: (if x0given then [SCopy x X0] else [SFresh x]).
Definition ista_step (view : bool) : list stmt :=
  [SCopy xold x; SApply t view x; SFresh res; SApply t view res; SFresh grad; SFresh x].
Definition fista_enter : list stmt := [SCopy z x].
Definition fista_step (view : bool) : list stmt :=
  [SCopy xold x; SApply t view z; SFresh res; SApply t view res; SFresh grad; SFresh x; SFresh z; SAlias sz z].

(* cls_sparsity.OMP, matching-pursuit branch (niter_inner = 0) has the only in-place write *)
Definition omp_setup : list stmt := [SAlias sy Y; SCopy res sy].
Definition omp_step (view : bool) : list stmt := [SApply t view res; SApply opc view t; SInplace res].

(* cls_leastsquares.NormalEquationsInversion.setup with one regularisation term
   (since 1f77362 the accumulation allocates):
     self.y_normal = self.Op.rmatvec(y)
     self.y_normal = self.y_normal + epsR**2 * Reg.rmatvec(datareg)
   run:  self.y_normal = self.y_normal - self.Op_normal.matvec(x)             *)
Definition normal_eq_setup (view : bool) : list stmt :=
  [SAlias sy Y; SApply yn view Y; SApply t view DREG; SFresh yn; SApply t view X0; SFresh yn].
(* LEGACY (before 1f77362): in-place accumulation on what may be the caller's y *)
Definition normal_eq_setup_legacy (view : bool) : list stmt :=
  [SAlias sy Y; SApply yn view Y; SApply t false DREG; SInplace yn].
(* RegularizedInversion.setup: datatot = y.copy(); datatot = hstack(...) *)
Definition regularized_setup : list stmt := [SAlias sy Y; SCopy dtot sy; SFresh dtot].

Definition accepts (p : list stmt) : bool := match analyse p [] with Some _ => true | None => false end.


(* CG: for every x0 / view choice, setup;step reaches an ownership fixpoint *)
Theorem cg_no_caller_write : forall x0given view k (e : env) n0 l,
  In l (hwritten (exec ((cg_setup x0given view ++ cg_step view) ++ concat (repeat (cg_step view) k)) (caller_heap e n0))) -> n0 <= l.
Proof.
  intros x0given view k.
  destruct (analyse (cg_setup x0given view ++ cg_step view) []) as [OW|] eqn:E;
    [|destruct x0given, view; vm_compute in E; discriminate].
  apply (no_caller_write_driver _ _ OW E).
  destruct x0given, view; vm_compute in E; injection E as <-; reflexivity.
Qed.

Theorem cgls_no_caller_write : forall x0given view k (e : env) n0 l,
  In l (hwritten (exec ((cgls_setup x0given view ++ cgls_step view) ++ concat (repeat (cgls_step view) k)) (caller_heap e n0))) -> n0 <= l.
Proof.
  intros x0given view k.
  destruct (analyse (cgls_setup x0given view ++ cgls_step view) []) as [OW|] eqn:E;
    [|destruct x0given, view; vm_compute in E; discriminate].
  apply (no_caller_write_driver _ _ OW E).
  destruct x0given, view; vm_compute in E; injection E as <-; reflexivity.
Qed.

Theorem lsqr_no_caller_write : forall x0given view k (e : env) n0 l,
  In l (hwritten (exec ((lsqr_setup x0given view ++ lsqr_step view) ++ concat (repeat (lsqr_step view) k)) (caller_heap e n0))) -> n0 <= l.
Proof.
  intros x0given view k.
  destruct (analyse (lsqr_setup x0given view ++ lsqr_step view) []) as [OW|] eqn:E;
    [|destruct x0given, view; vm_compute in E; discriminate].
  apply (no_caller_write_driver _ _ OW E).
  destruct x0given, view; vm_compute in E; injection E as <-; reflexivity.
Qed.

Theorem ista_no_caller_write : forall x0given view k (e : env) n0 l,
  In l (hwritten (exec ((ista_setup x0given ++ ista_step view) ++ concat (repeat (ista_step view) k)) (caller_heap e n0))) -> n0 <= l.
Proof.
  intros x0given view k.
  destruct (analyse (ista_setup x0given ++ ista_step view) []) as [OW|] eqn:E;
    [|destruct x0given, view; vm_compute in E; discriminate].
  apply (no_caller_write_driver _ _ OW E).
  destruct x0given, view; vm_compute in E; injection E as <-; reflexivity.
Qed.

Theorem fista_no_caller_write : forall x0given view k (e : env) n0 l,
  In l (hwritten (exec ((ista_setup x0given ++ fista_enter ++ fista_step view) ++ concat (repeat (fista_step view) k)) (caller_heap e n0))) -> n0 <= l.
Proof.
  intros x0given view k.
  destruct (analyse (ista_setup x0given ++ fista_enter ++ fista_step view) []) as [OW|] eqn:E;
    [|destruct x0given, view; vm_compute in E; discriminate].
  apply (no_caller_write_driver _ _ OW E).
  destruct x0given, view; vm_compute in E; injection E as <-; reflexivity.
Qed.

Theorem omp_no_caller_write : forall view k (e : env) n0 l,
  In l (hwritten (exec ((omp_setup ++ omp_step view) ++ concat (repeat (omp_step view) k)) (caller_heap e n0))) -> n0 <= l.
Proof.
  intros view k.
  destruct (analyse (omp_setup ++ omp_step view) []) as [OW|] eqn:E;
    [|destruct view; vm_compute in E; discriminate].
  apply (no_caller_write_driver _ _ OW E).
  destruct view; vm_compute in E; injection E as <-; reflexivity.
Qed.

Theorem regularized_no_caller_write : forall (e : env) n0 l,
  In l (hwritten (exec regularized_setup (caller_heap e n0))) -> n0 <= l.
Proof. apply (no_caller_write regularized_setup [dtot]). reflexivity. Qed.

(* normal equations: no write at all, also for operators that return their input *)
Theorem normal_eq_no_caller_write : forall view (e : env) n0 l,
  In l (hwritten (exec (normal_eq_setup view) (caller_heap e n0))) -> n0 <= l.
Proof.
  intros view. destruct (analyse (normal_eq_setup view) []) as [OW|] eqn:E;
    [|destruct view; vm_compute in E; discriminate].
  apply (no_caller_write _ OW E).
Qed.

Definition caller_env : env := fun v => if Nat.eqb v Y then Some 0 else if Nat.eqb v X0 then Some 1
                                        else if Nat.eqb v DREG then Some 2 else None.

(* Legacy record of the repaired defect: the old statement list is rejected and writes y *)
Theorem normal_eq_legacy_inplace_refuted :
  accepts (normal_eq_setup_legacy true) = false /\
  exists l, caller_env Y = Some l /\ In l (hwritten (exec (normal_eq_setup_legacy true) (caller_heap caller_env 3))).
Proof. split; [reflexivity|]. exists 0. split; [reflexivity|]. vm_compute. left. reflexivity. Qed.
