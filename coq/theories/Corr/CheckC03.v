(* CheckC03.v — EXECUTION ONLY: compares what pylops returned for matvec /
   rmatvec / matmat / rmatmat of an expression tree (and of its .H, .T,
   .conj()) with the operational model [apmat] and with the dense
   specification [dense], on Gaussian rationals. *)
From Coq Require Import QArith Qcanon ZArith List.
From PV Require Import Dict Vec Dot Mat QcInst GaussQc Check MatAlg Expr.
Import ListNotations.

Notation E := (expr GS).
Definition gq (a b : Qc) : G := (a, b).
Definition gr (a : Qc) : G := (a, z0).

(* real / imaginary part on Gaussian rationals, with the laws used by the
   toreal/toimag theorems *)
Lemma Qc_opp_self (q : Qc) : (- q = q)%Qc -> q = 0%Qc.
Proof. intros H. assert (E2 : (q * (1 + 1) = 0)%Qc).
  { replace (q * (1 + 1))%Qc with (q + q)%Qc by ring. rewrite <- H at 1. ring. }
  destruct (Qcmult_integral _ _ E2) as [|K]; auto. discriminate K. Qed.
Lemma G_isreal (a : GS) : isreal GS a -> snd a = 0%Qc.
Proof. destruct a as [x y]. unfold isreal; simpl. unfold gconj; simpl. intros H. assert (K : (- y = y)%Qc) by congruence. apply Qc_opp_self; auto. Qed.
Definition GRI : ReIm GS.
Proof. refine {| re := fun a : GS => ((fst a, 0%Qc) : GS); im := fun a : GS => ((snd a, 0%Qc) : GS) |}.
  - intros [x y]; unfold isreal; simpl; unfold gconj; simpl; f_equal; ring.
  - intros [x y]; unfold isreal; simpl; unfold gconj; simpl; f_equal; ring.
  - intros [x y] [u v]; simpl; unfold gadd; simpl; f_equal; ring.
  - intros [x y] [u v]; simpl; unfold gadd; simpl; f_equal; ring.
  - intros [x y] [u v] H; apply G_isreal in H; simpl in *; subst; unfold gmul; simpl; f_equal; ring.
  - intros [x y] [u v] H; apply G_isreal in H; simpl in *; subst; unfold gmul; simpl; f_equal; ring.
  - intros [x y] H; apply G_isreal in H; simpl in *; subst; reflexivity.
  - intros [x y] H; apply G_isreal in H; simpl in *; subst; reflexivity.
  - intros [x y]; simpl; reflexivity.
  - intros [x y]; simpl; unfold gopp; simpl; f_equal; ring.
Defined.

Definition qeqb (a b : Qc) : bool := Qeq_bool (this a) (this b).
Definition grealb (a : G) : bool := qeqb (snd a) 0%Qc.

Fixpoint nodupb (l : list nat) : bool :=
  match l with [] => true | a :: l' => negb (existsb (Nat.eqb a) l') && nodupb l' end.
Definition shape_eqb (p q : nat * nat) : bool := Nat.eqb (fst p) (fst q) && Nat.eqb (snd p) (snd q).

Fixpoint wfb (e : E) : bool :=
  match e with
  | Leaf m n M => wfMb n m M
  | Add a b | Sub a b => wfb a && wfb b && shape_eqb (shape GS a) (shape GS b)
  | Mul a b => wfb a && wfb b && Nat.eqb (snd (shape GS a)) (fst (shape GS b))
  | Scale _ a | Neg a | ConjE a | AdjW a | TranspW a => wfb a
  | Pow a _ => wfb a && Nat.eqb (fst (shape GS a)) (snd (shape GS a))
  | Cols cs a => wfb a && nodupb cs && forallb (fun c => Nat.ltb c (snd (shape GS a))) cs
  | VStack es => negb (Nat.eqb (length es) 0) && forallb wfb es && forallb (fun e' => Nat.eqb (snd (shape GS e')) (snd (shape GS (VStack es)))) es
  | HStack es => negb (Nat.eqb (length es) 0) && forallb wfb es && forallb (fun e' => Nat.eqb (fst (shape GS e')) (fst (shape GS (HStack es)))) es
  | BlockDiag es => negb (Nat.eqb (length es) 0) && forallb wfb es
  | Kron a b => wfb a && wfb b
  | RealImag _ _ _ _ => false
  end.

(* boolean version of Expr.rwf (real-coefficient trees with toreal/toimag nodes) *)
Fixpoint rwfb (e : E) : bool :=
  match e with
  | Leaf m n M => wfMb n m M && forallb (forallb grealb) M
  | Add a b | Sub a b => rwfb a && rwfb b && shape_eqb (shape GS a) (shape GS b)
  | Mul a b => rwfb a && rwfb b && Nat.eqb (snd (shape GS a)) (fst (shape GS b))
  | Scale al a => grealb al && rwfb a
  | Neg a | ConjE a | AdjW a | TranspW a => rwfb a
  | Pow a _ => rwfb a && Nat.eqb (fst (shape GS a)) (snd (shape GS a))
  | RealImag fw aj _ a => fw && aj && (wfb a || rwfb a)
  | Cols cs a => rwfb a && nodupb cs && forallb (fun c => Nat.ltb c (snd (shape GS a))) cs
  | VStack es => negb (Nat.eqb (length es) 0) && forallb rwfb es && forallb (fun e' => Nat.eqb (snd (shape GS e')) (snd (shape GS (VStack es)))) es
  | HStack es => negb (Nat.eqb (length es) 0) && forallb rwfb es && forallb (fun e' => Nat.eqb (fst (shape GS e')) (fst (shape GS (HStack es)))) es
  | BlockDiag es => negb (Nat.eqb (length es) 0) && forallb rwfb es
  | Kron a b => rwfb a && rwfb b
  end.

(* view: 0 = root, 1 = root.H, 2 = root.T, 3 = root.conj() *)
Definition view (v : nat) (e : E) : E :=
  match v with 0%nat => e | 1%nat => H GS e | 2%nat => T GS e | _ => Cj GS e end.
(* d: 0 = matvec/matmat, 1 = rmatvec/rmatmat *)
Definition dird (d : nat) : dir := match d with 0%nat => Fwd | _ => Adj end.

Record call := { c_view : nat; c_dir : nat; c_X : list (list G); c_Y : list (list G) }.
(* e_mode: 0 = C-linear tree (wf), 1 = toreal/toimag tree on real inputs (rwf),
   2 = operational comparison only (toreal/toimag with arbitrary flags / complex inputs) *)
Record caseE := { e_id : nat; e_mode : nat; e_e : E; e_calls : list call }.

Definition dense_dir (d : dir) (e : E) : list (list G) :=
  match d with Fwd => dense GS GRI e | Adj => ctranspose GS (snd (shape GS e)) (dense GS GRI e) end.

(* codes: 1 = operational model [apmat] disagrees with the implementation,
   2 = dense specification disagrees, 3 = tree not well-formed *)
Definition check_call (tol : Qc) (mode : nat) (e : E) (c : call) : list nat :=
  let e' := view (c_view c) e in
  let d := dird (c_dir c) in
  (if gmclose tol (c_Y c) (apmat GS GRI d e' (c_X c)) then [] else [1%nat]) ++
  (if Nat.eqb mode 2 then [] else
   if gmclose tol (c_Y c) (map (mv GR (dense_dir d e')) (c_X c)) then [] else [2%nat]).
Definition dedup (l : list nat) : list nat := nodup Nat.eq_dec l.
Definition wf_mode (mode : nat) (e : E) : bool :=
  match mode with 0%nat => wfb e | 1%nat => rwfb e | _ => true end.
Definition checkE (tol : Qc) (c : caseE) : list nat :=
  dedup ((if wf_mode (e_mode c) (e_e c) then [] else [3%nat]) ++
         flat_map (check_call tol (e_mode c) (e_e c)) (e_calls c)).
