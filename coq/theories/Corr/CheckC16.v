(* CheckC16.v — EXECUTION ONLY: a recorded run of pylops.MemoizeOperator on a
   history (returned values, number of evaluations of the wrapped operator,
   len(store) after each call) against the Gallina state machine
   (model 1 = memo1, the code as it stands; model 2 = memo2, the repaired
   design) executed on the same history over Qc / Gaussian Qc.
   Codes: 1 = a returned value differs, 2 = neval differs, 3 = len(store)
   differs, 4 = number of observations differs. *)
From Coq Require Import QArith Qcanon ZArith List.
From PV Require Import Dict Vec Dot Mat QcInst GaussQc Check Memoize.
Import ListNotations.
Local Close Scope Qc_scope.
Local Close Scope Q_scope.
Local Open Scope nat_scope.

Definition tol16 : Qc := q 1 100000000000.

Fixpoint cmp16 {V} (vc : V -> V -> bool) (os : list (obs V)) (rc : list (V * nat * nat)) : list nat :=
  match os, rc with
  | [], [] => []
  | o :: os', (r, ne, ln) :: rc' =>
      (if vc r (o_res o) then [] else [1]) ++ (if Nat.eqb ne (o_neval o) then [] else [2]) ++
      (if Nat.eqb ln (o_len o) then [] else [3]) ++ cmp16 vc os' rc'
  | _, _ => [4]
  end.

Record caseR16 := { r16_id : nat; r16_model : nat; r16_n : nat; r16_A : list (list Qc); r16_maxn : nat;
  r16_hist : list (hop (list Qc)); r16_out : list (list Qc * nat * nat) }.
Record caseC16 := { c16_id : nat; c16_model : nat; c16_n : nat; c16_A : list (list G); c16_maxn : nat;
  c16_hist : list (hop (list G)); c16_out : list (list G * nat * nat) }.

Definition checkR16 (c : caseR16) : list nat :=
  let os := if Nat.eqb (r16_model c) 1
            then fst (run _ (opQ (r16_n c) (r16_A c)) allclose_q (r16_hist c) (init _ (r16_maxn c)) [])
            else fst (run2 _ (opQ (r16_n c) (r16_A c)) allclose_q (r16_hist c) (init2 _ (r16_maxn c))) in
  nodup Nat.eq_dec (cmp16 (Check.vclose tol16) os (r16_out c)).
Definition checkC16 (c : caseC16) : list nat :=
  let os := if Nat.eqb (c16_model c) 1
            then fst (run _ (opG (c16_n c) (c16_A c)) allclose_g (c16_hist c) (init _ (c16_maxn c)) [])
            else fst (run2 _ (opG (c16_n c) (c16_A c)) allclose_g (c16_hist c) (init2 _ (c16_maxn c))) in
  nodup Nat.eq_dec (cmp16 (Check.gvclose tol16) os (c16_out c)).

Definition failing16 (rs : list caseR16) (cs : list caseC16) : list (nat * list nat) :=
  failing r16_id checkR16 rs ++ failing c16_id checkC16 cs.
