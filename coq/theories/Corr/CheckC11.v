(* CheckC11.v — EXECUTION ONLY: checkers run by vm_compute from the
   harness-generated case files of C11.  Codes:
     1  iteration counter after some call differs from the model's
     2  model: program equivalent to the single run, implementation differs
     3  model: program NOT equivalent (harmful restart), implementation agrees
     4  numeric: iterate of the implementation differs from the model's
     5  numeric: cost history differs       6  alias map differs
     7  complex case malformed (lengths) *)
From Coq Require Import QArith Qcanon ZArith List Arith Bool.
From PV Require Import Dict Vec Dot Mat QcInst GaussQc GaussField Check CG CGLS Drivers DriversInst DriversGauss.
From PV Require Heap.
Import ListNotations.

Fixpoint eqnl (a b : list nat) : bool :=
  match a, b with [], [] => true | x :: a', y :: b' => Nat.eqb x y && eqnl a' b' | _, _ => false end.

(* ---- history cases *)
Record hcase := { h_id : nat; h_fresh_ok : bool; h_zlocal : bool; h_tr : list bool; h_prog : list cmd;
                  h_iiters : list nat; h_same : bool }.
Definition hcheck (c : hcase) : list nat :=
  let '(is, rs) := apredict (h_fresh_ok c) (h_zlocal c) (h_tr c) (h_prog c) in
  (if eqnl is (h_iiters c) then [] else [1%nat]) ++
  (match rs, h_same c with [], false => [2%nat] | _ :: _, true => [3%nat] | _, _ => [] end).

(* ---- numeric cases: kind 0 = CG, 1 = ISTA, 2 = FISTA (real data) *)
Record ncase := { n_id : nat; n_kind : nat; n_A : list (list Qc); n_ncols : nat; n_y : list Qc; n_x0 : list Qc;
                  n_alpha : Qc; n_eps : Qc; n_tol : Qc; n_prog : list cmd;
                  n_x : list Qc; n_iiter : nat; n_cost : list Qc }.
Definition tolx : Qc := Q2Qc (1 # 100000000).
Definition sqcost (v : list Qc) : list Qc := map (fun a => (a * a)%Qc) v.
Definition ncheck (c : ncase) : list nat :=
  match n_kind c with
  | 0%nat =>
      let S0 := cg_solver (n_A c) (n_tol c) in
      let p := fst (execL S0 (n_prog c) (enter S0 (cg_setup (n_A c) (n_y c) (n_x0 c)))) in
      (if Nat.eqb (ci p) (n_iiter c) then [] else [1%nat]) ++
      (if vclose tolx (n_x c) (cx p) then [] else [4%nat]) ++
      (if vclose tolx (sqcost (n_cost c)) (ccost2 p) then [] else [5%nat])
  | 1%nat =>
      let S0 := ista_solver (n_A c) (n_ncols c) (n_y c) (n_alpha c) (n_eps c) (n_tol c) in
      let p := fst (execL S0 (n_prog c) (enter S0 (is_setup (n_x0 c)))) in
      (if Nat.eqb (ii p) (n_iiter c) then [] else [1%nat]) ++
      (if vclose tolx (n_x c) (ix p) then [] else [4%nat]) ++
      (if vclose tolx (n_cost c) (icost p) then [] else [5%nat])
  | _ =>
      let S0 := fista_solver (n_A c) (n_ncols c) (n_y c) (n_alpha c) (n_eps c) (n_tol c) nsqrt in
      let p := fst (execL S0 (n_prog c) (enter S0 (f_setup (n_x0 c)))) in
      (if Nat.eqb (pi p) (n_iiter c) then [] else [1%nat]) ++
      (if vclose tolx (n_x c) (px p) then [] else [4%nat]) ++
      (if vclose tolx (n_cost c) (pcost p) then [] else [5%nat])
  end.

(* ---- alias cases: which solver fields share a buffer with the caller's y / x0.
   a_solver: 0 cg, 1 cgls, 2 lsqr, 3 ista, 4 omp, 5 normal-equations setup *)
Record acase := { a_id : nat; a_solver : nat; a_x0given : bool; a_view : bool; a_steps : nat;
                  a_obs : list (bool * bool) }.
Definition aprog (c : acase) : list Heap.stmt * list Heap.var :=
  let v := a_view c in let g := a_x0given c in let k := a_steps c in
  match a_solver c with
  | 0%nat => (Heap.cg_setup g v ++ concat (repeat (Heap.cg_step v) k), [Heap.sy; Heap.x; Heap.r; Heap.c])
  | 1%nat => (Heap.cgls_setup g v ++ concat (repeat (Heap.cgls_step v) k), [Heap.sy; Heap.x; Heap.s; Heap.c; Heap.q])
  | 2%nat => (Heap.lsqr_setup g v ++ concat (repeat (Heap.lsqr_step v) k), [Heap.sy; Heap.x; Heap.u; Heap.v; Heap.w])
  | 3%nat => (Heap.ista_setup g ++ concat (repeat (Heap.ista_step v) k), [Heap.sy; Heap.x])
  | 4%nat => (Heap.omp_setup ++ concat (repeat (Heap.omp_step v) k), [Heap.sy; Heap.res])
  | _ => (Heap.normal_eq_setup v, [Heap.sy; Heap.yn])
  end.
Definition is_loc (o : option Heap.loc) (l : nat) : bool := match o with Some l' => Nat.eqb l l' | None => false end.
Fixpoint eqbb (a b : list (bool * bool)) : bool :=
  match a, b with
  | [], [] => true
  | (x1, x2) :: a', (y1, y2) :: b' => Bool.eqb x1 y1 && Bool.eqb x2 y2 && eqbb a' b'
  | _, _ => false
  end.
Definition acheck (c : acase) : list nat :=
  let '(p, vars) := aprog c in
  let h := Heap.exec p (Heap.caller_heap Heap.caller_env 3%nat) in
  let pred := map (fun v => (is_loc (Heap.henv h v) 0%nat, is_loc (Heap.henv h v) 1%nat)) vars in
  if eqbb pred (a_obs c) then [] else [6%nat].

(* ---- complex (Gaussian-rational) cases: the CG.v / CGLS.v step functions
   driven by the same program as the implementation; the iterate and the
   counter after EVERY call, the final cost history (squared) and, for CGLS,
   istop are compared.  g_kind: 0 = CG, 1 = CGLS. *)
Record gcase := { g_id : nat; g_kind : nat; g_A : list (list G); g_n : nat; g_y : list G; g_x0 : option (list G);
                  g_damp : Qc; g_tol : Qc; g_prog : list cmd;
                  g_xs : list (list G); g_iiters : list nat; g_cost : list Qc; g_istop : nat }.
Definition tolg : Qc := Q2Qc (1 # 100000000).
Fixpoint all2g (a b : list (list G)) : bool :=
  match a, b with [], [] => true | u :: a', v :: b' => gvclose tolg u v && all2g a' b' | _, _ => false end.
Section Trace.
  Variables (St : Type) (S0 : solver St Datatypes.unit).
  Fixpoint gtrace (prog : list cmd) (st : St) : list St :=
    match prog with [] => [] | c :: r => let st' := exec1 S0 c st in st' :: gtrace r st' end.
End Trace.
Definition wfg (c : gcase) : bool :=
  forallb (fun r => Nat.eqb (length r) (g_n c)) (g_A c) && Nat.eqb (length (g_y c)) (length (g_A c)) &&
  match g_x0 c with None => true | Some v => Nat.eqb (length v) (g_n c) end.
Definition gcheck (c : gcase) : list nat :=
  if negb (wfg c) then [7%nat] else
  match g_kind c with
  | 0%nat =>
      let S0 := cgG (g_A c) (g_tol c) in
      let sts := gtrace _ S0 (g_prog c) (cgG_setup (g_A c) (g_n c) (g_y c) (g_x0 c)) in
      let fin := last sts (cgG_setup (g_A c) (g_n c) (g_y c) (g_x0 c)) in
      (if eqnl (map (cg_iiter GF) sts) (g_iiters c) then [] else [1%nat]) ++
      (if all2g (g_xs c) (map (cg_x GF) sts) then [] else [4%nat]) ++
      (if vclose tolg (sqcost (g_cost c)) (map fst (cg_cost2 GF fin)) then [] else [5%nat])
  | _ =>
      let S0 := cglsG (g_n c) (g_A c) (g_tol c) in
      let st0 := cglsG_setup (g_n c) (g_A c) (g_y c) (g_x0 c) (g_damp c) in
      let sts := gtrace _ S0 (g_prog c) st0 in
      let fin := last sts st0 in
      (if eqnl (map (cl_iiter GF) sts) (g_iiters c) then [] else [1%nat]) ++
      (if all2g (g_xs c) (map (cl_x GF) sts) then [] else [4%nat]) ++
      (if vclose tolg (sqcost (g_cost c)) (map fst (cl_cost2 GF fin)) then [] else [5%nat]) ++
      (if Nat.eqb (g_istop c) (cgls_istop GF gtGd fin (ofQc (g_tol c))) then [] else [5%nat])
  end.

Definition run_cases {C} (idf : C -> nat) (chk : C -> list nat) (cs : list C) : list (nat * list nat) :=
  failing idf chk cs.
