(* Check.v — EXECUTION ONLY: tolerance comparison of implementation output
   (exact dyadic value of each float) against the Gallina model evaluated on
   Qc / Gaussian Qc.  The functions here are run by vm_compute from
   harness-generated case files. *)
From Coq Require Import QArith Qcanon ZArith List.
From PV Require Import Dict Vec Dot Mat QcInst GaussQc.
Import ListNotations.

Definition q (n : Z) (d : positive) : Qc := Q2Qc (n # d).
Definition qz (n : Z) : Qc := Q2Qc (n # 1).
Definition z0 : Qc := Q2Qc 0.
Definition Qcabs' (a : Qc) : Qc := if Qcleb 0%Qc a then a else (- a)%Qc.
(* |a - b| <= tol * (1 + |b|) *)
Definition close (tol a b : Qc) : bool := Qcleb (Qcabs' (a - b)%Qc) (tol * (1 + Qcabs' b))%Qc.
Definition gcl (tol : Qc) (a b : G) : bool :=
  let s := (tol * (1 + Qcabs' (fst b) + Qcabs' (snd b)))%Qc in
  Qcleb (Qcabs' (fst a - fst b)) s && Qcleb (Qcabs' (snd a - snd b)) s.

Fixpoint all2 {A} (f : A -> A -> bool) (u v : list A) : bool :=
  match u, v with
  | [], [] => true
  | a :: u', b :: v' => f a b && all2 f u' v'
  | _, _ => false
  end.
Definition vclose tol := all2 (close tol).
Definition gvclose tol := all2 (gcl tol).
Definition mclose tol := all2 (vclose tol).
Definition gmclose tol := all2 (gvclose tol).

(* ---- L1 cases: a configuration is (A, B) = matrices extracted from the
   implementation by unit vectors (forward, adjoint); fw / ad are extra
   (input, output) pairs on non-basis vectors. Codes: 1 = forward is not
   x |-> A x, 2 = adjoint is not y |-> B y, 3 = B is not A^H,
   4 = malformed matrices. *)
Record L1caseR := { r_id : nat; r_n : nat; r_m : nat; r_A : list (list Qc); r_B : list (list Qc);
  r_fw : list (list Qc * list Qc); r_ad : list (list Qc * list Qc) }.
Record L1caseC := { c_id : nat; c_n : nat; c_m : nat; c_A : list (list G); c_B : list (list G);
  c_fw : list (list G * list G); c_ad : list (list G * list G) }.

Definition wfMb {A} (n m : nat) (M : list (list A)) : bool :=
  Nat.eqb (length M) m && forallb (fun r => Nat.eqb (length r) n) M.

Definition checkR (tol : Qc) (c : L1caseR) : list nat :=
  (if wfMb (r_n c) (r_m c) (r_A c) && wfMb (r_m c) (r_n c) (r_B c) then [] else [4%nat]) ++
  (if forallb (fun p => vclose tol (snd p) (mv QcR (r_A c) (fst p))) (r_fw c) then [] else [1%nat]) ++
  (if forallb (fun p => vclose tol (snd p) (mv QcR (r_B c) (fst p))) (r_ad c) then [] else [2%nat]) ++
  (if mclose tol (r_B c) (ctranspose QcS (r_n c) (r_A c)) then [] else [3%nat]).
Definition checkC (tol : Qc) (c : L1caseC) : list nat :=
  (if wfMb (c_n c) (c_m c) (c_A c) && wfMb (c_m c) (c_n c) (c_B c) then [] else [4%nat]) ++
  (if forallb (fun p => gvclose tol (snd p) (mv GR (c_A c) (fst p))) (c_fw c) then [] else [1%nat]) ++
  (if forallb (fun p => gvclose tol (snd p) (mv GR (c_B c) (fst p))) (c_ad c) then [] else [2%nat]) ++
  (if gmclose tol (c_B c) (ctranspose GS (c_n c) (c_A c)) then [] else [3%nat]).

Definition failing {C} (idf : C -> nat) (chk : C -> list nat) (cs : list C) : list (nat * list nat) :=
  filter (fun p => negb (Nat.eqb (length (snd p)) 0%nat)) (map (fun c => (idf c, chk c)) cs).
