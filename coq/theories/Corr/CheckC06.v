(* Corr/CheckC06.v — execution-only checkers for C06 (measured footprints of
   the real kernels, runtime value comparisons, model replay of the
   lost-update schedule). *)
From Coq Require Import List Arith Bool QArith Qcanon.
From PV Require Import Dict QcInst Check Par.
Import ListNotations.

(* One measured parallel region: fpar = the loop really runs on several
   threads (prange in the source AND the variant that is called was compiled
   with parallel=True); fcols > 0: the output is claimed to be owned by rows
   of that width (informational); ffps = footprint of every iteration.
   Codes: 1 = PARALLEL loop with overlapping footprints (race);
          2 = parallel, disjoint, but not row-owned (information);
          3 = serial loop whose iterations overlap (information: the geometry
              would collide if the loop were made parallel). *)
Record fpcase := { fid : nat; fpar : bool; fcols : nat; ffps : list (list nat) }.

Definition check_fp (c : fpcase) : list nat :=
  let dj := footprints_disjointb (ffps c) in
  (if fpar c && negb dj then [1%nat] else []) ++
  (if fpar c && dj && negb (match fcols c with O => true | S _ => rows_ownedb (fun a => Nat.div a (fcols c)) (ffps c) end)
   then [2%nat] else []) ++
  (if negb (fpar c) && negb dj then [3%nat] else []).

Definition failing_fp (cs : list fpcase) : list (nat * list nat) := failing fid check_fp cs.

(* runtime values: (id, [(value under test, reference value)]) ; code 1 = some
   pair is not within tol * (1 + |ref|) *)
Definition check_vals (tol : Qc) (c : nat * list (Qc * Qc)) : list nat :=
  if forallb (fun p => close tol (fst p) (snd p)) (snd c) then [] else [1%nat].
Definition failing_vals (tol : Qc) (cs : list (nat * list (Qc * Qc))) : list (nat * list nat) :=
  failing fst (check_vals tol) cs.

(* replay of overlap_lost_update inside the model: iterations with measured
   footprints fi, fj (unit increments on every cell), common cell a; the
   schedule is  [events of i up to and including its read of a] ++
   [all of j] ++ [rest of i].  Returns (sequential value, racy value) at a. *)
Definition unit_body (f : list nat) : list (op QcR) := map (fun x => Acc QcR x 1%Qc) f.

Fixpoint split_at_read (a : nat) (l : list (nat * ev QcR)) : list (nat * ev QcR) * list (nat * ev QcR) :=
  match l with
  | [] => ([], [])
  | (i, Rd _ b) :: t => if Nat.eqb a b then ([(i, Rd QcR b)], t)
                       else let (x, y) := split_at_read a t in ((i, Rd QcR b) :: x, y)
  | e :: t => let (x, y) := split_at_read a t in (e :: x, y)
  end.

Definition lost_update_values (fi fj : list nat) (a : nat) : Qc * Qc :=
  let bodies := [unit_body fi; unit_body fj] in
  let (A, B) := split_at_read a (tagged QcR bodies 0) in
  let tr := A ++ tagged QcR bodies 1 ++ B in
  (exec_seq QcR bodies (fun _ => 0%Qc) a, exec_sched QcR tr (fun _ => 0%Qc) a).

Definition qeqb (x y : Qc) : bool := Qcleb x y && Qcleb y x.

(* code 1 = the model does NOT exhibit a lost update for this witness *)
Definition check_lost (c : nat * (list nat * list nat * nat)) : list nat :=
  let '(_, (fi, fj, a)) := c in
  let (s, r) := lost_update_values fi fj a in if qeqb s r then [1%nat] else [].
Definition failing_lost (cs : list (nat * (list nat * list nat * nat))) : list (nat * list nat) :=
  failing fst check_lost cs.
