(* CheckLSQR.v — EXECUTION ONLY: the LSQR model of Solvers/LSQR.v evaluated over
   Qc with the square roots SUPPLIED by the implementation (the attributes
   beta, anorm, alfa, rhobar1, rho, xnorm, gamma, sqrt(ddnorm), rnorm,
   |r1norm| of the pylops LSQR object after each manual step).  Every supplied
   root m is CHECKED against the radicand v the model computes itself:
   0 <= m and |m^2 - v| <= eps (1 + v); then the model state after the step is
   compared with the implementation's attributes.  Codes per case:
     40 malformed case            41 a supplied root fails its check
     42 x_k differs               43 u, v or w differs
     44 a scalar differs (alfa, beta, rhobar, phibar, anorm, acond, arnorm, xnorm, rnorm, r1norm, r2norm)
     45 cost history differs      46 the state after setup differs *)
From Coq Require Import QArith Qcanon ZArith List.
From PV Require Import Dict Vec Dot Mat QcInst Check LSQR.
Import ListNotations.

Record lstep := { s_roots : roots QcO; s_x : list Qc; s_u : list Qc; s_v : list Qc; s_w : list Qc;
  s_sc : list Qc; s_cost : list Qc }.
Record lcase := { lc_id : nat; lc_n : nat; lc_A : list (list Qc); lc_y : list Qc; lc_x0 : option (list Qc);
  lc_damp : Qc; lc_sb : Qc; lc_sa : Qc; lc_setup : lstep; lc_steps : list lstep }.

Definition code (b : bool) (c : nat) : list nat := if b then [] else [c].
Definition roots_ok (eps : Qc) (ps : list (Qc * Qc)) : bool :=
  forallb (fun p => Qcleb 0%Qc (fst p) && close eps (fst p * fst p)%Qc (snd p)) ps.
Definition scalars (st : lstate QcO) : list Qc :=
  [l_alfa QcO st; l_beta QcO st; l_rhobar QcO st; l_phibar QcO st; l_anorm QcO st; l_acond QcO st; l_arnorm QcO st;
   l_xnorm QcO st; l_rnorm QcO st; l_r1norm QcO st; l_r2norm QcO st].
Definition cmp_state (tol : Qc) (st : lstate QcO) (o : lstep) (cx : nat) : list nat :=
  code (vclose tol (s_x o) (l_x QcO st)) cx ++
  code (vclose tol (s_u o) (l_u QcO st) && vclose tol (s_v o) (l_v QcO st) && vclose tol (s_w o) (l_w QcO st)) 43 ++
  code (vclose tol (s_sc o) (scalars st)) 44 ++
  code (vclose tol (s_cost o) (l_cost QcO st)) 45.
Fixpoint run_steps (tol eps : Qc) (n : nat) (A : list (list Qc)) (damp : Qc) (st : lstate QcO) (steps : list lstep) : list nat :=
  match steps with
  | [] => []
  | o :: t =>
    let '(st', rads) := lsqr_step_full QcO n A damp st (s_roots o) in
    code (roots_ok eps rads) 41 ++ cmp_state tol st' o 42 ++ run_steps tol eps n A damp st' t
  end.
Definition chk_lsqr (tol eps : Qc) (c : lcase) : list nat :=
  if wfMb (lc_n c) (length (lc_y c)) (lc_A c) &&
     match lc_x0 c with None => true | Some v => Nat.eqb (length v) (lc_n c) end then
    let '(st0, rads0) := lsqr_setup_full QcO (lc_n c) (lc_A c) (lc_y c) (lc_x0 c) (lc_sb c) (lc_sa c) in
    nodup Nat.eq_dec
      (code (roots_ok eps rads0) 41 ++
       (if Nat.eqb (length (cmp_state tol st0 (lc_setup c) 46)) 0 then [] else [46%nat]) ++
       run_steps tol eps (lc_n c) (lc_A c) (lc_damp c) st0 (lc_steps c))
  else [40%nat].
Definition runLsqr (tol eps : Qc) (cs : list lcase) := failing lc_id (chk_lsqr tol eps) cs.
