(* CheckC05.v — EXECUTION ONLY: two interchangeable variants of one operator
   are compared through their extracted matrices (forward and adjoint). *)
From Coq Require Import QArith Qcanon List.
From PV Require Import Dict Vec Dot Mat QcInst GaussQc Check.
Import ListNotations.

Record pairR := { pr_id : nat; pr_A0 : list (list Qc); pr_A1 : list (list Qc); pr_B0 : list (list Qc); pr_B1 : list (list Qc) }.
Record pairC := { pc_id : nat; pc_A0 : list (list G); pc_A1 : list (list G); pc_B0 : list (list G); pc_B1 : list (list G) }.
(* codes: 1 forward matrices differ, 2 adjoint matrices differ *)
Definition chkpR (tol : Qc) (p : pairR) : list nat :=
  (if mclose tol (pr_A1 p) (pr_A0 p) then [] else [1%nat]) ++ (if mclose tol (pr_B1 p) (pr_B0 p) then [] else [2%nat]).
Definition chkpC (tol : Qc) (p : pairC) : list nat :=
  (if gmclose tol (pc_A1 p) (pc_A0 p) then [] else [1%nat]) ++ (if gmclose tol (pc_B1 p) (pc_B0 p) then [] else [2%nat]).
