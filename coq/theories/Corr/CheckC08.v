(* CheckC08.v — EXECUTION ONLY checkers for C08 (round trips, Gram matrices)
   and C07(c) (FFT family = DFT matrix with stated scaling / padding /
   truncation / shifts).  Run by vm_compute from harness-generated files.
   The FFT model executed here is built from the SAME definitions the
   theorems of Ops/DFT.v talk about ([dft_tab], [ifftshift], [fftshift]);
   [dft_tab_correct] ties the twiddle-table form to [dft w]. *)
From Coq Require Import QArith Qcanon ZArith List.
From PV Require Import Dict Vec Dot Mat QcInst GaussQc Check DFT.
Import ListNotations.

(* ---- C08 round trips: the model (theorems of Props/C08.v) says the result IS x ---- *)
Record rtR := { rr_id : nat; rr_x : list Qc; rr_r : list Qc }.
Record rtC := { rc_id : nat; rc_x : list G; rc_r : list G }.
Definition rt_checkR (tol : Qc) (c : rtR) : list nat :=
  if vclose tol (rr_r c) (rr_x c) then [] else [1%nat].
Definition rt_checkC (tol : Qc) (c : rtC) : list nat :=
  if gvclose tol (rc_r c) (rc_x c) then [] else [1%nat].

(* ---- isometry on the extracted matrix: columns c_j = Op e_j (real
   operators), <c_i, c_j> = delta_ij ---- *)
Record gramR := { gr_id : nat; gr_cols : list (list Qc) }.
Definition gram_row (tol : Qc) (cols : list (list Qc)) (i : nat) (ci : list Qc) : bool :=
  forallb (fun p => close tol (dotu QcR ci (snd p)) (if Nat.eqb (fst p) i then 1%Qc else 0%Qc))
          (combine (seq 0 (length cols)) cols).
Definition gram_check (tol : Qc) (c : gramR) : list nat :=
  if forallb (fun p => gram_row tol (gr_cols c) (fst p) (snd p))
             (combine (seq 0 (length (gr_cols c))) (gr_cols c)) then [] else [2%nat].

(* ---- C07(c): N-d FFT model ---- *)
Definition prodl (l : list nat) : nat := fold_right Nat.mul 1%nat l.
Fixpoint set_nth {A} (k : nat) (a : A) (l : list A) : list A :=
  match l, k with
  | [], _ => []
  | _ :: t, O => a :: t
  | h :: t, S k' => h :: set_nth k' a t
  end.
(* apply f (n -> m samples) to every fibre along the middle axis of a
   C-ordered array of shape pre x n x post *)
Definition along (pre n post m : nat) (f : list G -> list G) (x : list G) : list G :=
  let fibres := map (fun pq => let p := (pq / post)%nat in let q := (pq mod post)%nat in
                       f (map (fun i => nth ((p * n + i) * post + q) x g0) (seq 0 n)))
                    (seq 0 (pre * post)) in
  map (fun idx => let p := (idx / (m * post))%nat in let r := (idx mod (m * post))%nat in
                  let k := (r / post)%nat in let q := (r mod post)%nat in
                  nth k (nth (p * post + q) fibres []) g0)
      (seq 0 (pre * m * post)).

Record axspec := { a_ax : nat; a_N : nat; a_tab : list G; a_sb : bool; a_sa : bool; a_real : bool }.
Definition out_len (sp : axspec) : nat := if a_real sp then (a_N sp / 2 + 1)%nat else a_N sp.
(* sqrt(2) on bins 1 .. (N-1)/2 (zero and Nyquist excluded) *)
Definition rscale (s2 : G) (N : nat) (y : list G) : list G :=
  map (fun p => if (Nat.leb 1 (fst p) && Nat.ltb (fst p) (1 + (N - 1) / 2))%bool then gmul s2 (snd p) else snd p)
      (combine (seq 0 (length y)) y).
(* one axis, as documented: ifftshift, truncate / zero-pad to N, DFT_N
   (half spectrum when real), sqrt(2) rescaling, fftshift *)
Definition ax_fwd (s2 : G) (sp : axspec) (x : list G) : list G :=
  let x1 := if a_sb sp then ifftshift GS x else x in
  let y := dft_tab GS (a_tab sp) (a_N sp) (out_len sp) (firstn (a_N sp) x1) in
  let y2 := if a_real sp then rscale s2 (a_N sp) y else y in
  if a_sa sp then fftshift GS y2 else y2.
Definition nd_step (s2 : G) (st : list nat * list G) (sp : axspec) : list nat * list G :=
  let dims := fst st in let a := a_ax sp in
  let pre := prodl (firstn a dims) in let n := nth a dims 0%nat in let post := prodl (skipn (S a) dims) in
  (set_nth a (out_len sp) dims, along pre n post (out_len sp) (ax_fwd s2 sp) (snd st)).
Definition nd_fwd (s2 : G) (dims : list nat) (specs : list axspec) (x : list G) : list G :=
  snd (fold_left (nd_step s2) specs (dims, x)).
Definition gunit (n j : nat) : list G := map (fun i => if Nat.eqb i j then g1 else g0) (seq 0 n).

Record fcase := { f_id : nat; f_dims : list nat; f_specs : list axspec; f_scale : G; f_s2 : G;
  f_cols : list (nat * list G);            (* (j, Op e_j) from the implementation *)
  f_vecs : list (list G * list G) }.       (* (x, Op x) on non-basis vectors *)
Definition f_check (tol : Qc) (c : fcase) : list nat :=
  let n := prodl (f_dims c) in
  let model x := vscale GR (f_scale c) (nd_fwd (f_s2 c) (f_dims c) (f_specs c) x) in
  (if forallb (fun p => gvclose tol (snd p) (model (gunit n (fst p)))) (f_cols c) then [] else [1%nat]) ++
  (if forallb (fun p => gvclose tol (snd p) (model (fst p))) (f_vecs c) then [] else [2%nat]).

(* ---- Haar DWT: implementation matrix vs the model of Ops/Haar.v executed
   EXACTLY in Q(sqrt 2) (c = sqrt2/2); a + b sqrt2 is mapped to Qc with a
   60-bit rational sqrt 2 only for the tolerance comparison ---- *)
From PV Require Import Haar.
Definition alongP {A} (d0 : A) (pre n post m : nat) (f : list A -> list A) (x : list A) : list A :=
  let fibres := map (fun pq => let p := (pq / post)%nat in let q := (pq mod post)%nat in
                       f (map (fun i => nth ((p * n + i) * post + q) x d0) (seq 0 n)))
                    (seq 0 (pre * post)) in
  map (fun idx => let p := (idx / (m * post))%nat in let r := (idx mod (m * post))%nat in
                  let k := (r / post)%nat in let q := (r mod post)%nat in
                  nth k (nth (p * post + q) fibres []) d0)
      (seq 0 (pre * m * post)).
Definition q2emb (a : Qc) : Q2 := (a, 0%Qc).
Definition q2app (r2 : Qc) (a : Q2) : Qc := (fst a + snd a * r2)%Qc.
Record hcase := { h_id : nat; h_dims : list nat; h_ax : nat; h_L : nat; h_r2 : Qc;
  h_cols : list (nat * list Qc);          (* (j, Op e_j) *)
  h_vecs : list (list Qc * list Qc);      (* (x, Op x) *)
  h_adj : list (list Qc * list Qc) }.     (* (y, Op^H y) *)
Definition haar_fwd_nd (c : hcase) (x : list Qc) : list Qc :=
  let dims := h_dims c in let a := h_ax c in
  let pre := prodl (firstn a dims) in let n := nth a dims 0%nat in let post := prodl (skipn (S a) dims) in
  map (q2app (h_r2 c)) (alongP q2_0 pre n post (padlen n (h_L c)) (dwt_fwd Q2S q2c (h_L c)) (map q2emb x)).
Definition haar_adj_nd (c : hcase) (y : list Qc) : list Qc :=
  let dims := h_dims c in let a := h_ax c in
  let pre := prodl (firstn a dims) in let n := nth a dims 0%nat in let post := prodl (skipn (S a) dims) in
  map (q2app (h_r2 c)) (alongP q2_0 pre (padlen n (h_L c)) post n (dwt_adj Q2S q2c (h_L c) n) (map q2emb y)).
Definition qunit (n j : nat) : list Qc := map (fun i => if Nat.eqb i j then 1%Qc else 0%Qc) (seq 0 n).
Definition h_check (tol : Qc) (c : hcase) : list nat :=
  let n := prodl (h_dims c) in
  (if forallb (fun p => vclose tol (snd p) (haar_fwd_nd c (qunit n (fst p)))) (h_cols c) then [] else [1%nat]) ++
  (if forallb (fun p => vclose tol (snd p) (haar_fwd_nd c (fst p))) (h_vecs c) then [] else [2%nat]) ++
  (if forallb (fun p => vclose tol (snd p) (haar_adj_nd c (fst p))) (h_adj c) then [] else [3%nat]).

(* ---- DWT2D(haar): implementation columns vs the 2-D model of Ops/Haar2D.v, executed exactly in
   Q(sqrt 2); arrays are lists of rows, a leading batch axis is a list of arrays ---- *)
From PV Require Import Haar2D.
Definition memb (X : list (list Qc)) : list (list Q2) := map (map q2emb) X.
Definition mapp (r2 : Qc) (X : list (list Q2)) : list (list Qc) := map (map (q2app r2)) X.
Record h2case := { g_id : nat; g_r : nat; g_c : nat; g_L : nat; g_r2 : Qc;
  g_fw : list (list (list (list Qc)) * list (list (list Qc)));    (* (batch of X, batch of Op X) *)
  g_ad : list (list (list (list Qc)) * list (list (list Qc))) }.  (* (batch of Y, batch of Op^H Y) *)
Definition h2_check (tol : Qc) (c : h2case) : list nat :=
  let fw X := mapp (g_r2 c) (dwt2_fwd Q2S q2c (g_L c) (g_r c) (g_c c) (memb X)) in
  let ad Y := mapp (g_r2 c) (dwt2_adj Q2S q2c (g_L c) (g_r c) (g_c c) (memb Y)) in
  (if forallb (fun p => all2 (mclose tol) (snd p) (map fw (fst p))) (g_fw c) then [] else [1%nat]) ++
  (if forallb (fun p => all2 (mclose tol) (snd p) (map ad (fst p))) (g_ad c) then [] else [2%nat]).
