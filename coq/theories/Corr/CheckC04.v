(* CheckC04.v — EXECUTION ONLY: comparison of what the implementation did
   (flag programs, dot dispatch, size checks, attributes of compound
   operators, values) with the models of State/ConfigFlag.v and
   State/DotDispatch.v.  Run by vm_compute from harness-generated files. *)
From Coq Require Import QArith Qcanon Bool Arith List.
From PV Require Import Check GaussQc ConfigFlag DotDispatch.
Import ListNotations.
Local Open Scope nat_scope.

Definition beq (a b : bool) : bool := Bool.eqb a b.
Fixpoint lbeq (a b : list bool) : bool :=
  match a, b with
  | [], [] => true
  | x :: a', y :: b' => beq x y && lbeq a' b'
  | _, _ => false
  end.

(* ---------------- flag programs ----------------
   case = (id, program, initial flag, observed final flag, exception escaped?, observed trace) *)
Record flagcase := { f_id : nat; f_prog : prog; f_init : bool; f_final : bool; f_raised : bool; f_trace : list bool }.
Definition check_flag (c : flagcase) : list nat :=
  match run3 (f_prog c) (f_init c) with
  | (fl, o, tr) =>
      (if beq fl (f_final c) then [] else [1%nat]) ++
      (if beq (match o with Raised => true | Normal => false end) (f_raised c) then [] else [2%nat]) ++
      (if lbeq tr (f_trace c) then [] else [3%nat])
  end.

(* ---------------- dot dispatch ----------------
   observation: 0 = returned normally (route 0 matvec / 1 matmat, shape), 1 = ValueError, 2 = other exception *)
Inductive obs := ObsOk (route : nat) (s : list nat) | ObsValueError | ObsOther.
Record dotcase := { d_id : nat; d_dims : list nat; d_dimsd : list nat; d_ff : option bool;
                    d_flag : bool; d_xs : list nat; d_obs : obs }.
Definition route_code (r : route) : nat := match r with RMatvec => 0 | RMatmat => 1 end.
Definition agree (m : result) (o : obs) : list nat :=
  match m, o with
  | Error EValue, ObsValueError => []
  | Error EValue, ObsOther => []           (* rejected with another exception class: still rejected *)
  | Ok r s, ObsOk r' s' =>
      (if leqb s s' then [] else [2%nat]) ++ (if route_code r =? r' then [] else [3%nat])
  | Error _, ObsOk _ _ => [4%nat]          (* implementation accepted what the model rejects *)
  | Ok _ _, ObsValueError => [5%nat]       (* implementation rejected what the model accepts *)
  | _, ObsOther => [6%nat]
  end.
Definition check_dot (c : dotcase) : list nat :=
  agree (dot_dispatch (d_dims c) (d_dimsd c) (d_ff c) (d_flag c) (d_xs c)) (d_obs c).

(* direct calls: kind 0 matvec, 1 rmatvec, 2 matmat, 3 rmatmat on an (M, N) operator *)
Record mvcase := { m_id : nat; m_kind : nat; m_M : nat; m_N : nat; m_xs : list nat; m_obs : obs }.
Definition check_mv (c : mvcase) : list nat :=
  let m := match m_kind c with
           | 0 => matvec_shape (m_M c) (m_N c) (m_xs c)
           | 1 => rmatvec_shape (m_M c) (m_N c) (m_xs c)
           | 2 => matmat_shape (m_M c) (m_N c) (m_xs c)
           | _ => rmatmat_shape (m_M c) (m_N c) (m_xs c)
           end in
  agree m (m_obs c).

(* ---------------- attributes ----------------
   kind 0: leaf (only consistency), 1: adjoint a, 2: transpose a, 3: product a b, 4: sum a b, 5: scaled a.
   observed result: Some attrs, or None when the construction raised ValueError *)
Definition ob_eqb (a b : option bool) : bool :=
  match a, b with None, None => true | Some x, Some y => beq x y | _, _ => false end.
Definition attrs_eqb (a b : attrs) : bool :=
  (fst (a_shape a) =? fst (a_shape b)) && (snd (a_shape a) =? snd (a_shape b)) &&
  leqb (a_dims a) (a_dims b) && leqb (a_dimsd a) (a_dimsd b) && ob_eqb (a_ff a) (a_ff b).
Definition oattrs_eqb (a b : option attrs) : bool :=
  match a, b with None, None => true | Some x, Some y => attrs_eqb x y | _, _ => false end.
Record attrcase := { t_id : nat; t_kind : nat; t_a : attrs; t_b : attrs; t_res : option attrs }.
(* __add__: the property fixes only the shape of a sum; which summand the
   dims / dimsd are taken from ("replace if shape-like") is an implementation
   choice, so any of the two is accepted here; raising must agree with the model *)
Definition sum_ok (a b : attrs) (m r : option attrs) : bool :=
  match m, r with
  | None, None => true
  | Some mm, Some x =>
      (* forceflat of the sum follows the merge rule exactly (it decides flat vs N-d outputs) *)
      ob_eqb (a_ff x) (a_ff mm) &&
      (fst (a_shape x) =? fst (a_shape a)) && (snd (a_shape x) =? snd (a_shape a)) &&
      (leqb (a_dims x) (a_dims a) || leqb (a_dims x) (a_dims b)) &&
      (leqb (a_dimsd x) (a_dimsd a) || leqb (a_dimsd x) (a_dimsd b))
  | _, _ => false
  end.
Definition check_attr (c : attrcase) : list nat :=
  let m := match t_kind c with
           | 0 => Some (t_a c)
           | 1 | 2 => adjoint (t_a c)
           | 3 => product (t_a c) (t_b c)
           | 4 => sum (t_a c) (t_b c)
           | _ => scaled (t_a c)
           end in
  (if (if t_kind c =? 4 then sum_ok (t_a c) (t_b c) m (t_res c) else oattrs_eqb m (t_res c)) then [] else [1%nat]) ++
  (match t_res c with Some r => if wfb r then [] else [2%nat] | None => [] end).

(* ---------------- values ----------------
   got  = flattened (C order) result of Op @ x / matmat, an (M, k) array or M-vector
   cols = the k column results of matvec on the flattened columns *)
Definition colmajor_to_flat (M : nat) (cols : list (list G)) : list G :=
  flat_map (fun i => map (fun c => nth i c g0) cols) (seq 0 M).
(* v_kg / v_kc: dtype kind of the result / of the stacked column results
   (0 float32, 1 float64, 2 complex64, 3 complex128, 9 other; both 0 when not compared) *)
Record valcase := { v_id : nat; v_M : nat; v_got : list G; v_cols : list (list G); v_kg : nat; v_kc : nat }.
Definition check_val (tol : Qc) (c : valcase) : list nat :=
  (if forallb (fun col => Nat.eqb (length col) (v_M c)) (v_cols c) then [] else [2%nat]) ++
  (if gvclose tol (v_got c) (colmajor_to_flat (v_M c) (v_cols c)) then [] else [1%nat]) ++
  (if v_kg c =? v_kc c then [] else [3%nat]).

(* ---------------- setter sequences on a bare LinearOperator ---------------- *)
(* observed: None = ValueError in a setter; Some None = getters raise AttributeError; Some (Some a) = attributes read back *)
Record setcase := { s_id : nat; s_ops : list sop; s_res : option (option attrs) }.
Definition check_set (c : setcase) : list nat :=
  let m := match run_sops (s_ops c) empty with None => None | Some st => Some (view st) end in
  (match m, s_res c with
   | None, None => []
   | Some x, Some y => if oattrs_eqb x y then [] else [1%nat]
   | _, _ => [1%nat]
   end) ++
  (match s_res c with Some (Some a) => if wfb a then [] else [2%nat] | _ => [] end).

(* ---------------- solver wrapper ---------------- *)
Record solcase := { w_id : nat; w_dims : list nat; w_ff : option bool; w_x0 : option (list nat);
                    w_shape : list nat; w_inside : bool; w_before : bool; w_after : bool }.
Definition check_sol (c : solcase) : list nat :=
  (if leqb (solver_wrap_shape (w_dims c) (w_ff c) (w_x0 c)) (w_shape c) then [] else [1%nat]) ++
  (if w_inside c then [2%nat] else []) ++
  (if beq (w_before c) (w_after c) then [] else [3%nat]).

Definition mkattrs (m n : nat) (d dd : list nat) (ff : option bool) : attrs :=
  {| a_shape := (m, n); a_dims := d; a_dimsd := dd; a_ff := ff |}.
