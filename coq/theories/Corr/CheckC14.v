(* CheckC14.v — EXECUTION ONLY: replay of pylops OMP / MP runs on exact
   rationals (Qc) and Gaussian rationals (Qc x Qc) with the implementation's
   own column choices, exact least squares by Gauss-Jordan elimination on the
   restricted normal equations, and tolerance-aware comparison with what the
   implementation returned.  Failure codes of one case:
     1  selected column is not of maximal (normalised) correlation with the
        model's exact residual (ties within tolerance accepted)
     2  cols bookkeeping differs (append iff new)
     3  cost entry differs from the true residual norm (squares compared)
     4  returned x has a non-zero outside the reported columns / wrong length
     5  returned x is not the least-squares solution on the reported columns
        (MP: not the sum of the selected correlations)
     6  A_cols^H (y - A x) not ~ 0 for the returned x (OMP)
     7  cost increases (OMP always; MP when every squared column norm <= 2)
     8  cost increases for MP with normalizecols=True and a squared column norm > 2
     9  checker self-test failed (Gauss solution does not satisfy the normal
        equations exactly / malformed case)
    10  stopping rule violated (iiter < niter_outer and cost[iiter] > sigma)
    11  iiter / cost length / trace length inconsistent
    12  orthonormal dictionary: k-sparse vector not recovered in k steps
    13  (real cases) proved model of Solvers/OMP.v, run with the same choices
        and the Gauss oracle, differs from the executed replay
    14  solve() and manual setup/step driving disagree under the same seed *)
From Coq Require Import QArith Qcanon ZArith List Bool Arith.
From PV Require Import Dict Vec Dot Mat QcInst GaussQc Check OMP.
Import ListNotations.
Local Open Scope Qc_scope.

Record Ex := { T : Type; e0 : T; eadd : T -> T -> T; esub : T -> T -> T; emul : T -> T -> T;
  ecj : T -> T; einv : T -> T; eabs2 : T -> Qc }.
Definition EQ : Ex := {| T := Qc; e0 := 0; eadd := Qcplus; esub := Qcminus; emul := Qcmult;
  ecj := fun a => a; einv := Qcinv; eabs2 := fun a => a * a |}.
Definition gabs2 (a : G) : Qc := fst a * fst a + snd a * snd a.
Definition ginv (a : G) : G := (fst a / gabs2 a, - snd a / gabs2 a).
Definition EG : Ex := {| T := G; e0 := g0; eadd := gadd; esub := gsub; emul := gmul;
  ecj := gconj; einv := ginv; eabs2 := gabs2 |}.

Definition qeqb (a b : Qc) : bool := Qeq_bool (this a) (this b).
Definition qmax (l : list Qc) : Qc := fold_right (fun a m => if Qcleb a m then m else a) 0 l.
Fixpoint nat_list_eqb (u v : list nat) : bool :=
  match u, v with [], [] => true | a :: u', b :: v' => Nat.eqb a b && nat_list_eqb u' v' | _, _ => false end.
Definition memb (i : nat) (cs : list nat) : bool := existsb (Nat.eqb i) cs.
Fixpoint posn (i : nat) (cs : list nat) : nat :=
  match cs with [] => O | j :: cs' => if Nat.eqb i j then O else S (posn i cs') end.

Section Chk.
Variable E : Ex.
Notation t := (T E).
Notation z := (e0 E).
Definition isz (a : t) : bool := qeqb (eabs2 E a) 0.
Fixpoint hdot (u v : list t) : t :=
  match u, v with a :: u', b :: v' => eadd E (emul E (ecj E a) b) (hdot u' v') | _, _ => z end.
Fixpoint udot (u v : list t) : t :=
  match u, v with a :: u', b :: v' => eadd E (emul E a b) (udot u' v') | _, _ => z end.
Definition colE (j : nat) (A : list (list t)) : list t := map (fun r => nth j r z) A.
Definition mvE (A : list (list t)) (x : list t) : list t := map (fun r => udot r x) A.
Definition colsE (A : list (list t)) (cs : list nat) := map (fun r => map (fun j => nth j r z) cs) A.
Definition vsubE (u v : list t) : list t := map2 (esub E) u v.
Definition n2 (u : list t) : Qc := fold_right (fun a s => eabs2 E a + s) 0 u.
Fixpoint updE (v : list t) (j : nat) (a : t) : list t :=
  match v, j with [], _ => [] | _ :: v', O => a :: v' | b :: v', S j' => b :: updE v' j' a end.

(* ---- exact Gauss-Jordan elimination (singular systems: free variables = 0) ---- *)
Definition elim_with (p : list t) (c : nat) (r : list t) : list t :=
  let f := nth c r z in map2 (fun a b => esub E a (emul E f b)) r p.
Fixpoint find_pivot (c : nat) (rows : list (list t)) : option (list t * list (list t)) :=
  match rows with
  | [] => None
  | r :: rs => if isz (nth c r z)
               then match find_pivot c rs with Some (p, rest) => Some (p, r :: rest) | None => None end
               else Some (r, rs)
  end.
Fixpoint gj (fuel c : nat) (done : list (nat * list t)) (left : list (list t)) : list (nat * list t) :=
  match fuel with
  | O => done
  | S f => match find_pivot c left with
           | None => gj f (S c) done left
           | Some (p, rest) =>
               let p' := map (emul E (einv E (nth c p z))) p in
               gj f (S c) ((c, p') :: map (fun d => (fst d, elim_with p' c (snd d))) done) (map (elim_with p' c) rest)
           end
  end.
(* returns (solution, rank) *)
Definition solve (k : nat) (M : list (list t)) (b : list t) : list t * nat :=
  let done := gj k 0 [] (map2 (fun r bi => r ++ [bi]) M b) in
  (map (fun c => match find (fun d => Nat.eqb (fst d) c) done with Some d => nth k (snd d) z | None => z end) (seq 0 k),
   length done).
Definition ls (A : list (list t)) (y : list t) (cs : list nat) : list t * nat :=
  solve (length cs) (map (fun i => map (fun j => hdot (colE i A) (colE j A)) cs) cs)
        (map (fun i => hdot (colE i A) y) cs).

Record caseT := { k_id : nat; k_n : nat; k_A : list (list t); k_y : list t; k_nc : bool; k_mp : bool;
  k_sigma : Qc; k_nouter : nat; k_choices : list nat; k_cols : list (list nat); k_cost : list Qc;
  k_x : list t; k_iiter : nat; k_consistent : bool; k_x0 : option (list t * nat) }.

Record st := { s_cols : list nat; s_x : list t; s_res : list t; s_rank : nat }.

Variables tolsel tolc tolx : Qc.
(* ALL tolerances are relative to the scale of the data (homogeneous in y):
   sc2 is a squared reference magnitude (||y||^2), never the constant 1 *)
Definition tclose (tol sc2 : Qc) (a b : t) : bool := Qcleb (eabs2 E (esub E a b)) (tol * tol * (sc2 + eabs2 E b)).
Definition closeS (tol sc a b : Qc) : bool := Qcleb (Qcabs' (a - b)) (tol * (sc + Qcabs' b)).
Definition qmin1 (l : list Qc) : Qc := match l with [] => 1 | a :: l' => fold_right (fun b m => if Qcleb b m then b else m) a l' end.
Definition sumA2 (A : list (list t)) : Qc := fold_right (fun r a => n2 r + a) 0 A.

Definition scores2 (c : caseT) (res : list t) : list Qc :=
  map (fun j => let v := eabs2 E (hdot (colE j (k_A c)) res) in
                if k_nc c then v / n2 (colE j (k_A c)) else v) (seq 0 (k_n c)).

Definition step1 (c : caseT) (s : st) (i : nat) (colsI : list nat) (costk : Qc) : st * list nat :=
  let A := k_A c in
  let sc := scores2 c (s_res s) in
  let mx := qmax sc in
  (* tie tolerance RELATIVE to the largest score; the floor (1e-10 ||y||^2 ||A||_F^2, divided by the smallest
     squared column norm under normalizecols) only absorbs the rounding of the implementation's residual *)
  let fl := q 1 10000000000 * n2 (k_y c) * sumA2 A /
            (if k_nc c then qmin1 (map (fun j => n2 (colE j A)) (seq 0 (k_n c))) else 1) in
  let e1 := if Nat.ltb i (k_n c) && Qcleb mx (nth i sc 0 + tolsel * mx + fl) then [] else [1%nat] in
  let cols' := if memb i (s_cols s) then s_cols s else s_cols s ++ [i] in
  let e2 := if nat_list_eqb cols' colsI then [] else [2%nat] in
  let s' :=
    if k_mp c then
      let ci := hdot (colE i A) (s_res s) in
      let res' := vsubE (s_res s) (map (emul E ci) (colE i A)) in
      let x' := if memb i (s_cols s)
                then let p := posn i (s_cols s) in updE (s_x s) p (eadd E (nth p (s_x s) z) ci)
                else s_x s ++ [ci] in
      {| s_cols := cols'; s_x := x'; s_res := res'; s_rank := length cols' |}
    else
      let xr := ls A (k_y c) cols' in
      {| s_cols := cols'; s_x := fst xr; s_res := vsubE (k_y c) (mvE (colsE A cols') (fst xr)); s_rank := snd xr |} in
  let e9 := if k_mp c then [] else
            if forallb (fun j => isz (hdot (colE j A) (s_res s'))) cols' then [] else [9%nat] in
  let e3 := if closeS tolc (n2 (k_y c)) (costk * costk) (n2 (s_res s')) then [] else [3%nat] in
  (s', e1 ++ e2 ++ e9 ++ e3).

Fixpoint steps (c : caseT) (s : st) (ch : list nat) (cl : list (list nat)) (co : list Qc) : st * list nat :=
  match ch, cl, co with
  | i :: ch', ci :: cl', ck :: co' =>
      let r := step1 c s i ci ck in
      let r' := steps c (fst r) ch' cl' co' in (fst r', snd r ++ snd r')
  | [], [], [] => (s, [])
  | _, _, _ => (s, [11%nat])
  end.

Fixpoint noninc (tol sc : Qc) (l : list Qc) : bool :=
  match l with a :: (b :: _) as l' => Qcleb b (a + tol * (sc + a)) && noninc tol sc l' | _ => true end.
(* while iiter < niter_outer and cost[iiter] > sigma *)
Fixpoint stop_ok (c : caseT) (k : nat) (l : list Qc) : bool :=
  match l with
  | [] => false
  | [a] => Nat.leb k (k_nouter c) && (Nat.eqb k (k_nouter c) || Qcleb a (k_sigma c))
  | a :: l' => Nat.ltb k (k_nouter c) && negb (Qcleb a (k_sigma c)) && stop_ok c (S k) l'
  end.
Definition orthonormal (c : caseT) : bool :=
  forallb (fun i => forallb (fun j =>
     let g := hdot (colE i (k_A c)) (colE j (k_A c)) in
     if Nat.eqb i j then qeqb (n2 (colE i (k_A c))) 1 else isz g) (seq 0 (k_n c))) (seq 0 (k_n c)).

Definition check (c : caseT) : list nat :=
  let A := k_A c in let y := k_y c in
  let wf := Nat.eqb (length y) (length A) && forallb (fun r => Nat.eqb (length r) (k_n c)) A
            && negb (k_nc c && existsb (fun j => qeqb (n2 (colE j A)) 0) (seq 0 (k_n c))) in
  if negb wf then [9%nat] else
  let K := length (k_choices c) in
  let e11 := if Nat.eqb (k_iiter c) K && Nat.eqb (length (k_cost c)) (S K) then [] else [11%nat] in
  let e14 := if k_consistent c then [] else [14%nat] in
  let e3a := match k_cost c with c0 :: _ => if closeS tolc (n2 y) (c0 * c0) (n2 y) then [] else [3%nat] | [] => [11%nat] end in
  let r := steps c {| s_cols := []; s_x := []; s_res := y; s_rank := 0 |} (k_choices c) (k_cols c) (tl (k_cost c)) in
  let s := fst r in
  let cs := s_cols s in
  let x := k_x c in
  let e4 := if Nat.eqb (length x) (k_n c) &&
               forallb (fun j => memb j cs || isz (nth j x z)) (seq 0 (k_n c)) then [] else [4%nat] in
  let xcI := map (fun j => nth j x z) cs in
  let e5 := if negb (Nat.eqb (s_rank s) (length cs)) then [] else
            if forallb (fun p => tclose tolx (n2 y) (fst p) (snd p)) (combine xcI (s_x s)) then [] else [5%nat] in
  let resI := vsubE y (mvE A x) in
  let e6 := if k_mp c then [] else
            if forallb (fun j => Qcleb (eabs2 E (hdot (colE j A) resI)) (tolx * tolx * n2 y * sumA2 A)) cs then [] else [6%nat] in
  let small := forallb (fun j => Qcleb (n2 (colE j A)) (1 + 1)) (seq 0 (k_n c)) in
  let e7 := if noninc tolc (hd 0 (k_cost c)) (k_cost c) then [] else
            if negb (k_mp c) || small then [7%nat] else if k_nc c then [8%nat] else [] in
  let e10 := if stop_ok c 0 (k_cost c) then [] else [10%nat] in
  let e12 := match k_x0 c with
             | None => []
             | Some (x0, kk) =>
                 if negb (orthonormal c) then [9%nat] else
                 if Nat.eqb K kk && Nat.eqb (length x) (length x0) &&
                    forallb (fun p => tclose tolx (n2 y) (fst p) (snd p)) (combine x x0) then [] else [12%nat]
             end in
  e11 ++ e14 ++ e3a ++ snd r ++ e4 ++ e5 ++ e6 ++ e7 ++ e10 ++ e12.
End Chk.

(* ---- link to the proved model (real cases): Solvers/OMP.v executed on QcO
   with nrm := squared norm, inner := the Gauss oracle above ---- *)
Definition qvec_eqb (u v : list Qc) : bool := all2 qeqb u v.
Definition model_link (c : caseT EQ) : list nat :=
  let A : list (list QcO) := k_A EQ c in
  let y : list QcO := k_y EQ c in
  let inner : list nat -> list QcO := fun cs => fst (ls EQ A y cs) in
  let stepf := if k_mp EQ c then step_mp QcO (@sqn QcO) A else step_omp QcO (@sqn QcO) A y inner in
  let tr := run_with QcO stepf (k_choices EQ c) (setup QcO (@sqn QcO) y) in
  let fin := last tr (setup QcO (@sqn QcO) y) in
  let r := steps EQ 0 0 c (Build_st EQ [] [] (k_y EQ c) 0%nat)
             (k_choices EQ c) (map (fun s => cols QcO s) (tl tr)) (map (fun _ => 0) (k_choices EQ c)) in
  let s := fst r in
  if nat_list_eqb (cols QcO fin) (s_cols EQ s) && qvec_eqb (xc QcO fin) (s_x EQ s)
     && qvec_eqb (res QcO fin) (s_res EQ s)
     && qvec_eqb (cost QcO fin) (map (fun t => @sqn QcO (resid QcO A y (finalize QcO (k_n EQ c) t))) tr)
     && negb (existsb (Nat.eqb 2) (snd r))
  then [] else [13%nat].

Definition tol_sel : Qc := q 1 1000000.
Definition tol_cost : Qc := q 1 1000000.
Definition tol_x : Qc := q 1 1000000.
Definition checkQ (c : caseT EQ) : list nat := check EQ tol_sel tol_cost tol_x c ++ model_link c.
Definition checkG (c : caseT EG) : list nat := check EG tol_sel tol_cost tol_x c.
Definition failingQ := failing (k_id EQ) checkQ.
Definition failingG := failing (k_id EG) checkG.
