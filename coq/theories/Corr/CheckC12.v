(* CheckC12.v — EXECUTION ONLY: certificate checking for C12.  For one random
   problem the harness records what the implementation assembled
   (Op_normal.todense(), y_normal, RegularizedOperator(...).todense(),
   datatot) and every returned model x; here the DOCUMENTED N and rhs are
   computed exactly (Qc / Gaussian Qc) from the same inputs and it is checked
   that  || N x - rhs ||_inf <= tol * (1 + ||rhs||_inf + ||N||_inf ||x||_inf).
   Codes: 1 malformed problem, 2 Op_normal.todense() <> N, 3 y_normal <> rhs,
   4 a NormalEquationsInversion x is not a solution, 5 RegOp.todense() <>
   model stack, 6 datatot <> model stacked data, 7 a RegularizedInversion x
   is not a solution, 8 a PreconditionedInversion x is not a solution,
   9 two results that must coincide differ, 10 the code-shaped model of
   Op_normal/y_normal differs from (N, rhs) (instance of
   assembly_normal_correct). *)
From Coq Require Import QArith Qcanon ZArith List Bool.
From PV Require Import Dict Vec Dot Mat QcInst GaussQc Check LeastSquares.
Import ListNotations.

Section Chk.
Variable S : StarRing.
Variable absS : S -> Qc.         (* |a| (real) or |re|+|im| (complex) *)
Variable nzb : S -> bool.        (* epsI != 0 *)
Variable eqS : S -> S -> bool.   (* exact equality *)
Notation vec := (list S).
Notation mat := (list (list S)).

Definition qmax (a b : Qc) : Qc := if Qcleb a b then b else a.
Definition vmaxabs (v : vec) : Qc := fold_right (fun a m => qmax (absS a) m) 0%Qc v.
Definition mnorm (M : mat) : Qc := fold_right (fun r m => qmax (fold_right (fun a s => (absS a + s)%Qc) 0%Qc r) m) 0%Qc M.
Definition cl (tol : Qc) (a b : S) : bool := Qcleb (absS (rsub S a b)) (tol * (1 + absS b))%Qc.
Definition vcl tol := all2 (cl tol).
Definition mcl tol := all2 (vcl tol).
Definition resid_ok (tol : Qc) (N : mat) (b x : vec) : bool :=
  Nat.eqb (length x) (length N) &&
  Qcleb (vmaxabs (vsub S (mv S N x) b)) (tol * (1 + vmaxabs b + mnorm N * vmaxabs x))%Qc.

Definition wfMb' (n m : nat) (M : mat) : bool := Nat.eqb (length M) m && forallb (fun r => Nat.eqb (length r) n) M.
Definition wfPb (P : lsq S) : bool :=
  let n := p_n S P in let m := p_m S P in
  wfMb' n m (p_A S P) && Nat.eqb (length (p_y S P)) m &&
  match p_W S P with Some W => wfMb' m m W | None => true end &&
  forallb (fun t => forallb (fun r => Nat.eqb (length r) n) (g_R S t) && Nat.eqb (length (g_d S t)) (length (g_R S t))) (p_regs S P) &&
  forallb (fun t => wfMb' n n (h_N S t)) (p_nregs S P).

Record case := { c_id : nat; c_tolm : Qc; c_tolx : Qc;
  c_ne : lsq S; c_ne_N : option mat; c_ne_y : option vec; c_ne_xs : list vec;
  c_ri : lsq S; c_ri_Op : option mat; c_ri_d : option vec; c_ri_xs : list vec;
  c_pi : lsq S; c_pi_xs : list vec;
  c_agree : list (vec * vec) }.

Definition flag (b : bool) (code : nat) : list nat := if b then [] else [code].
Definition optb {A} (o : option A) (f : A -> bool) : bool := match o with Some a => f a | None => true end.

Definition check (c : case) : list nat :=
  let Pn := c_ne c in let Pr := c_ri c in let Pp := c_pi c in
  if negb (wfPb Pn && wfPb Pr && wfPb Pp) then [1%nat] else
  let N := Nmat S Pn in let b := rhs S Pn in
  let Pr' := normal_of_reg S Pr in
  let Nr := Nmat S Pr' in let br := rhs S Pr' in
  flag (optb (c_ne_N c) (fun M => mcl (c_tolm c) M N)) 2 ++
  flag (optb (c_ne_y c) (fun v => vcl (c_tolm c) v b)) 3 ++
  flag (forallb (resid_ok (c_tolx c) N b) (c_ne_xs c)) 4 ++
  flag (optb (c_ri_Op c) (fun M => mcl (c_tolm c) M (regop_dense S Pr))) 5 ++
  flag (optb (c_ri_d c) (fun v => vcl (c_tolm c) v (datatot S Pr))) 6 ++
  flag (forallb (resid_ok (c_tolx c) Nr br) (c_ri_xs c)) 7 ++
  flag (forallb (resid_ok (c_tolx c) (Nmat S Pp) (rhs S Pp)) (c_pi_xs c)) 8 ++
  flag (forallb (fun p => vcl (c_tolx c) (fst p) (snd p) && vcl (c_tolx c) (snd p) (fst p)) (c_agree c)) 9 ++
  flag (all2 (all2 eqS) (op_normal_dense S nzb Pn) N && all2 eqS (y_normal_code S Pn) b) 10.
End Chk.

Definition absG (a : G) : Qc := (Qcabs' (fst a) + Qcabs' (snd a))%Qc.
Definition eqQ (a b : Qc) : bool := Qcleb a b && Qcleb b a.
Definition eqG (a b : G) : bool := eqQ (fst a) (fst b) && eqQ (snd a) (snd b).
Definition nzQ (a : Qc) : bool := negb (eqQ a 0%Qc).
Definition nzG (a : G) : bool := negb (eqG a g0).
Definition caseR := case QcS.
Definition caseC := case GS.
Definition checkR12 : caseR -> list nat := check QcS Qcabs' nzQ eqQ.
Definition checkC12 : caseC -> list nat := check GS absG nzG eqG.
Definition run12 (rs : list caseR) (cs : list caseC) : list (nat * list nat) :=
  failing (c_id QcS) checkR12 rs ++ failing (c_id GS) checkC12 cs.
(* real / complex embeddings used by the generated files *)
Definition gq (a : Qc) : G := (a, z0).

(* boolean equality on Qc vectors reflects Leibniz equality (used by the
   Examples of Props/C12.v) *)
Lemma eqQ_eq a b : eqQ a b = true -> a = b.
Proof. unfold eqQ. intros H. apply andb_prop in H. destruct H as [H1 H2].
  apply Qcleb_spec in H1. apply Qcleb_spec in H2. apply Qcle_antisym; auto. Qed.
Lemma all2_eqQ_eq u v : all2 eqQ u v = true -> u = v.
Proof. revert v; induction u as [|a u IH]; intros [|b v] H; simpl in *; try discriminate; auto.
  apply andb_prop in H. destruct H as [H1 H2]. f_equal; [apply eqQ_eq; auto | apply IH; auto]. Qed.
Lemma nzQ_sound a : nzQ a = false -> a = 0%Qc.
Proof. unfold nzQ. intros H. apply eqQ_eq. destruct (eqQ a 0%Qc); auto; discriminate. Qed.
Lemma nzG_sound a : nzG a = false -> a = g0.
Proof. unfold nzG, eqG. intros H. destruct a as [x y]; simpl in *.
  destruct (eqQ x 0%Qc) eqn:E1; destruct (eqQ y 0%Qc) eqn:E2; simpl in H; try discriminate.
  apply eqQ_eq in E1; apply eqQ_eq in E2. subst; reflexivity. Qed.
