(* CheckC09.v — EXECUTION ONLY: checker functions for C09 / C10, run by
   vm_compute from harness-generated case files.  The model functions
   executed here are exactly the ones the theorems of Solvers/CG.v, CGLS.v
   are about, instantiated at Qc (real) and Gaussian Qc (complex).

   One kase = one system (A, y, x0, damp) and solver, with a list of runs =
   calls of pylops cg / cgls (different niter / tol) with everything each
   returned and everything its callbacks observed.  The model states
   st_0 .. st_K are computed once per kase by iterating the model's step;
   a run is compared with the prefix it corresponds to; the iteration count
   the model's run loop would reach is the first index where the loop guard
   fails (loop_run_spec); for runs flagged r_exec the model's own
   cg_solve / cgls_solve is executed as well and ITS outputs are compared.
   Codes (list printed per failing run id; code 4 is reported under k_id):
     1  iterates: callback log / returned x differ from the model iterates x_1..x_iiter
     2  cost: |cost| <> 1 + iiter, or cost_k^2 differs from the model's entry
     3  iiter differs from the model's run with the same niter / tol (not compared when the stopping decision
        is BORDERLINE, see near_tie; code 30 = informational: borderline and the counts do differ)
     4  the model does NOT reach the minimiser in k_nconv steps: kold <> 0 or normal equations not satisfied exactly
     5  r2norm^2 differs from the model's r2norm^2          (cgls)
     6  r1norm^2 differs from the model's r1norm^2          (cgls)
     7  istop differs from the model's (skipped near a tie) (cgls)
     9  the functional J(x_k) increases along the MODEL iterates (cgls)
    10  implementation alone: cost_k^2 is not ||y - A x_k||^2 of its own k-th iterate
    11  implementation alone: r2norm^2 is not ||y - A x||^2 + damp^2 ||x||^2 of the returned x (cgls)
    12  implementation alone: r1norm^2 is not ||y - A x||^2 of the returned x (cgls)
    13  Callbacks trace: on_step_begin / on_step_end arguments or counts differ from the model's events
    14  implementation alone: J increases along the implementation's iterates (cgls)
    15  malformed case (lengths) *)
From Coq Require Import QArith Qcanon ZArith List.
From PV Require Import Dict Vec Dot Mat QcInst GaussQc GaussField Check CG CGLS.
Import ListNotations.

Definition absR : Qc -> Qc := Qcabs'.
Definition gtR (a b : Qc) : bool := negb (Qcleb a b).
(* numpy.abs of a complex number is real; on the Hermitian forms the solvers
   apply it to, the imaginary part is exactly 0.  A surviving imaginary part
   is kept so that it shows up in the comparison. *)
Definition absG (z : G) : G := (Qcabs' (fst z), snd z).
Definition gtG (a b : G) : bool := negb (Qcleb (fst a) (fst b)).

Section Chk.
Variable F : FieldS.
Variable absf : F -> F.
Variable gtb : F -> F -> bool.
Variable ofQ : Qc -> F.
Variable re : F -> Qc.
Variable vcl : Qc -> list F -> list F -> bool.
Variable isz : F -> bool.
Notation vec := (list F).

Record irun := { r_id : nat; r_niter : nat; r_tol : Qc; r_exec : bool;
  (* implementation outputs *)
  r_x : vec; r_iiter : nat; r_cost : list Qc; r_istop : nat; r_r1 : Qc; r_r2 : Qc;
  r_cbs : list vec; r_trace : bool; r_begins : list vec; r_ends : list vec }.
Record kase := { k_id : nat; k_solver : nat; k_n : nat; k_A : list (list F); k_y : vec; k_x0 : option vec;
  k_damp : Qc; k_nconv : nat; k_runs : list irun }.

Definition code (b : bool) (c : nat) : list nat := if b then [] else [c].
Fixpoint iter_list {St} (step : St -> St) (k : nat) (st : St) : list St :=
  match k with O => [st] | S k' => st :: iter_list step k' (step st) end.
Fixpoint nonincr (tol : Qc) (l : list Qc) : bool :=
  match l with a :: ((b :: _) as t) => Qcleb b (a + tol * (1 + Qcabs' a))%Qc && nonincr tol t | _ => true end.
Definition sq (a : Qc) : Qc := (a * a)%Qc.
(* BORDERLINE stopping decisions.  `kold > tol` is decided by rounding when, at one of the steps where the
   loop guard is evaluated, (a) the exact kold is within a factor 16 of tol, or (b) the exact kold is below the
   rounding-noise floor nu = 1e-18 * (sum of the exact kold values seen so far; float kold at an exactly converged
   step is ~ (eps * cond)^2 * kold_0 << nu) AND tol itself is below 16 nu: in floating point kold is then some
   noise value that may fall on either side of tol, so the implementation may perform more or fewer iterations
   than the exact model.  In a borderline run the iteration count / istop are not compared; everything else is:
   the implementation's iterates are compared with the model's unconditional iterates (stationary once kold = 0
   exactly, so extra iterations must not move x), and the implementation-only truth checks do not depend on
   the model's stopping step. *)
Definition near_tie (tol : Qc) (kolds : list Qc) : bool :=
  let nu := (fold_right Qcplus 0%Qc kolds * q 1 1000000000000000000)%Qc in
  existsb (fun k => Qcleb (tol / qz 16)%Qc k && Qcleb k (qz 16 * tol)%Qc) kolds ||
  (Qcleb tol (qz 16 * nu)%Qc && existsb (fun k => Qcleb k nu) kolds).
Definition viszero (v : vec) : bool := forallb isz v.
Definition x_init (c : kase) : vec := match k_x0 c with None => zeros F (k_n c) | Some v => v end.
Definition wf_case (c : kase) : bool :=
  wfMb (k_n c) (length (k_y c)) (k_A c) && Nat.eqb (length (x_init c)) (k_n c) &&
  forallb (fun r => Nat.eqb (length (r_x r)) (k_n c) && forallb (fun v => Nat.eqb (length v) (k_n c)) (r_cbs r)) (k_runs c).
(* first index j at which `j < niter and kold_j > tol` is false *)
Fixpoint stop_index (niter : nat) (tol : F) (j : nat) (kolds : list F) : nat :=
  match kolds with
  | [] => j
  | k :: t => if Nat.ltb j niter && gtb k tol then stop_index niter tol (S j) t else j
  end.

(* implementation-only truth checks *)
Definition impl_res2 (c : kase) (x : vec) : Qc := re (lsres2 F (k_A c) (k_y c) x).
Definition impl_J (c : kase) (x : vec) : Qc := re (lsfun F (k_A c) (k_y c) (ofQ (k_damp c)) x).
Definition impl_checks (tol : Qc) (c : kase) (r : irun) : list nat :=
  let xs := x_init c :: r_cbs r in
  code (Nat.eqb (length (r_cost r)) (S (r_iiter r)) && Nat.eqb (length (r_cbs r)) (r_iiter r) &&
        all2 (close tol) (map sq (r_cost r)) (map (impl_res2 c) xs)) 10 ++
  (if Nat.eqb (k_solver c) 1 then
     code (close tol (sq (r_r2 r)) (impl_J c (r_x r))) 11 ++
     code (close tol (sq (r_r1 r)) (impl_res2 c (r_x r))) 12 ++
     code (nonincr (tol / qz 100)%Qc (map (impl_J c) xs)) 14
   else []).

(* what the model says a run returns / shows: iterates x_0..x_it, cost^2 list, r1norm^2, r2norm^2, iiter, istop *)
Record mout := { o_xs : list vec; o_cost2 : list F; o_r1 : F; o_r2sq : F; o_iiter : nat; o_istop : nat }.

Definition cmp_run (tol : Qc) (cgls inplace : bool) (tie : bool) (r : irun) (o : mout) : list nat :=
  let it := r_iiter r in
  let xs := o_xs o in
  code (all2 (vcl tol) (r_cbs r) (tl xs) && vcl tol (r_x r) (last xs [])) 1 ++
  code (Nat.eqb (length (r_cost r)) (S it) && all2 (close tol) (map sq (r_cost r)) (map re (o_cost2 o))) 2 ++
  code (tie || Nat.eqb (o_iiter o) it) 3 ++
  (if tie && negb (Nat.eqb (o_iiter o) it) then [30%nat] else []) ++
  (if cgls then
     code (close tol (sq (r_r2 r)) (re (o_r2sq o))) 5 ++
     code (close tol (sq (r_r1 r)) (re (o_r1 o))) 6 ++
     code (tie || Nat.eqb (o_istop o) (r_istop r)) 7
   else []) ++
  (if r_trace r then
     code (all2 (vcl tol) (r_begins r) (removelast xs) &&
           all2 (vcl tol) (r_ends r) (if inplace then tl xs else removelast xs)) 13
   else []).

Definition chk_cg (tol : Qc) (c : kase) : list (nat * list nat) :=
  let Aop := mv F (k_A c) in
  let st0 := cg_setup F absf Aop (k_n c) (k_y c) (k_x0 c) in
  let K := fold_right Nat.max (k_nconv c) (map r_iiter (k_runs c)) in
  let sts := iter_list (cg_step F absf Aop) K st0 in
  let kolds := map (cg_kold F) sts in
  (k_id c, if Nat.eqb (k_nconv c) 0 then [] else
     let s := nth (k_nconv c) sts st0 in
     code (isz (cg_kold F s) && viszero (vsub F (k_y c) (Aop (cg_x F s)))) 4) ::
  map (fun r =>
    let it := r_iiter r in
    let tolF := ofQ (r_tol r) in
    let itl := stop_index (r_niter r) tolF 0 kolds in
    let tie := near_tie (r_tol r) (map re (firstn (S (Nat.max it itl)) kolds)) in
    let sf := nth it sts st0 in
    let lst := {| o_xs := map (cg_x F) (firstn (S it) sts); o_cost2 := cg_cost2 F sf; o_r1 := r0 F; o_r2sq := r0 F;
                  o_iiter := itl; o_istop := 0 |} in
    let o := if r_exec r then
               let '(x, itr, cost2, log) := cg_solve F absf gtb Aop (k_n c) (k_y c) (k_x0 c) (r_niter r) tolF in
               if Nat.eqb itr it then
                 {| o_xs := x_init c :: callbacks_of log; o_cost2 := cost2; o_r1 := r0 F; o_r2sq := r0 F; o_iiter := itr; o_istop := 0 |}
               else {| o_xs := o_xs lst; o_cost2 := o_cost2 lst; o_r1 := r0 F; o_r2sq := r0 F; o_iiter := itr; o_istop := 0 |}
             else lst in
    (r_id r, cmp_run tol false true tie r o ++ impl_checks tol c r)) (k_runs c).

Definition chk_cgls (tol : Qc) (c : kase) : list (nat * list nat) :=
  let A := k_A c in let n := k_n c in
  let damp := ofQ (k_damp c) in
  let st0 := cgls_setup F absf n A (k_y c) (k_x0 c) damp in
  let K := fold_right Nat.max (k_nconv c) (map r_iiter (k_runs c)) in
  let sts := iter_list (cgls_step F absf n A) K st0 in
  let kolds := map (cl_kold F) sts in
  let Js := map (fun s => re (lsfun F A (k_y c) damp (cl_x F s))) sts in
  (k_id c, (if Nat.eqb (k_nconv c) 0 then [] else
     let s := nth (k_nconv c) sts st0 in
     code (isz (cl_kold F s) &&
           viszero (vsub F (mvH F n A (vsub F (k_y c) (mv F A (cl_x F s)))) (vscale F (rmul F damp damp) (cl_x F s)))) 4) ++
     code (nonincr z0 Js) 9) ::
  map (fun r =>
    let it := r_iiter r in
    let tolF := ofQ (r_tol r) in
    let itl := stop_index (r_niter r) tolF 0 kolds in
    let tie := near_tie (r_tol r) (map re (firstn (S (Nat.max it itl)) kolds)) in
    let sf := nth it sts st0 in
    let lst := {| o_xs := map (cl_x F) (firstn (S it) sts); o_cost2 := cl_cost2 F sf; o_r1 := cgls_r1norm2 F sf;
                  o_r2sq := cgls_r2norm2 F sf; o_iiter := itl; o_istop := cgls_istop F gtb (nth itl sts st0) tolF |} in
    let o := if r_exec r then
               let '(x, istop, itr, r1, r2sq, cost2, log) :=
                 cgls_solve F absf gtb n A (k_y c) (k_x0 c) (r_niter r) damp tolF in
               if Nat.eqb itr it then
                 {| o_xs := x_init c :: callbacks_of log; o_cost2 := cost2; o_r1 := r1; o_r2sq := r2sq; o_iiter := itr; o_istop := istop |}
               else {| o_xs := o_xs lst; o_cost2 := o_cost2 lst; o_r1 := o_r1 lst; o_r2sq := o_r2sq lst; o_iiter := itr; o_istop := istop |}
             else lst in
    (r_id r, cmp_run tol true false tie r o ++ impl_checks tol c r)) (k_runs c).

Definition chk (tol : Qc) (c : kase) : list (nat * list nat) :=
  if wf_case c then (if Nat.eqb (k_solver c) 0 then chk_cg tol c else chk_cgls tol c)
  else [(k_id c, [15%nat])].
Definition run_all (tol : Qc) (cs : list kase) : list (nat * list nat) :=
  filter (fun p => negb (Nat.eqb (length (snd p)) 0%nat)) (flat_map (chk tol) cs).
End Chk.

Definition gisz (z : G) : bool := Qc_eq_bool (fst z) 0%Qc && Qc_eq_bool (snd z) 0%Qc.
Definition kaseR := kase QcF.
Definition kaseC := kase GF.
Definition runR (tol : Qc) (cs : list kaseR) : list (nat * list nat) :=
  run_all QcF absR gtR (fun a => a) (fun a => a) vclose (fun a => Qc_eq_bool a 0%Qc) tol cs.
Definition runC (tol : Qc) (cs : list kaseC) : list (nat * list nat) :=
  run_all GF absG gtG (fun a => (a, 0%Qc)) fst gvclose gisz tol cs.

(* ================= OMP / MP diagnostics (C10) =================
   One ocase = one (dictionary, y, parameters, numpy seed) with three drives
   of the real solver: functional omp() with a callback, class OMP.solve()
   with a Callbacks object, and a manual setup/step drive.  All vectors are
   FULL model vectors (coefficients scattered onto the columns selected so
   far).  Codes:
    20  counts: returned iteration count, number of callback invocations,
        len(cost)-1, solver.iiter, the class API's count, the Callbacks
        begin/end counts and the number of manual steps are not all equal
    21  cost_k^2 is not ||y - A x_k||^2 of the k-th callback iterate (exact)
    22  callback k did not receive the iterate of the manual drive after
        step k, or the returned x is not the last iterate
    23  cost increases (only when oc_mono)
    24  more iterations than niter_outer, or malformed case *)
Section ChkOmp.
Variable F : FieldS.
Variable re : F -> Qc.
Variable vcl : Qc -> list F -> list F -> bool.
Notation vec := (list F).
Record ocase := { oc_id : nat; oc_n : nat; oc_A : list (list F); oc_y : vec; oc_niter : nat; oc_mono : bool;
  oc_x : vec; oc_nout : nat; oc_cost : list Qc; oc_cbs : list vec;
  oc_iiter : nat; oc_nout_cls : nat; oc_nbeg : nat; oc_nend : nat; oc_manual : list vec }.
Definition chk_omp (tol : Qc) (c : ocase) : list nat :=
  let xs := zeros F (oc_n c) :: oc_cbs c in
  let k := oc_nout c in
  code (Nat.eqb (length (oc_cbs c)) k && Nat.eqb (length (oc_cost c)) (S k) && Nat.eqb (oc_iiter c) k &&
        Nat.eqb (oc_nout_cls c) k && Nat.eqb (oc_nbeg c) k && Nat.eqb (oc_nend c) k && Nat.eqb (length (oc_manual c)) k) 20 ++
  code (all2 (close tol) (map sq (oc_cost c)) (map (fun x => re (lsres2 F (oc_A c) (oc_y c) x)) xs)) 21 ++
  code (all2 (vcl tol) (oc_cbs c) (oc_manual c) && vcl tol (oc_x c) (last xs [])) 22 ++
  (if oc_mono c then code (nonincr (tol / qz 100)%Qc (oc_cost c)) 23 else []) ++
  code (Nat.leb k (oc_niter c) && wfMb (oc_n c) (length (oc_y c)) (oc_A c) &&
        forallb (fun v => Nat.eqb (length v) (oc_n c)) (oc_x c :: oc_cbs c)) 24.
End ChkOmp.
Definition ocaseR := ocase QcF.
Definition ocaseC := ocase GF.
Definition runOmpR (tol : Qc) (cs : list ocaseR) := failing (oc_id QcF) (chk_omp QcF (fun a => a) vclose tol) cs.
Definition runOmpC (tol : Qc) (cs : list ocaseC) := failing (oc_id GF) (chk_omp GF fst gvclose tol) cs.
