(* CheckSpread.v — EXECUTION ONLY: outputs of pylops.Spread (engines numpy /
   numba, look-up table / on-the-fly; also the Spread inside Radon2D/3D)
   compared with the Gallina models of Ops/SpreadOp.v evaluated on the SAME
   table literal.  Engine tags: 0 numpy+table, 1 numba+table, 2 numpy+fh,
   3 numba+fh (even -> numpy model, odd -> numba model).
   Codes: 10+tag forward differs, 20+tag adjoint differs, 5 table not
   well-formed (harness error), 6 malformed case. *)
From Coq Require Import QArith Qcanon List.
From PV Require Import Dict Vec Dot Mat QcInst GaussQc Check SpreadOp.
Import ListNotations.

Record spR := { sr_id : nat; sr_nx0 : nat; sr_nt0 : nat; sr_nx : nat; sr_nt : nat; sr_interp : bool;
  sr_tbl : list (list (list (option nat))); sr_dtbl : list (list (list Qc));
  sr_fw : list (nat * list Qc * list Qc); sr_ad : list (nat * list Qc * list Qc) }.
Record spC := { sc_id : nat; sc_nx0 : nat; sc_nt0 : nat; sc_nx : nat; sc_nt : nat; sc_interp : bool;
  sc_tbl : list (list (list (option nat))); sc_dtbl : list (list (list Qc));
  sc_fw : list (nat * list G * list G); sc_ad : list (nat * list G * list G) }.

Definition shape3 {A} (a b c : nat) (t : list (list (list A))) : bool :=
  Nat.eqb (length t) a && forallb (fun p => Nat.eqb (length p) b && forallb (fun r => Nat.eqb (length r) c) p) t.

Section Run.
Variable R : CRing.
Variables (nx0 nt0 nx nt : nat) (interp : bool) (tbl : list (list (list (option nat)))) (dtbl : list (list (list R))).
Definition model_fw (tag : nat) (u : list R) : list R :=
  if Nat.even tag then spread_matvec_numpy R nx0 nt0 nx nt interp (tabT tbl) (tabD R dtbl) u
  else spread_matvec_numba R nx0 nt0 nx nt interp (tabT tbl) (tabD R dtbl) u.
Definition model_ad (tag : nat) (v : list R) : list R :=
  if Nat.even tag then spread_rmatvec_numpy R nx0 nt0 nx nt interp (tabT tbl) (tabD R dtbl) v
  else spread_rmatvec_numba R nx0 nt0 nx nt interp (tabT tbl) (tabD R dtbl) v.
End Run.

Definition bad_tags {V} (cl : V -> V -> bool) (f : nat -> V -> V) (base : nat) (l : list (nat * V * V)) : list nat :=
  nodup Nat.eq_dec (map (fun p => (base + fst (fst p))%nat) (filter (fun p => negb (cl (snd p) (f (fst (fst p)) (snd (fst p))))) l)).

Definition chkspR (tol : Qc) (c : spR) : list nat :=
  let T := tabT (sr_tbl c) in
  (if shape3 (sr_nx0 c) (sr_nt0 c) (sr_nx c) (sr_tbl c) && (negb (sr_interp c) || shape3 (sr_nx0 c) (sr_nt0 c) (sr_nx c) (sr_dtbl c))
   then [] else [6%nat]) ++
  (if wf_tabb (sr_nx0 c) (sr_nt0 c) (sr_nx c) (sr_nt c) (sr_interp c) T then [] else [5%nat]) ++
  bad_tags (vclose tol) (model_fw QcR (sr_nx0 c) (sr_nt0 c) (sr_nx c) (sr_nt c) (sr_interp c) (sr_tbl c) (sr_dtbl c)) 10 (sr_fw c) ++
  bad_tags (vclose tol) (model_ad QcR (sr_nx0 c) (sr_nt0 c) (sr_nx c) (sr_nt c) (sr_interp c) (sr_tbl c) (sr_dtbl c)) 20 (sr_ad c).

Definition gemb (d : Qc) : G := (d, 0%Qc).
Definition chkspC (tol : Qc) (c : spC) : list nat :=
  let T := tabT (sc_tbl c) in
  let Dg := map (map (map gemb)) (sc_dtbl c) in
  (if shape3 (sc_nx0 c) (sc_nt0 c) (sc_nx c) (sc_tbl c) && (negb (sc_interp c) || shape3 (sc_nx0 c) (sc_nt0 c) (sc_nx c) (sc_dtbl c))
   then [] else [6%nat]) ++
  (if wf_tabb (sc_nx0 c) (sc_nt0 c) (sc_nx c) (sc_nt c) (sc_interp c) T then [] else [5%nat]) ++
  bad_tags (gvclose tol) (model_fw GR (sc_nx0 c) (sc_nt0 c) (sc_nx c) (sc_nt c) (sc_interp c) (sc_tbl c) Dg) 10 (sc_fw c) ++
  bad_tags (gvclose tol) (model_ad GR (sc_nx0 c) (sc_nt0 c) (sc_nx c) (sc_nt c) (sc_interp c) (sc_tbl c) Dg) 20 (sc_ad c).
