(* CheckC19.v — EXECUTION ONLY: compares what TorchOperator / JaxOperator /
   PyTensorOperator returned (value + shape, or "raised") with
   (1) the code-shaped model of State/Autodiff.v (correspondence) and
   (2) the property's specification  out[b] = A x[b],  grad = A^T g.
   A is the operator's exact matrix (extracted with plain numpy pylops). *)
From Coq Require Import QArith Qcanon List Bool Arith.
From PV Require Import Dict Vec Dot Mat QcInst Check Autodiff.
Import ListNotations.

Definition res := option (list nat * list Qc).     (* None = the wrapper raised *)

Inductive obs :=
| OFwd (xs : list nat) (x : list Qc) (r : res)
| OVjp (xs : list nat) (x g : list Qc) (r : res)
| OGrad (xs : list nat) (x y : list Qc) (r : res)
| OBFwd (flatten : bool) (xs : list nat) (x : list Qc) (r : res)
| OBVjp (flatten : bool) (xs : list nat) (x g : list Qc) (r : res)
| OBGrad (flatten : bool) (xs : list nat) (x y : list Qc) (r : res)
| OJax (xs : list nat) (g : list Qc) (r : res)
| OQuad (xs : list nat) (x : list Qc) (r : res)            (* grad of <x, Op x> = Op x + Op^T x  (dims = dimsd) *)
| OFwd2 (xs : list nat) (x : list Qc) (r : res)            (* Op (Op x)                          (dims = dimsd) *)
| OScaled (s : Qc) (xs : list nat) (x : list Qc) (r : res).  (* a second wrapper, of s*Op, in the same graph *)

(* k_fw: 0 = torch, 1 = jax, 2 = pytensor *)
Record c19case := { k_id : nat; k_fw : nat; k_tol : Qc; k_n : nat; k_A : list (list Qc);
  k_dims : list nat; k_dimsd : list nat; k_obs : list obs }.

Definition ndq := @nd Qc.
Definition z : Qc := Q2Qc 0.

Definition res_close (tol : Qc) (m : option ndq) (r : res) : bool :=
  match m, r with
  | None, None => true
  | Some a, Some (s, d) => leqb (shp a) s && vclose tol d (dat a)
  | _, _ => false
  end.

Section One.
Variable c : c19case.
Let A := k_A c.
Let n := k_n c.
Let m := length A.
Let dims := k_dims c.
Let dimsd := k_dimsd c.
Let fw := mv QcR A.
Let bw := mvT QcR n A.

Definition bind {X Y} (o : option X) (g : X -> option Y) : option Y := match o with Some a => g a | None => None end.

(* ---- model (as coded) ---- *)
Definition m_fwd (a : ndq) := lop_dot Qc z fw m dims dimsd a.
Definition m_bwd (a : ndq) := lop_dot Qc z bw n dimsd dims a.
Definition m_bfwd fl (a : ndq) := torch_batched Qc z fw m fl dims dimsd a.
Definition m_bbwd fl (a : ndq) := torch_batched Qc z bw n fl dimsd dims a.
(* cotangent g arrives with the shape of the forward result; the gradient
   is reshaped to the input's shape *)
Definition pull (bwd : ndq -> option ndq) (xs : list nat) (y1 : option ndq) (g : ndq -> list Qc) : option ndq :=
  bind y1 (fun a => grad_reshape Qc xs (bwd (mk_nd (shp a) (g a)))).
Definition flat1 (v : list Qc) : option ndq := Some (mk_nd [n] v).
Definition model (o : obs) : option ndq :=
  match o with
  | OFwd xs x _ => m_fwd (mk_nd xs x)
  | OVjp xs x g _ =>
      if Nat.eqb (k_fw c) 1 then flat1 (bw g)                 (* jax.vjp of the raw jitted _matvec: flat *)
      else pull m_bwd xs (m_fwd (mk_nd xs x)) (fun _ => g)
  | OGrad xs x y _ =>
      if Nat.eqb (k_fw c) 1 then flat1 (bw (vsub QcR (fw x) y))
      else pull m_bwd xs (m_fwd (mk_nd xs x)) (fun a => vsub QcR (dat a) y)
  | OBFwd fl xs x _ => m_bfwd fl (mk_nd xs x)
  | OBVjp fl xs x g _ => pull (m_bbwd fl) xs (m_bfwd fl (mk_nd xs x)) (fun _ => g)
  | OBGrad fl xs x y _ => pull (m_bbwd fl) xs (m_bfwd fl (mk_nd xs x)) (fun a => vsub QcR (dat a) y)
  | OJax xs g _ => match jax_rmatvecad QcR n A xs g with
                   | Some v => Some (mk_nd (match xs with [_] => [n] | _ => [n; 1%nat] end) v)
                   | None => None end
  | OQuad xs x _ => bind (m_fwd (mk_nd xs x)) (fun y1 =>
                    bind (grad_reshape Qc xs (m_bwd (mk_nd (shp y1) x))) (fun g1 =>
                    Some (mk_nd xs (vadd QcR (dat y1) (dat g1)))))
  | OFwd2 xs x _ => bind (m_fwd (mk_nd xs x)) m_fwd
  | OScaled s xs x _ => bind (m_fwd (mk_nd xs x)) (fun y1 => Some (mk_nd (shp y1) (vscale QcR s (dat y1))))
  end.

(* ---- specification (the property) ---- *)
Definition brow (f : list Qc -> list Qc) (B N : nat) (x : list Qc) := concat (map f (rows Qc B N x)).
Definition spec (o : obs) : option ndq :=
  match o with
  | OFwd xs x _ => Some (mk_nd (if leqb xs dims then dimsd else [m]) (fw x))
  | OVjp xs _ g _ => Some (mk_nd xs (bw g))
  | OGrad xs x y _ => Some (mk_nd xs (bw (vsub QcR (fw x) y)))
  | OBFwd fl xs x _ => let B := hd 0%nat xs in Some (mk_nd (if fl then [B; m] else B :: dimsd) (brow fw B n x))
  | OBVjp fl xs _ g _ => let B := hd 0%nat xs in Some (mk_nd xs (brow bw B m g))
  | OBGrad fl xs x y _ => let B := hd 0%nat xs in
      Some (mk_nd xs (brow bw B m (vsub QcR (brow fw B n x) y)))
  | OJax xs g _ => Some (mk_nd (match xs with [_] => [n] | _ => [n; 1%nat] end) (bw g))
  | OQuad xs x _ => Some (mk_nd xs (vadd QcR (fw x) (bw x)))
  | OFwd2 xs x _ => Some (mk_nd (if leqb xs dims then dimsd else [m]) (fw (fw x)))
  | OScaled s xs x _ => Some (mk_nd (if leqb xs dims then dimsd else [m]) (vscale QcR s (fw x)))
  end.
Definition impl (o : obs) : res :=
  match o with
  | OFwd _ _ r | OVjp _ _ _ r | OGrad _ _ _ r | OBFwd _ _ _ r | OBVjp _ _ _ _ r | OBGrad _ _ _ _ r | OJax _ _ r
  | OQuad _ _ r | OFwd2 _ _ r | OScaled _ _ _ r => r
  end.

(* codes: 10*i + 1 = observation i differs from the model,
          10*i + 2 = observation i violates the specification,
          9 = malformed matrix *)
Fixpoint chk (i : nat) (l : list obs) : list nat :=
  match l with
  | [] => []
  | o :: l' =>
      (if res_close (k_tol c) (model o) (impl o) then [] else [10 * i + 1]%nat) ++
      (if res_close (k_tol c) (spec o) (impl o) then [] else [10 * i + 2]%nat) ++ chk (S i) l'
  end.
Definition check19 : list nat :=
  (if wfMb n (prod dimsd) A && Nat.eqb (prod dims) n then [] else [9%nat]) ++ chk 0 (k_obs c).
End One.

Definition run19 (cs : list c19case) : list (nat * list nat) := failing k_id check19 cs.
