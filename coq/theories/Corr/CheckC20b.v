(* CheckC20b.v — EXECUTION ONLY: the Fredholm1 / MDC models of Ops/Fredholm.v and Ops/MDCOp.v evaluated
   over the Gaussian rationals and compared (inside vm_compute) with the dense matrices extracted from the
   implementation.  The functions executed are the SAME definitions the theorems talk about
   (fr_fwd_matmul / fr_fwd_loop / fr_adj_*; mdc_fwd / mdc_adj built on rfwd_np / radj_np).  The root of unity,
   1/sqrt(nt), sqrt 2 and dt*dr*sqrt(nt) are supplied by the harness as dyadic approximations (exact for
   nt = 4: w = -i, 1/sqrt 4 = 1/2); sqrt 2 cancels exactly in the MDC chain.
   Codes: 1 forward <> model, 3 adjoint <> model. *)
From Coq Require Import QArith Qcanon ZArith List.
From PV Require Import Dict Vec Dot Mat QcInst GaussQc GaussField Check Axis DFT DFTEngines Fredholm MDCOp.
Import ListNotations.

Definition gsc (n m : Z) : G := (Q2Qc (n # 1099511627776), Q2Qc (m # 1099511627776)).   (* (n + i m) / 2^40 *)
Definition gz (n m : Z) : G := (Q2Qc (n # 1), Q2Qc (m # 1)).
Definition gre (a : Qc) : G := (a, Q2Qc 0).
Definition codeb (b : bool) (c : nat) : list nat := if b then [] else [c].
Definition gcols (n : nat) (f : list G -> list G) : list (list G) := map (fun j => f (unit GR n j)) (seq 0 n).
(* C-order (nsl, r, c) flat vector <-> list of row-major slices *)
Definition unflat3 (nsl r c : nat) (x : list G) : list (list (list G)) := map (chunks GR c r) (chunks GR (r * c) nsl x).

(* ---- Fredholm1(G, nz, saveGt, usematmul): complex dense matrices, forward columns and adjoint columns *)
Record FrCase := { f_id : nat; f_nsl : nat; f_nx : nat; f_ny : nat; f_nz : nat; f_um : bool; f_sg : bool;
  f_G : list (list (list G)); f_M : list (list G); f_A : list (list G) }.
Definition fr_model_fwd (c : FrCase) (x : list G) : list G :=
  let X := unflat3 (f_nsl c) (f_ny c) (f_nz c) x in
  flat3 GS (if f_um c then fr_fwd_matmul GS (f_nz c) (f_G c) X else fr_fwd_loop GS (f_nx c) (f_nz c) (f_G c) X).
Definition fr_model_adj (c : FrCase) (y : list G) : list G :=
  let Y := unflat3 (f_nsl c) (f_nx c) (f_nz c) y in
  flat3 GS (match f_um c, f_sg c with
            | true, true => fr_adj_saved_matmul GS (f_ny c) (f_nz c) (f_G c) Y
            | true, false => fr_adj_fly_matmul GS (f_ny c) (f_nz c) (f_G c) Y
            | false, true => fr_adj_saved_loop GS (f_ny c) (f_nz c) (f_G c) Y
            | false, false => fr_adj_fly_loop GS (f_ny c) (f_nz c) (f_G c) Y end).
Definition check_fr (tol : Qc) (c : FrCase) : list nat :=
  codeb (gmclose tol (f_M c) (gcols (f_nsl c * f_ny c * f_nz c) (fr_model_fwd c))) 1 ++
  codeb (gmclose tol (f_A c) (gcols (f_nsl c * f_nx c * f_nz c) (fr_model_adj c))) 3.

(* ---- MDC: real dense matrices (forward columns, adjoint columns) *)
Record MdcMCase := { d_id : nat; d_N : nat; d_ns : nat; d_nr : nat; d_nv : nat; d_nf : nat;
  d_tw : bool; d_um : bool; d_sg : bool; d_pre : bool; d_cj : bool;
  d_w : G; d_s2 : G; d_sq : G; d_scal : G; d_G : list (list (list G));
  d_M : list (list Qc); d_A : list (list Qc) }.
Definition d_kernel (c : MdcMCase) := kernel GF (d_scal c) (d_pre c) (d_cj c) (d_G c).
Definition mdc_model_fwd (c : MdcMCase) : list G -> list G :=
  mdc_fwd GF (d_w c) (d_N c) (d_s2 c) (d_sq c) (d_ns c) (d_nr c) (d_nv c) (d_nf c) (d_tw c) (d_um c) (d_kernel c).
Definition mdc_model_adj (c : MdcMCase) : list G -> list G :=
  mdc_adj GF (d_w c) (d_N c) (d_s2 c) (d_sq c) (d_ns c) (d_nr c) (d_nv c) (d_nf c) (d_tw c) (d_um c) (d_sg c) (d_kernel c).
Definition check_mdcm (tol : Qc) (c : MdcMCase) : list nat :=
  codeb (gmclose tol (map (map gre) (d_M c)) (gcols (d_N c * (d_nr c * d_nv c)) (mdc_model_fwd c))) 1 ++
  codeb (gmclose tol (map (map gre) (d_A c)) (gcols (d_N c * (d_ns c * d_nv c)) (mdc_model_adj c))) 3.
