(* CheckC07b.v — EXECUTION ONLY: documented-formula matrices of the index,
   convolution and interpolation operators, Kronecker lifting to N-d arrays
   (I (x) M (x) I), and the entrywise comparison with the matrix extracted from
   the implementation by unit vectors. *)
From Coq Require Import QArith Qcanon ZArith List Qround.
From PV Require Import Dict Vec Dot Mat QcInst GaussQc Check IndexOps Conv InterpOps ConvND BilinearOp.
Import ListNotations.

Section SpecM.
Variable R : CRing.
Notation mat := (list (list R)).
Notation vec := (list R).

(* matrix of a row-wise specification: entry (i, j) = spec i (e_j) *)
Definition specM (m n : nat) (spec : nat -> vec -> R) : mat :=
  map (fun i => map (fun j => spec i (unit R n j)) (seq 0 n)) (seq 0 m).
Definition eye (n : nat) : mat := specM n n (fun i x => nth i x (r0 R)).
Definition kron (A B : mat) : mat :=
  flat_map (fun ra => map (fun rb => flat_map (fun a => map (rmul R a) rb) ra) B) A.
Definition kronl (Ms : list mat) : mat := fold_right kron [[r1 R]] Ms.
Definition kron3 (outer inner : nat) (M : mat) : mat := kron (eye outer) (kron M (eye inner)).

(* C-order multi-indices *)
Definition prodl (d : list nat) : nat := fold_right Nat.mul 1%nat d.
Fixpoint unravel (dims : list nat) (r : nat) : list nat :=
  match dims with
  | [] => []
  | d :: ds => (r / prodl ds)%nat :: unravel ds (r mod prodl ds)%nat
  end.
Definition ravel (dims idx : list nat) : nat :=
  fold_left (fun acc p => (acc * fst p + snd p)%nat) (combine dims idx) 0%nat.
Fixpoint index_of (b : nat) (l : list nat) : nat :=
  match l with [] => 0%nat | a :: l' => if Nat.eqb a b then 0%nat else S (index_of b l') end.
(* x.transpose(axes): y[k] = x[idx], idx[axes[a]] = k[a]; dimsd[a] = dims[axes[a]] *)
Definition transp_specM (dims axes : list nat) : mat :=
  let dimsd := map (fun a => nth a dims 0%nat) axes in
  let N := prodl dims in
  map (fun r => let k := unravel dimsd r in
                let idx := map (fun b => nth (index_of b axes) k 0%nat) (seq 0 (length dims)) in
                let c0 := ravel dims idx in
                map (fun c => if Nat.eqb c c0 then r1 R else r0 R) (seq 0 N)) (seq 0 N).

(* N-d (up to 3-D, C order) convolution with a compact kernel centred at offs:
   y[i] = sum_k h[k] x[i - k + offs], zero extension *)
Definition zidx (i j o : nat) : Z := (Z.of_nat i - Z.of_nat j + Z.of_nat o)%Z.
Definition conv3_specM (dims : list nat) (h : list (list (list R))) (offs : list nat) : mat :=
  let N := prodl dims in
  map (fun r => let i := unravel dims r in
     map (fun c => let j := unravel dims c in
        let k0 := zidx (nth 0 i 0%nat) (nth 0 j 0%nat) (nth 0 offs 0%nat) in
        let k1 := zidx (nth 1 i 0%nat) (nth 1 j 0%nat) (nth 1 offs 0%nat) in
        let k2 := zidx (nth 2 i 0%nat) (nth 2 j 0%nat) (nth 2 offs 0%nat) in
        if ((k0 <? 0) || (k1 <? 0) || (k2 <? 0))%Z%bool then r0 R
        else nth (Z.to_nat k2) (nth (Z.to_nat k1) (nth (Z.to_nat k0) h []) []) (r0 R))
       (seq 0 N)) (seq 0 N).

Fixpoint rpow (a : R) (k : nat) : R := match k with O => r1 R | S k' => rmul R a (rpow a k') end.
Definition vander (t : vec) (order : nat) : mat := map (fun ti => map (rpow ti) (seq 0 (S order))) t.
Definition smooth_h (ns : nat) (inv : R) : vec := repeat inv ns.
(* matrix of an executable model: column j = f (e_j); m rows *)
Definition modelM (m n : nat) (f : vec -> vec) : mat :=
  let cols := map (fun j => f (unit R n j)) (seq 0 n) in
  map (fun i => map (fun c => nth i c (r0 R)) cols) (seq 0 m).
End SpecM.

(* ---- interpolation positions -> (floor, weight), on Qc ---- *)
Definition qfloor (p : Qc) : nat := Z.to_nat (Qfloor (this p)).
Definition eps10 : Qc := Q2Qc (1 # 10000000000).
(* documented edge rule: positions at or beyond the last sample are forced just before it *)
Definition interp_pos (n : nat) (p : Qc) : Qc :=
  if Qcleb (Q2Qc (Z.of_nat n - 1 # 1)) p then (Q2Qc (Z.of_nat n - 1 # 1) - eps10)%Qc else p.
Definition pfloor (p : Qc) : nat := qfloor p.
Definition pweight (p : Qc) : Qc := (p - Q2Qc (Z.of_nat (qfloor p) # 1))%Qc.
Definition interp_linear_specM (n : nat) (pos : list Qc) : list (list Qc) :=
  let ps := map (interp_pos n) pos in
  specM QcR (length pos) n (interp_spec QcR (map pfloor ps) (map pweight ps)).
(* numpy.round: round half to EVEN (0.5 -> 0, 1.5 -> 2, 2.5 -> 2), as documented for
   Interp(kind='nearest') = Restriction at np.round(iava) *)
Definition qround (p : Qc) : nat :=
  let f := Qfloor (this p) in
  let r := (p - Q2Qc (f # 1))%Qc in
  let half := Q2Qc (1 # 2) in
  if Qcleb r half then
    (if Qcleb half r then (if Z.even f then Z.to_nat f else Z.to_nat (f + 1)) else Z.to_nat f)
  else Z.to_nat (f + 1).
Definition bilinear_specM (n1 n2 : nat) (p0 p1 : list Qc) : list (list Qc) :=
  specM QcR (length p0) (n1 * n2) (bilin_spec QcR n2 (map pfloor p0) (map pfloor p1) (map pweight p0) (map pweight p1)).

(* ---- comparison: first differing entry ---- *)
Fixpoint fd_row {A} (f : A -> A -> bool) (j : nat) (u v : list A) : option nat :=
  match u, v with
  | [], [] => None
  | a :: u', b :: v' => if f a b then fd_row f (S j) u' v' else Some j
  | _, _ => Some j
  end.
Fixpoint fd_mat {A} (f : A -> A -> bool) (i : nat) (U V : list (list A)) : option (nat * nat) :=
  match U, V with
  | [], [] => None
  | u :: U', v :: V' => match fd_row f 0 u v with Some j => Some (i, j) | None => fd_mat f (S i) U' V' end
  | _, _ => Some (i, 0%nat)
  end.

Record caseR := { kr_id : nat; kr_spec : list (list Qc); kr_A : list (list Qc); kr_B : list (list Qc);
  kr_mf : option (list Qc -> list Qc); kr_ma : option (list Qc -> list Qc) }.
Record caseC := { kc_id : nat; kc_spec : list (list G); kc_A : list (list G); kc_B : list (list G);
  kc_mf : option (list G -> list G); kc_ma : option (list G -> list G) }.
(* codes (triples): [1; i; j] forward matrix differs from the documented matrix at (i, j)
                    [2; i; j] adjoint matrix differs from its conjugate transpose at (i, j)
                    [3; i; j] forward matrix differs from the executable code-shaped model on e_j
                    [4; i; j] adjoint matrix differs from the executable adjoint model on e_j *)
Definition code_of (c : nat) (o : option (nat * nat)) : list nat :=
  match o with None => [] | Some (i, j) => [c; i; j] end.
Definition ncols {A} (M : list (list A)) : nat := match M with [] => 0%nat | r :: _ => length r end.
Definition chkR (tol : Qc) (c : caseR) : list nat :=
  let m := length (kr_spec c) in let n := ncols (kr_spec c) in
  code_of 1 (fd_mat (close tol) 0 (kr_A c) (kr_spec c)) ++
  code_of 2 (fd_mat (close tol) 0 (kr_B c) (ctranspose QcS n (kr_spec c))) ++
  match kr_mf c with None => [] | Some f => code_of 3 (fd_mat (close tol) 0 (kr_A c) (modelM QcR m n f)) end ++
  match kr_ma c with None => [] | Some g => code_of 4 (fd_mat (close tol) 0 (kr_B c) (modelM QcR n m g)) end.
Definition chkC (tol : Qc) (c : caseC) : list nat :=
  let m := length (kc_spec c) in let n := ncols (kc_spec c) in
  code_of 1 (fd_mat (gcl tol) 0 (kc_A c) (kc_spec c)) ++
  code_of 2 (fd_mat (gcl tol) 0 (kc_B c) (ctranspose GS n (kc_spec c))) ++
  match kc_mf c with None => [] | Some f => code_of 3 (fd_mat (gcl tol) 0 (kc_A c) (modelM GR m n f)) end ++
  match kc_ma c with None => [] | Some g => code_of 4 (fd_mat (gcl tol) 0 (kc_B c) (modelM GR n m g)) end.
(* positions -> floor indices / weights for the executable Interp / Bilinear models *)
Definition interp_ls (n : nat) (pos : list Qc) : list nat := map pfloor (map (interp_pos n) pos).
Definition interp_ws (n : nat) (pos : list Qc) : list Qc := map pweight (map (interp_pos n) pos).
