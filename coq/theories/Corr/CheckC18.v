(* CheckC18.v — EXECUTION ONLY: evaluates the dottest model (State/DotTest.v)
   on the exact dyadic values of A, B, u, v, rtol, atol of one real dottest
   call and compares the predicted outcome with the observed one.
   Codes: 1 = the vectors the operator was applied to are not draw(complexflag, stream),
          2 = returned / raised outcome contradicts the tolerance predicate,
          4 = malformed case,  9 = Borderline (within float noise of the threshold; not judged). *)
From Coq Require Import QArith Qcanon ZArith List Bool.
From PV Require Import Dict Vec Dot Mat QcInst GaussQc Check DotTest.
Import ListNotations.

Definition Cq : StarRing := CPS QcO.

Definition sqrt_enc (x : Qc) : Qc * Qc :=
  let n := Qnum (this x) in
  let d := Zpos (Qden (this x)) in
  if (n <=? 0)%Z then (z0, z0) else
  let k := (2 ^ 70)%Z in
  let s := Z.sqrt (n * d * k * k) in
  let den := Z.to_pos (d * k) in
  let lo := Q2Qc (s # den) in
  if Qc_eq_bool (lo * lo)%Qc x then (lo, lo) else (lo, Q2Qc ((s + 1) # den)).

Definition gabs1 (z : G) : Qc := (Qcabs' (fst z) + Qcabs' (snd z))%Qc.
Definition geqb (a b : G) : bool := Qc_eq_bool (fst a) (fst b) && Qc_eq_bool (snd a) (snd b).
Definition gveqb := all2 geqb.

Record case18 := {
  k_id : nat;
  k_kind : nat;          (* 0: clinear branch, Gaussian matrices;  1: R-linear, real matrices on re ++ im *)
  k_cf : nat; k_nr : nat; k_nc : nat;
  k_eps : Qc;            (* unit roundoff of the working precision *)
  k_rtol : Qc; k_atol : Qc;
  k_raise : bool;
  k_Ac : list (list G); k_Bc : list (list G);
  k_Ar : list (list Qc); k_Br : list (list Qc);
  k_stream : list Qc;    (* re-derived successive randn draws *)
  k_u : list G; k_v : list G;    (* vectors the operator was applied to *)
  k_ret : nat            (* 1 returned True, 0 returned False, 2 AssertionError, 3 anything else *)
}.

Definition scale18 (c : case18) : Qc :=
  match k_kind c with
  | O => let au := map gabs1 (k_u c) in let av := map gabs1 (k_v c) in
         (dotu QcR (mv QcR (map (map gabs1) (k_Ac c)) au) av + dotu QcR au (mv QcR (map (map gabs1) (k_Bc c)) av))%Qc
  | _ => let au := map Qcabs' (split QcO (k_u c)) in let av := map Qcabs' (split QcO (k_v c)) in
         (dotu QcR (mv QcR (map (map Qcabs') (k_Ar c)) au) av + dotu QcR au (mv QcR (map (map Qcabs') (k_Br c)) av))%Qc
  end.
Definition noise18 (c : case18) : Qc :=
  (qz 100 * k_eps c * (scale18 c * (1 + k_rtol c) + k_atol c))%Qc.

Definition verdict18 (c : case18) : verdict3 :=
  match k_kind c with
  | O => let xx := dt_xx Cq (k_Bc c) (k_u c) (k_v c) in
         let yy := dt_yy Cq (k_Ac c) (k_u c) (k_v c) in
         dottest3_cplx QcO (noise18 c) (k_Ac c) (k_Bc c) (k_u c) (k_v c) (k_rtol c) (k_atol c)
           (sqrt_enc (nrm2 QcO (rsub Cq xx yy))) (sqrt_enc (nrm2 QcO yy))
  | _ => decide3_real QcO (noise18 c) (k_rtol c) (k_atol c)
           (rl_xx QcO (k_Br c) (k_nc c) (k_u c) (k_v c)) (rl_yy QcO (k_Ar c) (k_nr c) (k_u c) (k_v c))
  end.

Definition wf18 (c : case18) : bool :=
  Nat.eqb (length (k_u c)) (k_nc c) && Nat.eqb (length (k_v c)) (k_nr c) &&
  match k_kind c with
  | O => wfMb (k_nc c) (k_nr c) (k_Ac c) && wfMb (k_nr c) (k_nc c) (k_Bc c)
  | _ => wfMb (k_nc c + k_nc c) (k_nr c + k_nr c) (k_Ar c) && wfMb (k_nr c + k_nr c) (k_nc c + k_nc c) (k_Br c)
  end.

Definition fail_ret (c : case18) : nat := if k_raise c then 2%nat else 0%nat.

Definition check18 (c : case18) : list nat :=
  if negb (wf18 c) then [4%nat] else
  (let d := draw QcR (k_cf c) (k_nc c) (k_nr c) (k_stream c) in
   if gveqb (fst d) (k_u c) && gveqb (snd d) (k_v c) then [] else [1%nat]) ++
  match verdict18 c with
  | VTrue => if Nat.eqb (k_ret c) 1 then [] else [2%nat]
  | VFalse => if Nat.eqb (k_ret c) (fail_ret c) then [] else [2%nat]
  | VBorder => 9%nat :: (if Nat.eqb (k_ret c) 1 || Nat.eqb (k_ret c) (fail_ret c) then [] else [2%nat])
  end.

Definition run18 (cs : list case18) : list (nat * list nat) := failing k_id check18 cs.
