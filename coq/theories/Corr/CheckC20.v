(* CheckC20.v — EXECUTION ONLY (run by vm_compute from harness-generated case files):
   the Seismic.v models evaluated over Qc with the exact dyadic taps / AVO tables, compared
   entrywise with the dense matrices extracted from BOTH constructions of the implementation.
   Matrices of the implementation are passed as lists of COLUMNS for the forward map (M^T rows)
   and as lists of ROWS for the adjoint map, so both are compared with the same model columns.
   Codes: 1 explicit forward <> model explicit   2 matrix-free forward <> model chain
          3 explicit adjoint <> (model explicit)^T   4 matrix-free adjoint <> (model chain)^T
          5 model explicit <> model chain (after the rearrangement) — exact equality over Qc
          6 explicit implementation <> matrix-free implementation (after the rearrangement)
          7 malformed input. *)
From Coq Require Import QArith Qcanon ZArith List.
From PV Require Import Dict Vec Dot Mat QcInst Check Seismic.
Import ListNotations.

Definition qhalf : Qc := q 1 2.
(* implementation outputs as scaled integers: n / 2^40 *)
Definition sc (n : Z) : Qc := Q2Qc (n # 1099511627776).
Definition kd_of (centered : bool) : dkind := if centered then Centered else Forward.
Definition cols_of (N : nat) (f : list Qc -> list Qc) : list (list Qc) := map (fun j => f (unit QcR N j)) (seq 0 N).
Definition meqb (A B : list (list Qc)) : bool := all2 (all2 Qc_eq_bool) A B.
Definition code (b : bool) (c : nat) : list nat := if b then [] else [c].
Definition cmp (tol : Qc) (E L AE AL cE cL cLE : list (list Qc)) : list nat :=
  code (mclose tol E cE) 1 ++ code (mclose tol L cL) 2 ++ code (mclose tol AE cE) 3 ++ code (mclose tol AL cL) 4 ++
  code (meqb cL cLE) 5.

(* ---- post-stack, stationary wavelet *)
Record PostCase := { p_id : nat; p_w : list Qc; p_nt0 : nat; p_cent : bool; p_ncol : nat;
  p_E : list (list Qc); p_L : list (list Qc); p_AE : list (list Qc); p_AL : list (list Qc) }.
Definition check_post (tol : Qc) (c : PostCase) : list nat :=
  let kd := kd_of (p_cent c) in let n := p_nt0 c in let N := (n * p_ncol c)%nat in
  let M := post_explicit QcR qhalf (p_w c) n kd in
  let cE := cols_of N (along0 QcR (p_ncol c) n n (mv QcR M)) in
  let cL := cols_of N (along0 QcR (p_ncol c) n n (post_lop QcR qhalf (p_w c) kd)) in
  cmp tol (p_E c) (p_L c) (p_AE c) (p_AL c) cE cL cE ++ code (mclose tol (p_E c) (p_L c)) 6.

(* ---- post-stack, non-stationary wavelets H (nt0 x nh) *)
Record NsCase := { n_id : nat; n_H : list (list Qc); n_nt0 : nat; n_cent : bool; n_ncol : nat;
  n_E : list (list Qc); n_L : list (list Qc); n_AE : list (list Qc); n_AL : list (list Qc) }.
Definition check_ns (tol : Qc) (c : NsCase) : list nat :=
  let kd := kd_of (n_cent c) in let n := n_nt0 c in let N := (n * n_ncol c)%nat in
  let C := nsconvmtx_model QcR (n_H c) n (length (hd [] (n_H c)) / 2) in
  let M := mm QcR n C (D_coded QcR qhalf kd n) in
  let cE := cols_of N (along0 QcR (n_ncol c) n n (mv QcR M)) in
  let cL := cols_of N (along0 QcR (n_ncol c) n n (fun z => mv QcR C (deriv QcR qhalf kd z))) in
  cmp tol (n_E c) (n_L c) (n_AE c) (n_AL c) cE cL cE ++ code (mclose tol (n_E c) (n_L c)) 6.

(* ---- pre-stack: G = npars tables (ntheta x nt0) as returned by akirichards / fatti / ps *)
Record PreCase := { s_id : nat; s_w : list Qc; s_nt0 : nat; s_cent : bool; s_G : list (list (list Qc));
  s_nth : nat; s_ns : nat;
  s_E : list (list Qc); s_L : list (list Qc); s_AE : list (list Qc); s_AL : list (list Qc) }.
(* columns of the time-major matrix obtained from the parameter-major one by the documented rearrangement *)
Definition rearrange (n npar nt ns : nat) (cE : list (list Qc)) : list (list Qc) :=
  map (fun j => permute QcR (perm_tm2pm n nt ns) (n * nt * ns) (nth (perm_tm2pm n npar ns j) cE []))
      (seq 0 (n * npar * ns)).
Definition check_pre (tol : Qc) (c : PreCase) : list nat :=
  let kd := kd_of (s_cent c) in let n := s_nt0 c in let G := s_G c in let npar := length G in
  let nt := s_nth c in let ns := s_ns c in
  let M := pre_explicit QcR qhalf (s_w c) n kd G nt in
  let cE := cols_of (npar * n * ns) (along0 QcR ns (npar * n) (nt * n) (mv QcR M)) in
  let cL := cols_of (n * npar * ns) (pre_lop QcR qhalf (s_w c) kd G n nt ns) in
  cmp tol (s_E c) (s_L c) (s_AE c) (s_AL c) cE cL (rearrange n npar nt ns cE) ++
  code (mclose tol (s_L c) (rearrange n npar nt ns (s_E c))) 6.

(* ---- MDC: implementation vs numpy frequency-by-frequency reference (no Coq model of the FFT):
   only the tolerance comparison is done here.  1 forward, 3 adjoint *)
Record MdcCase := { m_id : nat; m_M : list (list Qc); m_A : list (list Qc); m_ref : list (list Qc) }.
Definition check_mdc (tol : Qc) (c : MdcCase) : list nat :=
  code (mclose tol (m_M c) (m_ref c)) 1 ++ code (mclose tol (m_A c) (m_ref c)) 3.
