(* CheckC07a.v — EXECUTION ONLY: compares the dense matrix extracted from the
   implementation (sparse triplets) with the matrix of the documented formula
   (index-wise spec applied to unit vectors; N-d through I (x) M (x) I) and with
   the code-shaped model, inside Coq over Qc. *)
From Coq Require Import QArith Qcanon ZArith List Bool.
From PV Require Import Dict Vec Dot Mat QcInst Check Slice Deriv Deriv2 Causal Axis AxisOps.
Import ListNotations.

Definition ent := nat -> nat -> Qc.
Definition tolq : Qc := Q2Qc (1 # 1000000000).
Definition qc0 : Qc := Q2Qc 0.

Definition e_mat (M : list (list Qc)) : ent := fun i j => nth j (nth i M []) qc0.
(* rows x cols matrix of an index-wise specification *)
Definition specmat (m n : nat) (sp : nat -> list Qc -> Qc) : list (list Qc) :=
  map (fun i => map (fun j => sp i (unit QcR n j)) (seq 0 n)) (seq 0 m).
(* rows x cols matrix of a vector function (columns = images of unit vectors) *)
Definition matof (m n : nat) (f : list Qc -> list Qc) : list (list Qc) :=
  let cols := map (fun j => f (unit QcR n j)) (seq 0 n) in
  map (fun i => map (fun c => nth i c qc0) cols) (seq 0 m).
(* I_outer (x) M (x) I_inner, M : m x n — the 1-D map applied along one axis of a C-ordered array *)
Definition e_along (inner m n : nat) (M : ent) : ent := fun i j =>
  let t := Nat.modulo i inner in let r := Nat.modulo (Nat.div i inner) m in let o := Nat.div (Nat.div i inner) m in
  let t' := Nat.modulo j inner in let c := Nat.modulo (Nat.div j inner) n in let o' := Nat.div (Nat.div j inner) n in
  if (t =? t') && (o =? o') then M r c else qc0.
Definition e_add (a b : ent) : ent := fun i j => (a i j + b i j)%Qc.
Definition e_scale (c : Qc) (a : ent) : ent := fun i j => (c * a i j)%Qc.
Definition e_zero : ent := fun _ _ => qc0.
Definition e_T (a : ent) : ent := fun i j => a j i.
Definition e_vstack (N : nat) (es : list ent) : ent := fun i j => nth (Nat.div i N) es e_zero (Nat.modulo i N) j.
Definition e_rowscale (v : nat -> Qc) (a : ent) : ent := fun i j => (v i * a i j)%Qc.
Fixpoint qsum (f : nat -> Qc) (k : nat) : Qc := match k with O => qc0 | S k' => (qsum f k' + f k')%Qc end.
(* - A^T A for A : m x n *)
Definition e_negATA (m : nat) (a : ent) : ent := fun i j => (- qsum (fun r => a r i * a r j) m)%Qc.

Definition trip := (nat * nat * Qc)%type.
Definition lookup (sp : list trip) (i j : nat) : Qc :=
  match find (fun e => (fst (fst e) =? i) && (snd (fst e) =? j)) sp with Some e => snd e | None => qc0 end.
Definition qparts (a : Qc) : list Z := [Qnum (this a); Zpos (Qden (this a))].
(* first (i, j) where the implementation value differs from the reference *)
Definition first_bad (rows cols : nat) (e : ent) (sp : list trip) : option (nat * nat) :=
  find (fun p => negb (close tolq (lookup sp (fst p) (snd p)) (e (fst p) (snd p)))) (list_prod (seq 0 rows) (seq 0 cols)).
Definition inrange (rows cols : nat) (sp : list trip) : bool :=
  forallb (fun e => (fst (fst e) <? rows) && (snd (fst e) <? cols)) sp.

Record case := { cid : nat; rows : nat; cols : nat;
  frefs : list (Z * ent);     (* references for the forward matrix (rows x cols): (code, entries) *)
  arefs : list (Z * ent);     (* references for the adjoint matrix (cols x rows) *)
  cA : list trip; cB : list trip }.

Definition chk1 (id : nat) (r c : nat) (sp : list trip) (ref : Z * ent) : list (nat * list Z) :=
  if negb (inrange r c sp) then [(id, [fst ref; (-1)%Z; (-1)%Z; 0%Z; 1%Z])] else
  match first_bad r c (snd ref) sp with
  | None => []
  | Some (i, j) => [(id, [fst ref; Z.of_nat i; Z.of_nat j] ++ qparts (snd ref i j))]
  end.
Definition check (c : case) : list (nat * list Z) :=
  flat_map (chk1 (cid c) (rows c) (cols c) (cA c)) (frefs c) ++
  flat_map (chk1 (cid c) (cols c) (rows c) (cB c)) (arefs c).
Definition runall (cs : list case) : list (nat * list Z) := flat_map check cs.

(* ---------------- families ---------------- *)
Definition sinv (s : Qc) : Qc := (/ s)%Qc.
Definition fd_M (k : dkind) (o5 e : bool) (s : Qc) (n : nat) := e_mat (specmat n n (fun i x => fd_spec QcF k o5 e s n i x)).
Definition fd_Mm (k : dkind) (o5 e : bool) (s : Qc) (n : nat) := e_mat (matof n n (fd_fwd QcF k o5 e s)).
Definition fd_Ma (k : dkind) (o5 e : bool) (s : Qc) (n : nat) := e_mat (matof n n (fd_adj QcF k o5 e s)).
Definition sd_M (k : dkind) (e : bool) (s : Qc) (n : nat) := e_mat (specmat n n (fun i x => sd_spec QcF k e s n i x)).
Definition sd_Mm (k : dkind) (e : bool) (s : Qc) (n : nat) := e_mat (matof n n (sd_fwd QcF k e s)).
Definition sd_Ma (k : dkind) (e : bool) (s : Qc) (n : nat) := e_mat (matof n n (sd_adj QcF k e s)).
Definition rf1 (rf : bool) (n : nat) := if rf then (n - 1)%nat else n.
Definition ci_M (k : ckind) (rf : bool) (s : Qc) (n : nat) := e_mat (specmat (rf1 rf n) n (fun i x => ci_spec QcF k rf s i x)).
Definition ci_Mm (k : ckind) (rf : bool) (s : Qc) (n : nat) := e_mat (matof (rf1 rf n) n (ci_mv QcF k rf s)).
Definition ci_Ma (k : ckind) (rf : bool) (s : Qc) (n : nat) := e_mat (matof n (rf1 rf n) (ci_rmv QcF k rf s)).

(* the N-d code-shaped model: the 1-D model lifted by Axis.along_axis_gen, EXECUTED on unit vectors
   (codes 2 / 3); code 1 = documented stencil placed by I (x) M (x) I *)
Definition nd_mat (rows cols : nat) (f : list Qc -> list Qc) : ent := e_mat (matof rows cols f).
(* FirstDerivative(dims, axis, sampling, kind, edge, order): dims = outer x n x inner *)
Definition mkFD id (k : dkind) (o5 e : bool) (s : Qc) (outer n inner : nat) A B : case :=
  let N := (outer * n * inner)%nat in
  {| cid := id; rows := N; cols := N;
     frefs := [(1%Z, e_along inner n n (fd_M k o5 e s n)); (2%Z, nd_mat N N (fd_nd QcF outer n inner k o5 e s))];
     arefs := [(3%Z, nd_mat N N (fd_nd_adj QcF outer n inner k o5 e s))]; cA := A; cB := B |}.
Definition mkSD id (k : dkind) (e : bool) (s : Qc) (outer n inner : nat) A B : case :=
  let N := (outer * n * inner)%nat in
  {| cid := id; rows := N; cols := N;
     frefs := [(1%Z, e_along inner n n (sd_M k e s n)); (2%Z, nd_mat N N (sd_nd QcF outer n inner k e s))];
     arefs := [(3%Z, nd_mat N N (sd_nd_adj QcF outer n inner k e s))]; cA := A; cB := B |}.
Definition mkCI id (k : ckind) (rf : bool) (s : Qc) (outer n inner : nat) A B : case :=
  let m := rf1 rf n in
  let Nr := (outer * m * inner)%nat in let Nc := (outer * n * inner)%nat in
  {| cid := id; rows := Nr; cols := Nc;
     frefs := [(1%Z, e_along inner m n (ci_M k rf s n)); (2%Z, nd_mat Nr Nc (ci_nd QcF outer n inner k rf s))];
     arefs := [(3%Z, nd_mat Nc Nr (ci_nd_adj QcF outer n inner k rf s))]; cA := A; cB := B |}.
(* axes: list of (n, inner, weight, sampling); N = total size *)
Definition axis4 := (nat * nat * Qc * Qc)%type.
Definition lap_ent (kinds : list dkind) (e : bool) (axes : list axis4) : ent :=
  fold_right (fun p acc => let '(k, (n, inner, w, s)) := p in e_add (e_scale w (e_along inner n n (sd_M k e s n))) acc)
             e_zero (combine kinds axes).
(* Laplacian: weighted sum over the axes of the documented SecondDerivative stencil, same kind and
   edge on every axis *)
Definition to_axis (N : nat) (p : axis4) : axis QcF :=
  let '(n, inner, w, s) := p in Build_axis QcF (Nat.div N (n * inner)) n inner w s.
Definition mkLap id (k : dkind) (e : bool) (N : nat) (axes : list axis4) A B : case :=
  let doc := lap_ent (map (fun _ => k) axes) e axes in
  let ax := map (to_axis N) axes in
  {| cid := id; rows := N; cols := N; frefs := [(1%Z, doc); (2%Z, nd_mat N N (lap_nd QcF N k e ax))];
     arefs := [(3%Z, nd_mat N N (lap_nd_adj QcF N k e ax))]; cA := A; cB := B |}.
(* Gradient: vertical stack over the axes of FirstDerivative (order 3) *)
Definition grad_ents (k : dkind) (e : bool) (axes : list axis4) : list ent :=
  map (fun p => let '(n, inner, w, s) := p in e_along inner n n (fd_M k false e s n)) axes.
Definition mkGrad id (k : dkind) (e : bool) (N : nat) (axes : list axis4) A B : case :=
  let g := e_vstack N (grad_ents k e axes) in
  let ax := map (to_axis N) axes in let Nr := (length axes * N)%nat in
  {| cid := id; rows := Nr; cols := N; frefs := [(1%Z, g); (2%Z, nd_mat Nr N (grad_nd QcF k e ax))];
     arefs := [(3%Z, nd_mat N Nr (grad_nd_adj QcF N k e ax))]; cA := A; cB := B |}.
(* FirstDirectionalDerivative: sum_k v_k(i) * (D_k x)(i);  v given flattened (ndim*N entries, constant
   directions are expanded by the caller) *)
Definition ddir_ent (k : dkind) (e : bool) (N : nat) (axes : list axis4) (v : list Qc) : ent :=
  let gs := grad_ents k e axes in
  fun i j => qsum (fun a => (nth (a * N + i) v qc0 * nth a gs e_zero i j)%Qc) (length axes).
Definition mkDD1 id (k : dkind) (e : bool) (N : nat) (axes : list axis4) (v : list Qc) A B : case :=
  let d := ddir_ent k e N axes v in
  let ax := combine (map (to_axis N) axes) (chunks QcR N (length axes) v) in
  {| cid := id; rows := N; cols := N; frefs := [(1%Z, d); (2%Z, nd_mat N N (fdd_nd QcF N k e ax))];
     arefs := [(3%Z, nd_mat N N (fdd_nd_adj QcF N k e ax))]; cA := A; cB := B |}.
(* SecondDirectionalDerivative: - D_v^T D_v with the centred first directional derivative *)
Definition mkDD2 id (e : bool) (N : nat) (axes : list axis4) (v : list Qc) A B : case :=
  let d := e_negATA N (ddir_ent Centered e N axes v) in
  let ax := combine (map (to_axis N) axes) (chunks QcR N (length axes) v) in
  {| cid := id; rows := N; cols := N; frefs := [(1%Z, d); (2%Z, nd_mat N N (sdd_nd QcF N e ax))];
     arefs := [(3%Z, nd_mat N N (sdd_nd QcF N e ax))]; cA := A; cB := B |}.
