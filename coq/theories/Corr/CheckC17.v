(* CheckC17.v — EXECUTION ONLY: comparison of the dense / sparse / explicit
   views returned by the implementation with the matrix C whose columns are
   the operator applied to the unit vectors, and exact certificates for
   trace, spectrum (power sums) and '/' computed from C. *)
From Coq Require Import QArith Qcanon ZArith List.
From PV Require Import Dict Vec Dot Mat QcInst GaussQc Check.
Import ListNotations.

Section Gen.
Variable R : CRing.
Variable cl : R -> R -> bool.          (* observed, expected *)
Notation mat := (list (list R)).
Definition mm (n : nat) (A B : mat) : mat := map (fun row => mvT R n B row) A.   (* n = ncols B *)
Definition trace (M : mat) : R := vsum R (map (fun i => nth i (nth i M []) (r0 R)) (seq 0 (length M))).
Fixpoint powsums (n k : nat) (M P : mat) : list R :=     (* trace(P), trace(P M), ... k terms *)
  match k with O => [] | S k' => trace P :: powsums n k' M (mm n P M) end.
Fixpoint pw (a : R) (k : nat) : R := match k with O => r1 R | S k' => rmul R a (pw a k') end.
Definition lam_powsums (lams : list R) (k : nat) : list R :=
  map (fun j => vsum R (map (fun l => pw l (S j)) lams)) (seq 0 k).
Definition views_bad (C : mat) (views : list mat) : list nat :=
  map fst (filter (fun p => negb (all2 (all2 cl) (snd p) C)) (combine (seq 0 (length views)) views)).
End Gen.

Definition cC (s : Qc) (tol : Qc) (a b : Qc) := Qcleb (Qcabs' (a - b)) (tol * (s + Qcabs' b))%Qc.
Definition gC (s : Qc) (tol : Qc) (a b : G) :=
  let t := (tol * (s + Qcabs' (fst b) + Qcabs' (snd b)))%Qc in
  Qcleb (Qcabs' (fst a - fst b)) t && Qcleb (Qcabs' (snd a - snd b)) t.

(* codes: 10+i = view i differs; 1 = trace; 2 = spectrum power sums; 3 = '/' certificate *)
Record caseR := { vr_id : nat; vr_n : nat; vr_C : list (list Qc); vr_views : list (list (list Qc));
  vr_trace : option Qc; vr_eigs : option (list Qc * list (list Qc));  (* eigenvalues (or sigma^2) , matrix they belong to *)
  vr_div : list (list Qc * list Qc * bool) }.   (* (y, x, normal_eq?) *)
Record caseC := { vc_id : nat; vc_n : nat; vc_C : list (list G); vc_views : list (list (list G));
  vc_trace : option G; vc_eigs : option (list G * list (list G));
  vc_div : list (list G * list G * bool) }.

Definition scaleR (M : list (list Qc)) : Qc := fold_right (fun r acc => fold_right (fun a b => Qcabs' a + b)%Qc acc r) 1%Qc M.
Definition scaleG (M : list (list G)) : Qc := fold_right (fun r acc => fold_right (fun a b => Qcabs' (fst a) + Qcabs' (snd a) + b)%Qc acc r) 1%Qc M.

Definition chkR (tol : Qc) (c : caseR) : list nat :=
  map (fun i => 10 + i)%nat (views_bad QcR (fun a b => close tol a b) (vr_C c) (vr_views c)) ++
  (match vr_trace c with None => [] | Some t => if cC (scaleR (vr_C c)) tol t (trace QcR (vr_C c)) then [] else [1%nat] end) ++
  (match vr_eigs c with None => [] | Some (ls, M) =>
     let k := length M in let s := scaleR M in
     if all2 (fun a b => cC (pw QcR s k) tol a b) (lam_powsums QcR ls k) (powsums QcR k k M M) then [] else [2%nat] end) ++
  (if forallb (fun t => let '(y, x, ne) := t in
       let r := vsub QcR (mv QcR (vr_C c) x) y in
       let s := (scaleR (vr_C c) * (1 + scaleR [y]))%Qc in
       if ne : bool then all2 (cC s tol) (mvH QcS (vr_n c) (vr_C c) r) (zeros QcR (vr_n c))
       else all2 (cC s tol) r (zeros QcR (length y))) (vr_div c) then [] else [3%nat]).
Definition chkC (tol : Qc) (c : caseC) : list nat :=
  map (fun i => 10 + i)%nat (views_bad GR (fun a b => gcl tol a b) (vc_C c) (vc_views c)) ++
  (match vc_trace c with None => [] | Some t => if gC (scaleG (vc_C c)) tol t (trace GR (vc_C c)) then [] else [1%nat] end) ++
  (match vc_eigs c with None => [] | Some (ls, M) =>
     let k := length M in let s := scaleG M in
     if all2 (fun a b => gC (pw QcR s k) tol a b) (lam_powsums GR ls k) (powsums GR k k M M) then [] else [2%nat] end) ++
  (if forallb (fun t => let '(y, x, ne) := t in
       let r := vsub GR (mv GR (vc_C c) x) y in
       let s := (scaleG (vc_C c) * (1 + scaleG [y]))%Qc in
       if ne : bool then all2 (gC s tol) (mvH GS (vc_n c) (vc_C c) r) (zeros GR (vc_n c))
       else all2 (gC s tol) r (zeros GR (length y))) (vc_div c) then [] else [3%nat]).
