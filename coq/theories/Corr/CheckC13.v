(* CheckC13.v — EXECUTION ONLY: comparison of the threshold functions and the
   ISTA / FISTA iterates of the implementation with the models of
   Solvers/Thresh.v, Solvers/ISTA.v instantiated at Qc; exact evaluation of
   the objective along the implementation's iterates; exact PSD certificate
   of I - alpha A^T A; KKT residuals. *)
From Coq Require Import QArith Qcanon ZArith List.
From PV Require Import Dict Vec Dot Mat QcInst GaussQc Check OrdLemmas Thresh ISTA PSD ISTAComplex.
Import ListNotations.
Local Open Scope Qc_scope.

Definition tol6 : Qc := q 1 1000000.
Definition tol9 : Qc := q 1 1000000000.
Definition tol12 : Qc := q 1 1000000000000.
Definition h2 : Qc := q 1 2.
(* sqrt to ~2^-60 (execution only; used for complex moduli) *)
Definition qsqrt (x : Qc) : Qc :=
  let n := Qnum (this x) in let d := Qden (this x) in
  Q2Qc (Z.sqrt (n * Zpos d * 2 ^ 120) # (d * 2 ^ 60)).
Definition is0 (a : Qc) : bool := Qcleb a 0 && Qcleb 0 a.
Definition lt0 (a : Qc) : bool := negb (Qcleb 0 a).

(* ------------------------------------------------ threshold functions *)
(* real: kind 0 soft, 1 hard.  codes: 1 output differs from the model,
   2 some grid point z has a strictly smaller prox objective than the
   implementation's output (checked on the implementation's value itself) *)
Record ThrR := { tr_id : nat; tr_kind : nat; tr_t : Qc; tr_in : list Qc; tr_out : list Qc; tr_grid : list Qc }.
Definition nzq (z : Qc) : Qc := if is0 z then 0 else 1.
Definition proxobj (kind : nat) (t u z : Qc) : Qc :=
  (z - u) * (z - u) * h2 + t * (match kind with O => Qcabs' z | _ => nzq z end).
Definition thr_model (kind : nat) (u t : Qc) : Qc :=
  match kind with O => soft QcO u t | _ => hard QcO u t end.
Definition beaten (kind : nat) (t u s : Qc) (grid : list Qc) : bool :=
  existsb (fun z => negb (Qcleb (proxobj kind t u s) (proxobj kind t u z + tol12 * (1 + Qcabs' (proxobj kind t u z))))) grid.
Definition checkThrR (c : ThrR) : list nat :=
  (if vclose tol9 (tr_out c) (map (fun u => thr_model (tr_kind c) u (tr_t c)) (tr_in c)) then [] else [1%nat]) ++
  (if existsb (fun p => beaten (tr_kind c) (tr_t c) (fst p) (snd p) (tr_grid c)) (combine (tr_in c) (tr_out c))
      || negb (Nat.eqb (length (tr_in c)) (length (tr_out c))) then [2%nat] else []).

(* complex: inputs (re, im, m) with m the exact modulus (Pythagorean).
   codes: 1 output differs from model, 2 beaten on the grid, 3 modulus of the
   output is not max(m - t, 0) (soft), 4 malformed input (m is not the modulus) *)
Record ThrC := { tc_id : nat; tc_kind : nat; tc_t : Qc; tc_in : list (Qc * Qc * Qc); tc_out : list G;
                 tc_grid : list (Qc * Qc * Qc) }.
Definition hard_c (re im t : Qc) : G := if Qcleb (re * re + im * im) (qz 2 * t) then (0, 0) else (re, im).
Definition thrc_model (kind : nat) (x : Qc * Qc * Qc) (t : Qc) : G :=
  let '(re, im, m) := x in match kind with O => soft_c QcO re im m t | _ => hard_c re im t end.
Definition okmod (x : Qc * Qc * Qc) : bool := let '(re, im, m) := x in Qcleb 0 m && is0 (m * m - (re * re + im * im)).
Definition dist2 (a b : G) : Qc := (fst a - fst b) * (fst a - fst b) + (snd a - snd b) * (snd a - snd b).
Definition kmod (m t : Qc) : Qc := if Qcleb (m - t) 0 then 0 else m - t.
(* penalty value of the implementation's output s: soft -> its modulus, taken as max(m-t,0)
   (code 3 checks that this is indeed its modulus); hard -> 0/1 *)
Definition pen (kind : nat) (x : Qc * Qc * Qc) (t : Qc) (s : G) : Qc :=
  let '(re, im, m) := x in match kind with O => kmod m t | _ => if is0 (fst s) && is0 (snd s) then 0 else 1 end.
Definition beatenC (kind : nat) (t : Qc) (x : Qc * Qc * Qc) (s : G) (grid : list (Qc * Qc * Qc)) : bool :=
  let '(re, im, m) := x in
  let qs := dist2 s (re, im) * h2 + t * pen kind x t s in
  existsb (fun z => let '(zr, zi, mz) := z in
     let qz := dist2 (zr, zi) (re, im) * h2 + t * (match kind with O => mz | _ => if is0 mz then 0 else 1 end) in
     negb (Qcleb qs (qz + tol9 * (1 + qz)))) grid.
Definition checkThrC (c : ThrC) : list nat :=
  (if gvclose tol9 (tc_out c) (map (fun x => thrc_model (tc_kind c) x (tc_t c)) (tc_in c)) then [] else [1%nat]) ++
  (if existsb (fun p => beatenC (tc_kind c) (tc_t c) (fst p) (snd p) (tc_grid c)) (combine (tc_in c) (tc_out c))
      || negb (Nat.eqb (length (tc_in c)) (length (tc_out c))) then [2%nat] else []) ++
  (match tc_kind c with
   | O => if forallb (fun p => let '(re, im, m) := fst p in let k := kmod m (tc_t c) in
                        close tol9 (fst (snd p) * fst (snd p) + snd (snd p) * snd (snd p)) (k * k))
                     (combine (tc_in c) (tc_out c)) then [] else [3%nat]
   | _ => [] end) ++
  (if forallb okmod (tc_in c) && forallb okmod (tc_grid c) then [] else [4%nat]).

(* half: only the zero pattern; entries closer than 1e-9 to the cut are skipped *)
Record ThrH := { th_id : nat; th_c : Qc; th_in : list Qc; th_out : list Qc }.
Definition checkThrH (c : ThrH) : list nat :=
  if Nat.eqb (length (th_in c)) (length (th_out c)) &&
     forallb (fun p => let a := Qcabs' (fst p) in
                if Qcleb (Qcabs' (a - th_c c)) tol9 then true
                else Bool.eqb (is0 (half_thr QcO (fst p) (th_c c) 1)) (is0 (snd p)))
             (combine (th_in c) (th_out c))
  then [] else [1%nat].

(* ------------------------------------------------ ISTA / FISTA, real *)
(* exact certificate of the step-size premise: PSD.premise_of_psd turns
   [premise_ok n A alpha = true] into  forall d, alpha ||A d||^2 <= ||d||^2 *)
Definition premise_ok (n : nat) (A : list (list Qc)) (alpha : Qc) : bool :=
  negb (Qcleb alpha 0) && psd QcO n (stepmat QcO n alpha A).
Fixpoint mono (fs : list Qc) : bool :=
  match fs with
  | a :: t => match t with b :: _ => Qcleb b (a + tol12 * (1 + Qcabs' a)) && mono t | [] => true end
  | [] => true
  end.
(* index (from 0) of the first increase, for the report *)
Fixpoint prefix_ok {A} (f : A -> A -> bool) (u v : list A) : bool :=
  match u, v with [], _ => true | a :: u', b :: v' => f a b && prefix_ok f u' v' | _ :: _, [] => false end.

(* mode 0 = ISTA, 1 = FISTA (betas supplied).  [ir_pairs] = (z_k, x_{k+1}) for
   every iteration (z_k = x_k for ISTA, the extrapolated point for FISTA):
   one-step check  x_{k+1} = step z_k  on the implementation's own values;
   [ir_traj] leading iterates are also compared with the model RUN from x0
   (exact rationals grow with the iteration count, hence only a prefix).
   codes:
   1 some x_{k+1} differs from the model step at z_k;
   2 objective increases along the implementation's iterates (ISTA only);
   3 step-size premise I - alphac A^T A >= 0 fails (generator problem);
   4 malformed sizes;
   8 leading iterates differ from the model run from x0 *)
Record IstaR := { ir_id : nat; ir_n : nat; ir_mode : nat; ir_A : list (list Qc); ir_y : list Qc;
  ir_alpha : Qc; ir_alphac : Qc; ir_eps : Qc; ir_x0 : list Qc; ir_betas : list Qc; ir_traj : nat;
  ir_pairs : list (list Qc * list Qc); ir_its : list (list Qc); ir_S : list (list Qc); ir_decay : list Qc }.
(* with a sparsifying transform SOp = S (ir_S <> []), as coded in ISTA.step / FISTA.step:
     x_unthesh = SOp^H (z + alpha Op^H (y - Op z)) ; x = SOp (soft x_unthesh thresh)
   and the documented objective ||y - Op x||^2 + eps ||SOp^H x||_1 *)
Definition stepS (n : nat) (S A : list (list Qc)) (y : list Qc) (alpha eps : Qc) (z : list Qc) : list Qc :=
  mv QcR S (map (fun u => soft QcO u (thresh QcO eps alpha))
                (mvT QcR n S (vadd QcR z (vscale QcR alpha (grad QcO n A y z))))).
Definition objS (n : nat) (S A : list (list Qc)) (y : list Qc) (eps : Qc) (x : list Qc) : Qc :=
  nrm2 QcO (vsub QcR y (mv QcR A x)) + eps * l1 QcO (mvT QcR n S x).
Definition checkIstaR (c : IstaR) : list nat :=
  let n := ir_n c in let A := ir_A c in let y := ir_y c in
  let k := ir_traj c in
  let nos := match ir_S c with [] => true | _ => false end in
  (* user-supplied decay (ISTA.step: threshf(x_unthesh, decay[iiter] * thresh)): iteration i thresholds at
     decay_i * eps * alpha / 2, i.e. a step with eps * decay_i; [] = all ones *)
  let nod := match ir_decay c with [] => true | _ => false end in
  let ds := if nod then map (fun _ => 1%Qc) (ir_pairs c) else ir_decay c in
  let stp := fun (d : Qc) => if nos then step QcO n A y (ir_alpha c) (ir_eps c * d) else stepS n (ir_S c) A y (ir_alpha c) (ir_eps c * d) in
  let F := if nos then obj QcO A y (ir_eps c) else objS n (ir_S c) A y (ir_eps c) in
  let model := match ir_mode c with
     | O => ista_run QcO n k A y (ir_alpha c) (ir_eps c) (ir_x0 c)
     | _ => fista_run QcO n (firstn k (ir_betas c)) A y (ir_alpha c) (ir_eps c) (ir_x0 c, ir_x0 c) end in
  (if forallb (fun pd => vclose tol9 (snd (fst pd)) (stp (snd pd) (fst (fst pd)))) (combine (ir_pairs c) ds)
      && Nat.eqb (length (ir_pairs c)) (length (ir_its c)) && Nat.eqb (length ds) (length (ir_pairs c)) then [] else [1%nat]) ++
  (match ir_mode c with
   | O => if negb nod || mono (map F (ir_x0 c :: ir_its c)) then [] else [2%nat]
   | _ => [] end) ++
  (if premise_ok n A (ir_alphac c) then [] else [3%nat]) ++
  (if wfMb n (length y) A && Nat.eqb (length (ir_x0 c)) n && forallb (fun v => Nat.eqb (length v) n) (ir_its c)
      && (nos || wfMb n n (ir_S c))
   then [] else [4%nat]) ++
  (if negb nos || all2 (vclose tol9) (firstn k (ir_its c)) (firstn (length (ir_its c)) model) then [] else [8%nat]).

(* converged results.  codes: 5 KKT violated at the ISTA result, 6 at the FISTA
   result, 7 objective values differ *)
Record KktR := { kr_id : nat; kr_n : nat; kr_A : list (list Qc); kr_y : list Qc; kr_eps : Qc;
  kr_xi : list Qc; kr_xf : list Qc }.
Definition kkt_okR (n : nat) (A : list (list Qc)) (y : list Qc) (eps : Qc) (x : list Qc) : bool :=
  let g := grad QcO n A y x in
  let tk := tol6 * (1 + eps) in
  Nat.eqb (length x) n &&
  all2 (fun xi gi => if is0 xi then Qcleb (Qcabs' gi) (eps * h2 + tk)
                     else Qcleb (Qcabs' (gi - eps * h2 * rsgn QcO xi)) tk) x g.
Definition checkKktR (c : KktR) : list nat :=
  let F := obj QcO (kr_A c) (kr_y c) (kr_eps c) in
  (if kkt_okR (kr_n c) (kr_A c) (kr_y c) (kr_eps c) (kr_xi c) then [] else [5%nat]) ++
  (match kr_xf c with [] => [] | _ =>
    (if kkt_okR (kr_n c) (kr_A c) (kr_y c) (kr_eps c) (kr_xf c) then [] else [6%nat]) ++
    (if close tol6 (F (kr_xf c)) (F (kr_xi c)) then [] else [7%nat]) end).

Fixpoint all2' {A B} (f : A -> B -> bool) (u : list A) (v : list B) : bool :=
  match u, v with [], [] => true | a :: u', b :: v' => f a b && all2' f u' v' | _, _ => false end.

(* ------------------------------------------------ ISTA, complex *)
Definition gmod (z : G) : Qc := qsqrt (fst z * fst z + snd z * snd z).
Definition gscale (a : Qc) (z : G) : G := (a * fst z, a * snd z).
Definition gradC (n : nat) (A : list (list G)) (y x : list G) : list G :=
  mvH GS n A (vsub GR y (mv GR A x)).
Definition stepC (n : nat) (A : list (list G)) (y : list G) (alpha eps : Qc) (z : list G) : list G :=
  map (fun u => soft_c QcO (fst u) (snd u) (gmod u) (eps * alpha * h2))
      (vadd GR z (map (gscale alpha) (gradC n A y z))).
Definition objC (A : list (list G)) (y : list G) (eps : Qc) (x : list G) : Qc :=
  fold_right Qcplus 0 (map (fun r => fst r * fst r + snd r * snd r) (vsub GR y (mv GR A x)))
  + eps * fold_right Qcplus 0 (map gmod x).
(* The PROVED complex model (Solvers/ISTAComplex.v: pre, step_c, run_c, obj_c, emb) instantiated at Qc.
   The moduli are SUPPLIED by the harness (numpy abs of the vector the implementation thresholds / of its
   iterates) as exact rationals and CHECKED here:  m >= 0 and |m^2 - (re^2+im^2)| <= 1e-12 (1 + re^2+im^2)
   (floats: ~1e-16 relative), which is the hypothesis [moduli] of C13_ista_c_descent up to that tolerance. *)
Definition tolm : Qc := tol12.
Definition modok (a : G) (m : Qc) : bool :=
  let s := fst a * fst a + snd a * snd a in Qcleb 0 m && Qcleb (Qcabs' (m * m - s)) (tolm * (1 + s)).
Definition modsok (v : list G) (ms : list Qc) : bool := all2' modok v ms.
(* [ic_pairs] = (z_k, moduli of pre z_k, x_{k+1}) for every iteration (z_k = x_k for ISTA, extrapolated for FISTA);
   [ic_its] = (x_k, |x_k|) for k = 0.. (objective); [ic_traj] leading iterates compared with the model RUN
   from x_0 using the moduli of the first pairs (ISTA only).
   codes: 1 one-step mismatch, 2 objective increases (ISTA), 3 Hermitian step-size certificate fails,
   4 sizes, 5 KKT at the converged ISTA result, 7 FISTA objective differs, 8 run prefix differs,
   9 a supplied modulus fails its check *)
Record IstaC := { ic_id : nat; ic_n : nat; ic_mode : nat; ic_A : list (list G); ic_y : list G;
  ic_alpha : Qc; ic_alphac : Qc; ic_eps : Qc; ic_pairs : list (list G * list Qc * list G);
  ic_its : list (list G * list Qc); ic_traj : nat; ic_xi : list G; ic_xf : list G }.
Definition kkt_okC (n : nat) (A : list (list G)) (y : list G) (eps : Qc) (x : list G) : bool :=
  let g := gradC n A y x in
  let tk := tol6 * (1 + eps) in
  Nat.eqb (length x) n &&
  all2 (fun xi gi => if is0 (fst xi) && is0 (snd xi) then Qcleb (gmod gi) (eps * h2 + tk)
                     else let m := gmod xi in
                          (* g_i |x_i| = (eps/2) x_i *)
                          Qcleb (gmod (gsub (gscale m gi) (gscale (eps * h2) xi))) (tk * m)) x g.
Definition checkIstaC (c : IstaC) : list nat :=
  let n := ic_n c in let A := ic_A c in let y := ic_y c in
  let al := ic_alpha c in let eps := ic_eps c in
  let x0 := match ic_its c with p :: _ => fst p | [] => [] end in
  let k := ic_traj c in
  (if forallb (fun p => let '(z, mu, xn) := p in gvclose tol9 xn (step_c QcO n A y al eps z mu)) (ic_pairs c)
   then [] else [1%nat]) ++
  (match ic_mode c with
   | O => if mono (map (fun p => obj_c QcO A y eps (fst p) (snd p)) (ic_its c)) then [] else [2%nat]
   | _ => [] end) ++
  (if premise_ok (n + n)%nat (ISTAComplex.emb QcO A) (ic_alphac c) then [] else [3%nat]) ++
  (if wfMb n (length y) A && forallb (fun p => Nat.eqb (length (fst p)) n) (ic_its c) then [] else [4%nat]) ++
  (match ic_xi c with [] => [] | _ =>
    (if kkt_okC n A y eps (ic_xi c) then [] else [5%nat]) ++
    (match ic_xf c with [] => [] | _ =>
       if close tol6 (objC A y eps (ic_xf c)) (objC A y eps (ic_xi c)) then [] else [7%nat] end) end) ++
  (match ic_mode c with
   | O => let mus := map (fun p => snd (fst p)) (firstn k (ic_pairs c)) in
          if all2 (gvclose tol9) (map (fun p => snd p) (firstn k (ic_pairs c))) (map fst (run_c QcO n mus A y al eps x0))
          then [] else [8%nat]
   | _ => [] end) ++
  (if forallb (fun p => let '(z, mu, _) := p in modsok (pre QcO n A y al z) mu) (ic_pairs c)
      && forallb (fun p => modsok (fst p) (snd p)) (ic_its c) then [] else [9%nat]).
