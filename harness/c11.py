"""C11 — all ways of driving a solver agree and leave the inputs intact.

Model: Solvers/Drivers.v (generic solver state machine, run/step/programs,
run_split, flag model), Solvers/DriversInst.v (CG / ISTA / FISTA over Qc,
fista_run_split), State/Heap.v (ownership analysis, no_caller_write).  Correspondence (this file): random driving
programs on the IMPLEMENTATION in three styles (function, class.solve(),
manual setup + Step/Run instalments + finalize), compared with each other and
with the model's prediction (evaluated in Coq) of the iteration counter
after every call and of which programs are equivalent; exact Qc re-execution
of CG/ISTA/FISTA programs; alias maps vs the heap model; bitwise input
intactness; N-d vs flat; the global N-d switch on normal and exceptional
paths."""
import json
import logging
import os
import subprocess
import sys
import traceback

import numpy as np

from . import common

PID = "C11"
GCAP = 5      # largest iteration budget evaluated exactly over the Gaussian rationals

# Genuine defects of the unchanged code (proposed entries for known_findings.json)
PROPOSED_KNOWN = []   # both defects found while building this check were repaired in /repo:
#   4fbea6d  FISTA.run in instalments restarted from z = x with a stale momentum t (z was a local of run)
#   1f77362  normal_equations_inversion overwrote the caller's y for view-returning operators (in-place +=)

MY_V = ["Solvers/Drivers.v", "State/Heap.v", "Solvers/DriversInst.v", "Solvers/DriversGauss.v", "Corr/CheckC11.v"]
TOL = 1e-12
ITER = ["cg", "cgls", "lsqr", "ista", "fista", "omp"]
REST = ["irls", "splitbregman", "nei", "ri", "pi"]
FIELDS = {"cg": ["y", "x", "r", "c"], "cgls": ["y", "x", "s", "c", "q"], "lsqr": ["y", "x", "u", "v", "w"],
          "ista": ["y", "x"], "fista": ["y", "x"], "omp": ["y", "res"]}
ACODE = {"cg": 0, "cgls": 1, "lsqr": 2, "ista": 3, "fista": 3, "omp": 4, "nei": 5}


def build_own():
    """Compile this property's own .v files when missing / outdated (until
    the integrator adds them to _CoqProject)."""
    th = os.path.join(common.COQDIR, "theories")
    newest = 0.0
    for f in MY_V:
        src = os.path.join(th, f)
        vo = src[:-2] + ".vo"
        newest = max(newest, os.path.getmtime(src))
        if (not os.path.exists(vo)) or os.path.getmtime(vo) < newest:
            p = subprocess.run(["timeout", "600", "coqc", "-Q", "theories", "PV", "theories/" + f], cwd=common.COQDIR,
                               stdout=subprocess.PIPE, stderr=subprocess.STDOUT, text=True)
            if p.returncode != 0:
                sys.stdout.write(p.stdout[-3000:])
                raise SystemExit("coq build of %s failed" % f)
            newest = max(newest, os.path.getmtime(vo))
    bad = subprocess.run("grep -nE '\\b(Admitted|admit|Axiom|Parameter|Conjecture)\\b' %s theories/Props/C11.v || true"
                         % " ".join("theories/" + f for f in MY_V), shell=True, cwd=common.COQDIR,
                         stdout=subprocess.PIPE, text=True).stdout.strip()
    if bad:
        print(bad)
        raise SystemExit("forbidden declaration in the C11 development")


# ------------------------------------------------------------------ systems
def cnum(v):
    return complex(v[0], v[1]) if isinstance(v, (list, tuple)) else float(v)


def enc(a):
    a = np.asarray(a)
    if np.iscomplexobj(a):
        f = lambda z: [float(z.real), float(z.imag)]
    else:
        f = float
    if a.ndim == 1:
        return {"v": [f(t) for t in a]}
    return {"m": [[f(t) for t in r] for r in a]}


def dec(d, cplx):
    if d is None:
        return None
    dt = np.complex128 if cplx else np.float64
    if "v" in d:
        return np.array([cnum(t) for t in d["v"]], dtype=dt)
    return np.array([[cnum(t) for t in r] for r in d["m"]], dtype=dt)


def rint(r, shape, cplx, lo=-4, hi=4):
    n = int(np.prod(shape))
    v = np.array([r.randint(lo, hi) for _ in range(n)], dtype=float)
    if cplx:
        v = v + 1j * np.array([r.randint(lo, hi) for _ in range(n)], dtype=float)
    return v.reshape(shape)


def gen_system(r, solver, cplx):
    n = r.randint(3, 5)
    if solver == "cg":
        B = rint(r, (n, n), cplx, -2, 2)
        A = B.conj().T @ B + (n + 2) * np.eye(n)
    else:
        m = n + r.randint(0, 2)
        A = np.vstack([(4 + r.randint(0, 2)) * np.eye(n) + rint(r, (n, n), cplx, -1, 1), rint(r, (m - n, n), cplx, -2, 2)])
    xt = rint(r, (n,), cplx)
    if solver in ("ista", "fista", "omp"):
        for j in range(n):
            if r.random() < 0.4:
                xt[j] = 0
        if not np.any(xt):
            xt[0] = 3
    y = A @ xt
    x0 = rint(r, (n,), cplx, -2, 2) if (solver != "omp" and r.random() < 0.6) else None
    par = {}
    if solver == "cg":
        par = {"tol": 0.0}
    elif solver == "cgls":
        par = {"tol": 0.0, "damp": r.choice([0.0, 0.0, 0.5])}
    elif solver == "lsqr":
        par = {"damp": r.choice([0.0, 0.0, 0.25])}
    elif solver in ("ista", "fista"):
        fro = float(np.sum(np.abs(A) ** 2))
        k = 0
        while 2 ** k < fro:
            k += 1
        par = {"alpha": 1.0 / 2 ** k, "eps": r.choice([0.5, 1.0, 2.0]), "tol": 0.0}
    elif solver == "omp":
        par = {"inner": r.choice([0, 40]), "sigma": 0.0}
    return {"solver": solver, "cplx": bool(cplx), "op": "mat", "A": enc(A), "y": enc(y),
            "x0": None if x0 is None else enc(x0), "par": par}


def make_op(sysd):
    import pylops
    cplx = sysd["cplx"]
    if sysd["op"] == "mat":
        return pylops.MatrixMult(dec(sysd["A"], cplx), dtype=np.complex128 if cplx else np.float64)
    if sysd["op"] == "ident":
        return pylops.Identity(len(sysd["y"]["v"]), dtype=np.complex128 if cplx else np.float64)
    raise ValueError(sysd["op"])


# ------------------------------------------------------------------ implementation driving
def classes():
    from pylops.optimization.cls_basic import CG, CGLS, LSQR
    from pylops.optimization.cls_sparsity import FISTA, ISTA, OMP
    return {"cg": CG, "cgls": CGLS, "lsqr": LSQR, "ista": ISTA, "fista": FISTA, "omp": OMP}


def functions():
    from pylops.optimization import basic, sparsity
    return {"cg": basic.cg, "cgls": basic.cgls, "lsqr": basic.lsqr, "ista": sparsity.ista, "fista": sparsity.fista,
            "omp": sparsity.omp}


def kwargs_for(solver, N, par, x0):
    if solver == "cg":
        return dict(x0=x0, niter=N, tol=par["tol"])
    if solver == "cgls":
        return dict(x0=x0, niter=N, damp=par["damp"], tol=par["tol"])
    if solver == "lsqr":
        return dict(x0=x0, niter=N, damp=par["damp"])
    if solver in ("ista", "fista"):
        return dict(x0=x0, niter=N, eps=par["eps"], alpha=par["alpha"], tol=par["tol"])
    if solver == "omp":
        return dict(niter_outer=N, niter_inner=par["inner"], sigma=par["sigma"])
    raise ValueError(solver)


class Guard:
    """Bitwise snapshot of the caller's arrays + the global switch."""

    def __init__(self, **arrays):
        import pylops
        self.a = {k: v for k, v in arrays.items() if v is not None}
        self.b = {k: v.tobytes() for k, v in self.a.items()}
        self.flag = pylops.get_ndarray_multiplication()

    def changed(self):
        import pylops
        out = []
        for k, v in self.a.items():
            if v.tobytes() != self.b[k]:
                bb = np.frombuffer(self.b[k], dtype=v.dtype).reshape(v.shape)
                idx = [int(t) for t in np.argwhere(~((v == bb) | ((v != v) & (bb != bb))))[0]] if v.size else []
                out.append(("input", k, idx))
        if pylops.get_ndarray_multiplication() != self.flag:
            out.append(("flag", "ndarray_multiplication", [bool(self.flag), bool(pylops.get_ndarray_multiplication())]))
        return out


class Driver:
    """Manual style: setup, then Step / Run k calls, then finalize."""

    def __init__(self, solver, Op, y, x0, N, par):
        self.solver, self.Op, self.y, self.x0, self.N, self.par = solver, Op, y, x0, N, par
        self.s = classes()[solver](Op)
        self.x = None
        self.cols = None
        self.z = None
        self.xupd = None

    def setup(self):
        np.random.seed(0)
        kw = kwargs_for(self.solver, self.N, self.par, self.x0)
        if self.solver == "omp":
            self.s.setup(self.y, **kw)
            self.x, self.cols = [], []
        else:
            self.x = self.s.setup(self.y, **kw)
            if self.solver == "fista":
                self.z = self.x.copy()

    def step(self):
        s = self.s
        if self.solver in ("cg", "cgls", "lsqr"):
            self.x = s.step(self.x)
        elif self.solver == "ista":
            self.x, self.xupd = s.step(self.x)
        elif self.solver == "fista":
            self.x, self.z, self.xupd = s.step(self.x, self.z)
        else:
            self.x, self.cols = s.step(self.x, self.cols)

    def run(self, k):
        s = self.s
        if self.solver == "omp":
            self.x, self.cols = s.run(self.x, self.cols)
        else:
            self.x = s.run(self.x, niter=k)
            if self.solver == "fista":
                # run returns x only; the extrapolated point is published as solver.z (x itself before the first step)
                z = getattr(s, "z", None)
                self.z = z if (z is not None and s.iiter > 0) else self.x.copy()

    def ok(self):
        """the non-budget part of the guard of run, as the code evaluates it"""
        s = self.s
        if self.solver in ("cg", "cgls"):
            return bool(s.kold > s.tol)
        if self.solver == "lsqr":
            return bool(s.istop == 0)
        if self.solver == "omp":
            return bool(s.cost[s.iiter] > s.sigma)
        return True if self.xupd is None else bool(self.xupd > s.tol)

    def current_x(self):
        if self.solver == "omp":
            xf = np.zeros(int(self.Op.shape[1]), dtype=self.Op.dtype)
            if self.cols:
                xf[self.cols] = np.array(self.x)
            return xf
        return np.array(self.x, copy=True)

    def finalize(self):
        s = self.s
        if self.solver == "omp":
            xf = s.finalize(self.x, self.cols)
            return (xf, s.nouter, s.cost)
        s.finalize()
        x = self.x
        if self.solver == "cg":
            return (x, s.iiter, s.cost)
        if self.solver == "cgls":
            return (x, s.istop, s.iiter, s.r1norm, s.r2norm, s.cost)
        if self.solver == "lsqr":
            return (x, s.istop, s.iiter, s.r1norm, s.r2norm, s.anorm, s.acond, s.arnorm, s.xnorm, s.var, s.cost)
        return (x, s.iiter, s.cost)

    def aliases(self):
        out = []
        for f in FIELDS[self.solver]:
            a = self.x if f == "x" else getattr(self.s, f, None)
            if not isinstance(a, np.ndarray):
                out.append((False, False))
                continue
            out.append((bool(np.shares_memory(a, self.y)),
                        bool(self.x0 is not None and np.shares_memory(a, self.x0))))
        return out


def close(a, b, tol=TOL):
    if a is None or b is None:
        return a is None and b is None
    if isinstance(a, (list, tuple)) and isinstance(b, (list, tuple)):
        return len(a) == len(b) and all(close(p, q, tol) for p, q in zip(a, b))
    a, b = np.asarray(a), np.asarray(b)
    if a.shape != b.shape:
        return False
    with np.errstate(all="ignore"):
        nan = (a != a) & (b != b)
        ok = np.abs(a - b) <= tol * (1 + np.abs(b))
    return bool(np.all(ok | nan | (a == b)))


def first_diff(a, b, tol=TOL):
    for i, (p, q) in enumerate(zip(a, b)):
        if not close(p, q, tol):
            return i
    return -1 if len(a) == len(b) else min(len(a), len(b))


def gen_prog(r, N, solver):
    """Budget N split into <= 4 pieces; each piece is a Run to the cumulative
    bound or that many manual Steps.  (OMP.run has no niter argument: it
    always runs to niter_outer.)"""
    npieces = r.randint(1, min(4, N))
    cuts = sorted(r.sample(range(1, N), npieces - 1)) + [N]
    prog, prev = [], 0
    for i, c in enumerate(cuts):
        if solver == "omp":
            if i == len(cuts) - 1 and r.random() < 0.7:
                prog.append(["R", N])
            else:
                prog += [["S"]] * (c - prev)
        elif r.random() < 0.55:
            prog.append(["R", c])
        else:
            prog += [["S"]] * (c - prev)
        prev = c
    if r.random() < 0.25 and solver != "omp":
        prog.append(["R", r.randint(0, N)])     # a bound at or below the counter: must be a no-op
    return prog


def prog_coq(prog):
    return "[" + "; ".join("Step" if c[0] == "S" else "Run %d%%nat" % c[1] for c in prog) + "]"


def blit(v):
    return "[" + "; ".join("true" if b else "false" for b in v) + "]"


# ------------------------------------------------------------------ the checks
def problem(key, what, case, **extra):
    d = {"key": key, "what": what, "case": case}
    d.update(extra)
    return d


def check_drive(case, emit=None):
    """Three styles + a driving program on one system.  Returns problems."""
    import pylops
    logging.disable(logging.CRITICAL)
    probs = []
    sysd, N, prog = case["sys"], case["N"], case["prog"]
    solver, cplx, par = sysd["solver"], sysd["cplx"], sysd["par"]
    Op = make_op(sysd)
    y = dec(sysd["y"], cplx)
    x0 = dec(sysd["x0"], cplx)
    Aarr = getattr(Op, "A", None)
    g = Guard(y=y, x0=x0, A=Aarr if isinstance(Aarr, np.ndarray) else None)
    kw = kwargs_for(solver, N, par, x0)

    def intact(where):
        for kind, name, idx in g.changed():
            if kind == "input":
                probs.append(problem("input:" + name, "%s: caller's %s modified (first changed index %s) by %s"
                                     % (solver, name, idx, where), case))
            else:
                probs.append(problem("flag", "%s: global N-d switch changed %s by %s" % (solver, idx, where), case))

    try:
        # style 1: functional interface
        np.random.seed(0)
        out_f = tuple(functions()[solver](Op, y, **kw))
        intact("function")
        # style 2: class solve
        np.random.seed(0)
        out_c = tuple(classes()[solver](Op).solve(y, **kw))
        intact("class.solve")
        # style 3a: reference = manual setup + N Steps (records trajectory and stopping quantity)
        ref = Driver(solver, Op, y, x0, N, par)
        ref.setup()
        intact("setup")
        al0 = ref.aliases()
        for f, (ay, ax0) in zip(FIELDS[solver], al0):
            if f != "y" and (ay or ax0):
                probs.append(problem("alias:" + f, "%s: solver field %s shares memory with the caller's %s after setup"
                                     % (solver, f, "y" if ay else "x0"), case))
        xs, oks = [ref.current_x()], [ref.ok()]
        kolds = [float(np.real(getattr(ref.s, "kold", np.nan)))]
        with np.errstate(all="ignore"):
            for _ in range(N):
                ref.step()
                xs.append(ref.current_x())
                oks.append(ref.ok())
                kolds.append(float(np.real(getattr(ref.s, "kold", np.nan))))
        intact("step")
        alN = ref.aliases()
        ref_cost = np.array(ref.s.cost, dtype=float)
        # style 3b: the program
        d = Driver(solver, Op, y, x0, N, par)
        d.setup()
        iiters, xcalls = [], []
        with np.errstate(all="ignore"):
            for c in prog:
                if c[0] == "S":
                    d.step()
                else:
                    d.run(c[1])
                iiters.append(int(d.s.iiter))
                xcalls.append(d.current_x())
                intact("call %s of the driving program" % c)
                for f, (ay, ax0) in zip(FIELDS[solver], d.aliases()):
                    if f != "y" and (ay or ax0):
                        probs.append(problem("alias:" + f, "%s: solver field %s shares memory with the caller's %s after %s"
                                             % (solver, f, "y" if ay else "x0", c), case))
        out_p = d.finalize()
        intact("finalize")
        # style 3c: manual setup; run N; finalize
        m = Driver(solver, Op, y, x0, N, par)
        m.setup()
        with np.errstate(all="ignore"):
            m.run(N)
        out_m = m.finalize()
        intact("manual run")
    except Exception as e:  # a valid driving of a valid system must not raise
        pylops.set_ndarray_multiplication(True)
        probs.append(problem("raise", "%s raised %s: %s" % (solver, type(e).__name__, str(e)[:200]), case,
                             trace=traceback.format_exc()[-1500:]))
        return probs, None

    i = first_diff(out_f, out_c)
    if i != -1:
        probs.append(problem("func-vs-class", "%s: function and class.solve() differ in output %d" % (solver, i), case))
    i = first_diff(out_c, out_m)
    if i != -1:
        probs.append(problem("class-vs-manual", "%s: class.solve() and setup;run(niter);finalize differ in output %d"
                             % (solver, i), case))
    f = iiters[-1] if iiters else 0
    xp = out_p[0]
    costp = np.asarray(out_p[-1], dtype=float)
    same = f < len(xs) and close(xp, xs[f]) and close(costp, ref_cost[:len(costp)]) and len(costp) <= len(ref_cost)
    # full agreement with solve() when the program ended where solve() ended
    fsolve = int(out_c[{"cg": 1, "cgls": 2, "lsqr": 2, "ista": 1, "fista": 1, "omp": 1}[solver]])
    full = None
    if f == fsolve:
        full = first_diff(out_c, out_p)
    rec = {"xcalls": xcalls, "kolds": kolds, "out_f": out_f, "out_c": out_c, "out_m": out_m,
           "iiters": iiters, "oks": oks, "same": bool(same), "f": f, "fsolve": fsolve, "full": full,
           "al0": al0, "alN": alN, "out_p": out_p, "xs": xs, "nontrivial": bool(np.any(np.abs(xs[-1] - xs[0]) > 0))}
    return probs, rec


def model_predict(solver, oks, prog):
    """Python mirror of Drivers.apredict — used ONLY by replay and by the
    search/shrink step; the check itself evaluates the prediction in Coq."""
    fresh_ok, zlocal = solver in ("ista", "fista"), False   # FISTA keeps z on self since 4fbea6d
    i, rs, fresh, out = 0, [], True, []

    def ok():
        return True if (fresh_ok and fresh) else (oks[i] if i < len(oks) else False)
    for c in prog:
        if c[0] == "S":
            if zlocal and fresh and i >= 2:
                rs.append(i)
            i, fresh = i + 1, False
        else:
            fresh = True
            while i < c[1] and ok():
                if zlocal and fresh and i >= 2:
                    rs.append(i)
                i, fresh = i + 1, False
            fresh = True
        out.append(i)
    return out, rs


def check_rest(case):
    """irls / splitbregman / normal-equations / regularized / preconditioned:
    function = class.solve() (= setup;run;finalize where run exists),
    inputs intact, flag, N-d either refused cleanly or same numbers."""
    import pylops
    from pylops.optimization import leastsquares as LS, sparsity as SP
    from pylops.optimization.cls_leastsquares import NormalEquationsInversion, PreconditionedInversion, RegularizedInversion
    from pylops.optimization.cls_sparsity import IRLS, SplitBregman
    logging.disable(logging.CRITICAL)
    probs = []
    sysd = case["sys"]
    solver, cplx = sysd["solver"], sysd["cplx"]
    dt = np.complex128 if cplx else np.float64
    Op = make_op(sysd)
    n = int(Op.shape[1])
    y = dec(sysd["y"], cplx)
    x0 = dec(sysd["x0"], cplx)
    dreg = dec(sysd.get("dreg"), cplx)
    D = pylops.FirstDerivative(n, dtype=dt)
    g = Guard(y=y, x0=x0, dreg=dreg)
    eps = sysd["par"].get("eps", 0.5)

    def intact(where, restore=True):
        for kind, name, idx in g.changed():
            key = "input:" + name if kind == "input" else "flag"
            probs.append(problem(key, "%s: %s %s changed (%s) by %s" % (solver, kind, name, idx, where), case))
            # restore (between styles only) so that later comparisons are meaningful
            if not restore:
                continue
            if kind == "input":
                g.a[name][...] = np.frombuffer(g.b[name], dtype=g.a[name].dtype).reshape(g.a[name].shape)
            else:
                pylops.set_ndarray_multiplication(g.flag)

    try:
        if solver == "irls":
            kw = dict(x0=x0, nouter=3, kind=sysd["par"].get("kind", "data"))
            out_f = SP.irls(Op, y, **kw); intact("function")
            out_c = IRLS(Op).solve(y, **kw); intact("class.solve")
            out_m = None
        elif solver == "splitbregman":
            kw = dict(x0=x0, niter_outer=2, niter_inner=2, mu=1.0, epsRL1s=[eps], RegsL2=[D] if dreg is not None else None,
                      dataregsL2=[dreg] if dreg is not None else None, epsRL2s=[0.25] if dreg is not None else None)
            out_f = SP.splitbregman(Op, y, [D], **kw); intact("function")
            out_c = SplitBregman(Op).solve(y, [D], **kw); intact("class.solve")
            out_m = None
        elif solver == "nei":
            kw = dict(dataregs=[dreg] if dreg is not None else None, epsRs=[eps], epsI=sysd["par"].get("epsI", 0.0))
            out_f = LS.normal_equations_inversion(Op, y, [D], x0=x0, **kw); intact("function")
            out_c = NormalEquationsInversion(Op).solve(y, [D], x0=x0, **kw); intact("class.solve")
            s = NormalEquationsInversion(Op); s.setup(y, [D], **kw); intact("setup", restore=False)
            if np.shares_memory(s.y_normal, y):
                probs.append(problem("alias:y_normal", "nei: solver field y_normal shares memory with the caller's y after setup", case))
            out_m = s.run(x0); s.finalize(); intact("run")
        elif solver == "ri":
            kw = dict(dataregs=[dreg] if dreg is not None else None, epsRs=[eps])
            out_f = LS.regularized_inversion(Op, y, [D], x0=x0, **kw); intact("function")
            out_c = RegularizedInversion(Op).solve(y, [D], x0=x0, **kw); intact("class.solve")
            s = RegularizedInversion(Op); s.setup(y, [D], **kw); intact("setup", restore=False)
            if np.shares_memory(s.datatot, y):
                probs.append(problem("alias:datatot", "ri: solver field datatot shares memory with the caller's y", case))
            out_m = s.run(x0); s.finalize(); intact("run")
        else:
            P = pylops.Diagonal(np.arange(1, n + 1).astype(dt) / 2, dtype=dt)
            out_f = LS.preconditioned_inversion(Op, y, P, x0=x0); intact("function")
            out_c = PreconditionedInversion(Op).solve(y, P, x0=x0); intact("class.solve")
            s = PreconditionedInversion(Op); s.setup(y, P); intact("setup", restore=False)
            out_m = s.run(x0); s.finalize(); intact("run")
    except Exception as e:
        pylops.set_ndarray_multiplication(True)
        probs.append(problem("raise", "%s raised %s: %s" % (solver, type(e).__name__, str(e)[:200]), case,
                             trace=traceback.format_exc()[-1500:]))
        return probs, None
    i = first_diff(tuple(out_f), tuple(out_c), 1e-10)
    if i != -1:
        probs.append(problem("func-vs-class", "%s: function and class.solve() differ in output %d" % (solver, i), case))
    if out_m is not None:
        i = first_diff(tuple(out_c), tuple(out_m), 1e-10)
        if i != -1:
            probs.append(problem("class-vs-manual", "%s: class.solve() and setup;run;finalize differ in output %d" % (solver, i), case))
    return probs, {"x": np.asarray(out_f[0]), "nontrivial": bool(np.any(np.asarray(out_f[0]) != 0))}


def nd_ops(kind, cplx, sysd):
    import pylops
    dt = np.complex128 if cplx else np.float64
    if kind == "diag":
        return pylops.Diagonal(dec(sysd["d"], cplx).reshape(3, 4), dtype=dt)
    if kind == "matother":
        return pylops.MatrixMult(dec(sysd["A"], cplx), otherdims=(4,), dtype=dt)
    if kind == "deriv":
        return pylops.FirstDerivative((3, 4), axis=sysd["axis"], dtype=dt)
    if kind in ("ff_none", "ff_false", "ff_true"):
        Op = pylops.MatrixMult(dec(sysd["A12"], cplx), dtype=dt, forceflat={"ff_none": None, "ff_false": False, "ff_true": True}[kind])
        Op.dims = Op.dimsd = (3, 4)
        return Op
    if kind == "ff_chain":     # forceflat=False inherited through a product
        return pylops.MatrixMult(dec(sysd["A12"], cplx), dtype=dt) @ pylops.Identity((3, 4), dtype=dt, forceflat=False)
    raise ValueError(kind)


def check_nd(case):
    """N-d y / x0 vs flattened for the N-d capable wrappers; for the others an
    N-d call must either be refused or give the same numbers; inputs + flag."""
    import pylops
    logging.disable(logging.CRITICAL)
    probs = []
    sysd = case["sys"]
    solver, cplx = sysd["solver"], sysd["cplx"]
    Op = nd_ops(sysd["op"], cplx, sysd)
    Y = dec(sysd["y"], cplx).reshape(3, 4)
    X0 = dec(sysd["x0"], cplx)
    X0 = None if X0 is None else X0.reshape(3, 4)
    mode = case["mode"]       # 'nd' (y, x0 both N-d) | 'x0flat' | 'x0none'
    N = case["N"]
    par = sysd["par"]
    fn = functions()[solver]
    g = Guard(y=Y, x0=X0)
    x0_nd = None if (mode == "x0none" or X0 is None) else (X0.ravel() if mode == "x0flat" else X0)
    x0_fl = None if x0_nd is None else X0.ravel()
    try:
        out_fl = tuple(fn(Op, Y.ravel(), **kwargs_for(solver, N, par, x0_fl)))
    except Exception as e:
        pylops.set_ndarray_multiplication(True)
        return [problem("raise", "%s (flat) raised %s: %s" % (solver, type(e).__name__, str(e)[:200]), case)], None
    refused = False
    try:
        out_nd = tuple(fn(Op, Y, **kwargs_for(solver, N, par, x0_nd)))
    except Exception as e:
        refused = True
        if solver in ("cg", "cgls", "lsqr"):
            probs.append(problem("nd-raise", "%s refused N-d input: %s: %s" % (solver, type(e).__name__, str(e)[:200]), case))
    for kind, name, idx in g.changed():
        probs.append(problem("input:" + name if kind == "input" else "flag",
                             "%s: %s %s changed (%s) by an N-d call (refused=%s)" % (solver, kind, name, idx, refused), case))
        pylops.set_ndarray_multiplication(True)
    if refused:
        return probs, {"refused": True, "nontrivial": False}
    if solver in ("cg", "cgls", "lsqr"):
        # the model's shape (Drivers.wrap_shape): dims unless x0 was given flat
        # (forceflat=True: flat by contract; None / False: reshaped)
        want = (12,) if ((x0_nd is not None and x0_nd.ndim == 1) or getattr(Op, "forceflat", None) is True) else tuple(Op.dims)
        if tuple(out_nd[0].shape) != want:
            probs.append(problem("nd-shape", "%s: result shape %s, model's shape %s (mode %s)" % (solver, out_nd[0].shape, want, mode), case))
    if not close(np.ravel(out_nd[0]), np.ravel(out_fl[0])) or first_diff(out_nd[1:], out_fl[1:]) != -1:
        probs.append(problem("nd-numbers", "%s: N-d input gives different numbers than flattened input (mode %s)" % (solver, mode), case))
    return probs, {"refused": False, "nontrivial": bool(np.any(out_fl[0] != 0))}


def raising_op(Op, m):
    import pylops

    class RaisingOp(pylops.LinearOperator):
        def __init__(self):
            super().__init__(dtype=Op.dtype, dims=Op.dims, dimsd=Op.dimsd)
            self.count = 0

        def _tick(self):
            self.count += 1
            if self.count == m:
                raise RuntimeError("injected failure at application %d" % m)

        def _matvec(self, x):
            self._tick()
            return Op.matvec(x)

        def _rmatvec(self, x):
            self._tick()
            return Op.rmatvec(x)
    return RaisingOp()


def check_exc(case):
    """The operator raises at its m-th application; flag and inputs must be
    as found, for every style and for both initial values of the switch."""
    import pylops
    from pylops.optimization import leastsquares as LS, sparsity as SP
    logging.disable(logging.CRITICAL)
    probs = []
    sysd = case["sys"]
    solver, cplx, m, style, flag0 = sysd["solver"], sysd["cplx"], case["m"], case["style"], case["flag0"]
    dt = np.complex128 if cplx else np.float64
    nd = sysd["op"] in ("diag", "matother", "deriv", "ff_none", "ff_false", "ff_true", "ff_chain")
    base = nd_ops(sysd["op"], cplx, sysd) if nd else make_op(sysd)
    Op = raising_op(base, m)
    y = dec(sysd["y"], cplx)
    x0 = dec(sysd["x0"], cplx)
    if nd and case.get("ndcall"):
        y = y.reshape(3, 4)
        x0 = None if x0 is None else x0.reshape(3, 4)
    n = int(base.shape[1])
    raised = False
    try:
        pylops.set_ndarray_multiplication(flag0)
        g = Guard(y=y, x0=x0)
        try:
            if solver in ITER:
                kw = kwargs_for(solver, case["N"], sysd["par"], x0)
                if style == "function":
                    functions()[solver](Op, y, **kw)
                elif style == "solve":
                    classes()[solver](Op).solve(y, **kw)
                else:
                    d = Driver(solver, Op, y, x0, case["N"], sysd["par"])
                    d.setup()
                    d.step()
                    d.run(case["N"])
                    d.finalize()
            else:
                D = pylops.FirstDerivative(n, dtype=dt)
                if solver == "irls":
                    SP.irls(Op, y, x0=x0, nouter=2)
                elif solver == "splitbregman":
                    SP.splitbregman(Op, y, [D], x0=x0, niter_outer=2, niter_inner=2, epsRL1s=[0.5])
                elif solver == "nei":
                    LS.normal_equations_inversion(Op, y, [D], x0=x0, epsRs=[0.5])
                elif solver == "ri":
                    LS.regularized_inversion(Op, y, [D], x0=x0, epsRs=[0.5])
                else:
                    LS.preconditioned_inversion(Op, y, pylops.Diagonal(np.ones(n, dtype=dt) * 2, dtype=dt), x0=x0)
        except RuntimeError as e:
            raised = "injected" in str(e)
        except Exception:
            raised = True
        for kind, name, idx in g.changed():
            probs.append(problem("input:" + name if kind == "input" else "flag",
                                 "%s (%s, operator %s at application %d, switch initially %s): %s %s changed (%s)"
                                 % (solver, style, "raised" if raised else "did not raise", m, flag0, kind, name, idx), case))
    finally:
        pylops.set_ndarray_multiplication(True)
    return probs, {"raised": bool(raised), "nontrivial": bool(raised)}


CHECKS = {"drive": check_drive, "rest": check_rest, "nd": check_nd, "exc": check_exc}


# ------------------------------------------------------------------ every keyword, three styles
def kobj(v, n, dt):
    """JSON-able keyword value -> object ('@name' = an operator, {'v': ...} = an array)."""
    import pylops
    if isinstance(v, str) and v.startswith("@"):
        if v == "@D":
            return pylops.FirstDerivative(n, dtype=dt)
        if v == "@D2":
            return pylops.SecondDerivative(n, dtype=dt)
        if v == "@W":
            return pylops.Diagonal((1 + np.arange(n) % 3).astype(dt), dtype=dt)
        if v == "@Wd":     # weight on the data space: built by the caller with the right size
            raise KeyError(v)
        if v == "@signs":
            return pylops.Diagonal(np.where(np.arange(n) % 2 == 0, 1.0, -1.0).astype(dt), dtype=dt)
        if v == "@P":
            return pylops.Diagonal(((1 + np.arange(n)) / 2).astype(dt), dtype=dt)
        raise ValueError(v)
    if isinstance(v, dict) and ("v" in v or "m" in v):
        return dec(v, np.dtype(dt).kind == "c")
    if isinstance(v, list):
        return [kobj(t, n, dt) for t in v]
    return v


def kw_build(kw, n, m, dt):
    import pylops
    out = {}
    for k, v in kw.items():
        if v == "@Wd":
            out[k] = pylops.Diagonal((1 + np.arange(m) % 2).astype(dt), dtype=dt)
        else:
            out[k] = kobj(v, n, dt)
    return out


def collect(solver, s, x):
    if solver == "cg":
        return (x, s.iiter, s.cost)
    if solver == "cgls":
        return (x, s.istop, s.iiter, s.r1norm, s.r2norm, s.cost)
    if solver == "lsqr":
        return (x, s.istop, s.iiter, s.r1norm, s.r2norm, s.anorm, s.acond, s.arnorm, s.xnorm, s.var, s.cost)
    return (x, s.iiter, s.cost)


def style_call(style, solver, Op, y, kw):
    """One driving style with a full keyword dictionary.  Positional extras
    are carried under '_Regs' / '_P'; 'kwargs' are the **kwargs_solver."""
    from pylops.optimization import leastsquares as LS, sparsity as SP
    from pylops.optimization.cls_leastsquares import NormalEquationsInversion, PreconditionedInversion, RegularizedInversion
    from pylops.optimization.cls_sparsity import IRLS, SplitBregman
    kw = dict(kw)
    extra = kw.pop("kwargs", {}) or {}
    pos = [kw.pop(k) for k in ("_Regs", "_P") if k in kw]
    np.random.seed(0)
    if solver in ITER:
        if style == "function":
            return tuple(functions()[solver](Op, y, **kw))
        s = classes()[solver](Op)
        if style == "solve":
            return tuple(s.solve(y, **kw))
        if solver == "omp":
            s.setup(y, **kw)
            x, cols = s.run([], [])
            xf = s.finalize(x, cols)
            return (xf, s.nouter, s.cost)
        x = s.setup(y, **kw)
        x = s.run(x, kw.get("niter"))
        s.finalize()
        return collect(solver, s, x)
    F = {"irls": SP.irls, "splitbregman": SP.splitbregman, "nei": LS.normal_equations_inversion,
         "ri": LS.regularized_inversion, "pi": LS.preconditioned_inversion}[solver]
    C = {"irls": IRLS, "splitbregman": SplitBregman, "nei": NormalEquationsInversion, "ri": RegularizedInversion,
         "pi": PreconditionedInversion}[solver]
    if style == "function":
        return tuple(F(Op, y, *pos, **kw, **extra))
    s = C(Op)
    if style == "solve":
        return tuple(s.solve(y, *pos, **kw, **extra))
    if solver == "irls":
        k2 = dict(kw)
        x0, nouter = k2.pop("x0", None), k2.pop("nouter", 10)
        s.setup(y, **k2)
        if x0 is None:
            x0 = np.zeros(int(Op.shape[1]), dtype=y.dtype)
        x = s.run(x0, nouter=nouter, **extra)
        s.finalize()
        return (x, s.nouter)
    if solver == "splitbregman":
        x = s.setup(y, *pos, **kw)
        x = s.run(x, **extra)
        s.finalize()
        return (x, s.iiter, s.cost)
    k2 = dict(kw)
    x0, engine = k2.pop("x0", None), k2.pop("engine", "scipy")
    s.setup(y, *pos, **k2)
    out = s.run(x0, engine=engine, **extra)
    s.finalize()
    return tuple(out)


def is_exc(o):
    return len(o) > 0 and isinstance(o[0], str) and o[0] == "EXC"


def outcome(style, solver, Op, y, kw):
    try:
        with np.errstate(all="ignore"):
            return style_call(style, solver, Op, y, kw)
    except Exception as e:
        import pylops
        pylops.set_ndarray_multiplication(True)
        return ("EXC", type(e).__name__)


def kw_options(solver, par):
    """(base keywords, {option: [candidate non-default settings]}); a setting
    is a dict of keyword overrides."""
    a = par.get("alpha", 1.0 / 64)
    if solver == "cg":
        return {"niter": 6, "tol": 0.0}, {"tol": [{"tol": t} for t in (1e-2, 1.0, 1e2, 1e4)], "x0": [{"x0": "@x0"}]}
    if solver == "cgls":
        return {"niter": 6, "tol": 0.0, "damp": 0.0}, {
            "tol": [{"tol": t} for t in (1e-2, 1.0, 1e2, 1e4)], "damp": [{"damp": 0.5}, {"damp": 2.0}], "x0": [{"x0": "@x0"}]}
    if solver == "lsqr":
        return {"niter": 12}, {
            "damp": [{"damp": 0.5}], "atol": [{"atol": t, "btol": 0.0} for t in (0.25, 0.5, 0.05)],
            "btol": [{"btol": t, "atol": 0.0} for t in (0.25, 0.5, 0.05)],
            "conlim": [{"conlim": c, "atol": 0.0, "btol": 0.0} for c in (2.0, 8.0, 50.0, 500.0)],
            "calc_var": [{"calc_var": False}], "x0": [{"x0": "@x0"}]}
    if solver in ("ista", "fista"):
        return {"niter": 6, "alpha": a, "eps": 0.5, "tol": 0.0}, {
            "eps": [{"eps": 2.0}], "alpha": [{"alpha": a / 2}], "tol": [{"tol": t} for t in (1e-3, 1e-2, 0.1, 1.0)],
            "threshkind": [{"threshkind": "hard"}, {"threshkind": "half"}],
            "perc": [{"threshkind": "soft-percentile", "perc": 40.0}, {"threshkind": "hard-percentile", "perc": 60.0}],
            "decay": [{"decay": {"v": [1.0, 0.5, 0.25, 0.125, 0.0625, 0.03125]}}],
            "monitorres": [{"monitorres": True, "alpha": 64 * a}, {"monitorres": True, "alpha": 1024 * a}, {"monitorres": True}],
            "SOp": [{"SOp": "@signs"}, {"SOp": "@D2"}], "x0": [{"x0": "@x0"}]}
    if solver == "omp":
        return {"niter_outer": 4, "niter_inner": 40, "sigma": 0.0}, {
            "niter_inner": [{"niter_inner": 0}, {"niter_inner": 1}], "sigma": [{"sigma": t} for t in (0.5, 2.0, 8.0, 32.0)],
            "normalizecols": [{"normalizecols": True, "niter_inner": 0}, {"normalizecols": True},
                              {"normalizecols": True, "niter_outer": 1}, {"normalizecols": True, "niter_outer": 2, "niter_inner": 0}]}
    if solver == "irls":
        return {"nouter": 3, "kind": "data"}, {
            "threshR": [{"threshR": True, "epsR": 0.5}], "epsR": [{"epsR": 0.5}], "epsI": [{"epsI": 0.5}],
            "tolIRLS": [{"tolIRLS": t} for t in (1e-2, 1.0, 10.0, 100.0)],
            "kind": [{"kind": "model"}, {"kind": "datamodel"}], "warm": [{"warm": True, "kwargs": {"iter_lim": 1}}, {"warm": True}],
            "kwargs_solver": [{"kwargs": {"iter_lim": 1}}], "x0": [{"x0": "@x0"}, {"x0": "@x0", "nouter": 1, "kwargs": {"iter_lim": 1}}],
            "nouter": [{"nouter": 1}]}
    if solver == "splitbregman":
        return {"_Regs": ["@D"], "niter_outer": 3, "niter_inner": 3, "mu": 1.0, "epsRL1s": [0.5]}, {
            "mu": [{"mu": 0.25}], "epsRL1s": [{"epsRL1s": [2.0]}], "tol": [{"tol": t} for t in (0.05, 0.5, 5.0)],
            "tau": [{"tau": 0.5}], "restart": [{"restart": True}], "niter_inner": [{"niter_inner": 1}],
            "niter_outer": [{"niter_outer": 1}],
            "RegsL2": [{"RegsL2": ["@D2"], "dataregsL2": ["@dreg"], "epsRL2s": [0.5]}],
            "epsRL2s": [{"RegsL2": ["@D2"], "epsRL2s": [4.0]}],
            "kwargs_lsqr": [{"kwargs": {"iter_lim": 1}}], "x0": [{"x0": "@x0"}, {"x0": "@x0", "niter_outer": 1, "niter_inner": 1, "kwargs": {"iter_lim": 1}}]}
    if solver == "nei":
        return {"_Regs": ["@D"], "epsRs": [0.5]}, {
            "x0": [{"x0": "@x0"}, {"x0": "@x0", "kwargs": {"maxiter": 1}}], "Weight": [{"Weight": "@Wd"}], "dataregs": [{"dataregs": ["@dreg"]}], "epsI": [{"epsI": 0.5}],
            "epsRs": [{"epsRs": [2.0]}], "NRegs": [{"NRegs": ["@W"], "epsNRs": [0.5]}], "epsNRs": [{"NRegs": ["@W"], "epsNRs": [2.0]}],
            "engine": [{"engine": "pylops", "kwargs": {"niter": 1}}], "kwargs_solver": [{"kwargs": {"maxiter": 1}}]}
    if solver == "ri":
        return {"_Regs": ["@D"], "epsRs": [0.5]}, {
            "x0": [{"x0": "@x0"}, {"x0": "@x0", "kwargs": {"iter_lim": 1}}], "Weight": [{"Weight": "@Wd"}], "dataregs": [{"dataregs": ["@dreg"]}], "epsRs": [{"epsRs": [2.0]}],
            "engine": [{"engine": "pylops", "kwargs": {"niter": 1}}], "kwargs_solver": [{"kwargs": {"iter_lim": 1}}, {"kwargs": {"damp": 0.5}}]}
    return {"_P": "@P"}, {"x0": [{"x0": "@x0"}, {"x0": "@x0", "kwargs": {"iter_lim": 1}}], "engine": [{"engine": "pylops", "kwargs": {"niter": 1}}],
                          "kwargs_solver": [{"kwargs": {"iter_lim": 1}}]}


def kw_materialise(kwspec, sysd, n, m, dt):
    cplx = sysd["cplx"]
    k = json.loads(json.dumps(kwspec))

    def sub(v):
        if v == "@x0":
            return sysd["x0k"]
        if v == "@dreg":
            return sysd["dregk"]
        if isinstance(v, list):
            return [sub(t) for t in v]
        return v
    k = {a: sub(b) for a, b in k.items()}
    return kw_build(k, n, m, dt)


def check_kw(case):
    """function vs class.solve() vs manual setup;run;finalize under one
    non-default keyword setting; inputs / flag intact."""
    import pylops
    logging.disable(logging.CRITICAL)
    sysd = case["sys"]
    solver, cplx = sysd["solver"], sysd["cplx"]
    dt = np.complex128 if cplx else np.float64
    Op = make_op(sysd)
    m, n = int(Op.shape[0]), int(Op.shape[1])
    y = dec(sysd["y"], cplx)
    kw = kw_materialise(case["kw"], sysd, n, m, dt)
    watch = {"y": y}
    if isinstance(kw.get("x0"), np.ndarray):
        watch["x0"] = kw["x0"]
    for key in ("dataregs", "dataregsL2"):
        if isinstance(kw.get(key), list):
            watch["dreg"] = kw[key][0]
    if isinstance(kw.get("decay"), np.ndarray):
        watch["decay"] = kw["decay"]
    g = Guard(**watch)
    probs, outs = [], {}
    for style in ("function", "solve", "manual"):
        outs[style] = outcome(style, solver, Op, y, kw)
        for kind, name, idx in g.changed():
            probs.append(problem("input:" + name if kind == "input" else "flag",
                                 "%s(%s) [%s]: %s %s changed (%s)" % (solver, case["opt"], style, kind, name, idx), case))
            if kind == "input":
                g.a[name][...] = np.frombuffer(g.b[name], dtype=g.a[name].dtype).reshape(g.a[name].shape)
            else:
                pylops.set_ndarray_multiplication(g.flag)
    tol = TOL if solver in ITER else 1e-10
    for a, b, key in (("function", "solve", "func-vs-class"), ("solve", "manual", "class-vs-manual")):
        if is_exc(outs[a]) or is_exc(outs[b]):
            i = -1 if (is_exc(outs[a]) and is_exc(outs[b]) and outs[a][1] == outs[b][1]) else 0
        else:
            i = first_diff(outs[a], outs[b], tol) if len(outs[a]) == len(outs[b]) else 0
        if i != -1:
            probs.append(problem(key, "%s with %s: %s and %s differ in output %d (%s vs %s)" % (
                solver, {k: v for k, v in case["kw"].items() if k in case["setting"]}, a, b, i,
                _short(outs[a], i), _short(outs[b], i)), case))
    return probs, {"outs": outs, "nontrivial": True}


def _short(o, i):
    if is_exc(o):
        return "raises %s" % o[1]
    v = o[i] if i < len(o) else None
    if isinstance(v, np.ndarray):
        return "array%s %s" % (v.shape, np.array2string(v.ravel()[:3], precision=6))
    return repr(v)


def kw_cases(r, solver, cplx, isys):
    """One system + for every keyword of the solver the first candidate
    setting that changes the outcome of MANUAL driving (setup/run honour it
    directly), so that a wrapper or solve() that drops / reorders it shows."""
    dt = np.complex128 if cplx else np.float64
    if solver == "lsqr":
        # ill-conditioned (dyadic singular values) so that conlim / atol / btol can fire inside the budget
        n = 6
        Q = np.eye(n) + np.diag(np.ones(n - 1), 1) * 0.5
        A = (Q @ np.diag([2.0 ** (-2 * j) for j in range(n)])).astype(dt)
        sysd = {"solver": solver, "cplx": cplx, "op": "mat", "A": enc(A), "y": enc(A @ np.ones(n) + rint(r, (n,), cplx, -1, 1) / 64),
                "x0": None, "par": {}}
    else:
        sysd = gen_system(r, "cg" if solver == "cg" else solver if solver in ITER else "cgls", cplx)
        sysd["solver"] = solver
        n = len(dec(sysd["A"], cplx)[0])
        if solver in REST:
            # overdetermined and inconsistent, so that weights / regularisation / thresholds change the answer
            A = np.vstack([dec(sysd["A"], cplx)[:n], rint(r, (3, n), cplx, -2, 2)])
            sysd["A"] = enc(A)
            sysd["y"] = enc(A @ rint(r, (n,), cplx) + rint(r, (n + 3,), cplx, -3, 3))
    sysd["x0k"] = enc(rint(r, (n,), cplx, -2, 2))
    sysd["dregk"] = enc(rint(r, (n,), cplx, -2, 2))
    Op = make_op(sysd)
    m = int(Op.shape[0])
    y = dec(sysd["y"], cplx)
    base, opts = kw_options(solver, sysd["par"])
    cases, effect = [], {}
    for opt, cands in opts.items():
        okey = "kwargs" if opt.startswith("kwargs") else opt
        chosen, matters, exc_choice = None, False, None
        for setting in cands:
            kw = dict(base)
            kw.update(setting)
            kref = dict(base)
            kref.update({k: v for k, v in setting.items() if k != okey})
            o = outcome("manual", solver, Op, y, kw_materialise(kw, sysd, n, m, dt))
            ref = outcome("manual", solver, Op, y, kw_materialise(kref, sysd, n, m, dt))
            if chosen is None:
                chosen = (kw, setting)
            differs = is_exc(o) != is_exc(ref) or (len(o) != len(ref)) or (not is_exc(o) and first_diff(o, ref, 1e-9) != -1)
            if differs and not is_exc(o):
                chosen, matters = (kw, setting), True
                break
            if differs and exc_choice is None:
                exc_choice = (kw, setting)
        if not matters and exc_choice is not None:
            chosen, matters = exc_choice, True     # the setting turns the run into an exception: all styles must raise alike
        effect[opt] = matters
        cases.append({"kind": "kw", "sys": sysd, "opt": opt, "kw": chosen[0], "setting": sorted(chosen[1]), "matters": matters})
    return cases, effect


CHECKS["kw"] = check_kw


def known_for(p):
    """Match a problem against recorded, still-present defects (known_findings.json entries of this property
    carrying 'solver' and 'key'); none are recorded for C11."""
    case = p["case"]
    for k in list(PROPOSED_KNOWN) + [f for f in common.load_known() if f.get("property") == PID]:
        if k.get("solver") == case["sys"]["solver"] and k.get("key") and p["key"].startswith(k["key"]):
            return k
    return None


# ------------------------------------------------------------------ replay
def replay(rp):
    case = rp["case"]
    try:
        probs, rec = CHECKS[case["kind"]](case)
        if case["kind"] == "drive" and rec is not None:
            probs += drive_verdict(case, rec, None)
    finally:
        import pylops
        pylops.set_ndarray_multiplication(True)
    keys = {p["key"] for p in probs}
    k0 = rp.get("key")
    bad = k0 in keys or (k0 is None and bool(keys)) or (str(k0).startswith("drive") and any(k.startswith("drive") for k in keys))
    for p in probs:
        print("  " + p["what"])
    print("reproduced" if bad else "not reproduced")
    return 1 if bad else 0


def drive_verdict(case, rec, coq_codes):
    """Property verdict of a driven program from the implementation's own
    observations + the model's prediction (Coq codes when available, else
    the Python mirror)."""
    probs = []
    solver = case["sys"]["solver"]
    pred_i, pred_rs = model_predict(solver, rec["oks"], case["prog"])
    if coq_codes is None:
        codes = ([1] if pred_i != rec["iiters"] else []) + ([2] if (not pred_rs and not rec["same"]) else [])
    else:
        codes = coq_codes
    if 1 in codes:
        probs.append(problem("drive-iiter", "%s: iteration counter after the calls of program %s is %s, the model's is %s"
                             % (solver, case["prog"], rec["iiters"], pred_i), case))
    if 2 in codes or (not rec["same"] and pred_rs):
        probs.append(problem("drive-diverges", "%s: program %s ends at iteration %d with an iterate / cost history different "
                             "from the one-call-per-iteration trajectory" % (solver, case["prog"], rec["f"]), case, restarts=pred_rs))
    elif rec["full"] not in (None, -1) and not pred_rs:
        probs.append(problem("drive-diag", "%s: program %s ends where solve() ends but output %d differs from solve()'s"
                             % (solver, case["prog"], rec["full"]), case))
    return probs


def shrink_prog(case, key):
    """Delta-debug the driving program: try the two-instalment programs and
    single-piece programs first."""
    N = case["N"]
    cands = [[["R", j], ["R", N]] for j in range(1, N)] + [[["S"]] * j + [["R", N]] for j in range(1, N)] + [[["S"]] * N]
    for prog in cands:
        if len(prog) >= len(case["prog"]):
            continue
        c2 = dict(case, prog=prog)
        try:
            probs, rec = check_drive(c2)
            if rec is not None:
                probs += drive_verdict(c2, rec, None)
        except Exception:
            continue
        if any(p["key"] == key for p in probs):
            return c2
    return case


# ------------------------------------------------------------------ main
def main(tier):
    import pylops
    R = common.Report(PID, tier)
    common.coq_build()
    build_own()
    thms, axioms = common.props_assumptions(PID)
    if axioms and not set(axioms) <= common.ALLOWED_AXIOMS:
        R.violation("Props/C11.v depends on unexpected axioms %s" % axioms, {"axioms": axioms}, no_input=True)
    quick = tier == "quick"
    nsys = 4 if quick else 14
    nprog = 4 if quick else 7
    wd = common.workdir(PID)
    allprobs = []
    hcases, ncases, acases, gcases = [], [], [], []
    hmeta, nmeta, gmeta = {}, {}, {}
    counts = {"drive": 0, "rest": 0, "nd": 0, "exc": 0, "kw": 0}
    dist = {}
    nontriv = set()
    evals = 0
    samples = []
    try:
        # ---------------- iterative solvers: driving programs
        hid = 0
        for solver in ITER:
            for cplx in (False, True):
                for isys in range(nsys):
                    r = common.rng(PID, "sys", solver, cplx, isys)
                    sysd = gen_system(r, solver, cplx)
                    if solver == "cgls":
                        sysd["par"]["damp"] = 0.5 if isys % 2 == 0 else 0.0     # damped and undamped systems in every tier
                        if isys == 0 and sysd["x0"] is None:
                            sysd["x0"] = enc(rint(r, (len(dec(sysd["A"], cplx)[0]),), cplx, -2, 2))
                    n = len(sysd["x0"]["v"]) if sysd["x0"] else len(dec(sysd["A"], cplx)[0])
                    N = r.randint(3, n + 1) if solver in ("ista", "fista") else r.randint(2, n)
                    N = max(N, 2)
                    # every other system: make the stopping test fire inside the budget
                    early = (isys % 2 == 1) and solver in ("cg", "cgls", "ista", "fista", "omp")
                    if early:
                        probe = Driver(solver, make_op(sysd), dec(sysd["y"], cplx), dec(sysd["x0"], cplx), N, sysd["par"])
                        probe.setup()
                        q = []
                        with np.errstate(all="ignore"):
                            for _ in range(N):
                                probe.step()
                                q.append(float(probe.s.kold) if solver in ("cg", "cgls") else
                                         float(probe.s.cost[probe.s.iiter]) if solver == "omp" else float(probe.xupd))
                        mstop = r.randint(1, N - 1)
                        lo, hi = q[mstop - 1], (q[mstop - 2] if mstop >= 2 else None)
                        # power-of-two threshold strictly between the two quantities
                        if hi is not None and np.isfinite(lo) and np.isfinite(hi) and 0 < lo and 4 * lo < hi:
                            t = 2.0 ** np.ceil(np.log2(lo) + 1)
                            if lo < t < hi:
                                sysd["par"]["sigma" if solver == "omp" else "tol"] = float(t)
                    for ip in range(nprog):
                        rp_ = common.rng(PID, "prog", solver, cplx, isys, ip)
                        prog = gen_prog(rp_, N, solver) if ip else [["R", N]]
                        case = {"kind": "drive", "sys": sysd, "N": N, "prog": prog}
                        probs, rec = check_drive(case)
                        counts["drive"] += 1
                        evals += 4
                        allprobs += probs
                        if rec is None:
                            continue
                        hid += 1
                        hmeta[hid] = (case, rec)
                        tr = list(rec["oks"])
                        hcases.append("{| h_id := %d%%nat; h_fresh_ok := %s; h_zlocal := %s; h_tr := %s; h_prog := %s; "
                                      "h_iiters := %s; h_same := %s |}" % (
                                          hid, "true" if solver in ("ista", "fista") else "false",
                                          "false", blit(tr), prog_coq(prog),
                                          common.natlist(rec["iiters"]), "true" if rec["same"] else "false"))
                        key = (solver, cplx, isys, json.dumps(prog))
                        if rec["nontrivial"]:
                            nontriv.add(key)
                        dist[solver] = dist.get(solver, 0) + 1
                        dist["pieces=%d" % len(prog)] = dist.get("pieces=%d" % len(prog), 0) + 1
                        if rec["fsolve"] < N:
                            dist["solve() stopped by its test before niter"] = dist.get("solve() stopped by its test before niter", 0) + 1
                        if rec["f"] != rec["fsolve"]:
                            dist["program ends at another iteration than solve()"] = dist.get("program ends at another iteration than solve()", 0) + 1
                        if len(samples) < 6 and ip == 1:
                            samples.append({"solver": solver, "complex": cplx, "N": N, "program": prog,
                                            "iiter_after_each_call": rec["iiters"], "x": [str(t) for t in rec["out_p"][0][:4]]})
                        # exact re-execution over Qc for the real CG / ISTA / FISTA cases
                        if (not cplx and solver in ("cg", "ista", "fista") and (quick is False or ip < 3)
                                and np.all(np.isfinite(rec["out_p"][0])) and np.all(np.isfinite(np.asarray(rec["out_p"][-1], dtype=float)))):
                            A = dec(sysd["A"], False)
                            x0v = dec(sysd["x0"], False)
                            if x0v is None:
                                x0v = np.zeros(A.shape[1])
                            par = sysd["par"]
                            nid = len(ncases) + 1
                            nmeta[nid] = (case, rec)
                            ncases.append("{| n_id := %d%%nat; n_kind := %d%%nat; n_A := %s; n_ncols := %d%%nat; n_y := %s; n_x0 := %s; "
                                          "n_alpha := %s; n_eps := %s; n_tol := %s; n_prog := %s; n_x := %s; n_iiter := %d%%nat; n_cost := %s |}" % (
                                              nid, {"cg": 0, "ista": 1, "fista": 2}[solver], common.mlit(A), A.shape[1],
                                              common.vlit(dec(sysd["y"], False)), common.vlit(x0v),
                                              common.qlit(par.get("alpha", 0)), common.qlit(par.get("eps", 0)), common.qlit(par.get("tol", 0)),
                                              prog_coq(prog), common.vlit(rec["out_p"][0]), rec["f"],
                                              common.vlit([float(t) for t in rec["out_p"][-1]])))
                        # complex CG / CGLS: the CG.v / CGLS.v step functions over the Gaussian rationals, driven by
                        # the same program; iterate + counter after EVERY call, cost history, istop.  Exact rationals
                        # grow fast: only budgets <= GCAP are evaluated; runs that converge (numerically) exactly
                        # inside the budget are skipped (kold = 0 exactly in the model, ~1e-30 in floating point)
                        if cplx and solver in ("cg", "cgls") and N <= GCAP:
                            k0 = max(rec["kolds"][0], 1e-300)
                            degenerate = any((not np.isfinite(k)) or k <= 1e-20 * k0 for k in rec["kolds"][:N]) or \
                                not all(np.all(np.isfinite(x_)) for x_ in rec["xcalls"])
                            if degenerate:
                                dist["complex exact: skipped (converged inside budget)"] = dist.get("complex exact: skipped (converged inside budget)", 0) + 1
                            else:
                                styles = [("program", prog, rec["xcalls"], rec["iiters"], rec["out_p"])]
                                if ip == 0:
                                    for nm_, o_ in (("function", rec["out_f"]), ("solve", rec["out_c"]), ("manual", rec["out_m"])):
                                        itn = int(o_[1] if solver == "cg" else o_[2])
                                        styles.append((nm_, [["R", N]], [np.asarray(o_[0])], [itn], o_))
                                for nm_, pg_, xs_, its_, o_ in styles:
                                    gid = len(gcases) + 1
                                    gmeta[gid] = (case, rec, nm_)
                                    A_ = dec(sysd["A"], True)
                                    x0_ = dec(sysd["x0"], True)
                                    gcases.append("{| g_id := %d%%nat; g_kind := %d%%nat; g_A := %s; g_n := %d%%nat; g_y := %s; g_x0 := %s; "
                                                  "g_damp := %s; g_tol := %s; g_prog := %s; g_xs := [%s]; g_iiters := %s; g_cost := %s; g_istop := %d%%nat |}" % (
                                                      gid, 0 if solver == "cg" else 1, common.mlit(A_, True), A_.shape[1],
                                                      common.vlit(dec(sysd["y"], True), True),
                                                      "None" if x0_ is None else "(Some %s)" % common.vlit(x0_, True),
                                                      common.qlit(sysd["par"].get("damp", 0.0)), common.qlit(sysd["par"]["tol"]), prog_coq(pg_),
                                                      "; ".join(common.vlit(x_, True) for x_ in xs_), common.natlist(its_),
                                                      common.vlit([float(t) for t in np.asarray(o_[-1], dtype=float)]),
                                                      int(o_[1]) if solver == "cgls" else 0))
                                    dist["complex exact: " + nm_] = dist.get("complex exact: " + nm_, 0) + 1
                        # alias maps vs the heap model (after setup and after N steps)
                        if ip == 0:
                            for k, obs in ((0, rec["al0"]), (N, rec["alN"])):
                                acases.append((len(acases) + 1, solver, sysd["x0"] is not None, False, k, obs, case))
        # view-returning operator (Identity): alias maps only
        for solver in ("cg", "cgls", "lsqr", "ista", "omp"):
            for cplx in (False, True):
                r = common.rng(PID, "ident", solver, cplx)
                n = 4
                xt = rint(r, (n,), cplx)
                x0 = rint(r, (n,), cplx, -2, 2) if solver != "omp" and r.random() < 0.5 else None
                sysd = {"solver": solver, "cplx": cplx, "op": "ident", "A": None, "y": enc(xt), "x0": None if x0 is None else enc(x0),
                        "par": {"tol": 0.0, "damp": 0.0, "alpha": 0.5, "eps": 0.5, "inner": 0, "sigma": 0.0}}
                case = {"kind": "drive", "sys": sysd, "N": 1, "prog": [["S"]]}
                probs, rec = check_drive(case)
                counts["drive"] += 1
                evals += 4
                allprobs += probs
                if rec is not None:
                    acases.append((len(acases) + 1, solver, x0 is not None, True, 1, rec["alN"], case))
        # ---------------- remaining solvers
        for solver in REST:
            for cplx in (False, True):
                for isys in range(nsys):
                    r = common.rng(PID, "rest", solver, cplx, isys)
                    sysd = gen_system(r, "cgls", cplx)
                    sysd["solver"] = solver
                    n = len(dec(sysd["A"], cplx)[0])
                    sysd["par"] = {"eps": r.choice([0.5, 1.0]), "kind": r.choice(["data", "model"]), "epsI": r.choice([0.0, 0.5])}
                    if r.random() < 0.6:
                        sysd["dreg"] = enc(rint(r, (n,), cplx, -2, 2))
                    if isys % 3 == 2 or (solver == "nei" and isys == 0):
                        sysd["op"] = "ident"          # a view-returning operator
                        sysd["y"] = enc(rint(r, (n,), cplx))
                    case = {"kind": "rest", "sys": sysd}
                    probs, rec = check_rest(case)
                    counts["rest"] += 1
                    evals += 3
                    allprobs += probs
                    if rec is not None and rec["nontrivial"]:
                        nontriv.add((solver, cplx, isys, "rest"))
                    dist[solver] = dist.get(solver, 0) + 1
                    if solver == "nei" and rec is not None:
                        # alias of y_normal vs the heap model (observed through the alias problem key)
                        obs_alias = any(p["key"] == "alias:y_normal" for p in probs)
                        acases.append((len(acases) + 1, "nei", False, sysd["op"] == "ident", 0, [(True, False), (obs_alias, False)], case))
        # ---------------- every keyword of every solver, three styles
        kweffect = {}
        for solver in ITER + REST:
            for cplx in (False, True):
                for isys in range(1 if quick else 3):
                    r = common.rng(PID, "kw", solver, cplx, isys)
                    cases_, effect = kw_cases(r, solver, cplx, isys)
                    for c_ in cases_:
                        probs, rec = check_kw(c_)
                        counts["kw"] = counts.get("kw", 0) + 1
                        evals += 3
                        allprobs += probs
                        kk = "%s.%s" % (solver, c_["opt"])
                        kweffect[kk] = kweffect.get(kk, False) or c_["matters"]
                        if c_["matters"]:
                            nontriv.add((solver, cplx, isys, "kw", c_["opt"]))
        dist["keywords swept"] = len(kweffect)
        dist["keywords whose setting changed the outcome"] = sum(1 for v in kweffect.values() if v)
        noeff = sorted(k for k, v in kweffect.items() if not v)
        if noeff:
            R.notes.append("keyword settings without effect on the outcome (style comparison still run): %s" % noeff)
        # ---------------- N-d
        for solver in ITER + REST:
            for cplx in (False, True):
                for opk in ("diag", "matother", "deriv", "ff_none", "ff_false", "ff_true", "ff_chain"):
                    if opk.startswith("ff_") and solver not in ("cg", "cgls", "lsqr"):
                        continue
                    if opk == "deriv" and solver in ("cg", "omp", "ista", "fista") + tuple(REST):
                        continue
                    if solver in REST and opk != "diag":
                        continue
                    r = common.rng(PID, "nd", solver, cplx, opk)
                    sysd = {"solver": solver, "cplx": cplx, "op": opk, "axis": r.randint(0, 1)}
                    sysd["d"] = enc(np.array([r.randint(2, 6) for _ in range(12)], dtype=float) + (0j if cplx else 0))
                    B = rint(r, (3, 3), cplx, -2, 2)
                    sysd["A"] = enc(B.conj().T @ B + 4 * np.eye(3))
                    if opk.startswith("ff_"):
                        B12 = rint(r, (12, 12), cplx, -1, 1)
                        sysd["A12"] = enc(B12.conj().T @ B12 + 12 * np.eye(12))
                    sysd["y"] = enc(rint(r, (12,), cplx))
                    sysd["x0"] = enc(rint(r, (12,), cplx, -2, 2))
                    sysd["par"] = {"tol": 0.0, "damp": 0.0, "alpha": 1.0 / 64, "eps": 0.5, "inner": 40, "sigma": 0.0}
                    if solver in REST:
                        case = {"kind": "nd", "sys": sysd, "N": 3, "mode": "nd"}
                        probs = nd_rest(case)
                        counts["nd"] += 1
                        evals += 1
                        allprobs += probs
                        continue
                    for mode in ("nd", "x0flat", "x0none"):
                        if solver == "omp" and mode != "nd":
                            continue
                        case = {"kind": "nd", "sys": sysd, "N": 3, "mode": mode}
                        probs, rec = check_nd(case)
                        counts["nd"] += 1
                        evals += 2
                        allprobs += probs
                        if rec and rec["nontrivial"]:
                            nontriv.add((solver, cplx, opk, mode))
                        if rec:
                            dist["nd refused" if rec.get("refused") else "nd accepted"] = dist.get("nd refused" if rec.get("refused") else "nd accepted", 0) + 1
        # ---------------- exceptions
        for solver in ITER + REST:
            for cplx in ((False,) if quick else (False, True)):
                r = common.rng(PID, "exc", solver, cplx)
                base = gen_system(r, "cg" if solver == "cg" else "cgls", cplx)
                base["solver"] = solver
                if solver in ("ista", "fista"):
                    base["par"] = {"alpha": 1.0 / 256, "eps": 0.5, "tol": 0.0}
                if solver == "omp":
                    base["par"] = {"inner": 0, "sigma": 0.0}
                    base["x0"] = None
                styles = ("function", "solve", "manual") if solver in ITER else ("function",)
                for style in styles:
                    for m in (1, 2, 3, 5):
                        for flag0 in (True, False):
                            case = {"kind": "exc", "sys": base, "N": 3, "m": m, "style": style, "flag0": flag0}
                            probs, rec = check_exc(case)
                            counts["exc"] += 1
                            evals += 1
                            allprobs += probs
                            if rec["raised"]:
                                nontriv.add((solver, cplx, style, m, flag0))
                            dist["exc raised" if rec["raised"] else "exc not reached"] = dist.get("exc raised" if rec["raised"] else "exc not reached", 0) + 1
                # N-d call through the decorated wrappers with a raising operator
                if solver in ("cg", "cgls", "lsqr"):
                    sysd = {"solver": solver, "cplx": cplx, "op": "diag", "d": enc(np.arange(2, 14).astype(float) + (0j if cplx else 0)),
                            "y": enc(rint(r, (12,), cplx)), "x0": enc(rint(r, (12,), cplx, -2, 2)),
                            "par": {"tol": 0.0, "damp": 0.0}}
                    for m in (1, 2, 4):
                        case = {"kind": "exc", "sys": sysd, "N": 3, "m": m, "style": "function", "flag0": True, "ndcall": True}
                        probs, rec = check_exc(case)
                        counts["exc"] += 1
                        evals += 1
                        allprobs += probs
                        if rec["raised"]:
                            nontriv.add((solver, cplx, "ndcall", m))
    finally:
        pylops.set_ndarray_multiplication(True)

    # ---------------- Coq evaluation of the model's predictions
    hdr = ("From Coq Require Import QArith Qcanon ZArith List Bool.\n"
           "From PV Require Import Dict Vec Dot Mat QcInst Check Drivers DriversInst CheckC11.\nImport ListNotations.\n")
    files = {}
    # canaries: deliberately wrong cases that must come back as failing
    hcases.append("{| h_id := 9999%nat; h_fresh_ok := false; h_zlocal := false; h_tr := [true; true; true]; "
                  "h_prog := [Step; Run 2%nat]; h_iiters := [1%nat; 3%nat]; h_same := true |}")
    hcases.append("{| h_id := 9998%nat; h_fresh_ok := true; h_zlocal := true; h_tr := [true; true; true; true; true]; "
                  "h_prog := [Run 2%nat; Run 4%nat]; h_iiters := [2%nat; 4%nat]; h_same := true |}")
    for k, ch in enumerate(common.shard(hcases, 120)):
        files["hist_%d" % k] = hdr + "Definition cases : list hcase := [\n" + ";\n".join(ch) + "].\nEval vm_compute in (run_cases h_id hcheck cases).\n"
    ncases.append("{| n_id := 9999%nat; n_kind := 0%nat; n_A := [[(qz 2); (qz 1)]; [(qz 1); (qz 3)]]; n_ncols := 2%nat; n_y := [(qz 3); (qz 5)]; "
                  "n_x0 := [z0; z0]; n_alpha := z0; n_eps := z0; n_tol := z0; n_prog := [Run 2%nat]; n_x := [(q 4 5); (qz 1)]; "
                  "n_iiter := 2%nat; n_cost := [z0; z0; z0] |}")
    per = max(1, (len(ncases) + 15) // 16)
    for k, ch in enumerate(common.shard(ncases, per)):
        files["num_%d" % k] = hdr + "Definition cases : list ncase := [\n" + ";\n".join(ch) + "].\nEval vm_compute in (run_cases n_id ncheck cases).\n"
    gcases.append("{| g_id := 9999%nat; g_kind := 0%nat; g_A := [[((qz 4), z0); ((qz 1), (qz 1))]; [((qz 1), (qz (-1))); ((qz 3), z0)]]; g_n := 2%nat; "
                  "g_y := [((qz 2), (qz 1)); ((qz 1), (qz (-2)))]; g_x0 := None; g_damp := z0; g_tol := z0; g_prog := [Run 2%nat]; "
                  "g_xs := [[((qz 1), z0); (z0, (qz 1))]]; g_iiters := [2%nat]; g_cost := [z0; z0; z0]; g_istop := 0%nat |}")
    perg = max(1, (len(gcases) + 15) // 16)
    for k, ch in enumerate(common.shard(gcases, perg)):
        files["gauss_%d" % k] = hdr.replace("CheckC11.", "GaussQc GaussField CheckC11.") + \
            "Definition cases : list gcase := [\n" + ";\n".join(ch) + "].\nEval vm_compute in (run_cases g_id gcheck cases).\n"
    alines = ["{| a_id := %d%%nat; a_solver := %d%%nat; a_x0given := %s; a_view := %s; a_steps := %d%%nat; a_obs := [%s] |}" % (
        i, ACODE[s], "true" if g_ else "false", "true" if v else "false", k,
        "; ".join("(%s, %s)" % ("true" if a else "false", "true" if b else "false") for a, b in obs))
        for (i, s, g_, v, k, obs, _c) in acases]
    alines.append("{| a_id := 9999%nat; a_solver := 0%nat; a_x0given := true; a_view := false; a_steps := 1%nat; "
                  "a_obs := [(true, false); (false, true); (false, false); (false, false)] |}")
    files["alias_0"] = hdr + "Definition cases : list acase := [\n" + ";\n".join(alines) + "].\nEval vm_compute in (run_cases a_id acheck cases).\n"
    for nme, txt in files.items():
        open(os.path.join(wd, nme + ".v"), "w").write(txt)
    outs = common.run_coq_files(wd, sorted(files))
    hfail, nfail, afail, gfail = {}, {}, {}, {}
    for nme, o in outs.items():
        res = common.parse_failing(o)
        (hfail if nme.startswith("hist") else nfail if nme.startswith("num") else gfail if nme.startswith("gauss") else afail).update(res)
    if 4 not in gfail.pop(9999, []):
        raise RuntimeError("C11 complex canary case was not reported as failing: the Coq comparison pipeline is broken")
    if 1 not in hfail.pop(9999, []) or 3 not in hfail.pop(9998, []) or 4 not in nfail.pop(9999, []) or 6 not in afail.pop(9999, []):
        raise RuntimeError("C11 canary cases were not reported as failing: the Coq comparison pipeline is broken")

    # ---------------- verdicts of the driven programs
    agree = 0
    for hid_, (case, rec) in hmeta.items():
        codes = hfail.get(hid_, [])
        probs = drive_verdict(case, rec, codes)
        if not codes:
            agree += 1
        allprobs += probs
    for nid, codes in nfail.items():
        case, rec = nmeta[nid]
        # the exact Qc execution of the model disagrees with the implementation: search = the style comparison above;
        # if that found nothing for this case, report the broken correspondence
        mine = [p for p in allprobs if p["case"] is case]
        if not mine:
            allprobs.append(problem("numeric-model", "%s: implementation result of program %s differs from the exact model run "
                                    "(codes %s; Corr.CheckC11.ncheck)" % (case["sys"]["solver"], case["prog"], codes), case, no_input=True))
    for gid, codes in gfail.items():
        case, rec, nm_ = gmeta[gid]
        mine = [p for p in allprobs if p["case"] is case]
        if not mine:
            allprobs.append(problem("complex-model", "%s (complex, style %s, program %s): iterates / counter / cost of the implementation differ "
                                    "from the exact CG.v/CGLS.v model run over the Gaussian rationals (codes %s; Corr.CheckC11.gcheck)"
                                    % (case["sys"]["solver"], nm_, case["prog"] if nm_ == "program" else [["R", case["N"]]], codes), case, no_input=True))
    for (i, s, g_, v, k, obs, case) in acases:
        if i in afail:
            mine = [p for p in allprobs if p["case"] is case and p["key"].startswith(("alias", "input"))]
            if not mine:
                allprobs.append(problem("alias-model", "%s: observed alias map %s (fields %s) differs from the heap model's "
                                        "(x0given=%s view=%s steps=%d; Corr.CheckC11.acheck)" % (s, obs, FIELDS.get(s, ["y", "y_normal"]), g_, v, k),
                                        case, no_input=True))

    # ---------------- report
    seen = set()
    for p in allprobs:
        kf = known_for(p)
        if kf:
            R.known_finding(kf["id"], kf["what"])
            continue
        case = p["case"]
        sig = (p["key"], case["sys"]["solver"], case["kind"])
        if sig in seen:
            continue
        seen.add(sig)
        if p["key"].startswith("alias"):
            # sharing a buffer is not a modification: the property is violated only by a write, which the bitwise
            # comparison after every call detects; a changed alias map alone is recorded, not alarmed
            R.notes.append("aliasing differs from the heap model without a caller-visible write: " + p["what"])
            continue
        if case["kind"] == "drive" and p["key"].startswith("drive") and case["sys"]["op"] == "mat":
            c2 = shrink_prog(case, p["key"])
            if c2 is not case:
                p = dict(p, what=p["what"] + " [shrunk driving program in the replay: %s]" % c2["prog"])
                case = c2
        R.violation(p["what"], {"case": case, "key": p["key"], "trace": p.get("trace")}, no_input=bool(p.get("no_input")))
    nh, nn, na, ng = len(hcases) - 2, len(ncases) - 1, len(acases), len(gcases) - 1
    R.cov.update(
        obligations=len(thms) + nh + nn + na + ng,
        discharged=len(thms) + (nh - len(hfail)) + (nn - len(nfail)) + (na - len(afail)) + (ng - len(gfail)),
        complex_exact_cases=ng,
        checker_cmd="make -C coq + coqc Solvers/Drivers.v State/Heap.v Solvers/DriversInst.v Corr/CheckC11.v Props/C11.v "
                    "(Print Assumptions) + coqc .work/C11/{hist,num,gauss,alias}_*.v (vm_compute: model prediction vs implementation)",
        theorems=thms, axioms_reported=axioms, evaluations=evals, distinct_nontrivial=len(nontriv),
        rule="per solver x {real, complex} x system (integer / Gaussian-integer well-conditioned matrices, n=3..5, half of them "
             "with a stopping threshold placed inside the budget) x driving program (budget split into <= 4 pieces of Step / Run): "
             "function, class.solve(), manual styles on the implementation; non-trivial = distinct (solver, system, program / mode) whose "
             "iterate moved away from the starting guess (drive), non-zero solution (rest, nd), injected exception actually raised (exc)",
        history_cases=nh, history_cases_agreeing=agree, numeric_cases=nn, alias_cases=na,
        cases_by_kind=counts, distribution=dist,
        known_defects_expected=[k["id"] for k in PROPOSED_KNOWN])
    R.samples = samples
    return R.finish()


def nd_rest(case):
    """N-d call of a solver without N-d support: must be refused (or give the
    same numbers) and leave flag / inputs alone."""
    import pylops
    from pylops.optimization import leastsquares as LS, sparsity as SP
    logging.disable(logging.CRITICAL)
    sysd = case["sys"]
    solver, cplx = sysd["solver"], sysd["cplx"]
    dt = np.complex128 if cplx else np.float64
    Op = nd_ops("diag", cplx, sysd)
    Y = dec(sysd["y"], cplx).reshape(3, 4)
    X0 = dec(sysd["x0"], cplx).reshape(3, 4)
    D = pylops.FirstDerivative((3, 4), axis=0, dtype=dt)
    g = Guard(y=Y, x0=X0)
    probs = []
    try:
        if solver == "irls":
            SP.irls(Op, Y, x0=X0, nouter=2)
        elif solver == "splitbregman":
            SP.splitbregman(Op, Y, [D], x0=X0, niter_outer=2, niter_inner=2, epsRL1s=[0.5])
        elif solver == "nei":
            LS.normal_equations_inversion(Op, Y, [D], x0=X0, epsRs=[0.5])
        elif solver == "ri":
            LS.regularized_inversion(Op, Y, [D], x0=X0, epsRs=[0.5])
        else:
            LS.preconditioned_inversion(Op, Y, pylops.Diagonal(np.ones((3, 4), dtype=dt) * 2, dtype=dt), x0=X0)
    except Exception:
        pass
    for kind, name, idx in g.changed():
        probs.append(problem("input:" + name if kind == "input" else "flag",
                             "%s: %s %s changed (%s) by an N-d call" % (solver, kind, name, idx), case))
    pylops.set_ndarray_multiplication(True)
    return probs


def _check_nd_dispatch(case):
    if case["sys"]["solver"] in REST:
        return nd_rest(case), None
    return check_nd(case)


CHECKS["nd"] = _check_nd_dispatch
