import importlib
import json
import os
import sys


def main():
    if len(sys.argv) < 2:
        raise SystemExit("usage: check <ID> quick|thorough | check replay <file>")
    if sys.argv[1] == "replay":
        rp = json.load(open(sys.argv[2]))
        mod = importlib.import_module("harness.%s" % rp["property"].lower())
        sys.exit(mod.replay(rp))
    pid = sys.argv[1].upper()
    tier = sys.argv[2] if len(sys.argv) > 2 else os.environ.get("VERIF_TIER", "quick")
    if tier not in ("quick", "thorough"):
        tier = "quick"
    mod = importlib.import_module("harness.%s" % pid.lower())
    sys.exit(mod.main(tier))


if __name__ == "__main__":
    main()
