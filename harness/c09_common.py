"""Shared machinery of C09 (Krylov solvers converge to the documented
minimiser) and C10 (solver diagnostics are truthful).

* generate well-conditioned small systems with exactly representable data;
* run the REAL pylops cg / cgls (function API and class API with a Callbacks
  object) logging every iterate, and pylops lsqr against
  scipy.sparse.linalg.lsqr (the oracle named by the property);
* write every cg / cgls run as a Gallina record for Corr/CheckC09.v, where
  the comparison with the Coq model (Solvers/CG.v, CGLS.v over Qc / Gaussian
  Qc) happens inside vm_compute;
* python-side property checks on the implementation alone (used to SEARCH
  for a failing input of the property when Coq reports a disagreement, and
  by replay)."""
import os
import pickle
import subprocess
import time

import numpy as np

from . import common

TOL = 1e-7            # model-vs-implementation tolerance used inside Coq: (q 1 10000000)
TOL_LIT = "(q 1 10000000)"
TOL0 = 2.0 ** -60     # default solver tol (separates converged kold ~1e-27 from everything else)
DAMPS = [0.0, 0.5, 3.0]

# No known defects remain in scope: the three cgls defects found while building this check were repaired by
# 4c3cad3 (setup uses damp**2 in r and cost1[0]) and a61e68b (r1norm = cost[iiter]); see known_findings.json "fixed".
PROPOSED_KNOWN = []


def own_coq_build():
    """Until integrated in _CoqProject: compile our own .v files if stale."""
    th = os.path.join(common.COQDIR, "theories")
    order = ["Solvers/CG.v", "Solvers/CGLS.v", "Solvers/CGLSFacts.v", "Solvers/CGLSMono.v", "Corr/CheckC09.v", "Solvers/LSQR.v", "Corr/CheckLSQR.v"]
    proj = open(os.path.join(common.COQDIR, "_CoqProject")).read()
    prev = max(os.path.getmtime(os.path.join(th, f)) for f in ("Base/Mat.vo", "Inst/GaussField.vo", "Corr/Check.vo"))
    for rel in order:
        src = os.path.join(th, rel)
        if not os.path.exists(src) or ("theories/" + rel) in proj:
            continue
        vo = src[:-2] + ".vo"
        if not os.path.exists(vo) or os.path.getmtime(vo) < os.path.getmtime(src) or os.path.getmtime(vo) < prev:
            p = subprocess.run(["timeout", "600", "coqc", "-Q", "theories", "PV", "theories/" + rel], cwd=common.COQDIR,
                               stdout=subprocess.PIPE, stderr=subprocess.STDOUT, text=True)
            if p.returncode != 0:
                print(p.stdout[-3000:])
                raise SystemExit("coq build of %s failed" % rel)
        prev = max(prev, os.path.getmtime(vo))


# ---------------------------------------------------------------- systems
def _ints(r, lo, hi, shape, cplx):
    a = np.array([r.randint(lo, hi) for _ in range(int(np.prod(shape)))], dtype=float).reshape(shape)
    if cplx:
        b = np.array([r.randint(lo, hi) for _ in range(int(np.prod(shape)))], dtype=float).reshape(shape)
        return a + 1j * b
    return a.astype(float)


def gen_base(r, m, n, cplx):
    """A = D + E, D 'diagonal' with entries in [6, 12], E entries in [-2, 2]."""
    A = _ints(r, -2, 2, (m, n), cplx)
    for i in range(min(m, n)):
        A[i, i] += r.randint(6, 12)
    return A


def gen_system(r, kind, cplx):
    if kind == "spd":
        n = r.choice([3, 4, 5])
        B = gen_base(r, n, n, cplx)
        if r.random() < 0.5:
            H = B.conj().T @ B
        else:
            while True:
                E = _ints(r, -2, 2, (n, n), cplx)
                H = np.diag([float(r.randint(6, 12)) for _ in range(n)]).astype(B.dtype) + np.triu(E, 1) + np.triu(E, 1).conj().T
                if np.linalg.eigvalsh(H).min() > 1.0:
                    break
        A, Hm, m = B, H, n
    else:
        m, n = (6, 4) if kind == "tall" else (4, 6)
        A = gen_base(r, m, n, cplx)
        Hm = None
    y = _ints(r, -9, 9, (m,), cplx)
    x0 = _ints(r, -5, 5, (n,), cplx)
    if not np.any(x0):
        x0[0] = 1
    return {"kind": kind, "cplx": cplx, "A": A, "H": Hm, "y": y, "x0r": x0, "m": m, "n": n}


def x0_of(sysd, x0kind):
    if x0kind == "none":
        return None
    if x0kind == "zeros":
        return np.zeros(sysd["n"], dtype=sysd["A"].dtype)
    return sysd["x0r"].copy()


# ---------------------------------------------------------------- running the implementation
def run_impl(solver, A, y, x0, damp, niter, tol, trace, drive="solve"):
    """One call of the real pylops solver; returns everything it returned and
    everything the callbacks saw.  drive = "solve" (functional API, or class API
    with a Callbacks object when trace), "manual" (class API: setup, niter x
    step, finalize; the iterates are logged by the harness after each step),
    "mixed" (setup, one manual step, run(niter), finalize)."""
    import pylops
    from pylops.optimization.callback import Callbacks
    from pylops.optimization.cls_basic import CG, CGLS
    Op = pylops.MatrixMult(A.copy(), dtype=A.dtype)
    cbs, begins, ends = [], [], []

    def cb(x):
        cbs.append(np.array(x, copy=True))

    x0c = None if x0 is None else x0.copy()
    out = {"solver": solver, "trace": trace}
    if drive in ("manual", "mixed"):
        s = (CG if solver == "cg" else CGLS)(Op)
        s.callback = cb
        kw = dict(y=y.copy(), x0=x0c, niter=niter, tol=tol)
        if solver == "cgls":
            kw["damp"] = damp
        x = s.setup(**kw)
        nman = niter if drive == "manual" else min(1, niter)
        for _ in range(nman):
            x = s.step(x)
            cbs.append(np.array(x, copy=True))
        if drive == "mixed":
            x = s.run(x, niter)
        s.finalize()
        res = (x, s.iiter, s.cost) if solver == "cg" else (x, s.istop, s.iiter, s.r1norm, s.r2norm, s.cost)
    elif trace:
        class Tr(Callbacks):
            def on_step_begin(self, s, x):
                begins.append((int(s.iiter), np.array(x, copy=True)))

            def on_step_end(self, s, x):
                ends.append((int(s.iiter), np.array(x, copy=True), len(s.cost)))
        s = (CG if solver == "cg" else CGLS)(Op, callbacks=[Tr()])
        s.callback = cb
        if solver == "cg":
            res = s.solve(y=y.copy(), x0=x0c, niter=niter, tol=tol)
        else:
            res = s.solve(y=y.copy(), x0=x0c, niter=niter, damp=damp, tol=tol)
    else:
        if solver == "cg":
            res = pylops.cg(Op, y.copy(), x0=x0c, niter=niter, tol=tol, callback=cb)
        else:
            res = pylops.cgls(Op, y.copy(), x0=x0c, niter=niter, damp=damp, tol=tol, callback=cb)
    if solver == "cg":
        x, iiter, cost = res
        istop, r1, r2 = 0, 0.0, 0.0
    else:
        x, istop, iiter, r1, r2, cost = res
    out.update(x=np.array(x), iiter=int(iiter), cost=[float(c) for c in np.atleast_1d(cost)], istop=int(istop),
               r1=float(np.real(r1)), r2=float(np.real(r2)), cbs=cbs, begins=begins, ends=ends)
    return out


def dense_solution(solver, A, H, y, x0, damp):
    """The documented minimiser (numpy.linalg oracle)."""
    if solver == "cg":
        return np.linalg.solve(H, y)
    m, n = A.shape
    if solver == "lsqr" and x0 is not None:
        # SciPy convention: with a starting guess the damping acts on the update
        return x0 + dense_solution("cgls", A, H, y - A @ x0, None, damp)
    if damp == 0 and m < n:
        xb = np.zeros(n, dtype=A.dtype) if x0 is None else x0
        return xb + np.linalg.pinv(A) @ (y - A @ xb)
    return np.linalg.solve(A.conj().T @ A + damp ** 2 * np.eye(n), A.conj().T @ y)


def py_checks(case, out):
    """Property checks on the implementation alone: list of (kind, detail)."""
    A, y, x0, damp, solver = case["Aop"], case["y"], case["x0"], case["damp"], case["solver"]
    n = A.shape[1]
    bad = []
    xs = [np.zeros(n, dtype=A.dtype) if x0 is None else x0] + list(out["cbs"])
    cost = out["cost"]
    scale = 1.0 + float(np.linalg.norm(y))
    if len(cost) != 1 + out["iiter"]:
        bad.append(("cost_length", "len(cost)=%d but iiter=%d" % (len(cost), out["iiter"])))
    if len(out["cbs"]) != out["iiter"]:
        bad.append(("callback_count", "callback called %d times but iiter=%d" % (len(out["cbs"]), out["iiter"])))
    if out["cbs"] and np.abs(out["cbs"][-1] - out["x"]).max() > 1e-9 * (1 + np.abs(out["x"]).max()):
        bad.append(("callback_last", "last callback argument is not the returned x"))
    for k in range(min(len(cost), len(xs))):
        act = float(np.linalg.norm(y - A @ xs[k]))
        if abs(cost[k] ** 2 - act ** 2) > TOL * (1 + act ** 2):
            bad.append(("cost", "cost[%d]=%.12g but ||y-Op x_%d||=%.12g" % (k, cost[k], k, act)))
            break
    if solver == "cgls":
        x = out["x"]
        act1 = float(np.linalg.norm(y - A @ x))
        act2 = float(np.sqrt(act1 ** 2 + damp ** 2 * np.linalg.norm(x) ** 2))
        if abs(out["r1"] ** 2 - act1 ** 2) > TOL * (1 + act1 ** 2):
            bad.append(("r1norm", "r1norm=%.12g but ||y-Op x||=%.12g" % (out["r1"], act1)))
        if abs(out["r2"] ** 2 - act2 ** 2) > TOL * (1 + act2 ** 2):
            bad.append(("r2norm", "r2norm=%.12g but sqrt(||y-Op x||^2+damp^2||x||^2)=%.12g" % (out["r2"], act2)))
        J = [float(np.linalg.norm(y - A @ v) ** 2 + damp ** 2 * np.linalg.norm(v) ** 2) for v in xs]
        for k in range(len(J) - 1):
            if J[k + 1] > J[k] + 1e-9 * (1 + abs(J[k])):
                bad.append(("monotone", "J(x_%d)=%.12g > J(x_%d)=%.12g" % (k + 1, J[k + 1], k, J[k])))
                break
    if case["niter"] >= n and case["tol"] <= TOL0:
        xs_ = dense_solution(solver, A, case.get("H"), y, x0, damp)
        err = float(np.linalg.norm(out["x"] - xs_) / (1e-300 + np.linalg.norm(xs_)))
        if err > 1e-8:
            bad.append(("minimiser", "relative distance of the returned x to the dense solution = %.3e after niter=%d >= n=%d"
                        % (err, case["niter"], n)))
    return bad


# ---------------------------------------------------------------- LSQR vs SciPy (oracle)
def lsqr_checks(A, y, x0, damp, niter, tols=0.0, calc_var=True):
    """pylops.lsqr vs scipy.sparse.linalg.lsqr(iter_lim=k) for every k; returns
    (bad list, n_comparisons, info)."""
    import pylops
    from scipy.sparse.linalg import lsqr as slsqr
    Op = pylops.MatrixMult(A.copy(), dtype=A.dtype)
    its = []
    tk = dict(atol=tols, btol=tols, conlim=(0 if tols == 0 else 1e8))
    out = pylops.lsqr(Op, y.copy(), x0=None if x0 is None else x0.copy(), damp=damp, niter=niter, calc_var=calc_var,
                      callback=lambda z: its.append(np.array(z, copy=True)), **tk)
    x, istop, itn, r1, r2, anorm, acond, arnorm, xnorm, var, cost = out
    cost = np.atleast_1d(cost)
    n = A.shape[1]
    bad, ncmp = [], 0
    scale = 1.0 + float(np.linalg.norm(y))
    xb = np.zeros(n, dtype=A.dtype) if x0 is None else x0
    if len(cost) != 1 + itn:
        bad.append(("cost_length", "len(cost)=%d but iiter=%d" % (len(cost), itn)))
    if len(its) != itn:
        bad.append(("callback_count", "callback called %d times but iiter=%d" % (len(its), itn)))
    if itn > niter:
        bad.append(("iiter", "iiter=%d > niter=%d" % (itn, niter)))
    if abs(cost[0] - np.linalg.norm(y - A @ xb)) > 1e-9 * scale:
        bad.append(("cost", "cost[0]=%.12g but ||y-Op x0||=%.12g" % (cost[0], np.linalg.norm(y - A @ xb))))
    last = None
    for k in range(1, min(itn, len(its), len(cost) - 1) + 1):
        s = slsqr(A, y, damp=damp, iter_lim=k, x0=None if x0 is None else x0.copy(), **tk)
        if s[2] != k:
            continue          # SciPy stopped earlier on a machine-precision test
        ncmp += 1
        last = s
        if np.abs(s[0] - its[k - 1]).max() > 1e-9 * (1 + np.abs(s[0]).max()):
            bad.append(("lsqr_iterate", "iterate %d differs from scipy lsqr(iter_lim=%d) by %.3e" % (k, k, np.abs(s[0] - its[k - 1]).max())))
            break
        if abs(cost[k] - abs(s[3])) > 1e-8 * scale:
            bad.append(("lsqr_cost", "cost[%d]=%.12g but scipy r1norm after %d iterations=%.12g" % (k, cost[k], k, s[3])))
            break
        if damp == 0 and abs(cost[k] - np.linalg.norm(y - A @ its[k - 1])) > 1e-6 * scale:
            bad.append(("cost", "cost[%d]=%.12g but ||y-Op x_%d||=%.12g" % (k, cost[k], k, np.linalg.norm(y - A @ its[k - 1]))))
            break
    # beyond min(m, n) steps the bidiagonalisation has broken down (beta ~ 0 in exact arithmetic) and the norm
    # ESTIMATES of both implementations are amplified rounding noise: they are compared up to that point only
    if last is not None and last[2] == itn and not bad and itn <= min(min(A.shape), gk_reliable(A, y, xb, itn + 1)):
        for name, a, b, sc in (("r1norm", r1, last[3], scale), ("r2norm", r2, last[4], scale), ("anorm", anorm, last[5], 1 + last[5]),
                               ("acond", acond, last[6], 1 + last[6]), ("arnorm", arnorm, last[7], (1 + last[5]) * scale),
                               ("xnorm", xnorm, last[8], 1 + last[8])):
            if abs(a - b) > 1e-8 * sc:
                bad.append(("lsqr_" + name, "%s=%.12g but scipy lsqr(iter_lim=%d) gives %.12g" % (name, a, itn, b)))
    if its and np.abs(its[-1] - x).max() > 1e-9 * (1 + np.abs(x).max()):
        bad.append(("callback_last", "last callback argument is not the returned x"))
    xs = [xb] + its
    J = [float(np.linalg.norm(y - A @ v) ** 2 + damp ** 2 * np.linalg.norm(v - xb) ** 2) for v in xs]
    for k in range(len(J) - 1):
        if J[k + 1] > J[k] + 1e-9 * (1 + abs(J[k])):
            bad.append(("monotone", "lsqr functional J(x_%d)=%.12g > J(x_%d)=%.12g" % (k + 1, J[k + 1], k, J[k])))
            break
    bad += lsqr_manual_checks(Op, A, y, x0, damp, niter, tk, cost, x)
    if niter >= n and tols == 0:
        xd = dense_solution("lsqr", A, None, y, x0, damp)
        err = float(np.linalg.norm(x - xd) / (1e-300 + np.linalg.norm(xd)))
        if err > 1e-8:
            bad.append(("minimiser", "relative distance of the returned x to the dense solution = %.3e after niter=%d >= n=%d" % (err, niter, n)))
    return bad, ncmp, {"itn": int(itn), "istop": int(istop)}


def gk_reliable(A, y, xb, kmax):
    """Largest LSQR iteration whose norm ESTIMATES are determined by the data rather than by rounding noise: the
    Golub-Kahan recurrence is run in floating point; iteration k uses beta_{k+1}, alfa_{k+1}.  An EXACT zero is a
    clean breakdown (both implementations take the same branch); a tiny non-zero value (< 1e-9 ||A||_F) is noise
    that the next iteration normalises to a garbage unit vector."""
    sc = 1e-9 * float(np.linalg.norm(A))
    u = y - A @ xb
    beta = float(np.linalg.norm(u))
    if beta == 0:
        return 0
    u = u / beta
    v = A.conj().T @ u
    alfa = float(np.linalg.norm(v))
    if alfa == 0:
        return 0
    v = v / alfa
    for k in range(1, kmax + 1):
        u = A @ v - alfa * u
        beta = float(np.linalg.norm(u))
        if beta == 0 or beta < sc:
            return k
        u = u / beta
        v = A.conj().T @ u - beta * v
        alfa = float(np.linalg.norm(v))
        if alfa == 0 or alfa < sc:
            return k
        v = v / alfa
    return kmax


def lsqr_manual_checks(Op, A, y, x0, damp, niter, tk, cost_ref, x_ref):
    """LSQR class API driven by hand (setup + k x step [+ run] + finalize): after every step the cost history has
    1 + iiter entries, and it is the same history (and the same x) as the functional call produced."""
    from pylops.optimization.cls_basic import LSQR
    bad = []
    kman = min(2, len(cost_ref) - 1)
    for mode in ("manual", "mixed"):
        s = LSQR(Op)
        x = s.setup(y.copy(), x0=None if x0 is None else x0.copy(), damp=damp, niter=max(niter, 1), **tk)
        for k in range(kman if mode == "manual" else min(1, kman)):
            x = s.step(x)
            if len(s.cost) != 1 + s.iiter:
                bad.append(("lsqr_manual", "%s drive: after manual step %d len(cost)=%d but iiter=%d" % (mode, k + 1, len(s.cost), s.iiter)))
                return bad
        if mode == "mixed":
            x = s.run(x, niter)
        s.finalize()
        c = np.atleast_1d(s.cost)
        if len(c) != 1 + s.iiter:
            bad.append(("lsqr_manual", "%s drive: len(cost)=%d but iiter=%d" % (mode, len(c), s.iiter)))
        elif np.abs(c - np.asarray(cost_ref)[:len(c)]).max(initial=0) > 1e-9 * (1 + np.abs(cost_ref).max()):
            bad.append(("lsqr_manual", "%s drive: cost history differs from the functional call's" % mode))
        elif mode == "mixed" and (len(c) != len(cost_ref) or np.abs(x - x_ref).max() > 1e-9 * (1 + np.abs(x_ref).max())):
            bad.append(("lsqr_manual", "mixed drive (1 step + run): result differs from the functional call's"))
    return bad


def breakdown_systems(cplx):
    """Integer systems on which the Golub-Kahan bidiagonalisation breaks down EXACTLY (beta == 0) at step 1 or 2."""
    u = (1j if cplx else 1.0)
    T = np.zeros((6, 3)); T[0, 0] = 2.0; T[2, 1] = 4.0; T[5, 2] = 0.5
    W = np.zeros((3, 6)); W[0, 1] = 2.0; W[1, 3] = 1.0; W[2, 4] = 4.0
    D = np.diag([1.0, 4.0, 2.0, 8.0])
    out = [("2I", 2.0 * np.eye(5), np.array([3.0, 0.0, 4.0, 0.0, 0.0])),
           ("diag,e2", D, np.array([0.0, 0.0, 1.0, 0.0])),
           ("diag,e0+e3", D, np.array([1.0, 0.0, 0.0, 2.0])),      # two singular directions: breakdown at step 2
           ("tall,col", T, T[:, 1].copy()),
           ("wide,e1", W, np.array([1.0, 0.0, 0.0]))]
    return [(nm, (A * u).astype(complex if cplx else float), (y * (1 if not cplx else (1 - 2j))).astype(complex if cplx else float))
            for nm, A, y in out]


# ---------------------------------------------------------------- literals
def olit(x0, cplx):
    return "None" if x0 is None else "(Some %s)" % common.vlit(x0, cplx)


def run_lit(c, o, F, cplx):
    vl = lambda v: common.vlit(v, cplx)
    return ("(Build_irun %s %d %d %s %s\n    %s %d %s %d %s %s\n    %s %s %s %s)" % (
        F, c["id"], c["niter"], common.qlit(c["tol"]), "true" if c.get("exec") else "false",
        vl(o["x"]), o["iiter"], common.vlit(o["cost"]), o["istop"], common.qlit(o["r1"]), common.qlit(o["r2"]),
        "[" + "; ".join(vl(v) for v in o["cbs"]) + "]", "true" if o["trace"] else "false",
        "[" + "; ".join(vl(v) for _, v in o["begins"]) + "]", "[" + "; ".join(vl(v) for _, v, _ in o["ends"]) + "]"))


def kase_lit(k, runs, outs):
    """k: dict(kid, solver, cplx, Aop, y, x0, damp, nconv); runs: the runs sent to Coq."""
    cplx = k["cplx"]
    F = "GF" if cplx else "QcF"
    return ("(Build_kase %s %d %d %d\n   %s\n   %s %s %s %d\n   [%s])" % (
        F, k["kid"], 0 if k["solver"] == "cg" else 1, k["Aop"].shape[1], common.mlit(k["Aop"], cplx), common.vlit(k["y"], cplx),
        olit(k["x0"], cplx), common.qlit(k["damp"]), k["nconv"],
        ";\n    ".join(run_lit(c, outs[c["id"]], F, cplx) for c in runs)))


HEAD = """From Coq Require Import QArith Qcanon ZArith List.
From PV Require Import Dict QcInst GaussQc GaussField Check CheckC09.
Import ListNotations.
"""


def emit(d, name, items, cplx):
    with open(os.path.join(d, name + ".v"), "w") as f:
        f.write(HEAD)
        f.write("Definition cases : list %s := [\n" % ("kaseC" if cplx else "kaseR"))
        f.write(";\n".join(items))
        f.write("].\nEval vm_compute in (%s %s cases).\n" % ("runC" if cplx else "runR", TOL_LIT))


# ---------------------------------------------------------------- the run
def pick_tol(kolds):
    """A tolerance strictly between exact kold values, away from ties."""
    ks = sorted(k for k in kolds if k > 1e-18)
    best = None
    for a, b in zip(ks, ks[1:]):
        if b / a > 1e4 and (best is None or b / a > best[0]):
            best = (b / a, float(np.sqrt(a * b)))
    if best is None:
        return None
    m, e = np.frexp(best[1])
    return float(np.ldexp(round(m * 16) / 16, e))


def build_cases(tier):
    nseeds = {"quick": 2, "thorough": 6}[tier]
    cases, lsq = [], []
    cid, kid = 0, 500000
    for cplx in (False, True):
        for kind in ("spd", "tall", "wide"):
            for sd in range(nseeds if not cplx else max(1, nseeds // 2)):
                r = common.rng("C09", kind, cplx, sd)
                sysd = gen_system(r, kind, cplx)
                n = sysd["n"]
                niters = [0, 1, 2, n, n + 3]
                for solver in (("cg", "cgls") if kind == "spd" else ("cgls",)):
                    Aop = sysd["H"] if solver == "cg" else sysd["A"]
                    for x0k in ("none", "zeros", "rand"):
                        for damp in (DAMPS if solver == "cgls" else [0.0]):
                            kid += 1
                            for ni in niters + ["tol", "manual", "mixed"]:
                                cid += 1
                                cases.append({"id": cid, "kid": kid, "exec": ni == n + 3, "solver": solver, "kind": kind, "cplx": cplx, "seed": sd, "Aop": Aop,
                                              "H": sysd["H"], "y": sysd["y"], "x0k": x0k, "x0": x0_of(sysd, x0k), "damp": damp,
                                              "niter": ni, "tol": TOL0, "trace": (cid % 3 == 0), "drive": "solve"})
                for x0k in ("none", "zeros", "rand"):
                    for damp in DAMPS:
                        for ni in niters:
                            lsq.append({"kind": kind, "cplx": cplx, "seed": sd, "A": sysd["A"], "y": sysd["y"], "x0k": x0k,
                                        "x0": x0_of(sysd, x0k), "damp": damp, "niter": ni, "calc_var": len(lsq) % 2 == 0})
    for cplx in (False, True):
        for nm, A, y in breakdown_systems(cplx):
            for x0k in ("none", "zeros"):
                for damp in DAMPS:
                    for ni in (1, 2, 3):
                        for tols in (0.0, 1e-8):
                            lsq.append({"kind": "breakdown:" + nm, "cplx": cplx, "seed": 0, "A": A, "y": y, "x0k": x0k,
                                        "x0": None if x0k == "none" else np.zeros(A.shape[1], dtype=A.dtype), "damp": damp,
                                        "niter": ni, "tols": tols, "calc_var": len(lsq) % 2 == 0})
    return cases, lsq


def run_cases(cases):
    outs = {}
    for c in cases:
        n = c["Aop"].shape[1]
        if c["niter"] == "manual":      # class API driven by hand: setup + 2 x step + finalize
            c.update(niter=2, drive="manual", trace=False, exec=False)
        elif c["niter"] == "mixed":     # setup + 1 manual step + run(n + 3) + finalize
            c.update(niter=n + 3, drive="mixed", trace=False, exec=False)
        if c["niter"] == "tol":
            # early termination by tolerance: place tol between the kold values of a full run
            full = run_impl(c["solver"], c["Aop"], c["y"], c["x0"], c["damp"], n + 3, TOL0, False)
            if c["solver"] == "cg":
                kolds = [v * v for v in full["cost"]]
            else:
                A, d2 = c["Aop"], c["damp"] ** 2
                kolds = [float(np.linalg.norm(A.conj().T @ (c["y"] - A @ v) - d2 * v) ** 2) for v in full["cbs"]]
            t = pick_tol(kolds)
            c["niter"] = n + 3
            c["tolmode"] = t is not None
            if t is not None:
                c["tol"] = t
        try:
            outs[c["id"]] = run_impl(c["solver"], c["Aop"], c["y"], c["x0"], c["damp"], c["niter"], c["tol"], c["trace"],
                                     c.get("drive", "solve"))
        except Exception as e:  # the solver raised on a valid system
            outs[c["id"]] = {"error": "%s: %s" % (type(e).__name__, e)}
    return outs


def group_kases(cases, outs):
    """Group the runs by system (one Coq kase per (system, solver, x0, damp)); every run is sent to Coq."""
    ks = {}
    for c in cases:
        if "error" in outs[c["id"]]:
            continue
        k = ks.setdefault(c["kid"], {"kid": c["kid"], "solver": c["solver"], "cplx": c["cplx"], "Aop": c["Aop"], "y": c["y"],
                                     "x0": c["x0"], "damp": c["damp"], "runs": []})
        k["nconv"] = c["Aop"].shape[1]
        c["coq"] = True
        k["runs"].append(c)
    return [k for k in ks.values() if k["runs"]]


def coq_eval(tag, cases, outs):
    """Write the kases as Gallina, evaluate, return {id: codes} (+ canary check)."""
    d = common.workdir(tag)
    files = {}
    kases = group_kases(cases, outs)
    for cplx in (False, True):
        sub = [k for k in kases if k["cplx"] == cplx]
        for i, sh in enumerate(common.shard(sub, 3 if not cplx else 2)):
            name = "cases_%s_%d" % ("c" if cplx else "r", i)
            files[name] = (cplx, [kase_lit(k, k["runs"], outs) for k in sh])
    # canaries: a perturbed returned x / a perturbed cost entry must be reported
    can = {}
    for cplx in (False, True):
        k = next((k for k in kases if k["cplx"] == cplx and any(outs[c["id"]]["iiter"] >= 2 for c in k["runs"])), None)
        if k is None:
            continue
        src = next(c for c in k["runs"] if outs[c["id"]]["iiter"] >= 2)
        o1 = dict(outs[src["id"]])
        o1["x"] = o1["x"].copy()
        o1["x"][0] += 1e-3
        c1 = dict(src, id=900001 + cplx)
        o2 = dict(outs[src["id"]])
        o2["cost"] = list(o2["cost"])
        o2["cost"][1] *= 1.001
        c2 = dict(src, id=900003 + cplx)
        o = dict(outs)
        o[c1["id"]] = o1
        o[c2["id"]] = o2
        files["canary_%s" % ("c" if cplx else "r")] = (cplx, [kase_lit(dict(k, kid=900005 + cplx, nconv=0), [c1, c2], o)])
        can[c1["id"]] = 1
        can[c2["id"]] = 10
    for name, (cplx, items) in files.items():
        emit(d, name, items, cplx)
    t = time.time()
    res = common.run_coq_files(d, list(files))
    codes = {}
    for name in files:
        codes.update(common.parse_failing(res[name]))
    for cid_, need in can.items():
        if need not in codes.get(cid_, []):
            raise SystemExit("canary %d was not reported by the Coq checker (codes %s): pipeline broken" % (cid_, codes.get(cid_)))
        codes.pop(cid_, None)
    return codes, time.time() - t, len(files), kases


CORR_CODES = {1, 2, 3, 5, 6, 7, 13, 15}


def run(tier, pid="C09"):
    """Everything both properties need; cached on (repo, harness, tier, seed)."""
    cf = common.cache_file("c09run", tier)
    if os.path.exists(cf):
        try:
            return pickle.load(open(cf, "rb"))
        except Exception:
            pass
    own_coq_build()
    t0 = time.time()
    cases, lsq = build_cases(tier)
    outs = run_cases(cases)
    lres = []
    for L in lsq:
        try:
            bad, ncmp, info = lsqr_checks(L["A"], L["y"], L["x0"], L["damp"], L["niter"], L.get("tols", 0.0), L.get("calc_var", True))
        except Exception as e:
            bad, ncmp, info = [("error", "%s: %s" % (type(e).__name__, e))], 0, {}
        lres.append((bad, ncmp, info))
    t_py = time.time() - t0
    # LSQR class vs its Gallina model (Solvers/LSQR.v) with supplied-and-checked square roots
    from . import c09_lsqr
    nsd = {"quick": 1, "thorough": 3}[tier]
    systems = [{"kind": L["kind"], "A": L["A"], "y": L["y"], "x0r": L["x0"], "seed": L["seed"]} for L in lsq
               if not L["cplx"] and L["x0k"] == "rand" and L["damp"] == 0.0 and L["niter"] == 0 and L["seed"] < nsd]
    systems += [{"kind": "breakdown:" + nm, "A": A, "y": y, "x0r": np.ones(A.shape[1]), "seed": 0}
                for nm, A, y in breakdown_systems(False) if nm in ("2I", "diag,e2", "tall,col")]
    lm_cases = c09_lsqr.build(systems)
    t1 = time.time()
    lm_outs, lm_codes, lm_files = c09_lsqr.evaluate(pid + "lsqr", lm_cases)
    t_lm = time.time() - t1
    codes, t_coq, nfiles, kases = coq_eval(pid, cases, outs)
    # code 30 is informational: borderline stopping decision (exact kold within rounding noise of tol) and the
    # implementation's iteration count differs from the exact model's; counted, never a failure
    borderline = sorted(i for i, cs in codes.items() if 30 in cs)
    codes = {i: [c for c in cs if c != 30] for i, cs in codes.items()}
    codes = {i: cs for i, cs in codes.items() if cs}
    kinfo = {k["kid"]: {"nconv": k["nconv"], "nruns": len(k["runs"])} for k in kases}
    res = {"cases": cases, "outs": outs, "codes": codes, "lsq": lsq, "lres": lres, "t_python": t_py, "t_coq": t_coq,
           "nfiles": nfiles, "kinfo": kinfo, "borderline": borderline,
           "lm_cases": lm_cases, "lm_outs": lm_outs, "lm_codes": lm_codes, "lm_files": lm_files, "t_lm": t_lm}
    try:
        pickle.dump(res, open(cf, "wb"))
    except Exception:
        pass
    return res


# ---------------------------------------------------------------- replay helpers
def _ser(v):
    return None if v is None else [[float(np.real(t)), float(np.imag(t))] for t in np.asarray(v).ravel()]


def _des(L, shape=None):
    if L is None:
        return None
    a = np.array([complex(t[0], t[1]) for t in L])
    if not np.any(a.imag):
        a = a.real.copy()
    return a if shape is None else a.reshape(shape)


def replay_dict(c, kind, detail):
    A = c["Aop"] if "Aop" in c else c["A"]
    return {"solver": c.get("solver", "lsqr"), "kind": kind, "detail": detail, "shape": list(A.shape), "cplx": bool(c["cplx"]),
            "A": _ser(A), "y": _ser(c["y"]), "x0": _ser(c["x0"]), "damp": c["damp"], "niter": c["niter"],
            "tol": c.get("tol", 0.0), "trace": bool(c.get("trace", False)), "drive": c.get("drive", "solve"),
            "tols": c.get("tols", 0.0), "calc_var": c.get("calc_var", True),
            "call": "pylops.%s(MatrixMult(A), y, x0=x0, niter=niter%s)" % (
                c.get("solver", "lsqr"), "" if c.get("solver") == "cg" else ", damp=damp")}


def replay(rp, kinds):
    A = _des(rp["A"], tuple(rp["shape"]))
    y, x0 = _des(rp["y"]), _des(rp["x0"])
    if rp["cplx"]:
        A = A.astype(complex)
        y = y.astype(complex)
        x0 = None if x0 is None else x0.astype(complex)
    if rp["solver"] == "lsqr":
        bad, _, _ = lsqr_checks(A, y, x0, rp["damp"], rp["niter"], rp.get("tols", 0.0), rp.get("calc_var", True))
    else:
        c = {"solver": rp["solver"], "Aop": A, "H": A, "y": y, "x0": x0, "damp": rp["damp"], "niter": rp["niter"], "tol": rp["tol"]}
        out = run_impl(rp["solver"], A, y, x0, rp["damp"], rp["niter"], rp["tol"], rp.get("trace", False), rp.get("drive", "solve"))
        bad = py_checks(c, out) + trace_checks(c, out)
    hit = [b for b in bad if b[0] == rp["kind"]]
    for b in hit:
        print("reproduced: %s: %s" % b)
    if not hit:
        print("not reproduced")
    return 1 if hit else 0


def trace_checks(c, out):
    """Callbacks.on_step_begin / on_step_end as seen by a user-supplied Callbacks object."""
    bad = []
    if not out.get("trace"):
        return bad
    x0 = c["x0"]
    n = c["Aop"].shape[1]
    xs = [np.zeros(n, dtype=c["Aop"].dtype) if x0 is None else x0] + list(out["cbs"])
    if len(out["begins"]) != out["iiter"] or len(out["ends"]) != out["iiter"]:
        bad.append(("trace_count", "on_step_begin called %d and on_step_end %d times but iiter=%d" % (len(out["begins"]), len(out["ends"]), out["iiter"])))
        return bad
    for k, (it, xb) in enumerate(out["begins"]):
        if it != k or np.abs(xb - xs[k]).max() > 1e-9 * (1 + np.abs(xs[k]).max()):
            bad.append(("trace_begin", "on_step_begin #%d saw iiter=%d and an x that is not iterate %d" % (k, it, k)))
            break
    for k, (it, xe, lc) in enumerate(out["ends"]):
        if it != k + 1 or lc != k + 2:
            bad.append(("trace_end", "on_step_end #%d saw iiter=%d, len(cost)=%d (expected %d, %d)" % (k, it, lc, k + 1, k + 2)))
            break
    return bad


# ---------------------------------------------------------------- reporting (shared by c09.py / c10.py)
KINDS = {
    "C09": {"minimiser", "lsqr_iterate", "lsqr_cost", "lsqr_r1norm", "lsqr_r2norm", "lsqr_anorm", "lsqr_acond", "lsqr_arnorm",
            "lsqr_xnorm", "error"},
    "C10": {"cost_length", "callback_count", "callback_last", "cost", "r1norm", "r2norm", "monotone", "trace_count", "trace_begin",
            "trace_end", "lsqr_cost", "lsqr_r1norm", "lsqr_r2norm", "lsqr_manual", "iiter", "error"},
}
CODES = {"C09": {1, 4, 15}, "C10": {1, 2, 3, 5, 6, 7, 9, 10, 11, 12, 13, 14, 15}}
CODE_KIND = {10: ("cost", "cost_length", "callback_count"), 11: ("r2norm",), 12: ("r1norm",), 14: ("monotone",)}
CODE_TXT = {1: "iterates differ from the model's", 2: "cost history differs from the model's", 3: "iteration count differs from the model's run loop",
            4: "the model does not reach the minimiser in n steps", 5: "r2norm differs from the model's", 6: "r1norm differs from the model's",
            7: "istop differs from the model's", 9: "functional increases along the model iterates", 10: "cost_k is not ||y-Op x_k|| (exact evaluation)",
            11: "r2norm is not truthful (exact evaluation)", 12: "r1norm is not truthful (exact evaluation)", 13: "Callbacks trace differs from the model's events",
            14: "functional increases along the implementation's iterates (exact evaluation)", 15: "malformed case"}


def describe(c):
    A = c["Aop"] if "Aop" in c else c["A"]
    return "%s %s %dx%d %s x0=%s damp=%s niter=%s tol=%.3g%s" % (c.get("solver", "lsqr"), c["kind"], A.shape[0], A.shape[1],
                                                                "complex" if c["cplx"] else "real", c["x0k"], c["damp"], c["niter"], c.get("tol", 0.0),
                                                                "" if c.get("drive", "solve") == "solve" else " drive=" + c["drive"])


def report(pid, tier, extra=None):
    R = common.Report(pid, tier)
    _viol, _cnt = R.violation, {}

    def capped(what, replay, no_input=False):
        # at most 6 replay files per kind of failure (disk); the total is still reported in the notes
        k = replay.get("kind", "other") if isinstance(replay, dict) else "other"
        _cnt[k] = _cnt.get(k, 0) + 1
        if _cnt[k] <= 6:
            _viol(what, replay, no_input)
    R.violation = capped
    common.coq_build()
    own_coq_build()
    thms, axioms = common.props_assumptions(pid)
    res = run(tier, pid)
    cases, outs, codes, kinfo = res["cases"], res["outs"], res["codes"], res["kinfo"]
    kinds, ccodes = KINDS[pid], CODES[pid]
    nontriv, evals, corr_ok, corr_all = set(), 0, 0, 0
    dist = {}
    allbad, kid_found = {}, {}
    for c in cases:
        o = outs[c["id"]]
        if "error" not in o:
            allbad[c["id"]] = py_checks(c, o) + trace_checks(c, o)
            kid_found.setdefault(c["kid"], set()).update(b[0] for b in allbad[c["id"]] if b[0] in kinds)
    for c in cases:
        o = outs[c["id"]]
        evals += 1
        key = (c["solver"], c["kind"], "complex" if c["cplx"] else "real", c["x0k"], c["damp"])
        dist[str(key[:3])] = dist.get(str(key[:3]), 0) + 1
        if "error" in o:
            R.violation("%s raised on a valid system: %s (%s)" % (c["solver"], o["error"], describe(c)), replay_dict(c, "error", o["error"]))
            continue
        if o["iiter"] >= 1 and np.any(o["x"]):
            nontriv.add((c["kid"], c["niter"], c["tol"], c.get("drive", "solve")))
        cs = set(codes.get(c["id"], [])) if c.get("coq") else set()
        bad = allbad[c["id"]]
        found = set()
        for kind, detail in bad:
            if kind not in kinds:
                continue
            found.add(kind)
            R.violation("%s: %s [%s]" % (kind, detail, describe(c)), replay_dict(c, kind, detail))
        if c.get("coq"):
            corr_all += 1
            corr = cs & CORR_CODES & ccodes
            if not corr:
                corr_ok += 1
            elif not kid_found.get(c["kid"]):
                R.violation("correspondence with the Coq model broken (%s) and no input violating the property itself was found [%s]"
                            % ("; ".join(CODE_TXT[k] for k in sorted(corr)), describe(c)),
                            dict(replay_dict(c, "correspondence", sorted(corr)), broken="Corr.CheckC09 codes %s" % sorted(corr)), no_input=True)
            for code_, ks in CODE_KIND.items():
                if code_ in cs and code_ in ccodes and not (set(ks) & {b[0] for b in bad}):
                    R.violation("Coq exact evaluation: %s, not confirmed by the float re-check [%s]" % (CODE_TXT[code_], describe(c)),
                                dict(replay_dict(c, "coq-code-%d" % code_, CODE_TXT[code_])), no_input=True)
    ncert = 0
    for kid, info in kinfo.items():
        cs = set(codes.get(kid, []))
        if info["nconv"]:
            ncert += 1
        for code_ in sorted(cs & ccodes):
            c = next(c for c in cases if c["kid"] == kid)
            if kid_found.get(kid):
                continue      # already reported above with a concrete input
            R.violation("model-level check failed: %s [%s]" % (CODE_TXT[code_], describe(c)),
                        dict(replay_dict(c, "model-code-%d" % code_, CODE_TXT[code_])), no_input=True)
    # LSQR against SciPy
    nl, ncmp = 0, 0
    for L, (bad, nc, info) in zip(res["lsq"], res["lres"]):
        nl += 1
        ncmp += nc
        evals += 1
        if info.get("itn", 0) >= 1:
            nontriv.add(("lsqr", L["kind"], L["cplx"], L["seed"], L["x0k"], L["damp"], L["niter"]))
        for kind, detail in bad:
            if kind in kinds:
                R.violation("lsqr %s: %s [%s]" % (kind, detail, describe(L)), replay_dict(L, kind, detail))
    # LSQR class vs Gallina model
    from . import c09_lsqr
    lm_n, lm_ok, lm_steps = 0, 0, 0
    for c in res["lm_cases"]:
        o = res["lm_outs"][c["id"]]
        lm_n += 1
        evals += 1
        if "error" in o:
            R.violation("LSQR manual drive raised: %s [%s]" % (o["error"], describe(c)), replay_dict(c, "error", o["error"]))
            continue
        lm_steps += len(o["steps"])
        if o["steps"]:
            nontriv.add(("lsqr-model", c["id"]))
        cs = set(res["lm_codes"].get(c["id"], [])) & c09_lsqr.CODES[pid]
        if not cs:
            lm_ok += 1
            continue
        bad, _, _ = lsqr_checks(c["A"], c["y"], c["x0"], c["damp"], max(c["K"], 1))
        hit = [b for b in bad if b[0] in kinds]
        if hit:
            R.violation("lsqr %s: %s [%s]" % (hit[0][0], hit[0][1], describe(c)), replay_dict(c, hit[0][0], hit[0][1]))
        else:
            R.violation("correspondence of pylops LSQR with the Coq model (Solvers/LSQR.v) broken (%s) and no input violating the property "
                        "itself was found [%s]" % ("; ".join(c09_lsqr.CODE_TXT[k] for k in sorted(cs)), describe(c)),
                        dict(replay_dict(c, "lsqr-model", sorted(cs)), broken="Corr.CheckLSQR codes %s" % sorted(cs)), no_input=True)
    ex = extra(R, tier) if extra else None
    if ex and "reselect" in ex:
        evals += ex["n"]
        R.cov.update(omp_runs=ex["n"], omp_runs_ok=ex["ok"], omp_runs_with_reselected_column=ex["reselect"], omp_sigma_stops=ex["sigma_stops"],
                     omp_coq_files=ex["files"], t_omp=ex["t"],
                     omp_rule="dictionaries 6x4 / 6x5: rational unit-norm columns (incl. a strongly correlated pair) or integer columns; "
                              "y = sparse combination (+ dyadic noise); niter_inner in {0 (only unit columns, normalizecols=False), 40}; "
                              "niter_outer in {0,1,2,8}; sigma in {1e-10, 0.35||y||}; functional omp(), class OMP.solve() with Callbacks, manual setup/step, same numpy seed")
        R.samples.append(ex["sample"])
    more = (ex or {}).get("more", [])
    for mo in more:
        evals += mo["n"]
        R.cov.update(mo.get("cov", {}))
    R.cov.update(
        obligations=len(thms) + corr_all + nl + lm_n + (ex.get("n", 0) if ex else 0) + sum(mo["n"] for mo in more),
        discharged=len(thms) + corr_ok + sum(1 for b, _, _ in res["lres"] if not [x for x in b if x[0] in kinds]) + lm_ok + (ex.get("ok", 0) if ex else 0) + sum(mo["ok"] for mo in more),
        lsqr_model_cases=lm_n, lsqr_model_steps=lm_steps, lsqr_model_coq_files=res["lm_files"], t_lsqr_model=round(res["t_lm"], 1),
        lsqr_model_rule="pylops LSQR driven by setup + step on real integer systems (square, tall, wide, exact-breakdown), x0 in {None, random}, "
                        "damp in {0, 0.5, 3}, k <= min(m, n) and within the data-determined iterations; the norms computed by the implementation are "
                        "supplied to the model as square roots and CHECKED in Coq (0 <= m, |m^2 - v| <= 1e-9 (1 + v)); x, u, v, w, 11 scalars and cost compared at 1e-9",
        checker_cmd="make -C coq; coqc Solvers/CG.v Solvers/CGLS.v Corr/CheckC09.v; coqc Props/%s.v (Print Assumptions); "
                    "coqc .work/<pid>/cases_*.v (vm_compute: pylops cg/cgls runs vs the Gallina model over Qc / Gaussian Qc); "
                    "pylops.lsqr vs scipy.sparse.linalg.lsqr(iter_lim=k) per iteration" % pid,
        theorems=thms, axioms_reported=axioms, evaluations=evals, distinct_nontrivial=len(nontriv) + (ex.get("nontriv", 0) if ex else 0) + sum(mo["nontriv"] for mo in more),
        rule="systems A = D + E (D diagonal in [6,12], E in [-2,2]; integers / Gaussian integers), square HPD (B^H B or symmetrised), "
             "square general, tall 6x4, wide 4x6; integer y; x0 in {None, zeros, random}; damp in {0, 0.5, 3}; niter in {0,1,2,n,n+3} "
             "and one run stopped by a tolerance placed between exact kold values; non-trivial = distinct (system, x0, damp, niter, tol) "
             "with at least one iteration and a non-zero result",
        borderline_stop=len(res.get("borderline", [])),
        borderline_rule="stopping decision `kold > tol` not compared when the exact kold at a step where the guard is evaluated is within a "
                        "factor 16 of tol, or below the noise floor 1e-18 * sum(kold) while tol <= 16 * floor (exactly converged model, tiny tol): "
                        "iterates, cost, r1/r2 and all implementation-only truth checks are still compared",
        cg_cgls_runs=len(cases), runs_compared_in_coq=corr_all, systems_with_exact_convergence_certificate=ncert,
        lsqr_runs=nl, lsqr_scipy_comparisons=ncmp, distribution=dist, coq_files=res["nfiles"],
        modelled="CG, CGLS (setup/step/run/finalize/solve) and LSQR (setup/step, square roots supplied and checked; istop tests and var not modelled) "
                 "in Gallina; scipy.sparse.linalg.lsqr remains the oracle for the iteration-for-iteration clause",
        t_python=round(res["t_python"], 1), t_coq=round(res["t_coq"], 1), proposed_known=[k["id"] for k in PROPOSED_KNOWN])
    for c in cases[:: max(1, len(cases) // 5)]:
        o = outs[c["id"]]
        if "error" not in o:
            R.samples.append({"case": describe(c), "A": [[str(t) for t in row] for row in c["Aop"]], "y": [str(t) for t in c["y"]],
                              "iiter": o["iiter"], "x": [str(t) for t in o["x"]], "cost": o["cost"][:4], "coq_codes": codes.get(c["id"], [])})
    if axioms and not set(axioms) <= common.ALLOWED_AXIOMS:
        R.violation("Props/%s.v depends on unexpected axioms %s" % (pid, axioms), {"axioms": axioms}, no_input=True)
    if _cnt:
        R.notes.append("failures by kind (all occurrences, replay files capped at 6 per kind): %s" % sorted(_cnt.items()))
    return R.finish()
