"""C19 — autodiff wrappers differentiate to the adjoint.

Theorems (Props/C19.v over State/Autodiff.v): calculus-free gradient identity
of 0.5||Ax-y||^2, vjp = transposed product, the torch wrapper's batch-axis
rolls as strided-view permutations (inverse of each other; row-wise
application under flatten and N-d for all ranks of dims/dimsd; gradient shaped
like the input), JaxOperator.rmatvecad's shape test (accepts exactly (N,),(N,1)).

Correspondence: the real TorchOperator / JaxOperator / PyTensorOperator are
run on small-integer data (exact in float32/float64); value+shape (or
"raised") of every observation is compared INSIDE Coq (Corr/CheckC19.v) with
 (1) the code-shaped model and (2) the property's specification
     out[b] = M x[b], grad = M^T g, grad 0.5||Mx-y||^2 = M^T (M x - y),
where M is the operator's exact matrix extracted by unit vectors with plain
numpy pylops calls.  A specification failure is a property violation (or a
known finding only if known_findings.json lists its trigger; none is listed).

Documented generator bound: with batch=True, flatten=True and a batch of ONE,
an operator with dims == (N, 1) (or dimsd == (M, 1) in the backward pass) makes
the transposed operand's shape (N, B) coincide with dims, LinearOperator.dot
then treats it as one dims-shaped model and the result has the wrong shape
(guard `dims <> [N; B]` of C19_batch_rows_partial).  The generator bumps B in
that case instead of exploring it."""
import hashlib
import json
import os
import subprocess
import time
import traceback

import numpy as np

from . import common

PID = "C19"

# ---- The baseline defects found by this check (jax rmatvecad shape test;
# torch batch=True with len(dims) != len(dimsd), flatten False and True; torch
# flat-input gradient shape) were repaired in /repo (commits dfcf977, 1310770,
# 5b7f0c6, d8aeac6): nothing is suppressed any more.  A reintroduction is a VIOLATION.
# (The fifth defect found here - PyTensorOperator wrappers of different same-shaped
# operators comparing equal and being merged by pytensor - was repaired by d8aeac6.)
PROPOSED_KNOWN = []
RAISES = {}


def known_match(framework, cfg, ob):
    """id of a known_findings.json 'findings' entry (none at present) whose
    trigger this observation meets, else None.  The trigger predicates of the
    four repaired defects are kept so that an entry would only ever match its
    own trigger."""
    kind = ob["kind"]
    nd, ndd = len(cfg["dims"]), len(cfg["dimsd"])
    fid = None
    if framework == "jax" and kind == "OJax" and cfg["M"] != cfg["N"]:
        fid = "C19-jax-rmatvecad-shape"
    elif framework == "torch" and kind in ("OBFwd", "OBVjp", "OBGrad"):
        if not ob["flatten"] and nd != ndd:
            fid = "C19-torch-batch-nd-rank"
        elif ob["flatten"]:
            f_bad = nd == 1 and ndd > 1
            b_bad = ndd == 1 and nd > 1
            if (kind == "OBFwd" and f_bad) or (kind == "OBVjp" and b_bad) or (kind == "OBGrad" and (f_bad or b_bad)):
                fid = "C19-torch-batch-flat-rank"
    elif framework == "torch" and kind in ("OVjp", "OGrad") and not ob.get("nd") and ndd == 1 and nd > 1 \
            and cfg["dims"] != [1] * (nd - 1) + [cfg["N"]]:
        fid = "C19-torch-flat-grad-shape"
    elif framework == "pytensor" and ob.get("joint") == "pair":
        fid = "C19-pytensor-props-merge"
    if fid is None:
        return None
    ids = {k["id"] for k in PROPOSED_KNOWN} | {k.get("id") for k in common.load_known() if isinstance(k, dict)}
    return fid if fid in ids else None


# ------------------------------------------------------------- own .v files
OWN = [("State/Autodiff.v", ["Base/Mat.vo"]),
       ("Corr/CheckC19.v", ["State/Autodiff.vo", "Corr/Check.vo"])]


def ensure_built():
    th = os.path.join(common.COQDIR, "theories")
    for src, deps in OWN:
        v = os.path.join(th, src)
        vo = v + "o"
        stale = (not os.path.exists(vo)) or os.path.getmtime(vo) < os.path.getmtime(v) or any(
            os.path.exists(os.path.join(th, d)) and os.path.getmtime(vo) < os.path.getmtime(os.path.join(th, d)) for d in deps)
        if stale:
            p = subprocess.run(["timeout", "600", "coqc", "-Q", "theories", "PV", "theories/" + src], cwd=common.COQDIR,
                               stdout=subprocess.PIPE, stderr=subprocess.STDOUT, text=True)
            if p.returncode != 0:
                raise SystemExit("coqc %s failed:\n%s" % (src, p.stdout[-3000:]))


# ------------------------------------------------------------- operators
def prod(d):
    p = 1
    for a in d:
        p *= int(a)
    return p


def build(fam, p, backend="numpy", dtype="float64"):
    """Rebuild an operator from JSON-able params for a backend."""
    import pylops
    if backend == "jax":
        import jax.numpy as jnp
        arr = lambda a: jnp.asarray(np.asarray(a, dtype=dtype))  # noqa: E731
        eng = {"inoutengine": ("jax", "jax")}
    else:
        arr = lambda a: np.asarray(a, dtype=dtype)  # noqa: E731
        eng = {}
    t = lambda d: tuple(d) if isinstance(d, (list, tuple)) else d  # noqa: E731
    if fam == "MatrixMult":
        return pylops.MatrixMult(arr(p["A"]), otherdims=t(p["otherdims"]) if p.get("otherdims") else None, dtype=dtype)
    if fam == "FirstDerivative":
        return pylops.FirstDerivative(t(p["dims"]), axis=p["axis"], kind=p["kind"], sampling=1.0, dtype=dtype)
    if fam == "Pad":
        return pylops.Pad(t(p["dims"]), tuple(tuple(q) for q in p["pad"]) if isinstance(p["pad"][0], (list, tuple)) else tuple(p["pad"]),
                          dtype=dtype)
    if fam == "Restriction":
        return pylops.Restriction(t(p["dims"]), list(p["iava"]), axis=p["axis"], dtype=dtype)
    if fam == "Sum":
        return pylops.Sum(t(p["dims"]), axis=p["axis"], dtype=dtype)
    if fam == "Diagonal":
        return pylops.Diagonal(arr(p["diag"]), dims=t(p["dims"]) if p.get("dims") else None, axis=p.get("axis", -1), dtype=dtype)
    if fam == "VStack":
        return pylops.VStack([build(f, q, backend, dtype) for f, q in p["ops"]], dtype=dtype, **eng)
    if fam == "HStack":
        return pylops.HStack([build(f, q, backend, dtype) for f, q in p["ops"]], dtype=dtype, **eng)
    raise KeyError(fam)


def gen_configs(tier):
    r = common.rng(PID, "cfg")
    n = 60 if tier == "quick" else 600
    fams = ["MatrixMult", "MatrixMultND", "FirstDerivative", "FirstDerivativeND", "Pad", "PadND", "Restriction",
            "RestrictionND", "Sum", "Diagonal", "DiagonalND", "VStack", "VStackND", "HStack", "MatrixMultSq", "MatrixMultSqND"]
    ri = r.randint
    imat = lambda a, b: [[ri(-4, 4) for _ in range(b)] for _ in range(a)]  # noqa: E731
    cfgs = []
    for i in range(n):
        f = fams[i % len(fams)]
        if f == "MatrixMult":
            ny, nx = ri(1, 7), ri(1, 7)
            if i % 5 and ny == nx:
                ny += 1
            c = ("MatrixMult", {"A": imat(ny, nx)})
        elif f == "MatrixMultND":
            ny, nx = ri(1, 4), ri(1, 4)
            if ny == nx:
                ny += 1
            c = ("MatrixMult", {"A": imat(ny, nx), "otherdims": [ri(1, 3)] if ri(0, 2) else [ri(1, 2), ri(1, 2)]})
        elif f in ("MatrixMultSq", "MatrixMultSqND"):      # square, NOT symmetric (dims == dimsd)
            nn = ri(2, 5) if f == "MatrixMultSq" else ri(2, 3)
            A = imat(nn, nn)
            if all(A[a][b] == A[b][a] for a in range(nn) for b in range(nn)):
                A[0][1] = A[1][0] + 1
            c = ("MatrixMult", {"A": A} if f == "MatrixMultSq" else {"A": A, "otherdims": [ri(2, 3)] if ri(0, 1) else [2, ri(1, 2)]})
        elif f == "FirstDerivative":
            c = ("FirstDerivative", {"dims": [ri(3, 9)], "axis": 0, "kind": r.choice(["forward", "centered", "backward"])})
        elif f == "FirstDerivativeND":
            c = ("FirstDerivative", {"dims": [ri(3, 4), ri(3, 4)], "axis": ri(0, 1), "kind": r.choice(["forward", "centered", "backward"])})
        elif f == "Pad":
            c = ("Pad", {"dims": [ri(1, 6)], "pad": [ri(0, 3), ri(0, 3)]})
        elif f == "PadND":
            c = ("Pad", {"dims": [ri(1, 3), ri(1, 3)], "pad": [[ri(0, 2), ri(0, 1)], [ri(0, 1), ri(0, 2)]]})
        elif f == "Restriction":
            nn = ri(2, 9)
            c = ("Restriction", {"dims": [nn], "iava": sorted(r.sample(range(nn), ri(1, nn - 1))), "axis": 0})
        elif f == "RestrictionND":
            d = [ri(2, 4), ri(2, 4)]
            ax = ri(0, 1)
            c = ("Restriction", {"dims": d, "iava": sorted(r.sample(range(d[ax]), ri(1, d[ax] - 1))), "axis": ax})
        elif f == "Sum":
            d = [ri(1, 3), ri(2, 4)] if ri(0, 2) else [ri(1, 2), ri(2, 3), ri(1, 2)]
            c = ("Sum", {"dims": d, "axis": ri(0, len(d) - 1)})
        elif f == "Diagonal":
            c = ("Diagonal", {"diag": [ri(-4, 4) for _ in range(ri(1, 8))]})
        elif f == "DiagonalND":
            d = [ri(1, 3), ri(2, 4)]
            ax = ri(0, 1)
            c = ("Diagonal", {"diag": [ri(-4, 4) for _ in range(d[ax])], "dims": d, "axis": ax})
        elif f == "VStack":
            nx = ri(1, 5)
            c = ("VStack", {"ops": [["MatrixMult", {"A": imat(ri(1, 3), nx)}], ["MatrixMult", {"A": imat(ri(1, 3), nx)}]]})
        elif f == "VStackND":
            d = [ri(2, 3), ri(2, 3)]
            c = ("VStack", {"ops": [["FirstDerivative", {"dims": d, "axis": 0, "kind": "forward"}],
                                    ["FirstDerivative", {"dims": d, "axis": 1, "kind": r.choice(["forward", "backward"])}]]})
        else:
            ny = ri(1, 5)
            c = ("HStack", {"ops": [["MatrixMult", {"A": imat(ny, ri(1, 3))}], ["MatrixMult", {"A": imat(ny, ri(1, 3))}]]})
        dtype = "float32" if i % 3 == 2 else "float64"
        cfgs.append({"idx": i, "family": c[0], "params": c[1], "dtype": dtype})
    return cfgs


def describe(cfg):
    """Attach exact matrix (numpy pylops, unit vectors), dims, dimsd."""
    op = build(cfg["family"], cfg["params"], "numpy", "float64")
    M, N = op.shape
    A = np.zeros((M, N))
    for j in range(N):
        e = np.zeros(N)
        e[j] = 1.0
        A[:, j] = np.asarray(op.matvec(e)).ravel()
    cfg.update(M=int(M), N=int(N), dims=[int(a) for a in op.dims], dimsd=[int(a) for a in op.dimsd], A=A)
    return cfg


# ------------------------------------------------------------- observations
def ivec(r, n):
    v = [r.randint(-4, 4) for _ in range(n)]
    if not any(v):
        v[0] = 1
    return v


def plan(framework, cfg):
    """Deterministic observation list (inputs only) for (framework, config)."""
    r = common.rng(PID, "obs", framework, cfg["idx"])
    N, M, dims, dimsd = cfg["N"], cfg["M"], cfg["dims"], cfg["dimsd"]
    nd = len(dims) > 1 or len(dimsd) > 1
    obs = []
    if framework == "torch":
        obs.append({"kind": "OFwd", "xs": [N], "x": ivec(r, N)})
        obs.append({"kind": "OVjp", "xs": [N], "x": ivec(r, N), "g": ivec(r, M)})
        obs.append({"kind": "OGrad", "xs": [N], "x": ivec(r, N), "y": ivec(r, M)})
        if nd:
            obs.append({"kind": "OFwd", "xs": dims, "x": ivec(r, N), "nd": True})
            obs.append({"kind": "OVjp", "xs": dims, "x": ivec(r, N), "g": ivec(r, M), "nd": True})
            obs.append({"kind": "OGrad", "xs": dims, "x": ivec(r, N), "y": ivec(r, M), "nd": True})
        for fl in ((True, False) if nd else (True, False)[:1 + (cfg["idx"] % 2)]):
            B = r.randint(1, 3)
            if fl and (dims == [N, B] or dimsd == [M, B]):
                B += 1      # shape coincidence (N, B) == dims: dot takes the operand for ONE dims-shaped model (see report)
            xs = [B, N] if fl else [B] + dims
            obs.append({"kind": "OBFwd", "flatten": fl, "xs": xs, "x": ivec(r, B * N)})
            obs.append({"kind": "OBVjp", "flatten": fl, "xs": xs, "x": ivec(r, B * N), "g": ivec(r, B * M)})
            obs.append({"kind": "OBGrad", "flatten": fl, "xs": xs, "x": ivec(r, B * N), "y": ivec(r, B * M)})
    elif framework == "jax":
        obs.append({"kind": "OFwd", "xs": [N], "x": ivec(r, N)})
        if nd:
            obs.append({"kind": "OFwd", "xs": dims, "x": ivec(r, N), "nd": True})
        obs.append({"kind": "OVjp", "xs": [N], "x": ivec(r, N), "g": ivec(r, M)})
        obs.append({"kind": "OGrad", "xs": [N], "x": ivec(r, N), "y": ivec(r, M)})
        obs.append({"kind": "OJax", "xs": [N], "x": ivec(r, N), "g": ivec(r, M)})
    else:
        obs.append({"kind": "OFwd", "xs": dims, "x": ivec(r, N)})
        obs.append({"kind": "OVjp", "xs": dims, "x": ivec(r, N), "g": ivec(r, M)})
        obs.append({"kind": "OGrad", "xs": dims, "x": ivec(r, N), "y": ivec(r, M)})
        # two wrappers (Op and 2*Op: same dims/dimsd/shape) on the same variable in ONE compiled graph
        x = ivec(r, N)
        obs.append({"kind": "OFwd", "xs": dims, "x": x, "joint": "pair", "part": 0})
        obs.append({"kind": "OScaled", "s": 2, "xs": dims, "x": x, "joint": "pair", "part": 1})
        if dims == dimsd:
            # forward and adjoint applied to the SAME variable inside one compiled graph
            x = ivec(r, N)
            obs.append({"kind": "OFwd", "xs": dims, "x": x, "joint": "valvjp", "part": 0})
            obs.append({"kind": "OVjp", "xs": dims, "x": x, "g": x, "joint": "valvjp", "part": 1, "tie_g": True})
            obs.append({"kind": "OQuad", "xs": dims, "x": ivec(r, N), "joint": "quad", "part": 0})
            x = ivec(r, N)
            obs.append({"kind": "OGrad", "xs": dims, "x": x, "y": [0] * M, "joint": "hess", "part": 0, "zero_y": True})
            obs.append({"kind": "OFwd2", "xs": dims, "x": x, "joint": "hess", "part": 1})
    obs.extend(plan_sequences(framework, cfg))
    return obs


def unitv(n, j):
    e = [0] * n
    e[j] = 1
    return e


def plan_sequences(framework, cfg):
    """Multi-step observations: SEVERAL reverse passes through ONE retained forward
    (torch.autograd.grad(..., retain_graph=True), torch.autograd.functional.jacobian, two
    losses sharing one forward, a jax pullback called repeatedly, one compiled pytensor
    function called repeatedly with earlier results re-read at the end).  Every part is an
    ordinary observation (OVjp / OGrad / OBVjp / OBGrad / OFwd) carrying the whole sequence."""
    r = common.rng(PID, "seq", framework, cfg["idx"])
    N, M, dims, dimsd = cfg["N"], cfg["M"], cfg["dims"], cfg["dimsd"]
    obs = []

    def seq(name, kind, xs, x, items, key, **extra):
        sid = "%s/%d" % (name, len(obs))
        for k, it in enumerate(items):
            o = {"kind": kind, "xs": xs, "x": x, key: it, "seq": name, "sid": sid, "part": k, "seq_inputs": items}
            o.update(extra)
            obs.append(o)

    rows = [unitv(M, i) for i in range(min(M, 6))]
    if framework == "torch":
        seq("retain", "OVjp", [N], ivec(r, N), [ivec(r, M) for _ in range(3)] + rows, "g")
        seq("funcjac", "OVjp", [N], ivec(r, N), rows, "g")
        seq("twoloss", "OGrad", [N], ivec(r, N), [ivec(r, M), ivec(r, M)], "y")
        if len(dims) > 1 or len(dimsd) > 1:
            seq("retain", "OVjp", dims, ivec(r, N), [ivec(r, M) for _ in range(3)], "g", nd=True)
        for fl in ((True, False) if cfg["idx"] % 3 == 0 else ((cfg["idx"] % 2 == 0),)):
            B = r.randint(2, 3)
            xs = [B, N] if fl else [B] + dims
            seq("retain", "OBVjp", xs, ivec(r, B * N), [ivec(r, B * M) for _ in range(3)], "g", flatten=fl)
            seq("twoloss", "OBGrad", xs, ivec(r, B * N), [ivec(r, B * M), ivec(r, B * M)], "y", flatten=fl)
    elif framework == "jax":
        seq("pullback", "OVjp", [N], ivec(r, N), [ivec(r, M) for _ in range(3)] + rows[:3], "g")
    else:
        items = [[ivec(r, N), ivec(r, M)] for _ in range(3)]
        sid = "repeat/%d" % len(obs)
        for k, (xk, gk) in enumerate(items):
            obs.append({"kind": "OVjp", "xs": dims, "x": xk, "g": gk, "seq": "repeat", "sid": sid, "part": k, "seq_inputs": items})
        sid = "repeatfwd/%d" % len(obs)
        for k, (xk, gk) in enumerate(items):
            obs.append({"kind": "OFwd", "xs": dims, "x": xk, "seq": "repeatfwd", "sid": sid, "part": k, "seq_inputs": items})
    return obs


class Ctx:
    """Lazy per-(framework, config) wrapper objects."""

    def __init__(self, framework, cfg):
        self.fw, self.cfg, self.cache = framework, cfg, {}
        self.dtype = cfg["dtype"] if framework != "pytensor" else "float64"

    def op(self):
        if "op" not in self.cache:
            self.cache["op"] = build(self.cfg["family"], self.cfg["params"], "jax" if self.fw == "jax" else "numpy", self.dtype)
        return self.cache["op"]


def _out(a):
    a = np.asarray(a)
    return [int(s) for s in a.shape], [float(v) for v in a.ravel()]


def observe(ctx, ob):
    """Run ONE observation on the real wrapper.  Returns ('ok', shape, data)
    or ('raised', ExceptionClass, message)."""
    try:
        return ("ok",) + _observe(ctx, ob)
    except Exception as e:  # noqa: BLE001
        return ("raised", type(e).__name__, str(e)[:200])


def run_sequence(ctx, ob):
    """All parts of a multi-step observation, in order; a part is (shape, data) or the
    exception raised at that step."""
    fw, cfg, kind, name, items = ctx.fw, ctx.cfg, ob["kind"], ob["seq"], ob["seq_inputs"]
    dt = ctx.dtype
    out = []

    def step(fn):
        try:
            out.append(fn())
        except Exception as e:  # noqa: BLE001
            out.append(e)

    if fw == "torch":
        import torch
        from pylops import TorchOperator
        batch = kind.startswith("OB")
        flatten = ob["flatten"] if batch else not ob.get("nd", False)
        Top = TorchOperator(ctx.op(), batch=batch, flatten=flatten)
        xt = torch.from_numpy(np.asarray(ob["x"], dtype=dt).reshape(ob["xs"]).copy()).requires_grad_(True)
        if name == "funcjac":
            try:
                Jm = torch.autograd.functional.jacobian(Top.apply, xt).detach().numpy()
                Jm = Jm.reshape(-1, *ob["xs"])
                for it in items:
                    out.append(_out(Jm[it.index(1)]))
            except Exception as e:  # noqa: BLE001
                out = [e for _ in items]
            return out
        yt = Top.apply(xt)
        if name == "retain":
            for it in items:
                v = torch.from_numpy(np.asarray(it, dtype=dt).reshape(tuple(yt.shape)).copy())
                step(lambda: _out(torch.autograd.grad(yt, xt, v, retain_graph=True)[0].numpy()))
        else:       # two losses sharing one forward
            ls = [0.5 * torch.sum((yt - torch.from_numpy(np.asarray(it, dtype=dt).reshape(tuple(yt.shape)).copy())) ** 2) for it in items]
            for k, l in enumerate(ls):
                step(lambda: _out(torch.autograd.grad(l, xt, retain_graph=(k + 1 < len(ls)))[0].numpy()))
        return out
    if fw == "jax":
        import jax
        import jax.numpy as jnp
        from pylops import JaxOperator
        if "J" not in ctx.cache:
            ctx.cache["J"] = JaxOperator(ctx.op())
        _, pull = jax.vjp(ctx.cache["J"]._matvec, jnp.asarray(np.asarray(ob["x"], dtype=dt)))
        for it in items:
            step(lambda: _out(pull(jnp.asarray(np.asarray(it, dtype=dt)))[0]))
        return out
    _observe(ctx, {"kind": "OFwd", "xs": cfg["dims"], "x": [0] * cfg["N"]})       # make sure the compiled functions exist
    fns = ctx.cache["P"]
    held = []
    for xk, gk in items:         # ONE compiled function, several calls; results are read only after the last call
        xa = np.asarray(xk, dtype="float64").reshape(cfg["dims"])
        try:
            held.append(fns["OVjp"](xa, np.asarray(gk, dtype="float64").reshape(cfg["dimsd"])) if name == "repeat" else fns["OFwd"](xa))
        except Exception as e:  # noqa: BLE001
            held.append(e)
    return [h if isinstance(h, Exception) else _out(h) for h in held]


def _observe(ctx, ob):
    fw, cfg, kind = ctx.fw, ctx.cfg, ob["kind"]
    dt = ctx.dtype
    if ob.get("seq"):
        key = ("seq", ob["sid"], json.dumps(ob["x"]))
        if key not in ctx.cache:
            ctx.cache[key] = run_sequence(ctx, ob)
        res = ctx.cache[key][ob["part"]]
        if isinstance(res, Exception):
            raise res
        return res
    x = np.asarray(ob["x"], dtype=dt).reshape(ob["xs"])
    if fw == "torch":
        import torch
        from pylops import TorchOperator
        batch = kind.startswith("OB")
        flatten = ob["flatten"] if batch else not ob.get("nd", False)
        Top = TorchOperator(ctx.op(), batch=batch, flatten=flatten)
        xt = torch.from_numpy(x.copy()).requires_grad_(True)
        if kind in ("OFwd", "OBFwd"):
            return _out(Top.apply(xt).detach().numpy())
        if kind in ("OVjp", "OBVjp"):
            yt = Top.apply(xt)
            g = np.asarray(ob["g"], dtype=dt).reshape(tuple(yt.shape))
            yt.backward(torch.from_numpy(g.copy()))
            return _out(xt.grad.numpy())
        yt = Top.apply(xt)
        y = torch.from_numpy(np.asarray(ob["y"], dtype=dt).reshape(tuple(yt.shape)))
        loss = 0.5 * torch.sum((yt - y) ** 2)
        loss.backward()
        return _out(xt.grad.numpy())
    if fw == "jax":
        import jax
        import jax.numpy as jnp
        from pylops import JaxOperator
        if "J" not in ctx.cache:
            ctx.cache["J"] = JaxOperator(ctx.op())
        J = ctx.cache["J"]
        xj = jnp.asarray(x)
        if kind == "OFwd":
            return _out(J @ xj)
        if kind == "OVjp":
            _, vjp = jax.vjp(J._matvec, xj)
            return _out(vjp(jnp.asarray(np.asarray(ob["g"], dtype=dt)))[0])
        if kind == "OGrad":
            y = jnp.asarray(np.asarray(ob["y"], dtype=dt))
            return _out(jax.grad(lambda v: 0.5 * jnp.sum((J._matvec(v) - y) ** 2))(xj))
        return _out(J.rmatvecad(xj, jnp.asarray(np.asarray(ob["g"], dtype=dt))))
    import pytensor
    import pytensor.tensor as pt
    from pylops import PyTensorOperator
    if "P" not in ctx.cache:
        P = PyTensorOperator(ctx.op())
        xv = pt.tensor(dtype="float64", shape=(None,) * len(cfg["dims"]))
        yv = pt.tensor(dtype="float64", shape=(None,) * len(cfg["dimsd"]))
        out = P(xv)
        fns = {
            "OFwd": pytensor.function([xv], out, mode="FAST_COMPILE"),
            "OGrad": pytensor.function([xv, yv], pytensor.grad(0.5 * ((out - yv) ** 2).sum(), xv), mode="FAST_COMPILE"),
            "OVjp": pytensor.function([xv, yv], pytensor.grad(None, xv, known_grads={out: yv}), mode="FAST_COMPILE",
                                     on_unused_input="ignore"),
        }
        sv = pt.tensor(dtype="float64", shape=tuple(cfg["dims"]))
        ig = {"mode": "FAST_COMPILE", "on_unused_input": "ignore"}
        fns["pair"] = lambda: pytensor.function([xv], [out, PyTensorOperator(ctx.op() * 2.0)(xv)], **ig)
        fns["valvjp"] = lambda: pytensor.function([xv], [out, pytensor.grad(None, xv, known_grads={out: xv})], **ig)
        fns["quad"] = lambda: pytensor.function([sv], [pytensor.grad((sv * P(sv)).sum(), sv)], **ig)
        fns["hess"] = lambda: pytensor.function([xv], [pytensor.grad(0.5 * (out ** 2).sum(), xv), P(out)], **ig)
        ctx.cache["P"] = fns
    fns = ctx.cache["P"]
    if ob.get("joint"):
        key = "joint:" + ob["joint"]
        if key not in ctx.cache:
            ctx.cache[key] = fns[ob["joint"]]()
        return _out(ctx.cache[key](x)[ob["part"]])
    if kind == "OFwd":
        return _out(fns["OFwd"](x))
    if kind == "OVjp":
        return _out(fns["OVjp"](x, np.asarray(ob["g"], dtype="float64").reshape(cfg["dimsd"])))
    return _out(fns["OGrad"](x, np.asarray(ob["y"], dtype="float64").reshape(cfg["dimsd"])))


def expected(cfg, ob):
    """numpy specification (shape, data) of an observation - used only by the
    failing-input search and by replay; the verdict of a run is Coq's."""
    A, N, M, dims, dimsd = cfg["A"], cfg["N"], cfg["M"], cfg["dims"], cfg["dimsd"]
    kind = ob["kind"]
    x = np.asarray(ob["x"], dtype=float)
    if kind == "OFwd":
        return (dimsd if ob["xs"] == dims else [M]), A @ x
    if kind == "OVjp":
        return ob["xs"], A.T @ np.asarray(ob["g"], dtype=float)
    if kind == "OGrad":
        return ob["xs"], A.T @ (A @ x - np.asarray(ob["y"], dtype=float))
    if kind == "OJax":
        return [N], A.T @ np.asarray(ob["g"], dtype=float)
    if kind == "OQuad":
        return ob["xs"], A @ x + A.T @ x
    if kind == "OFwd2":
        return (dimsd if ob["xs"] == dims else [M]), A @ (A @ x)
    if kind == "OScaled":
        return (dimsd if ob["xs"] == dims else [M]), ob["s"] * (A @ x)
    B = ob["xs"][0]
    X = x.reshape(B, N)
    if kind == "OBFwd":
        return ([B, M] if ob["flatten"] else [B] + dimsd), (X @ A.T).ravel()
    if kind == "OBVjp":
        return ob["xs"], (np.asarray(ob["g"], dtype=float).reshape(B, M) @ A).ravel()
    return ob["xs"], ((X @ A.T - np.asarray(ob["y"], dtype=float).reshape(B, M)) @ A).ravel()


def violates(cfg, ob, res, tol):
    if res[0] != "ok":
        return True
    sh, d = expected(cfg, ob)
    if list(res[1]) != list(sh) or len(res[2]) != len(d):
        return True
    return bool(np.abs(np.asarray(res[2]) - d).max(initial=0) > tol * (1 + np.abs(d).max(initial=0)))


def shrink(framework, cfg, ob, tol):
    """Smaller failing input of the property on the implementation: batch of
    one and unit-vector inputs where they still fail."""
    ctx = Ctx(framework, cfg)
    best = ob
    if ob.get("seq"):
        return ob            # a multi-step history is replayed as a whole
    N, M = cfg["N"], cfg["M"]
    cands = []
    batched = ob["kind"].startswith("OB")
    for j in range(min(N, 8)):
        c = dict(ob)
        if batched:
            c["xs"] = [1] + ob["xs"][1:]
        e = [0] * N
        e[j] = 1
        c["x"] = e
        if "y" in ob:
            c["y"] = [0] * M
        if "g" in ob:
            g = [0] * M
            g[j % M] = 1
            c["g"] = g
        if ob.get("tie_g"):
            c["g"] = list(e)
        cands.append(c)
    for c in cands:
        try:
            if violates(cfg, c, observe(ctx, c), tol):
                best = c
                break
        except Exception:  # noqa: BLE001
            continue
    return best


# ------------------------------------------------------------- coq emission
NAT = common.natlist


def res_lit(res):
    if res[0] != "ok":
        return "None"
    return "(Some (%s, %s))" % (NAT(res[1]), common.vlit(res[2]))


def obs_lit(ob, res):
    k = ob["kind"]
    b = lambda v: "true" if v else "false"  # noqa: E731
    V = common.vlit
    if k == "OFwd":
        return "OFwd %s %s %s" % (NAT(ob["xs"]), V(ob["x"]), res_lit(res))
    if k == "OVjp":
        return "OVjp %s %s %s %s" % (NAT(ob["xs"]), V(ob["x"]), V(ob["g"]), res_lit(res))
    if k == "OGrad":
        return "OGrad %s %s %s %s" % (NAT(ob["xs"]), V(ob["x"]), V(ob["y"]), res_lit(res))
    if k == "OBFwd":
        return "OBFwd %s %s %s %s" % (b(ob["flatten"]), NAT(ob["xs"]), V(ob["x"]), res_lit(res))
    if k == "OBVjp":
        return "OBVjp %s %s %s %s %s" % (b(ob["flatten"]), NAT(ob["xs"]), V(ob["x"]), V(ob["g"]), res_lit(res))
    if k == "OBGrad":
        return "OBGrad %s %s %s %s %s" % (b(ob["flatten"]), NAT(ob["xs"]), V(ob["x"]), V(ob["y"]), res_lit(res))
    if k == "OQuad":
        return "OQuad %s %s %s" % (NAT(ob["xs"]), V(ob["x"]), res_lit(res))
    if k == "OFwd2":
        return "OFwd2 %s %s %s" % (NAT(ob["xs"]), V(ob["x"]), res_lit(res))
    if k == "OScaled":
        return "OScaled %s %s %s %s" % (common.qlit(ob["s"]), NAT(ob["xs"]), V(ob["x"]), res_lit(res))
    return "OJax %s %s %s" % (NAT(ob["xs"]), V(ob["g"]), res_lit(res))


FWID = {"torch": 0, "jax": 1, "pytensor": 2}


def case_lit(cid, fw, cfg, tol, pairs):
    A = cfg["A"]
    return ("{| k_id := %d%%nat; k_fw := %d%%nat; k_tol := %s; k_n := %d%%nat; k_A := %s;\n   k_dims := %s; k_dimsd := %s;\n   k_obs := [%s] |}"
            % (cid, FWID[fw], tol, cfg["N"], common.mlit(A.tolist()), NAT(cfg["dims"]), NAT(cfg["dimsd"]),
               ";\n     ".join(obs_lit(o, r) for o, r in pairs)))


HEADER = ("From Coq Require Import QArith Qcanon List.\nFrom PV Require Import QcInst Check Autodiff CheckC19.\n"
          "Import ListNotations.\nEval vm_compute in (run19 [\n")


def tol_of(dtype):
    return ("(q 1 10000)", 1e-4) if dtype == "float32" else ("(q 1 1000000000)", 1e-9)


# ------------------------------------------------------------- frameworks
def import_framework(fw):
    if fw == "torch":
        import torch  # noqa: F401
        from pylops import TorchOperator  # noqa: F401
    elif fw == "jax":
        import jax
        jax.config.update("jax_enable_x64", True)
        from pylops import JaxOperator  # noqa: F401
    else:
        import pytensor  # noqa: F401
        from pylops import PyTensorOperator  # noqa: F401


def run_all(tier, R):
    cfgs = [describe(c) for c in gen_configs(tier)]
    cases = []       # (cid, framework, cfg, [(ob, res)])
    times = {}
    for fw in ("torch", "jax", "pytensor"):
        t = time.time()
        try:
            import_framework(fw)
        except Exception as e:  # noqa: BLE001
            R.notes.append("framework %s not importable (%s: %s): skipped" % (fw, type(e).__name__, str(e)[:120]))
            continue
        for cfg in cfgs:
            ctx = Ctx(fw, cfg)
            pairs = [(ob, observe(ctx, ob)) for ob in plan(fw, cfg)]
            cases.append((len(cases), fw, cfg, pairs))
        times[fw] = round(time.time() - t, 1)
    return cfgs, cases, times


def coq_check(cases, canary):
    d = common.workdir(PID)
    lits = [case_lit(cid, fw, cfg, tol_of(cfg["dtype"] if fw != "pytensor" else "float64")[0], pairs) for cid, fw, cfg, pairs in cases]
    lits.append(canary)
    per = max(1, (len(lits) + common.NPROC - 1) // common.NPROC)
    names = []
    for k, sh in enumerate(common.shard(lits, per)):
        n = "c19_%d" % k
        with open(os.path.join(d, n + ".v"), "w") as f:
            f.write(HEADER + ";\n".join(sh) + "\n]).\n")
        names.append(n)
    outs = common.run_coq_files(d, names)
    failing = {}
    for n in names:
        failing.update(common.parse_failing(outs[n]))
    return failing


def make_canary(cid, cases):
    """A real case with its forward output shifted by one and a fabricated
    'raised': must come back with codes 1, 2, 11, 12."""
    for _, fw, cfg, pairs in cases:
        ob, res = pairs[0]
        if ob["kind"] == "OFwd" and res[0] == "ok" and len(res[2]) > 0:
            bad = ("ok", res[1], [res[2][0] + 1.0] + list(res[2][1:]))
            return case_lit(cid, fw, cfg, "(q 1 1000000000)", [(ob, bad), (ob, ("raised", "X", ""))])
    raise SystemExit("no case usable as canary")


def replay_dict(fw, cfg, ob, res):
    sh, d = expected(cfg, ob)
    o = {k: v for k, v in ob.items()}
    return {"framework": fw, "family": cfg["family"], "params": cfg["params"], "dtype": cfg["dtype"], "obs": o,
            "observed": ({"shape": res[1], "data": res[2]} if res[0] == "ok" else {"raised": res[1], "message": res[2]}),
            "expected": {"shape": list(sh), "data": [float(v) for v in d]}}


def replay(rp):
    fw = rp["framework"]
    import_framework(fw)
    cfg = describe({"idx": 0, "family": rp["family"], "params": rp["params"], "dtype": rp["dtype"]})
    ob = rp["obs"]
    res = observe(Ctx(fw, cfg), ob)
    sh, d = expected(cfg, ob)
    print("framework=%s operator=%s %s dtype=%s" % (fw, rp["family"], json.dumps(rp["params"]), rp["dtype"]))
    print("observation:", json.dumps(ob))
    print("observed:", res)
    print("expected: shape", list(sh), "data", [float(v) for v in d])
    bad = violates(cfg, ob, res, 1e-4 if rp["dtype"] == "float32" else 1e-9)
    print("reproduced" if bad else "not reproduced")
    return 1 if bad else 0


def main(tier):
    R = common.Report(PID, tier)
    common.coq_build()
    ensure_built()
    thms, axioms = common.props_assumptions(PID)
    t0 = time.time()
    cfgs, cases, times = run_all(tier, R)
    t_py = time.time() - t0
    t0 = time.time()
    canary_id = len(cases)
    failing = coq_check(cases, make_canary(canary_id, cases))
    t_coq = time.time() - t0
    can = set(failing.pop(canary_id, []))
    if not {1, 2, 11, 12} <= can:
        raise SystemExit("C19 canary not detected (got %s): comparison pipeline broken" % sorted(can))

    evals, nontriv, kinds, fwcount, ranks = 0, set(), {}, {}, {"equal": 0, "differ": 0}
    model_ok, n_obl, n_known_obs = 0, 0, 0
    for cid, fw, cfg, pairs in cases:
        codes = failing.get(cid, [])
        ranks["equal" if len(cfg["dims"]) == len(cfg["dimsd"]) else "differ"] += 1
        if 9 in codes:
            R.violation("extracted matrix of %s %s is malformed" % (cfg["family"], cfg["params"]),
                        {"family": cfg["family"], "params": cfg["params"]}, no_input=True)
        for i, (ob, res) in enumerate(pairs):
            evals += 1
            n_obl += 1
            kinds[ob["kind"]] = kinds.get(ob["kind"], 0) + 1
            fwcount[fw] = fwcount.get(fw, 0) + 1
            sh, d = expected(cfg, ob)
            if np.abs(d).max(initial=0) > 0:
                nontriv.add((fw, cfg["idx"], ob["kind"], ob.get("flatten"), hashlib.sha1(json.dumps(ob, sort_keys=True).encode()).hexdigest()))
            m_bad, s_bad = (10 * i + 1) in codes, (10 * i + 2) in codes
            if not m_bad:
                model_ok += 1
            label = "%s %s(%s) dtype=%s %s%s" % (fw, cfg["family"], json.dumps(cfg["params"]), cfg["dtype"], ob["kind"],
                                                 ("" if "flatten" not in ob else " flatten=%s" % ob["flatten"]) +
                                                 ("" if "seq" not in ob else " [sequence %s, step %d of %d]" % (ob["seq"], ob["part"], len(ob["seq_inputs"]))) +
                                                 ("" if "joint" not in ob else " [one graph: %s, output %d]" % (ob["joint"], ob["part"])))
            if s_bad:
                fid = known_match(fw, cfg, ob)
                if fid and ((RAISES.get(fid, "") is None and res[0] == "ok") or (res[0] == "raised" and res[1] == RAISES.get(fid))):
                    what = next((k.get("what", fid) for k in PROPOSED_KNOWN + [k for k in common.load_known() if isinstance(k, dict)]
                                 if k.get("id") == fid), fid)
                    R.known_finding(fid, "%s [%s]" % (what, fid))
                    if m_bad and RAISES.get(fid, "") is None:
                        n_obl -= 1          # engine-level merge: not an obligation of the code-shaped model; counted separately
                        n_known_obs += 1
                    if m_bad and RAISES.get(fid, "") is not None:     # (which node survives a merge is the engine's business)
                        R.violation("model does not predict the recorded defect %s on %s" % (fid, label),
                                    {"framework": fw, "family": cfg["family"], "params": cfg["params"], "obs": ob,
                                     "broken": "Corr.CheckC19.model vs implementation"}, no_input=True)
                    continue
                tol = tol_of(cfg["dtype"])[1]
                small = shrink(fw, cfg, ob, tol)
                sres = observe(Ctx(fw, cfg), small)
                R.violation("wrapper output differs from Op x / Op^H g: " + label +
                            (" raised %s: %s" % (sres[1], sres[2]) if sres[0] == "raised" else ""),
                            replay_dict(fw, cfg, small, sres))
                continue
            if m_bad:
                R.violation("correspondence model = implementation no longer checks (property still satisfied): " + label,
                            {"framework": fw, "family": cfg["family"], "params": cfg["params"], "obs": ob,
                             "broken": "Corr.CheckC19.model vs implementation"}, no_input=True)
    coqchk = None
    if tier == "thorough":
        p = subprocess.run(["timeout", "900", "coqchk", "-silent", "-o", "-Q", "theories", "PV", "PV.State.Autodiff"],
                           cwd=common.COQDIR, stdout=subprocess.PIPE, stderr=subprocess.STDOUT, text=True)
        coqchk = "ok, axioms: <none>" if p.returncode == 0 and "Axioms: <none>" in p.stdout else "FAILED"
        if coqchk == "FAILED":
            R.violation("coqchk rejects State/Autodiff.vo or reports axioms", {"coqchk": p.stdout[-1500:]}, no_input=True)
    R.cov["coqchk"] = coqchk
    if axioms and not set(axioms) <= common.ALLOWED_AXIOMS:
        R.violation("Props/C19.v depends on unexpected axioms %s" % axioms, {"axioms": axioms}, no_input=True)
    R.cov.update(
        obligations=len(thms) + n_obl, discharged=len(thms) + model_ok,
        checker_cmd="make -C coq + coqc State/Autodiff.v Corr/CheckC19.v Props/C19.v (Print Assumptions) + coqc .work/C19/c19_*.v "
                    "(vm_compute: wrapper value/shape/raised vs code-shaped model and vs specification mv M / mvT M)",
        theorems=thms, axioms_reported=axioms, evaluations=evals, distinct_nontrivial=len(nontriv),
        rule="per (framework, operator configuration): forward value, cotangent pull-back and gradient of 0.5||Op x-y||^2 on random "
             "integer vectors in [-4,4] (flat; dims-shaped; torch batch=True with flatten True/False, batch size 1-3; jax vjp, grad, "
             "rmatvecad; pytensor grad / known_grads; pytensor graphs applying forward and adjoint / two wrappers to one variable); multi-step "
             "histories: >=3 random + unit cotangents through ONE retained torch graph (batch False/True), torch.autograd.functional.jacobian "
             "rows, two losses sharing one forward, a jax pullback called repeatedly, one compiled pytensor function called 3 times with "
             "earlier results re-read after the last call; non-trivial = distinct (framework, configuration, observation kind, input) whose "
             "specified output is not identically zero",
        configurations=len(cfgs), cases=len(cases), known_finding_observations=n_known_obs, per_framework=fwcount, per_kind=kinds, dims_vs_dimsd_rank=ranks,
        families=sorted({c["family"] for c in cfgs}), dtypes=sorted({c["dtype"] for c in cfgs}),
        t_frameworks=times, t_python=round(t_py, 1), t_coq=round(t_coq, 1),
        modelled="TorchOperator batch transposes, LinearOperator.dot N-d reshaping, column-wise matmat, JaxOperator.rmatvecad shape "
                 "test, PyTensorOperator.grad",
        oracles="torch.autograd, jax.vjp/jit/grad, pytensor graph compiler; the wrapped operator itself enters as its exact matrix")
    if len(R.notes) > 12:
        R.notes = R.notes[:12] + ["... %d more notes of the same kind" % (len(R.notes) - 12)]
    R.samples = []
    for cid, fw, cfg, pairs in cases[::max(1, len(cases) // 6)]:
        ob, res = pairs[-1]
        R.samples.append({"framework": fw, "family": cfg["family"], "params": cfg["params"], "dtype": cfg["dtype"],
                          "obs": ob, "result": res})
    return R.finish()
