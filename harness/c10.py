"""C10 — solver diagnostics are truthful.
Same models and runs as C09 (harness/c09_common.py); theorems in Props/C10.v
(|cost| = 1 + iiter, callbacks = iterates in order, cost_k^2 = ||y - A x_k||^2,
cgls r2norm truthful / r1norm refuted, functional monotone).  The check
compares returned tuples, cost histories, callback logs and Callbacks traces
with the model inside Coq, evaluates the truthfulness clauses exactly on the
implementation's own iterates, and compares lsqr's cost / norms with SciPy.
OMP / MP diagnostics: harness/c10_omp.py; solver-object reuse: harness/c10_reuse.py."""
from . import c09_common as cc
from . import c10_omp
from . import c10_reuse

PID = "C10"
PROPOSED_KNOWN = cc.PROPOSED_KNOWN


def replay(rp):
    if rp.get("solver") == "omp":
        return c10_omp.replay(rp)
    if rp.get("kind") == "reuse":
        return c10_reuse.replay(rp)
    return cc.replay(rp, cc.KINDS[PID])


def _extra(R, tier):
    ex = c10_omp.extra(R, tier)
    ru = c10_reuse.extra(R, tier)
    ex["more"] = [{"n": ru["n"], "ok": ru["ok"], "nontriv": ru["nontriv"],
                   "cov": {"reuse_sequences": ru["n"], "reuse_sequences_ok": ru["ok"], "reuse_rule": ru["rule"], "reuse_sample": ru["sample"]}}]
    return ex


def main(tier):
    return cc.report(PID, tier, extra=_extra)
