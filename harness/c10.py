"""C10 — solver diagnostics are truthful.
Same models and runs as C09 (harness/c09_common.py); theorems in Props/C10.v
(|cost| = 1 + iiter, callbacks = iterates in order, cost_k^2 = ||y - A x_k||^2,
cgls r2norm truthful / r1norm refuted, functional monotone).  The check
compares returned tuples, cost histories, callback logs and Callbacks traces
with the model inside Coq, evaluates the truthfulness clauses exactly on the
implementation's own iterates, and compares lsqr's cost / norms with SciPy.
OMP / MP diagnostics: harness/c10_omp.py."""
from . import c09_common as cc
from . import c10_omp

PID = "C10"
PROPOSED_KNOWN = cc.PROPOSED_KNOWN


def replay(rp):
    if rp.get("solver") == "omp":
        return c10_omp.replay(rp)
    return cc.replay(rp, cc.KINDS[PID])


def main(tier):
    return cc.report(PID, tier, extra=c10_omp.extra)
