"""C05 — alternative engines and implementations of one operator are equivalent.
Zoo configurations that differ only in an engine / implementation flag form
a group; all members must have the same forward and adjoint matrices
(compared inside Coq; equal matrices => equal maps on all inputs, Props/C05)
and the same error behaviour on invalid use."""
import json
import os

import numpy as np

from . import c05_spread, common, l1, oprun, zoo

PID = "C05"
CANARY = 999999
TOL = 1e-9

# parameters that select an implementation, per family
ENGINE_KEYS = {
    "FFT": ["engine"], "FFT2D": ["engine"], "FFTND": ["engine"], "Shift": ["engine"],
    "Spread": ["engine", "onthefly"], "Radon2D": ["engine", "onthefly"], "Radon3D": ["engine", "onthefly"],
    "FourierRadon2D": ["engine"], "FourierRadon3D": ["engine"], "Kirchhoff": ["engine"],
    "NonStationaryConvolve2D": ["engine"], "NonStationaryFilters2D": ["engine"], "NonStationaryConvolve3D": ["engine"],
    "Sliding3D": ["savetaper"], "Patch3D": ["savetaper"],
    "Convolve1D": ["method"], "Convolve2D": ["method"], "ConvolveND": ["method"],
    "Sliding1D": ["savetaper"], "Sliding2D": ["savetaper"], "Patch2D": ["savetaper"],
    "Fredholm1": ["usematmul", "saveGt"], "MatrixMult": ["sparse"],
    "VStack": ["nproc"], "HStack": ["nproc"], "BlockDiag": ["nproc"], "Block": ["nproc"],
    "MDC": ["usematmul", "saveGt", "fftengine"],
    "PoststackLinearModelling": ["sparse"],
}


def groups(recs):
    g = {}
    for r in recs:
        keys = ENGINE_KEYS.get(r["family"])
        if not keys:
            continue
        base = {k: v for k, v in r["params"].items() if k not in keys}
        g.setdefault((r["family"], json.dumps(base, sort_keys=True)), []).append(r)
    return {k: v for k, v in g.items() if len(v) > 1}


def _excclass(f):
    try:
        f()
        return "ok"
    except (ValueError, IndexError, TypeError, NotImplementedError, AssertionError, KeyError) as e:
        return type(e).__name__
    except Exception as e:
        return "Other:" + type(e).__name__


def error_behaviour(members):
    """Same outcome class of all variants on invalid use: wrong-size inputs
    (n+1, n-1) to matvec / rmatvec."""
    out = []
    for r in members:
        try:
            op = zoo.build(r["family"], r["params"])
        except Exception as e:
            out.append(("construct", type(e).__name__))
            continue
        m, n = op.shape
        dt = np.dtype(op.dtype)
        res = []
        for k, f in ((n + 1, op.matvec), (max(n - 1, 0), op.matvec), (m + 1, op.rmatvec)):
            c = _excclass(lambda: f(np.ones(k, dtype=dt)))
            res.append("ok" if c == "ok" else "error")     # the class of error is an implementation detail; accepted-vs-rejected is the behaviour
        out.append(tuple(res))
    return out


def coq_eval(pairs):
    d = common.workdir(PID)
    A = np.array([[1.0, 2], [3, 4]])
    pairs = pairs + [{"id": CANARY, "cplx": False, "A0": A, "A1": A + 1, "B0": A, "B1": A.T}]
    pairs.sort(key=lambda p: -p["A0"].size)
    nsh = max(1, min(3 * common.NPROC, len(pairs) // 4 + 1))
    names = []
    tq = common.qlit(__import__("fractions").Fraction(TOL).limit_denominator(10 ** 15))
    for k in range(nsh):
        sh = pairs[k::nsh]
        if not sh:
            continue
        nm = "pairs_%d" % k
        names.append(nm)
        with open(os.path.join(d, nm + ".v"), "w") as f:
            f.write("From Coq Require Import QArith Qcanon List.\nFrom PV Require Import Check GaussQc CheckC05.\nImport ListNotations.\nOpen Scope Qc_scope.\n")
            f.write("Definition tol : Qc := %s.\n" % tq)
            for c, pre, ty in ((False, "pr", "pairR"), (True, "pc", "pairC")):
                f.write("Definition %s_cases : list %s := [\n%s].\n" % (pre, ty, ";\n".join(
                    "{| %s_id := %d%%nat; %s_A0 := %s; %s_A1 := %s; %s_B0 := %s; %s_B1 := %s |}"
                    % (pre, p["id"], pre, common.mlit(p["A0"], c), pre, common.mlit(p["A1"], c), pre, common.mlit(p["B0"], c), pre, common.mlit(p["B1"], c))
                    for p in sh if p["cplx"] == c)))
            f.write("Eval vm_compute in (failing pr_id (chkpR tol) pr_cases ++ failing pc_id (chkpC tol) pc_cases).\n")
    outs = common.run_coq_files(d, names)
    res = {}
    for n in names:
        res.update(common.parse_failing(outs[n]))
    if sorted(res.pop(CANARY, [])) != [1, 2]:
        raise RuntimeError("canary pair not reported: pipeline broken")
    return res


def replay(rp):
    if rp.get("sub") == "c05_spread":
        return c05_spread.replay(rp)
    ops = [zoo.build(rp["family"], p) for p in (rp["params_ref"], rp["params_var"])]
    if rp.get("kind") == "error-behaviour":
        rs = [{"family": rp["family"], "params": p} for p in (rp["params_ref"], rp["params_var"])]
        e = error_behaviour(rs)
        bad = e[0] != e[1]
    else:
        W = [l1.Wrapped(o) for o in ops]
        if rp["direction"] == "forward":
            e = np.zeros(W[0].N); e[rp["unit"]] = 1
            a, b = W[0].fwd(e), W[1].fwd(e)
        else:
            e = np.zeros(W[0].M); e[rp["unit"]] = 1
            a, b = W[0].adj(e), W[1].adj(e)
        bad = a.shape != b.shape or np.abs(a - b).max() > 1e-9 * (1 + np.abs(a).max())
        print("max difference", None if a.shape != b.shape else np.abs(a - b).max())
    print("reproduced" if bad else "not reproduced")
    return 1 if bad else 0


def main(tier):
    R = common.Report(PID, tier)
    common.coq_build()
    thms, axioms = common.props_assumptions(PID)
    res = oprun.run(tier)
    recs = res["recs"]
    known = [k for k in common.load_known() if k["property"] == PID]
    G = groups(recs)
    pairs, meta = [], {}
    pid = 0
    nerr = 0
    for (fam, base), members in sorted(G.items()):
        bad = [m for m in members if "error" in m]
        good = [m for m in members if "error" not in m]
        if bad and good:
            for m in bad:
                R.violation("variant %s %s raises (%s) while variant %s works" % (fam, m["params"], m["error"], good[0]["params"]),
                            {"family": fam, "params_ref": good[0]["params"], "params_var": m["params"], "kind": "raises", "error": m["error"],
                             "direction": "forward", "unit": 0})
        if len(good) < 2:
            continue
        ref = good[0]
        for m in good[1:]:
            if m["A"].shape != ref["A"].shape or m["cplx"] != ref["cplx"]:
                R.violation("variants of %s have different shapes/kinds: %s %s vs %s %s" % (fam, ref["params"], ref["A"].shape, m["params"], m["A"].shape),
                            {"family": fam, "params_ref": ref["params"], "params_var": m["params"], "direction": "forward", "unit": 0})
                continue
            pairs.append({"id": pid, "cplx": ref["cplx"], "A0": ref["A"], "A1": m["A"], "B0": ref["B"], "B1": m["B"]})
            meta[pid] = (fam, ref, m)
            pid += 1
        eb = error_behaviour(good)
        nerr += len(eb)
        for m, e in zip(good[1:], eb[1:]):
            if e != eb[0]:
                R.violation("variants of %s differ in error behaviour on wrong-size inputs: %s -> %s, %s -> %s" % (fam, ref["params"], eb[0], m["params"], e),
                            {"family": fam, "params_ref": ref["params"], "params_var": m["params"], "kind": "error-behaviour"})
    codes = coq_eval(list(pairs))
    for i, c in codes.items():
        fam, ref, m = meta[i]
        for code, direction, key in ((1, "forward", "A"), (2, "adjoint", "B")):
            if code in c:
                D = np.abs(ref[key] - m[key])
                r, col = np.unravel_index(int(np.argmax(D)), D.shape)
                kf = [k for k in known if k.get("family") == fam and all(m["params"].get(a) == b for a, b in k.get("params", {}).items())]
                if kf:
                    R.known_finding(kf[0]["id"], kf[0]["what"])
                    continue
                R.violation("%s of %s differs between %s and %s: entry (%d,%d) %s vs %s" % (direction, fam, ref["params"], m["params"], r, col, ref[key][r, col], m[key][r, col]),
                            {"family": fam, "params_ref": ref["params"], "params_var": m["params"], "direction": direction, "unit": int(col),
                             "row": int(r), "ref_value": str(ref[key][r, col]), "var_value": str(m[key][r, col])})
    fams = sorted(set(k[0] for k in G))
    sp = c05_spread.run(R, tier)      # Spread / Radon family: numpy vs numba vs on-the-fly against the Coq model of both kernels
    thms = thms + sp["theorems"]
    axioms = sorted(set(axioms) | set(sp["axioms"]))
    R.cov.update(obligations=len(thms) + len(pairs) + sp["configurations"], discharged=len(thms) + len(pairs) - len(codes) + sp["discharged"],
                 spread_part={k: v for k, v in sp.items() if k in ("configurations", "evaluations", "distinct_nontrivial")},
                 checker_cmd="make -C coq + coqc Props/C05.v (Print Assumptions) + coqc .work/C05/pairs_*.v (vm_compute)",
                 theorems=thms, axioms_reported=axioms,
                 evaluations=2 * len(pairs) + nerr + sp["evaluations"], distinct_nontrivial=sum(1 for p in pairs if np.abs(p["A0"]).max(initial=0) > 0) + sp["distinct_nontrivial"],
                 rule="zoo configurations grouped by (family, parameters minus the implementation-selecting keys %s); one pair per non-reference member; forward and adjoint matrices compared entrywise in Coq within 1e-9(1+|.|); plus accepted-vs-rejected on wrong-size inputs; non-trivial = pair whose reference matrix is non-zero" % json.dumps(ENGINE_KEYS),
                 groups=len(G), families=fams, pairs_per_family={f: sum(1 for i in meta if meta[i][0] == f) for f in fams})
    R.samples = [{"family": meta[i][0], "reference": meta[i][1]["params"], "variant": meta[i][2]["params"]} for i in list(meta)[::max(1, len(meta) // 6)]]
    if axioms and not set(axioms) <= common.ALLOWED_AXIOMS:
        R.violation("Props/C05.v depends on unexpected axioms %s" % axioms, {"axioms": axioms}, no_input=True)
    return R.finish()
