"""C14 — OMP returns a least-squares fit on the support it reports.

Theorems: Props/C14.v (model Solvers/OMP.v: support, residual orthogonality,
truthful and monotone cost history, exact recovery for orthonormal
dictionaries, MP step identity / monotonicity).  Correspondence: the real
pylops OMP is run (solve(), and manual setup/step driving under the same
numpy seed to observe cols after every step) on small exact dictionaries;
Corr/CheckC14.v replays each run on Qc / Gaussian Qc with the
implementation's own column choices, exact least squares by Gauss-Jordan
elimination, and checks every clause of the property (codes 1..14)."""
import hashlib
import json
import os
import re
import subprocess
import time
import traceback

import numpy as np

from . import common

PID = "C14"
CANARY = 4999
# real float64 dictionary + complex data on a MATRIX-FREE operator is still mishandled by the unchanged tree
# (linearoperator._ColumnLinearOperator._matvec, non-explicit path: y = zeros(n, dtype=self.dtype); y[cols] = x drops the
# imaginary parts: Free(A).apply_columns([1]).matvec([1j]) == 0; omp: cost[-1] 3.85 vs true residual 22.78). Reported to
# the coordinator; such cases are generated only on explicit operators until that is repaired (then set True).
AREAL_MATRIX_FREE = False

# proposed entry for known_findings.json (see final report of the C14 builder)
PROPOSED_KNOWN = [
    {"id": "C14-MP-normalizecols", "property": "C14",
     "what": "OMP(niter_inner=0, normalizecols=True): matching-pursuit update uses the un-normalised coefficient "
             "cres[imax] (column norms are used for the selection only), so the residual norm grows whenever the "
             "selected column has squared norm > 2 (cls_sparsity.py OMP.step, MP branch)",
     "predicate": "niter_inner == 0 and normalizecols and max_j ||A[:,j]||^2 > 2"},
]

# NOTE_MIXED: mixed kinds. Complex dictionary + float64 y with niter_inner > 0 always worked. Before /repo commit
# c4bc995 the other mixed kinds were mishandled (complex dictionary + float64 y + niter_inner=0 raised UFuncTypeError;
# real dictionary + complex y dropped the imaginary parts of x in finalize: cost[-1] 1.198 vs true residual 6.247);
# since that fix all of them are valid inputs and are generated, every clause being judged on the RETURNED x.
CODES = {1: "selected column is not of maximal correlation", 2: "cols bookkeeping differs from 'append iff new'",
         3: "cost entry != true residual norm", 4: "non-zero of x outside the reported columns",
         5: "x is not the least-squares solution on the reported columns", 6: "A_cols^H (y - A x) not ~ 0",
         7: "cost increases", 8: "cost increases (MP, normalizecols=True, column norm^2 > 2)",
         9: "checker self-test failed", 10: "stopping rule violated", 11: "iiter / cost / trace length inconsistent",
         12: "orthonormal dictionary: k-sparse vector not recovered in k steps",
         13: "proved model (Solvers/OMP.v) differs from executed replay", 14: "solve() and manual driving disagree"}

MYFILES = ["Solvers/OMP.v", "Solvers/OMPExact.v", "Corr/CheckC14.v", "Props/C14.v"]


def build_own():
    """Until integrated in _CoqProject: compile our files when outdated."""
    th = os.path.join(common.COQDIR, "theories")
    newest = 0.0
    for f in MYFILES:
        src = os.path.join(th, f)
        vo = src[:-2] + ".vo"
        newest = max(newest, os.path.getmtime(src))
        if not os.path.exists(vo) or os.path.getmtime(vo) < newest:
            p = subprocess.run(["timeout", "600", "coqc", "-Q", "theories", "PV", "theories/" + f], cwd=common.COQDIR,
                               stdout=subprocess.PIPE, stderr=subprocess.STDOUT, text=True)
            if p.returncode != 0:
                print(p.stdout[-3000:])
                raise SystemExit("coqc failed on " + f)
            newest = max(newest, os.path.getmtime(vo))
    bad = subprocess.run("grep -nE '\\b(Admitted|admit|Axiom|Parameter|Conjecture)\\b' " +
                         " ".join("theories/" + f for f in MYFILES) + " | grep -v '(\\*' || true",
                         shell=True, cwd=common.COQDIR, stdout=subprocess.PIPE, text=True).stdout.strip()
    if bad:
        print(bad)
        raise SystemExit("forbidden declaration in C14 files")


# ------------------------------------------------------------------ generators
def _fix_zero_cols(r, A):
    m, n = len(A), len(A[0])
    for j in range(n):
        if all(A[i][j] == 0 for i in range(m)):
            A[r.randrange(m)][j] = r.choice([-2, -1, 1, 2])
    return A


def gen_dict(r, kind):
    """returns (A as list of rows of python int/complex/float, cplx, orthonormal)"""
    if kind == "int":
        m, n = r.randint(2, 5), r.randint(2, 6)
        return _fix_zero_cols(r, [[r.randint(-3, 3) for _ in range(n)] for _ in range(m)]), False, False
    if kind == "gauss":
        m, n = r.randint(2, 4), r.randint(2, 5)
        return _fix_zero_cols(r, [[complex(r.randint(-2, 2), r.randint(-2, 2)) for _ in range(n)] for _ in range(m)]), True, False
    if kind in ("perm", "cperm"):
        n = r.randint(2, 6)
        p = list(range(n)); r.shuffle(p)
        units = [1, -1] if kind == "perm" else [1, -1, 1j, -1j]
        A = [[0] * n for _ in range(n)]
        for j in range(n):
            A[p[j]][j] = r.choice(units)
        if kind == "cperm":
            A = [[complex(a) for a in row] for row in A]
        return A, kind == "cperm", True
    if kind == "had":
        H = [[1, 1, 1, 1], [1, -1, 1, -1], [1, 1, -1, -1], [1, -1, -1, 1]]
        extra = r.randint(0, 2)
        n = 4 + extra
        B = [[0.0] * n for _ in range(n)]
        for i in range(4):
            for j in range(4):
                B[i][j] = 0.5 * H[i][j]
        for e in range(extra):
            B[4 + e][4 + e] = 1.0
        pr = list(range(n)); r.shuffle(pr)
        pc = list(range(n)); r.shuffle(pc)
        sg = [r.choice([1, -1]) for _ in range(n)]
        return [[B[pr[i]][pc[j]] * sg[j] for j in range(n)] for i in range(n)], False, True
    if kind == "unit2":
        m, n = r.randint(2, 5), r.randint(2, 6)
        A = [[0] * n for _ in range(m)]
        for j in range(n):
            for i in r.sample(range(m), r.randint(1, 2)):
                A[i][j] = r.choice([1, -1])
        return A, False, False
    if kind in ("ties", "ctie"):
        A, cplx, _ = gen_dict(r, "int" if kind == "ties" else "gauss")
        n = len(A[0])
        a, b = r.sample(range(n), 2)
        s = r.choice([1, -1] if not cplx else [1, -1, 1j, -1j])
        for row in A:
            row[b] = s * row[a]
        return A, cplx, False
    if kind == "neartie":
        # column b = (1 + 2^-20) * (+-column a): scores differ by 1e-6 relative -- NOT a tie
        A, cplx, _ = gen_dict(r, "int")
        n = len(A[0])
        a, b = r.sample(range(n), 2)
        s = r.choice([1, -1]) * (1.0 + 2.0 ** -20)
        for row in A:
            row[b] = s * row[a]
        return [[float(v) for v in row] for row in A], False, False
    raise ValueError(kind)


def gen_case(r, kind):
    A, cplx, ortho = gen_dict(r, kind)
    m, n = len(A), len(A[0])
    ykind = r.choice(["sparse", "sparse", "dense", "dense", "zero"] if r.random() < 0.15 else ["sparse", "sparse", "dense"])
    # mixed kinds (valid since /repo c4bc995, see NOTE_MIXED): COMPLEX dictionary with REAL-valued data held in a
    # float64 array, and REAL (float64) dictionary with COMPLEX data; both for OMP and MP
    yreal = cplx and r.random() < 0.4
    areal = (not cplx) and r.random() < 0.25
    if yreal and ykind == "sparse":
        ykind = "dense"
    An = np.array(A, dtype=complex if cplx else float)
    cplx = cplx or areal                 # from here on: 'some complex values involved' (Coq instance EG)
    dt = complex if cplx else float
    x0 = None
    if ykind == "sparse":
        k = r.randint(1, min(m, n))
        idx = r.sample(range(n), k)
        x0 = [0] * n
        for j in idx:
            v = r.choice([-4, -3, -2, -1, 1, 2, 3, 4])
            if cplx:
                v = complex(v, r.randint(-3, 3))
            x0[j] = v
        y = An @ np.array(x0, dtype=dt)
    elif ykind == "dense":
        y = np.array([complex(r.randint(-5, 5), 0 if yreal else r.randint(-5, 5)) if cplx else r.randint(-5, 5) for _ in range(m)], dtype=dt)
    else:
        y = np.zeros(m, dtype=dt)
    mp = r.random() < 0.3
    nc = r.random() < 0.5
    if kind == "neartie":
        nc = r.random() < 0.2
    # physical scale of the data: exact powers of two (y, x0 and sigma scaled alike)
    ysc = r.choice([1.0, 1.0, 1.0, 2.0 ** -30, 2.0 ** -40, 2.0 ** 20])
    y = y * ysc
    if x0 is not None:
        x0 = [v * ysc for v in x0]
    big = max(float(np.sum(np.abs(An[:, j]) ** 2)) for j in range(n))
    nouter = r.choice([0, 1, 2, 3, 4, 6, 8])
    if mp and big > 2:
        nouter = min(nouter, 5)
    sigma = r.choice([0.0, 1e-10, 1e-4, 0.5, 2.0, 5.0]) * ysc
    expect = None
    if ortho and ykind == "sparse":
        nouter = max(nouter, k) if r.random() < 0.8 else nouter
        sigma = r.choice([1e-10, 1e-6, 0.5]) * ysc
        if nouter >= k:
            expect = (x0, k)
    return {"kind": kind, "ykind": ykind, "A": A, "y": [complex(v) if (cplx and not yreal) else float(v.real) for v in y], "cplx": cplx,
            "yreal": yreal, "areal": areal,
            "ortho": ortho, "mp": mp, "nc": nc, "nouter": nouter, "sigma": sigma, "niter_inner": 0 if mp else 100,
            "yscale": ysc, "free": r.random() < 0.4 and (AREAL_MATRIX_FREE or not areal), "npseed": r.randrange(2 ** 31), "expect": expect}


# ------------------------------------------------------------------ running the implementation
def mkop(A, free):
    import pylops
    if not free:
        return pylops.MatrixMult(A, dtype=A.dtype)

    class _Free(pylops.LinearOperator):      # matrix-free: non-explicit path of _ColumnLinearOperator
        def __init__(self, M):
            self.M = M
            super().__init__(dtype=M.dtype, shape=M.shape)

        def _matvec(self, x):
            return self.M @ x

        def _rmatvec(self, x):
            return self.M.conj().T @ x
    return _Free(A)


def arrays(c):
    dt = complex if c["cplx"] else float
    if c.get("yreal"):          # complex dictionary, real data: y is a float64 array
        y = np.array([float(np.real(v)) for v in c["y"]], dtype=float)
    else:
        y = np.array([complex(v) if c["cplx"] else v for v in c["y"]], dtype=dt)
    if c.get("areal"):          # real (float64) dictionary, complex data
        return np.array([[float(np.real(a)) for a in row] for row in c["A"]], dtype=float), y
    return np.array([[complex(a) if c["cplx"] else a for a in row] for row in c["A"]], dtype=dt), y


def drive(c):
    """Runs the real solver. Fills c with x, iiter, cost (from solve()) and choices, trace, xsteps (manual driving)."""
    from pylops.optimization.cls_sparsity import OMP
    A, y = arrays(c)
    kw = dict(niter_outer=c["nouter"], niter_inner=c["niter_inner"], sigma=c["sigma"], normalizecols=c["nc"])
    np.random.seed(c["npseed"])
    s = OMP(mkop(A, c["free"]))
    x, K, cost = s.solve(y.copy(), **kw)
    c["x"] = np.asarray(x)
    c["iiter"] = int(K)
    c["cost"] = [float(v) for v in np.asarray(cost)]
    # manual driving, same seed: cols after every step
    np.random.seed(c["npseed"])
    Op = mkop(A, c["free"])
    s2 = OMP(Op)
    s2.setup(y.copy(), **kw)
    xs, cols = [], []
    choices, trace, xsteps, scores = [], [], [], []
    for _ in range(c["iiter"]):
        sc = np.abs(Op.rmatvec(s2.res))
        if c["nc"]:
            sc = sc / s2.norms
        before, xb = list(cols), [complex(v) for v in xs]
        xs, cols = s2.step(xs, cols)
        if len(cols) > len(before):
            i = cols[-1]
        else:
            ch = [p for p in range(len(before)) if complex(xs[p]) != xb[p]] if c["mp"] else []
            i = cols[ch[0]] if ch else max(before, key=lambda j: sc[j])
        choices.append(int(i))
        trace.append([int(j) for j in cols])
        xf = np.zeros(A.shape[1], dtype=A.dtype)
        xf[cols] = np.array(xs)
        xsteps.append(xf)
        scores.append(sc)
    c["choices"], c["trace"], c["xsteps"], c["scores"] = choices, trace, xsteps, scores
    xfin = s2.finalize(xs, cols) if c["iiter"] == s2.iiter else None
    c["consistent"] = bool(xfin is not None and np.array_equal(np.asarray(s2.cost), np.asarray(cost))
                           and np.array_equal(xfin, c["x"]))
    return c


# ------------------------------------------------------------------ Coq emission
def case_lit(c, cid):
    cp = c["cplx"]
    E = "EG" if cp else "EQ"
    x = [complex(v) if cp else float(np.real(v)) for v in c["x"]]
    if c["expect"]:
        x0 = "(Some (%s, %d%%nat))" % (common.vlit([complex(v) if cp else v for v in c["expect"][0]], cp), c["expect"][1])
    else:
        x0 = "None"
    return ("(Build_caseT %s %d%%nat %d%%nat\n   %s\n   %s %s %s %s %d%%nat %s\n   [%s]\n   %s\n   %s %d%%nat %s %s)" % (
        E, cid, len(c["A"][0]), common.mlit(c["A"], cp), common.vlit(c["y"], cp),
        "true" if c["nc"] else "false", "true" if c["mp"] else "false", common.qlit(c["sigma"]), c["nouter"],
        common.natlist(c["choices"]), "; ".join(common.natlist(t) for t in c["trace"]),
        common.vlit(c["cost"]), common.vlit(x, cp), c["iiter"], "true" if c["consistent"] else "false", x0))


def write_file(d, name, cases, cplx):
    with open(os.path.join(d, name + ".v"), "w") as f:
        f.write("From Coq Require Import QArith Qcanon ZArith List.\nFrom PV Require Import Check CheckC14.\nImport ListNotations.\n")
        f.write("Definition cases : list (caseT %s) := [\n" % ("EG" if cplx else "EQ"))
        f.write(";\n".join(case_lit(c, c["id"]) for c in cases))
        f.write("].\nEval vm_compute in (%s cases).\n" % ("failingG" if cplx else "failingQ"))


def run_coq(cases, tag="cases"):
    d = common.workdir(PID if tag == "cases" else PID + "_" + tag)
    names = []
    for cp in (False, True):
        sub = [c for c in cases if c["cplx"] == cp]
        per = max(1, (len(sub) + 7) // 8)
        for k, sh in enumerate(common.shard(sub, per)):
            nm = "%s_%s_%d" % (tag, "c" if cp else "r", k)
            write_file(d, nm, sh, cp)
            names.append(nm)
    outs = common.run_coq_files(d, names)
    res = {}
    for nm in names:
        rc, txt = outs[nm]
        # Coq may break the line after '(' : normalise before the shared parser sees it
        res.update(common.parse_failing((rc, re.sub(r"\(\s+", "(", txt))))
    return res


# ------------------------------------------------------------------ search on the implementation itself
def clause_failures(c):
    """Evaluates the clauses of the property directly on the implementation's outputs (numpy).
    Returns list of (code, text, details)."""
    A, y = arrays(c)
    out = []
    x, cost, K = c["x"], c["cost"], c["iiter"]
    cols = c["trace"][-1] if c["trace"] else []
    ny2 = float(np.sum(np.abs(y) ** 2))
    nA2 = float(np.sum(np.abs(A) ** 2))
    ny = ny2 ** 0.5
    sc_all = (ny2 * nA2) ** 0.5          # every tolerance is relative to the scale of the data
    tol = 1e-6
    if len(cost) != K + 1 or len(c["trace"]) != K:
        out.append((11, "len(cost)=%d, iiter=%d" % (len(cost), K), {}))
    for j in range(len(x)):
        if j not in cols and x[j] != 0:
            out.append((4, "x[%d]=%s but column %d was never selected (cols=%s)" % (j, x[j], j, cols), {"index": j}))
            break
    if not c["mp"] and cols:
        g = A[:, cols].conj().T @ (y - A @ x)
        p = int(np.argmax(np.abs(g)))
        if abs(g[p]) > tol * sc_all:
            out.append((6, "|A[:,%d]^H (y - A x)| = %.3g" % (cols[p], abs(g[p])), {"column": cols[p], "value": abs(g[p])}))
        if np.linalg.matrix_rank(A[:, cols]) == len(cols):
            xe = np.linalg.lstsq(A[:, cols], y, rcond=None)[0]
            e = np.abs(x[cols] - xe)
            p = int(np.argmax(e))
            if e[p] > tol * (ny + abs(xe[p])):
                out.append((5, "x[%d]=%s, least squares on cols %s gives %s" % (cols[p], x[cols[p]], cols, xe[p]), {"column": cols[p]}))
    for k in range(min(len(cost), K + 1)):
        xk = np.zeros(A.shape[1], dtype=A.dtype) if k == 0 else c["xsteps"][k - 1]
        tr = float(np.linalg.norm(y - A @ xk))
        if abs(cost[k] ** 2 - tr ** 2) > tol * (ny2 + tr ** 2):
            out.append((3, "cost[%d]=%.12g but ||y - A x_%d|| = %.12g" % (k, cost[k], k, tr), {"step": k}))
            break
    if len(cost) == K + 1 and len(x) == A.shape[1] and not any(f[0] == 3 for f in out):
        tr = float(np.linalg.norm(y - A @ x))
        if abs(cost[K] ** 2 - tr ** 2) > tol * (ny2 + tr ** 2):
            out.append((3, "cost[%d]=%.12g but the returned x has ||y - A x|| = %.12g" % (K, cost[K], tr), {"step": K}))
    for k in range(K):
        xk = np.zeros(A.shape[1], dtype=A.dtype) if k == 0 else c["xsteps"][k - 1]
        s2 = np.abs(A.conj().T @ (y - A @ xk)) ** 2
        if c["nc"]:
            s2 = s2 / np.sum(np.abs(A) ** 2, axis=0)
        i = c["choices"][k]
        fl = 1e-10 * ny2 * nA2 / (float(np.min(np.sum(np.abs(A) ** 2, axis=0))) if c["nc"] else 1.0)
        if s2.max() - s2[i] > tol * s2.max() + fl:
            out.append((1, "step %d selected column %d with score^2 %.6g, maximum is %.6g at column %d"
                        % (k + 1, i, s2[i], s2.max(), int(np.argmax(s2))), {"step": k + 1}))
            break
    small = bool(np.all(np.sum(np.abs(A) ** 2, axis=0) <= 2))
    for k in range(len(cost) - 1):
        if cost[k + 1] > cost[k] + tol * (cost[0] + cost[k]):
            if not c["mp"] or small:
                out.append((7, "cost[%d]=%.9g > cost[%d]=%.9g" % (k + 1, cost[k + 1], k, cost[k]), {"step": k + 1}))
            elif c["nc"]:
                out.append((8, "cost[%d]=%.9g > cost[%d]=%.9g" % (k + 1, cost[k + 1], k, cost[k]), {"step": k + 1}))
            break
    ok = K <= c["nouter"] and all(cost[k] > c["sigma"] for k in range(min(K, len(cost)))) and \
        (K == c["nouter"] or (len(cost) > K and cost[K] <= c["sigma"]))
    if not ok:
        out.append((10, "iiter=%d niter_outer=%d sigma=%g cost=%s" % (K, c["nouter"], c["sigma"], cost), {}))
    if c["expect"]:
        x0 = np.array(c["expect"][0], dtype=A.dtype)
        if K != c["expect"][1] or np.abs(x - x0).max() > tol * (ny + np.abs(x0).max()):
            out.append((12, "orthonormal dictionary, %d-sparse x0=%s: returned x=%s after %d steps" % (c["expect"][1], list(x0), list(x), K), {}))
    if not c["consistent"]:
        out.append((14, "solve() and setup/step driving give different cost or x under the same numpy seed", {}))
    return out


def to_replay(c, code, text):
    return {"A": [[str(a) for a in row] for row in c["A"]], "y": [str(v) for v in c["y"]], "cplx": c["cplx"],
            "options": {"niter_outer": c["nouter"], "niter_inner": c["niter_inner"], "sigma": c["sigma"],
                        "normalizecols": c["nc"], "matrix_free_operator": c["free"],
                        "y_is_float64_array": bool(c.get("yreal")), "dictionary_is_float64": bool(c.get("areal"))},
            "numpy_seed": c["npseed"], "expect": [[str(v) for v in c["expect"][0]], c["expect"][1]] if c["expect"] else None,
            "clause": code, "clause_text": CODES[code], "observed": text,
            "x": [str(v) for v in c.get("x", [])], "cost": c.get("cost"), "iiter": c.get("iiter"), "cols_per_step": c.get("trace")}


def from_replay(rp):
    cv = (lambda s: complex(s)) if rp["cplx"] else (lambda s: float(complex(s).real))
    o = rp["options"]
    return {"A": [[cv(a) for a in row] for row in rp["A"]], "y": [cv(v) for v in rp["y"]], "cplx": rp["cplx"],
            "nouter": o["niter_outer"], "niter_inner": o["niter_inner"], "mp": o["niter_inner"] == 0, "sigma": o["sigma"],
            "nc": o["normalizecols"], "free": o["matrix_free_operator"], "npseed": rp["numpy_seed"],
            "yreal": bool(o.get("y_is_float64_array")), "areal": bool(o.get("dictionary_is_float64")),
            "expect": ([cv(v) for v in rp["expect"][0]], rp["expect"][1]) if rp.get("expect") else None}


def shrink(c, code):
    """smallest niter_outer still violating the same clause"""
    best = c
    if c.get("expect"):
        return best
    for no in range(1, c["nouter"]):
        d = dict(c)
        d["nouter"] = no
        try:
            drive(d)
        except Exception:
            continue
        if any(f[0] == code for f in clause_failures(d)):
            return d
    return best


def replay(rp):
    c = from_replay(rp)
    if rp.get("clause") == "exception":
        try:
            drive(c)
        except Exception as e:
            print("reproduced:", type(e).__name__, e)
            return 1
        print("not reproduced")
        return 0
    drive(c)
    fs = clause_failures(c)
    hit = [f for f in fs if f[0] == rp["clause"]]
    for f in fs:
        print("clause %d (%s): %s" % (f[0], CODES[f[0]], f[1]))
    print("reproduced" if hit else "not reproduced")
    return 1 if hit else 0


# ------------------------------------------------------------------ main
KIND_W = [("int", 5), ("gauss", 3), ("perm", 2), ("cperm", 1), ("had", 2), ("unit2", 3), ("ties", 3), ("ctie", 1), ("neartie", 2)]


def main(tier):
    R = common.Report(PID, tier)
    common.coq_build()
    build_own()
    thms, axioms = common.props_assumptions(PID)
    ncases = 320 if tier == "quick" else 3200
    kinds = [k for k, w in KIND_W for _ in range(w)]
    t0 = time.time()
    cases = []
    errors = 0
    for idx in range(ncases):
        kind = kinds[idx % len(kinds)]
        c = gen_case(common.rng(PID, kind, idx), kind)
        c["id"] = idx
        try:
            drive(c)
        except Exception as e:
            errors += 1
            rp = to_replay(c, 9, "%s: %s" % (type(e).__name__, e))
            rp["clause"] = "exception"
            rp["trace"] = traceback.format_exc()[-1500:]
            R.violation("OMP raised %s on a valid input (%s dictionary %dx%d, niter_inner=%d, normalizecols=%s): %s"
                        % (type(e).__name__, kind, len(c["A"]), len(c["A"][0]), c["niter_inner"], c["nc"], e), rp)
            continue
        cases.append(c)
    t_py = time.time() - t0
    # canary: a wrong coefficient must be flagged
    canary = None
    for c in cases:
        if not c["mp"] and c["iiter"] >= 1 and np.abs(c["x"]).max() > 0 and not c["expect"]:
            canary = dict(c)
            canary["id"] = CANARY
            xx = np.array(c["x"]).copy()
            xx[c["trace"][-1][0]] += float(np.linalg.norm(np.array(c["y"])))      # corruption at the scale of the data
            canary["x"] = xx
            break
    if canary is None:
        raise SystemExit("C14: no case usable as canary")
    t1 = time.time()
    res = run_coq(cases + [canary])
    t_coq = time.time() - t1
    if CANARY not in res or not ({5, 6} & set(res[CANARY])):
        raise SystemExit("C14: canary (corrupted x) was not flagged by the Coq checker: pipeline broken")
    res.pop(CANARY)
    known_ids = {k["id"] for k in common.load_known() if k.get("property") == PID} | {k["id"] for k in PROPOSED_KNOWN}
    nfail = 0
    reported = {}
    for c in cases:
        codes = set(res.get(c["id"], []))
        if not codes:
            continue
        if codes == {8}:
            if "C14-MP-normalizecols" in known_ids:
                R.known_finding("C14-MP-normalizecols", PROPOSED_KNOWN[0]["what"])
                continue
        nfail += 1
        key = min(codes)
        reported[key] = reported.get(key, 0) + 1
        if reported[key] > 2:        # at most two detailed reports (search + shrink + replay) per leading code
            continue
        fs = clause_failures(c)
        real = [f for f in fs if f[0] != 8]
        if real:
            code, text, _ = real[0]
            d = shrink(c, code)
            f2 = [f for f in clause_failures(d) if f[0] == code]
            text = f2[0][1] if f2 else text
            R.violation("OMP violates '%s' (%s dictionary %dx%d, niter_inner=%d, normalizecols=%s, sigma=%g, niter_outer=%d): %s"
                        % (CODES[code], c["kind"], len(c["A"]), len(c["A"][0]), d["niter_inner"], d["nc"], d["sigma"], d["nouter"], text),
                        to_replay(d if f2 else c, code, text))
        else:
            rp = to_replay(c, sorted(codes)[0], "Coq codes %s" % sorted(codes))
            rp["broken"] = "Corr/CheckC14.v check codes %s (%s): implementation no longer corresponds to the model of Solvers/OMP.v" % (
                sorted(codes), "; ".join(CODES[k] for k in sorted(codes)))
            R.violation("correspondence OMP implementation vs model no longer checks (codes %s) for %s dictionary %dx%d"
                        % (sorted(codes), c["kind"], len(c["A"]), len(c["A"][0])), rp, no_input=True)
    if nfail:
        R.notes.append("failing cases per leading code: %s (at most two per code are reported in detail)" % reported)
    nontriv = set()
    for c in cases:
        if c["iiter"] >= 1 and np.abs(c["x"]).max() > 0:
            nontriv.add(hashlib.sha256(json.dumps([c["A"], c["y"], c["mp"], c["nc"], c["nouter"], c["sigma"], c["free"]], default=str).encode()).hexdigest())
    tie_steps = 0
    repeats = 0
    for c in cases:
        for k, sc in enumerate(c["scores"]):
            if np.sum(np.abs(sc - sc.max()) <= 1e-9 * sc.max()) > 1:
                tie_steps += 1
            if k > 0 and c["trace"][k] == c["trace"][k - 1]:
                repeats += 1
    R.cov.update(
        obligations=len(thms) + len(cases) + errors, discharged=len(thms) + len(cases) - nfail,
        checker_cmd="make -C coq + coqc Solvers/OMP.v Corr/CheckC14.v Props/C14.v (Print Assumptions) + coqc .work/C14/cases_*.v "
                    "(vm_compute: exact replay on Qc / Gaussian Qc, Gauss-Jordan least squares, clause codes 1..14)",
        theorems=thms, axioms_reported=axioms, evaluations=len(cases) + errors, distinct_nontrivial=len(nontriv),
        rule="dictionaries: small-integer real, Gaussian-integer complex, signed (complex-unit) permutations, Hadamard/2 blocks "
             "(orthonormal), {0,+-1} columns of squared norm <= 2, dictionaries with duplicated/negated columns (exact ties); "
             "y = A x0 with k-sparse integer x0, dense integer y, or 0; niter_outer in {0..8}, niter_inner in {0 (MP), 100}, "
             "sigma in {0,1e-10,1e-6,1e-4,.5,2,5}; y, x0 and sigma multiplied by an exact power of two in {1, 2^-30, 2^-40, 2^20} "
             "(all tolerances are relative to ||y||); mixed kinds: complex dictionary with real data in a float64 array, real float64 dictionary with complex data (OMP and MP); near-tie dictionaries (column b = (1+2^-20) column a); normalizecols on/off, explicit MatrixMult or matrix-free operator; numpy global "
             "seed fixed per case. non-trivial = distinct (A, y, options) with at least one step and non-zero returned x",
        kinds={k: sum(1 for c in cases if c["kind"] == k) for k, _ in KIND_W},
        yscale_hist={str(v): sum(1 for c in cases if c["yscale"] == v) for v in (1.0, 2.0 ** -30, 2.0 ** -40, 2.0 ** 20)},
        complex_cases=sum(1 for c in cases if c["cplx"]),
        complex_dictionary_real_float64_y_cases=sum(1 for c in cases if c.get("yreal")),
        complex_dictionary_real_y_mp_cases=sum(1 for c in cases if c.get("yreal") and c["mp"]),
        real_dictionary_complex_y_cases=sum(1 for c in cases if c.get("areal")),
        real_dictionary_complex_y_mp_cases=sum(1 for c in cases if c.get("areal") and c["mp"]), mp_cases=sum(1 for c in cases if c["mp"]),
        normalizecols_cases=sum(1 for c in cases if c["nc"]), matrix_free_cases=sum(1 for c in cases if c["free"]),
        orthonormal_recovery_cases=sum(1 for c in cases if c["expect"]), steps_total=sum(c["iiter"] for c in cases),
        steps_with_exact_ties=tie_steps, steps_reselecting_a_column=repeats,
        iiter_hist={str(k): sum(1 for c in cases if c["iiter"] == k) for k in range(9)},
        implementation_errors=errors, t_python=round(t_py, 1), t_coq=round(t_coq, 1))
    R.samples = [{"kind": c["kind"], "A": [[str(a) for a in row] for row in c["A"]], "y": [str(v) for v in c["y"]],
                  "niter_outer": c["nouter"], "niter_inner": c["niter_inner"], "sigma": c["sigma"], "normalizecols": c["nc"],
                  "cols_per_step": c["trace"], "x": [str(v) for v in c["x"]], "cost": c["cost"]}
                 for c in cases[::max(1, len(cases) // 6)]][:6]
    if axioms and not set(axioms) <= common.ALLOWED_AXIOMS:
        R.violation("Props/C14.v depends on unexpected axioms %s" % axioms, {"axioms": axioms}, no_input=True)
    return R.finish()
