"""C20 — explicit and matrix-free seismic modelling paths agree.

Theorems (Ops/Seismic.v, Props/C20.v): convmtx slice = Toeplitz entries h[i+off-j]; Toeplitz x
vector = 'same' convolution for every (odd/even) length; dense D as coded = FirstDerivative
stencil; post-stack explicit == chain for every wavelet/nt0/kind/columns; non-stationary for
every dense C; block_diag blockwise; layout rearrangement is a bijection; pre-stack index
formulas agree (partial).  Correspondence (this file): dense matrices of BOTH constructions of
the real implementation (unit vectors, forward and adjoint) are compared INSIDE Coq with the
models evaluated over Qc on the exact dyadic taps / AVO tables (Corr/CheckC20.v); MDC is
compared with an independent numpy frequency-by-frequency reference.  Search on disagreement:
first differing entry between the two implementation constructions (constructor args + unit
vector = replay).  The Zoeppritz-limit clause is NOT claimed: only a labelled numerical sanity
figure is reported."""
import os
import subprocess
import time
import warnings

import numpy as np

from . import common

PID = "C20"
MYV = ["Ops/Seismic.v", "Corr/CheckC20.v", "Ops/Fredholm.v", "Ops/MDCOp.v", "Corr/CheckC20b.v"]
TOL = 1e-9

# proposed entries for known_findings.json (genuine defects of the unchanged tree, see report)
PROPOSED_KNOWN = [
    {"id": "C20-K1", "property": "C20", "class": "PoststackLinearModelling/PrestackLinearModelling(explicit=False)",
     "predicate": "stationary wavelet with len(wav) > nt0",
     "what": "matrix-free post/pre-stack modelling with len(wav) > nt0 dispatches Convolve1D to _Convolve1Dlong "
             "(dimsd = h.shape): the chain has len(wav) output rows (and breaks with spatdims) while the explicit "
             "operator is nt0 x nt0"},
    {"id": "C20-K2", "property": "C20", "class": "MDC/Fredholm1",
     "predicate": "kernel with a singleton axis: ns == 1 or nr == 1 or nfmax == 1",
     "what": "MDC with a kernel having a singleton axis (ns==1, nr==1 or nfmax==1) raises in Fredholm1 "
             "(x.squeeze() drops the singleton axis) instead of applying the frequency-by-frequency product"},
]


def _known_ids():
    ids = {k["id"] for k in PROPOSED_KNOWN}
    for k in common.load_known():
        if str(k.get("property", "")).upper() == PID or str(k.get("id", "")).startswith("C20"):
            ids.add(k.get("id"))
    return ids


def ensure_built():
    """compile our own .v files if their .vo is missing/outdated (until they are in _CoqProject)"""
    th = os.path.join(common.COQDIR, "theories")
    prev = os.path.getmtime(os.path.join(th, "Corr", "Check.vo"))
    for v in MYV:
        src = os.path.join(th, v)
        vo = src[:-2] + ".vo"
        if (not os.path.exists(vo)) or os.path.getmtime(vo) < os.path.getmtime(src) or os.path.getmtime(vo) < prev:
            p = subprocess.run(["timeout", "600", "coqc", "-Q", "theories", "PV", "theories/" + v], cwd=common.COQDIR,
                               stdout=subprocess.PIPE, stderr=subprocess.STDOUT, text=True)
            if p.returncode != 0:
                raise SystemExit("cannot compile %s:\n%s" % (v, p.stdout[-3000:]))
        prev = os.path.getmtime(vo)


# ------------------------------------------------------------------ implementation side
def _imports():
    warnings.filterwarnings("ignore")
    from pylops.avo.poststack import PoststackLinearModelling
    from pylops.avo.prestack import PrestackLinearModelling
    from pylops.avo import avo
    from pylops.waveeqprocessing.mdd import MDC
    return PoststackLinearModelling, PrestackLinearModelling, avo, MDC


def fwd_cols(op):
    """rows of the result = columns of the dense forward matrix"""
    return np.array([np.asarray(op.matvec(e)).ravel() for e in np.eye(op.shape[1])])


def adj_rows(op):
    """rows of the dense adjoint matrix (n x m); must equal the columns of the forward matrix"""
    return np.array([np.asarray(op.rmatvec(e)).ravel() for e in np.eye(op.shape[0])]).T


def perm_tm2pm(n, npar, ns, i):
    t, k, s = i // (npar * ns), (i // ns) % npar, i % ns
    return (k * n + t) * ns + s


def make_inputs(fam, a):
    """the constructor input ARRAYS of a configuration (created once per case: every operator of the case is
    built from these same objects, so that a constructor or a call writing into its inputs is observed)"""
    if fam in ("mdc", "mdcm", "fred"):
        return {"G": np.array(a["Gre"], dtype=float) + 1j * np.array(a["Gim"], dtype=float)}
    arrs = {"wav": np.array(a["wav"], dtype=float)}
    if fam == "pre":
        arrs["theta"] = np.array(a["theta"], dtype=float)
        if isinstance(a["vsvp"], list):
            arrs["vsvp"] = np.array(a["vsvp"], dtype=float)
    return arrs


def pristine(arrs):
    return {k: v.copy() for k, v in arrs.items()}


def modified_inputs(arrs, orig):
    """names of the input arrays that are no longer bitwise equal to their pristine copies"""
    return [k for k in sorted(arrs) if arrs[k].shape != orig[k].shape or arrs[k].dtype != orig[k].dtype
            or arrs[k].tobytes() != orig[k].tobytes()]


def build(fam, a, explicit, arrs=None):
    Post, Pre, avo, MDC = _imports()
    if arrs is None:
        arrs = make_inputs(fam, a)
    sp = tuple(a["spatdims"]) if a.get("spatdims") else None
    if fam in ("post", "nonstat"):
        return Post(arrs["wav"], a["nt0"], spatdims=sp, explicit=explicit, kind=a["kind"])
    if fam == "pre":
        vsvp = arrs["vsvp"] if "vsvp" in arrs else float(a["vsvp"])
        return Pre(arrs["wav"], arrs["theta"], vsvp=vsvp, nt0=a["nt0"],
                   spatdims=sp, linearization=a["lin"], explicit=explicit, kind=a["kind"])
    raise ValueError(fam)


def mdc_kernel(a):
    G = np.array(a["Gre"], dtype=float) + 1j * np.array(a["Gim"], dtype=float)
    return G


def build_mdc(a, G=None):
    MDC = _imports()[3]
    return MDC(mdc_kernel(a) if G is None else G, a["nt"], a["nv"], dt=a["dt"], dr=a["dr"], twosided=a["twosided"],
               saveGt=a["saveGt"], usematmul=a["usematmul"], conj=bool(a.get("conj", False)),
               prescaled=bool(a.get("prescaled", False)))


def build_fred(a, G=None):
    from pylops.signalprocessing import Fredholm1
    return Fredholm1(mdc_kernel(a) if G is None else G, a["nz"], saveGt=a["saveGt"], usematmul=a["usematmul"], dtype="complex128")


def run_fred(a):
    """Fredholm1 dense matrices (forward / adjoint columns) vs numpy einsum reference"""
    rec = {"fam": "fred", "args": a}
    G = mdc_kernel(a)
    nsl, nx, ny = G.shape
    nz = a["nz"]
    arrs = {"G": G.copy()}
    try:
        op = build_fred(a, arrs["G"])
        M = np.array([np.asarray(op.matvec(e.astype(complex))).ravel() for e in np.eye(nsl * ny * nz)])
        A = np.array([np.asarray(op.rmatvec(e.astype(complex))).ravel() for e in np.eye(nsl * nx * nz)])
        M2 = np.array([np.asarray(build_fred(a, arrs["G"]).matvec(e.astype(complex))).ravel() for e in np.eye(nsl * ny * nz)])
    except Exception as ex:
        rec["fail"] = {"kind": "raised", "error": "%s: %s" % (type(ex).__name__, str(ex)[:120])}
        return rec
    bad = modified_inputs(arrs, {"G": G})
    if bad:
        rec["fail"] = {"kind": "input modified", "when": "construction / calls", "inputs": bad}
        return rec
    if np.abs(M2 - M).max(initial=0) > 0:
        rec["fail"] = {"kind": "rebuilt differs", "detail": "second Fredholm1 from the same kernel array differs"}
        return rec
    Mr = np.array([np.einsum("kij,kjz->kiz", G, e.reshape(nsl, ny, nz)).ravel() for e in np.eye(nsl * ny * nz)])
    Ar = np.array([np.einsum("kij,kiz->kjz", G.conj(), e.reshape(nsl, nx, nz)).ravel() for e in np.eye(nsl * nx * nz)])
    rec.update(M=M, A=A)
    for direction, P, Q in (("forward", M, Mr), ("adjoint", A, Ar)):
        if P.shape != Q.shape:
            rec["fail"] = {"kind": "shape mismatch", "shapes": [list(P.shape), list(Q.shape)]}
            break
        dd = np.abs(P - Q) > TOL * (1 + np.abs(Q))
        if dd.any():
            j, i = (int(t) for t in np.argwhere(dd)[0])
            rec["fail"] = {"kind": "entry differs", "direction": direction, "unit_in": j, "out_index": i,
                           "impl_value": str(P[j, i]), "reference_value": str(Q[j, i])}
            break
    return rec


def mdc_reference_cols(a):
    """independent numpy reference: y = dt*dr*sqrt(nt) * irfft( G[f] @ rfft(x)[f] ), frequency by frequency"""
    G = mdc_kernel(a)
    nt, nv, dt, dr = a["nt"], a["nv"], a["dt"], a["dr"]
    nf, ns, nr = G.shape
    Gk = G.conj() if a.get("conj", False) else G
    sc = 1.0 if a.get("prescaled", False) else dt * dr * np.sqrt(nt)
    cols = []
    for e in np.eye(nt * nr * nv):
        x = e.reshape(nt, nr, nv)
        if a["twosided"]:
            x = np.fft.ifftshift(x, axes=0)
        X = np.fft.rfft(x, axis=0)
        Y = np.zeros((X.shape[0], ns, nv), dtype=complex)
        for f in range(min(nf, X.shape[0])):
            Y[f] = sc * (Gk[f] @ X[f])
        cols.append(np.fft.irfft(Y, n=nt, axis=0).ravel())
    return np.array(cols)


def sizes(fam, a):
    ns = int(np.prod(a["spatdims"])) if a.get("spatdims") else 1
    if fam == "pre":
        return a["nt0"], 3, len(a["theta"]), ns
    return a["nt0"], 1, 1, ns


def rearranged(fam, a, E):
    """columns-array of the explicit form re-indexed into the matrix-free (time-major) layout"""
    if fam != "pre":
        return E
    n, npar, nth, ns = sizes(fam, a)
    pm = [perm_tm2pm(n, npar, ns, j) for j in range(n * npar * ns)]
    pd = [perm_tm2pm(n, nth, ns, i) for i in range(n * nth * ns)]
    return E[np.ix_(pm, pd)]


def first_diff(P, Q):
    if P.shape != Q.shape:
        return ("shape", P.shape, Q.shape)
    d = np.abs(P - Q) > TOL * (1 + np.abs(Q))
    if not d.any():
        return None
    j, i = np.argwhere(d)[0]
    return (int(j), int(i), float(P[j, i]), float(Q[j, i]))


def is_k1(fam, a):
    return fam in ("post", "pre") and len(a["wav"]) > a["nt0"]


def is_k2(a):
    G = np.array(a["Gre"])
    return 1 in G.shape


def run_seis(fam, a):
    """both constructions of the implementation; returns record with dense data or a property-level failure"""
    rec = {"fam": fam, "args": a}
    arrs = make_inputs(fam, a)
    orig = pristine(arrs)
    try:
        Eop, Lop = build(fam, a, True, arrs), build(fam, a, False, arrs)
    except Exception as ex:  # constructor failure on a valid configuration
        rec["fail"] = {"kind": "constructor raised", "error": "%s: %s" % (type(ex).__name__, ex)}
        return rec
    bad = modified_inputs(arrs, orig)
    if bad:
        rec["fail"] = {"kind": "input modified", "when": "construction", "inputs": bad}
        return rec
    if Eop.shape != Lop.shape:
        rec["fail"] = {"kind": "shape mismatch", "explicit_shape": list(Eop.shape), "lop_shape": list(Lop.shape)}
        return rec
    try:
        E, L, AE, AL = fwd_cols(Eop), fwd_cols(Lop), adj_rows(Eop), adj_rows(Lop)
    except Exception as ex:
        rec["fail"] = {"kind": "apply raised", "error": "%s: %s" % (type(ex).__name__, ex)}
        return rec
    rec.update(E=E, L=L, AE=AE, AL=AL)
    bad = modified_inputs(arrs, orig)
    if bad:
        rec["fail"] = {"kind": "input modified", "when": "forward/adjoint calls", "inputs": bad}
        return rec
    # a third and fourth operator from the SAME input arrays must be the same maps
    try:
        E2, L2 = fwd_cols(build(fam, a, True, arrs)), fwd_cols(build(fam, a, False, arrs))
    except Exception as ex:
        rec["fail"] = {"kind": "rebuilt differs", "error": "%s: %s" % (type(ex).__name__, ex)}
        return rec
    for nm, P, Q in (("explicit", E2, E), ("matrix-free", L2, L)):
        fd = first_diff(P, Q)
        if fd is not None:
            rec["fail"] = {"kind": "rebuilt differs", "construction": nm, "detail": [str(t) for t in fd]}
            return rec
    bad = modified_inputs(arrs, orig)
    if bad:
        rec["fail"] = {"kind": "input modified", "when": "second construction", "inputs": bad}
        return rec
    ER, AER = rearranged(fam, a, E), rearranged(fam, a, AE)
    for direction, P, Q in (("forward", L, ER), ("adjoint", AL, AER)):
        fd = first_diff(P, Q)
        if fd is not None:
            if fd[0] == "shape":
                rec["fail"] = {"kind": "shape mismatch", "direction": direction, "shapes": [list(fd[1]), list(fd[2])]}
            else:
                rec["fail"] = {"kind": "entry differs", "direction": direction, "unit_in": fd[0], "out_index": fd[1],
                               "lop_value": fd[2], "explicit_value": fd[3], "layout": "matrix-free (time-major) indices"}
            break
    return rec


def run_mdc(a, fam="mdc"):
    rec = {"fam": fam, "args": a}
    arrs = make_inputs(fam, a)
    orig = pristine(arrs)
    try:
        op = build_mdc(a, arrs["G"])
        bad = modified_inputs(arrs, orig)
        if bad:
            rec["fail"] = {"kind": "input modified", "when": "construction", "inputs": bad}
            return rec
        M, A = fwd_cols(op), adj_rows(op)
    except Exception as ex:
        rec["fail"] = {"kind": "raised", "error": "%s: %s" % (type(ex).__name__, str(ex)[:120])}
        return rec
    ref = mdc_reference_cols(a)          # computed from a fresh (pristine) kernel built from the case description
    rec.update(M=M, A=A, ref=ref)
    bad = modified_inputs(arrs, orig)
    if bad:
        rec["fail"] = {"kind": "input modified", "when": "forward/adjoint calls", "inputs": bad}
        return rec
    # second and third operator from the SAME kernel array (R and R* in Marchenko, operator and psf in MDD)
    try:
        for k in (2, 3):
            Mk = fwd_cols(build_mdc(a, arrs["G"]))
            fd = first_diff(Mk, M)
            if fd is not None:
                rec["fail"] = {"kind": "rebuilt differs", "operator_number": k, "detail": [str(t) for t in fd]}
                return rec
    except Exception as ex:
        rec["fail"] = {"kind": "rebuilt differs", "error": "%s: %s" % (type(ex).__name__, str(ex)[:120])}
        return rec
    bad = modified_inputs(arrs, orig)
    if bad:
        rec["fail"] = {"kind": "input modified", "when": "second construction", "inputs": bad}
        return rec
    for direction, P in (("forward", M), ("adjoint", A)):
        fd = first_diff(P, ref)
        if fd is not None:
            rec["fail"] = ({"kind": "shape mismatch", "shapes": [list(fd[1]), list(fd[2])]} if fd[0] == "shape" else
                           {"kind": "entry differs", "direction": direction, "unit_in": fd[0], "out_index": fd[1],
                            "impl_value": fd[2], "reference_value": fd[3]})
            break
    return rec


# ------------------------------------------------------------------ generators
def gen_wav(r, nh, dyadic=False, sym=False):
    while True:
        w = [r.randint(-4, 4) for _ in range(nh)]
        if sym:
            w = [w[min(i, nh - 1 - i)] for i in range(nh)]
        if w[0] != 0 and w[-1] != 0 and (sym or w != w[::-1]):
            break
    if dyadic:
        w = [t / 8.0 for t in w]
    return [float(t) for t in w]


def gen_profile(r, nt0):
    """time-VARYING vsvp profile (dyadic values), never constant"""
    while True:
        v = [0.5 + r.randint(-3, 3) / 16.0 for _ in range(nt0)]
        if len(set(v)) >= min(3, nt0):
            return v


SPATS = [None, [2], [2, 2]]


def gen_cases(tier):
    cases = []
    r = common.rng(PID, "post")
    npost_spat = 24 if tier == "quick" else 120
    grid = [(nh, nt0, kind) for nh in range(3, 9) for nt0 in range(5, 10) for kind in ("centered", "forward")]
    for (nh, nt0, kind) in grid:  # every (length, nt0, kind) with spatdims None
        cases.append(("post", {"wav": gen_wav(r, nh, dyadic=r.random() < 0.25, sym=r.random() < 0.2), "nt0": nt0, "kind": kind, "spatdims": None}))
    full = [(g, sp) for g in grid for sp in SPATS[1:]]
    for ((nh, nt0, kind), sp) in (r.sample(full, npost_spat) if tier == "quick" else full):
        cases.append(("post", {"wav": gen_wav(r, nh, dyadic=r.random() < 0.25), "nt0": nt0, "kind": kind, "spatdims": sp}))
    r = common.rng(PID, "nonstat")
    full = [(nh, nt0, kind, sp) for nh in range(3, 9) for nt0 in range(5, 10) for kind in ("centered", "forward") for sp in SPATS]
    for (nh, nt0, kind, sp) in r.sample(full, 30 if tier == "quick" else 180):
        H = [gen_wav(r, nh) for _ in range(nt0)]
        cases.append(("nonstat", {"wav": H, "nt0": nt0, "kind": kind, "spatdims": sp}))
    r = common.rng(PID, "pre")
    thetas = [0.0, 5.0, 10.0, 15.0, 20.0, 25.0, 30.0, 35.0, 40.0]
    full = [(nth, prof, lin, sp, kind) for nth in (1, 2, 3, 4) for prof in (False, True) for lin in ("akirich", "fatti", "ps")
            for sp in (None, [2]) for kind in ("centered", "forward")]
    reps = 1 if tier == "quick" else 4
    sel = r.sample(full, 48) if tier == "quick" else full * reps
    for (nth, prof, lin, sp, kind) in sel:
        nh = r.choice([3, 4, 5, 6])
        nt0 = r.choice([5, 6, 7]) if sp is None else r.choice([5, 6])
        if r.random() < 0.08:
            nh, nt0 = 6, 5        # long wavelet (known finding K1)
        vsvp = gen_profile(r, nt0) if prof else r.choice([0.5, 0.4375, 0.625])
        cases.append(("pre", {"wav": gen_wav(r, nh), "theta": sorted(r.sample(thetas, nth)), "vsvp": vsvp, "nt0": nt0,
                              "spatdims": sp, "lin": lin, "kind": kind}))
    # square (nt0 == ntheta) and nt0 < ntheta sizes: a coefficient table used with the wrong orientation is only
    # visible here (and only with a time-varying vsvp profile / several angles)
    r = common.rng(PID, "pre-square")
    shapes = [(3, 3), (4, 4), (5, 5), (3, 4), (4, 5), (3, 5)]
    if tier == "quick":
        sq = [(sh, lin, ("centered", "forward")[(i + j) % 2], (None, [2])[(i + j // 2) % 2], not (i == 5 and j == 0))
              for i, sh in enumerate(shapes) for j, lin in enumerate(("akirich", "fatti", "ps"))]
    else:
        sq = [(sh, lin, kind, sp, prof) for sh in shapes for lin in ("akirich", "fatti", "ps") for kind in ("centered", "forward")
              for sp in (None, [2]) for prof in (True, False)]
    for ((nt0, nth), lin, kind, sp, prof) in sq:
        nh = r.randint(3, nt0)
        vsvp = gen_profile(r, nt0) if prof else r.choice([0.5, 0.4375, 0.625])
        cases.append(("pre", {"wav": gen_wav(r, nh), "theta": sorted(r.sample(thetas, nth)), "vsvp": vsvp, "nt0": nt0,
                              "spatdims": sp, "lin": lin, "kind": kind}))
    r = common.rng(PID, "mdc")
    full = [(two, nv, snr, um, sg) for two in (True, False) for nv in (1, 2, 3) for snr in ((2, 2), (2, 3), (3, 2))
            for um in (True, False) for sg in (True, False)]
    sel = r.sample(full, 36) if tier == "quick" else full * 2
    sel += [(True, 1, (1, 2), True, True), (False, 2, (2, 1), False, True), (True, 2, (1, 1), True, False)]  # singleton axes (K2)
    for (two, nv, (ns, nr), um, sg) in sel:
        nt = r.choice([5, 7, 9]) if two else r.choice([5, 6, 7, 8])
        nfft = (nt + 2) // 2
        nf = r.choice([2, 3, nfft]) if nfft >= 3 else nfft
        nf = min(nf, nfft)
        G = [[[(r.randint(-3, 3), r.randint(-3, 3)) for _ in range(nr)] for _ in range(ns)] for _ in range(nf)]
        cases.append(("mdc", {"Gre": [[[c[0] for c in row] for row in sl] for sl in G], "Gim": [[[c[1] for c in row] for row in sl] for sl in G],
                              "nt": nt, "nv": nv, "dt": r.choice([1.0, 0.5, 0.25]), "dr": r.choice([1.0, 2.0, 0.5]), "twosided": two,
                              "saveGt": sg, "usematmul": um}))
    # Fredholm1 and small MDC configurations evaluated by the Coq models (Ops/Fredholm.v, Ops/MDCOp.v)
    r = common.rng(PID, "fred")
    full = [(um, sg, nz) for um in (True, False) for sg in (True, False) for nz in (1, 2, 3)]
    for (um, sg, nz) in (full if tier == "quick" else full * 4):
        nsl, nx, ny = r.choice([2, 3]), r.choice([2, 3]), r.choice([2, 3])
        G = [[[(r.randint(-3, 3), r.randint(-3, 3)) for _ in range(ny)] for _ in range(nx)] for _ in range(nsl)]
        cases.append(("fred", {"Gre": [[[c[0] for c in row] for row in sl] for sl in G], "Gim": [[[c[1] for c in row] for row in sl] for sl in G],
                               "nz": nz, "saveGt": sg, "usematmul": um}))
    r = common.rng(PID, "mdcm")
    full = [(two, um, sg, pre, cj) for two in (True, False) for um in (True, False) for sg in (True, False)
            for pre in (False, True) for cj in (False, True)]
    for idx, (two, um, sg, pre, cj) in enumerate(r.sample(full, 14) if tier == "quick" else full):
        # nt = 4 is evaluated exactly (w = -i, 1/sqrt 4 = 1/2); odd / larger nt use 40-bit approximations of the
        # root of unity, whose exact powers make the rational arithmetic expensive: kept few and small
        big = (idx in (0, 1)) if tier == "quick" else (idx % 4 == 0)
        nt = (5 if big else 3) if two else (5 if big else 4)
        nfft = nt // 2 + 1
        nf = r.choice([2, nfft])
        ns, nr, nv = r.choice([2, 3]), r.choice([2, 3]), r.choice([1, 2])
        if nt >= 5:
            ns, nr, nv = 2, 2, 1
        G = [[[(r.randint(-3, 3), r.randint(-3, 3)) for _ in range(nr)] for _ in range(ns)] for _ in range(nf)]
        cases.append(("mdcm", {"Gre": [[[c[0] for c in row] for row in sl] for sl in G], "Gim": [[[c[1] for c in row] for row in sl] for sl in G],
                               "nt": nt, "nv": nv, "dt": r.choice([1.0, 0.5]), "dr": r.choice([1.0, 2.0, 0.25]), "twosided": two,
                               "saveGt": sg, "usematmul": um, "conj": cj, "prescaled": pre}))
    return cases


# ------------------------------------------------------------------ Coq emission
SC = 2 ** 40


def olit(x):
    """implementation OUTPUT entry: exact when it is a multiple of 2^-40, else rounded to the nearest multiple
    (error <= 2^-41 ~ 4.5e-13, three orders below the comparison tolerance); inputs are always exact (qlit)"""
    x = float(x)
    if x == 0.0:
        return "z0"
    if x == int(x) and abs(x) < 2 ** 50:
        return common.qlit(int(x))
    return "(sc %s)" % (lambda n: n if n >= 0 else "(%d)" % n)(int(round(x * SC)))


def omlit(M):
    return "[" + ";\n ".join("[" + "; ".join(olit(t) for t in row) + "]" for row in M) + "]"


def _mats(cid, rec, names, prefix):
    """named definitions of the distinct output matrices (bitwise-identical ones are written once)"""
    defs, seen, fields = [], {}, []
    for nm in names:
        key = (rec[nm].shape, rec[nm].tobytes())
        if key not in seen:
            seen[key] = "mx_%d_%s" % (cid, nm)
            defs.append("Definition %s : list (list Qc) := %s." % (seen[key], omlit(rec[nm])))
        fields.append("%s%s := %s" % (prefix, nm, seen[key]))
    return "\n".join(defs) + "\n", "; ".join(fields)


def emit(cid, rec):
    fam, a = rec["fam"], rec["args"]
    b = lambda t: "true" if t else "false"
    if fam == "post":
        n, _, _, ns = sizes(fam, a)
        defs, flds = _mats(cid, rec, ["E", "L", "AE", "AL"], "p_")
        return "post", defs, "{| p_id := %d%%nat; p_w := %s; p_nt0 := %d%%nat; p_cent := %s; p_ncol := %d%%nat; %s |}" % (
            cid, common.vlit(a["wav"]), n, b(a["kind"] == "centered"), ns, flds)
    if fam == "nonstat":
        n, _, _, ns = sizes(fam, a)
        defs, flds = _mats(cid, rec, ["E", "L", "AE", "AL"], "n_")
        return "ns", defs, "{| n_id := %d%%nat; n_H := %s; n_nt0 := %d%%nat; n_cent := %s; n_ncol := %d%%nat; %s |}" % (
            cid, common.mlit(a["wav"]), n, b(a["kind"] == "centered"), ns, flds)
    if fam == "pre":
        n, npar, nth, ns = sizes(fam, a)
        defs, flds = _mats(cid, rec, ["E", "L", "AE", "AL"], "s_")
        return "pre", defs, "{| s_id := %d%%nat; s_w := %s; s_nt0 := %d%%nat; s_cent := %s; s_G := [%s]; s_nth := %d%%nat; s_ns := %d%%nat; %s |}" % (
            cid, common.vlit(a["wav"]), n, b(a["kind"] == "centered"), ";\n ".join(common.mlit(g) for g in rec["G"]), nth, ns, flds)
    if fam == "fred":
        G = mdc_kernel(a)
        nsl, nx, ny = G.shape
        return "fred", "", ("{| f_id := %d%%nat; f_nsl := %d%%nat; f_nx := %d%%nat; f_ny := %d%%nat; f_nz := %d%%nat; f_um := %s; f_sg := %s; "
                            "f_G := [%s]; f_M := %s; f_A := %s |}") % (
            cid, nsl, nx, ny, a["nz"], b(a["usematmul"]), b(a["saveGt"]), ";\n ".join(common.mlit(sl, cplx=True) for sl in G),
            common.mlit(rec["M"], cplx=True), common.mlit(rec["A"], cplx=True))
    if fam == "mdcm":
        import cmath
        G = mdc_kernel(a)
        nf, ns, nr = G.shape
        nt = a["nt"]
        gs = lambda z: "(gsc %s %s)" % tuple(("(%d)" % t if t < 0 else "%d" % t) for t in (int(round(z.real * SC)), int(round(z.imag * SC))))
        w = cmath.exp(-2j * cmath.pi / nt)
        if nt == 4:
            w = -1j
        scal = complex(a["dr"] * a["dt"] * np.sqrt(nt))
        defs, flds = _mats(cid, {"M": rec["M"], "A": np.ascontiguousarray(rec["A"].T)}, ["M", "A"], "d_")
        return "mdcm", defs, ("{| d_id := %d%%nat; d_N := %d%%nat; d_ns := %d%%nat; d_nr := %d%%nat; d_nv := %d%%nat; d_nf := %d%%nat; "
                              "d_tw := %s; d_um := %s; d_sg := %s; d_pre := %s; d_cj := %s; d_w := %s; d_s2 := %s; d_sq := %s; d_scal := %s; "
                              "d_G := [%s]; %s |}") % (
            cid, nt, ns, nr, a["nv"], nf, b(a["twosided"]), b(a["usematmul"]), b(a["saveGt"]), b(a.get("prescaled", False)),
            b(a.get("conj", False)), gs(w), gs(complex(2 ** 0.5)), gs(complex(nt ** -0.5)), common.glit(scal),
            ";\n ".join(common.mlit(sl, cplx=True) for sl in G), flds)
    defs, flds = _mats(cid, rec, ["M", "A", "ref"], "m_")
    return "mdc", defs, "{| m_id := %d%%nat; %s |}" % (cid, flds)


HEADER = ("From Coq Require Import QArith Qcanon ZArith List.\n"
          "From PV Require Import Dict Vec Dot Mat QcInst Check Seismic CheckC20 CheckC20b.\nImport ListNotations.\n"
          "Definition tol : Qc := q 1 1000000000.\n")
KINDS = (("post", "PostCase", "p_id", "check_post"), ("ns", "NsCase", "n_id", "check_ns"),
         ("pre", "PreCase", "s_id", "check_pre"), ("mdc", "MdcCase", "m_id", "check_mdc"),
         ("fred", "FrCase", "f_id", "check_fr"), ("mdcm", "MdcMCase", "d_id", "check_mdcm"))


def write_shard(d, name, items):
    by = {k[0]: [] for k in KINDS}
    for kind, defs, lit in items:
        by[kind].append(lit)
    with open(os.path.join(d, name + ".v"), "w") as f:
        f.write(HEADER)
        for kind, defs, lit in items:
            f.write(defs)
        for k, ty, _, _ in KINDS:
            f.write("Definition cs_%s : list %s := [%s].\n" % (k, ty, ";\n".join(by[k])))
        f.write("Eval vm_compute in (%s).\n" % " ++ ".join("failing %s (%s tol) cs_%s" % (idf, chk, k) for k, _, idf, chk in KINDS))


def avo_tables(a):
    avo = _imports()[2]
    theta = np.array(a["theta"], dtype=float)
    vsvp = np.array(a["vsvp"], dtype=float) if isinstance(a["vsvp"], list) else a["vsvp"] * np.ones(a["nt0"])
    f = {"akirich": avo.akirichards, "fatti": avo.fatti, "ps": avo.ps}[a["lin"]]
    return [np.asarray(g, dtype=float) for g in f(theta, vsvp, n=a["nt0"])]


# ------------------------------------------------------------------ numerical sanity (NOT a proof)
def zoeppritz_sanity():
    avo = _imports()[2]
    theta = np.array([0.0, 10.0, 20.0, 30.0])
    vp1, vs1, rho1 = 2000.0, 1000.0, 2000.0
    out = {}
    for eps in (1e-2, 1e-3):
        vp0, vs0, rho0 = vp1 * (1 + eps), vs1 * (1 - 0.5 * eps), rho1 * (1 + 0.75 * eps)
        rz = avo.zoeppritz_pp(vp1, vs1, rho1, vp0, vs0, rho0, theta)
        rapp = avo.approx_zoeppritz_pp(vp1, vs1, rho1, vp0, vs0, rho0, theta)
        vsvp = ((vs0 + vs1) / 2) / ((vp0 + vp1) / 2)
        d = lambda p, q: 2 * (p - q) / (p + q)
        G = avo.akirichards(theta, vsvp)
        rak = G[0] * d(vp0, vp1) + G[1] * d(vs0, vs1) + G[2] * d(rho0, rho1)
        F = avo.fatti(theta, vsvp)
        rf = F[0] * d(vp0 * rho0, vp1 * rho1) + F[1] * d(vs0 * rho0, vs1 * rho1) + F[2] * d(rho0, rho1)
        out[eps] = {"maxR": float(np.abs(rz).max()), "akirichards_err": float(np.abs(rak - rz).max()),
                    "fatti_err": float(np.abs(rf - rz).max()), "approx_zoeppritz_err": float(np.abs(rapp - rz).max())}
    return out


# ------------------------------------------------------------------ replay
def coq_codes(recs_with_ids, tag="replay"):
    """run the Coq comparison on the given (id, record) list; returns {id: codes}"""
    d = common.workdir(PID)
    write_shard(d, "c20_" + tag, [emit(cid, rec) for cid, rec in recs_with_ids])
    outs = common.run_coq_files(d, ["c20_" + tag])
    return common.parse_failing(outs["c20_" + tag])


def replay(rp):
    fam, a, fl = rp["fam"], rp["args"], rp["fail"]
    if fam == "zoeppritz":
        zs = zoeppritz_sanity()
        print(zs)
        bad = max(zs[1e-3]["akirichards_err"], zs[1e-3]["fatti_err"]) > 1e-4
        print("reproduced" if bad else "not reproduced")
        return 1 if bad else 0
    rec = run_mdc(a, fam) if fam in ("mdc", "mdcm") else run_fred(a) if fam == "fred" else run_seis(fam, a)
    nf = rec.get("fail")
    if fl["kind"] == "model correspondence":
        # no differing entry between the two constructions was found: re-run the model comparison in Coq
        if nf is None:
            ensure_built()
            if fam == "pre":
                rec["G"] = avo_tables(a)
            cs = coq_codes([(1, rec)]).get(1, [])
            print("Coq comparison codes:", cs)
            bad = bool(cs)
        else:
            print("observed:", nf)
            bad = True
    else:
        bad = nf is not None and nf["kind"] == fl["kind"]
        if nf is not None:
            print("observed:", nf)
    print("reproduced" if bad else "not reproduced")
    return 1 if bad else 0


# ------------------------------------------------------------------ main
def main(tier):
    R = common.Report(PID, tier)
    common.coq_build()
    ensure_built()
    thms, axioms = common.props_assumptions(PID)
    if axioms and not set(axioms) <= common.ALLOWED_AXIOMS:
        R.violation("Props/C20.v depends on unexpected axioms %s" % axioms, {"axioms": axioms}, no_input=True)
    known = _known_ids()
    t0 = time.time()
    cases = gen_cases(tier)
    recs = []
    for fam, a in cases:
        rec = run_mdc(a, fam) if fam in ("mdc", "mdcm") else run_fred(a) if fam == "fred" else run_seis(fam, a)
        if fam == "pre" and "fail" not in rec:
            rec["G"] = avo_tables(a)
        recs.append(rec)
    t_py = time.time() - t0

    # property-level failures found directly on the implementation
    dist, nontriv, evals = {}, set(), 0
    nknown = 0
    for cid, rec in enumerate(recs):
        fam, a = rec["fam"], rec["args"]
        dist[fam] = dist.get(fam, 0) + 1
        if "fail" in rec:
            rp = {"fam": fam, "args": a, "fail": rec["fail"]}
            if is_k1(fam, a) and "C20-K1" in known and rec["fail"]["kind"] in ("shape mismatch", "apply raised", "constructor raised"):
                R.known_finding("C20-K1", PROPOSED_KNOWN[0]["what"])
                nknown += 1
            elif fam in ("mdc", "mdcm", "fred") and is_k2(a) and "C20-K2" in known and rec["fail"]["kind"] == "raised":
                R.known_finding("C20-K2", PROPOSED_KNOWN[1]["what"])
                nknown += 1
            elif rec["fail"]["kind"] in ("input modified", "rebuilt differs"):
                R.violation("%s construction is not pure: %s (constructor input arrays must stay bitwise unchanged and every operator "
                            "built from the same arrays must be the same map) for %s" % (
                                fam, rec["fail"], {k: v for k, v in a.items() if k not in ("Gre", "Gim", "wav")}), rp)
            elif fam == "fred":
                R.violation("Fredholm1 differs from the batched slice product d[k] = G[k] m[k] (usematmul=%s saveGt=%s nz=%d): %s"
                            % (a["usematmul"], a["saveGt"], a["nz"], rec["fail"]), rp)
            elif fam in ("mdc", "mdcm"):
                R.violation("MDC differs from the frequency-by-frequency product dt*dr*sqrt(nt)*irfft(G rfft(x)): %s (nt=%d nv=%d twosided=%s usematmul=%s saveGt=%s)"
                            % (rec["fail"], a["nt"], a["nv"], a["twosided"], a["usematmul"], a["saveGt"]), rp)
            else:
                R.violation("%s-stack explicit and matrix-free constructions differ: %s (nh=%s nt0=%d kind=%s spatdims=%s%s)"
                            % (fam, rec["fail"], np.array(a["wav"]).shape, a["nt0"], a["kind"], a.get("spatdims"),
                               " lin=%s theta=%s" % (a["lin"], a["theta"]) if fam == "pre" else ""), rp)
        else:
            F = rec["L"] if fam in ("post", "nonstat", "pre") else rec["M"]
            evals += 2 * F.shape[0] * (2 if fam in ("post", "nonstat", "pre") else 1)
            for j in range(F.shape[0]):
                if np.abs(F[j]).max() > 0:
                    nontriv.add((cid, j))

    # model vs both implementation matrices, inside Coq
    d = common.workdir(PID)
    good = [(cid, rec) for cid, rec in enumerate(recs) if "fail" not in rec]
    items = [(cid,) + emit(cid, rec) for cid, rec in good]
    canary_id = len(recs) + 7
    crec = next(dict(rec) for cid, rec in good if rec["fam"] == "post")
    crec["E"] = crec["E"].copy()
    crec["E"][1, 2] += 0.5                       # deliberately wrong explicit matrix: must come back failing
    items.append((canary_id,) + emit(canary_id, crec))
    canary2 = canary_id + 1
    frec = next((dict(rec) for cid, rec in good if rec["fam"] == "fred"), None)
    if frec is not None:
        frec["M"] = frec["M"].copy()
        frec["M"][0, 0] += 1.0                   # deliberately wrong Fredholm1 matrix: must come back failing
        items.append((canary2,) + emit(canary2, frec))
    cost = lambda it: len(it[2]) + len(it[3])
    items.sort(key=cost, reverse=True)
    nsh = min(len(items), 2 * common.NPROC if tier == "quick" else 3 * common.NPROC)
    shards = [[] for _ in range(nsh)]
    load = [0] * nsh
    for it in items:
        k = load.index(min(load))
        shards[k].append((it[1], it[2], it[3]))
        load[k] += cost(it)
    names = []
    for k, sh in enumerate(shards):
        write_shard(d, "c20_%02d" % k, sh)
        names.append("c20_%02d" % k)
    t1 = time.time()
    outs = common.run_coq_files(d, names)
    t_coq = time.time() - t1
    codes = {}
    for n in names:
        codes.update(common.parse_failing(outs[n]))
    if canary_id not in codes or 1 not in codes[canary_id]:
        raise RuntimeError("canary not detected: the Coq comparison pipeline is broken")
    del codes[canary_id]
    if frec is not None:
        if canary2 not in codes or 1 not in codes[canary2]:
            raise RuntimeError("Fredholm canary not detected: the Coq comparison pipeline is broken")
        del codes[canary2]
    EXPL = {1: "explicit forward <> model", 2: "matrix-free forward <> model", 3: "explicit adjoint <> model^T",
            4: "matrix-free adjoint <> model^T", 5: "model explicit <> model chain (theorem instance)",
            6: "explicit <> matrix-free implementation", 7: "malformed"}
    for cid, cs in sorted(codes.items()):
        rec = recs[cid]
        R.violation("correspondence CheckC20.check_%s no longer checks for %s %s: %s (no differing entry between the two implementation constructions)"
                    % (rec["fam"], rec["fam"], {k: v for k, v in rec["args"].items() if k not in ("Gre", "Gim")},
                       "; ".join(EXPL.get(c, str(c)) for c in cs)),
                    {"fam": rec["fam"], "args": rec["args"], "codes": cs, "fail": {"kind": "model correspondence"},
                     "broken": "Corr.CheckC20 codes %s" % cs}, no_input=True)

    # NUMERICAL SANITY (not a proof, not part of the claim): linearisations vs zoeppritz_pp for small contrasts
    zs = zoeppritz_sanity()
    R.notes.append("NUMERICAL SANITY ONLY (Zoeppritz-limit clause is NOT claimed/proved): %s" % zs)
    e3 = zs[1e-3]
    if max(e3["akirichards_err"], e3["fatti_err"]) > 1e-4 or e3["approx_zoeppritz_err"] > 1e-6:
        R.violation("numerical sanity grossly wrong: akirichards/fatti vs zoeppritz_pp at contrast 1e-3: %s (expected ~2e-7)" % e3,
                    {"fam": "zoeppritz", "args": {}, "fail": {"kind": "sanity"}, "values": e3}, no_input=True)

    ngood = len(good)
    R.cov.update(
        obligations=len(thms) + len(recs) - nknown, known_finding_cases=nknown, discharged=len(thms) + ngood - len(codes),
        checker_cmd="make -C coq; coqc Ops/Seismic.v Ops/Fredholm.v Ops/MDCOp.v Corr/CheckC20.v Corr/CheckC20b.v Props/C20.v (Print Assumptions); "
                    "coqc .work/C20/c20_*.v (vm_compute: Seismic models over Qc vs dense matrices of both implementation constructions; "
                    "Fredholm1 / MDC models over Gaussian rationals vs implementation matrices, tol 1e-9)",
        theorems=thms, axioms_reported=axioms, evaluations=evals, distinct_nontrivial=len(nontriv),
        rule="post-stack: every (nh 3..8, nt0 5..9, kind) with spatdims None + sampled (2,)/(2,2); non-stationary nt0 x nh banks; "
             "pre-stack: theta sets 1..4, vsvp scalar/profile, akirich/fatti/ps, spatdims None/(2,), documented rearrangement applied; "
             "MDC: one-/two-sided, nv 1..3, usematmul/saveGt, vs numpy rfft reference; Fredholm1 (usematmul x saveGt x nz 1..3, Gaussian-integer "
             "kernels) and small MDC (nt 3/4/5, conj/prescaled flags; nt=4 exact, else 40-bit root of unity) ALSO vs the Coq models; "
             "integer / dyadic taps; forward AND adjoint dense "
             "matrices by unit vectors; non-trivial = distinct (case, unit vector) with non-zero image",
        distribution=dist, configurations=len(recs), compared_in_coq=ngood, canary="detected",
        not_claimed="Zoeppritz-limit clause (numerical sanity only); MDC model executed with approximate root of unity / 1/sqrt(nt) "
                    "for nt <> 4 (theorem hypotheses hold only to ~1e-12 there); larger MDC sizes vs numpy FFT reference only",
        modelled=["convmtx", "dense D (poststack/prestack)", "Convolve1D short/long dispatch (forward index formula)",
                  "FirstDerivative centered3/forward edge=False", "block_diag/hstack/vstack assembly of prestack", "AVOLinearModelling forward",
                  "nonstationary_convmtx (entry formula)", "MatrixMult otherdims / axis-0 N-d application",
                  "Fredholm1 (matmul / loop, saveGt True/False)", "MDC = F1^H I1^H Fredholm1 I F over the real-FFT engine model (twosided, conj, prescaled)"],
        l1_only=["numpy/scipy FFT kernels (oracle)", "akirichards/fatti/ps coefficient formulas (data)"],
        proposed_known=[k["id"] for k in PROPOSED_KNOWN], t_python=round(t_py, 1), t_coq=round(t_coq, 1))
    for rec in recs[:: max(1, len(recs) // 6)]:
        a = rec["args"]
        R.samples.append({"fam": rec["fam"], "args": {k: (v if k not in ("Gre", "Gim") else "...") for k, v in a.items()},
                          "first_lop_column": [float(t) for t in (rec.get("L", rec.get("M", np.zeros((1, 1))))[0][:6])]})
    return R.finish()
