"""Operator zoo: one builder per public operator family and a parameter grid
per tier.  A configuration is (family, params-dict); params are JSON-able so
that a replay file can rebuild the operator."""
import itertools
import random
import warnings

import numpy as np

warnings.filterwarnings("ignore")
import pylops  # noqa: E402
import pylops.signalprocessing as sp  # noqa: E402
import pylops.waveeqprocessing as wp  # noqa: E402
from pylops.avo.avo import AVOLinearModelling  # noqa: E402


def _r(tag):
    return random.Random("zoo/" + str(tag))


def ivec(tag, n, lo=-4, hi=4, nz=True):
    r = _r(tag)
    v = np.array([r.randint(lo, hi) for _ in range(n)], dtype=float)
    if nz and not v.any():
        v[0] = 1.0
    return v


def cvec(tag, n, lo=-3, hi=3):
    return ivec(str(tag) + "re", n, lo, hi) + 1j * ivec(str(tag) + "im", n, lo, hi)


def prod(d):
    p = 1
    for a in d:
        p *= int(a)
    return p


def tup(x):
    return tuple(x) if isinstance(x, (list, tuple)) else x


F = {}


def fam(name):
    def deco(f):
        F[name] = f
        return f
    return deco


# ------------------------------------------------------------------ basic
@fam("MatrixMult")
def _(n, m, cplx=False, otherdims=None, sparse=False, single=False):
    A = (cvec(("mm", n, m), n * m) if cplx else ivec(("mm", n, m), n * m)).reshape(n, m)
    if single:
        A = A.astype(np.complex64 if cplx else np.float32)
        return pylops.MatrixMult(A, dtype=A.dtype)
    if sparse:
        import scipy.sparse as ss
        A = ss.csr_matrix(A)
    return pylops.MatrixMult(A, otherdims=tup(otherdims), dtype="complex128" if cplx else "float64")


@fam("Diagonal")
def _(dims, axis=-1, cplx=False, full=False, single=False):
    dims = tup(dims)
    if single:      # single-precision operator; the small-integer data keep every product exact
        n = dims[axis]
        d = (cvec(("dg", dims, axis), n) if cplx else ivec(("dg", dims, axis), n)).astype(np.complex64 if cplx else np.float32)
        return pylops.Diagonal(d, dims=dims, axis=axis, dtype=d.dtype)
    if full:
        d = (cvec(("dg", dims), prod(dims)) if cplx else ivec(("dg", dims), prod(dims))).reshape(dims)
        return pylops.Diagonal(d, dtype=d.dtype)
    n = dims[axis]
    d = cvec(("dg", dims, axis), n) if cplx else ivec(("dg", dims, axis), n)
    return pylops.Diagonal(d, dims=dims, axis=axis, dtype=d.dtype)


@fam("Identity")
def _(N, M=None, inplace=True):
    return pylops.Identity(tup(N), tup(M), inplace=inplace)


@fam("Zero")
def _(N, M=None):
    return pylops.Zero(tup(N), tup(M))


@fam("Pad")
def _(dims, pad):
    pad = tuple(tuple(p) for p in pad) if isinstance(pad[0], (list, tuple)) else tuple(pad)
    return pylops.Pad(tup(dims), pad)


@fam("Restriction")
def _(dims, iava, axis=-1, inplace=True):
    return pylops.Restriction(tup(dims), np.array(iava), axis=axis, inplace=inplace)


@fam("Flip")
def _(dims, axis=-1):
    return pylops.Flip(tup(dims), axis=axis)


@fam("Roll")
def _(dims, axis=-1, shift=1):
    return pylops.Roll(tup(dims), axis=axis, shift=shift)


@fam("Symmetrize")
def _(dims, axis=-1):
    return pylops.Symmetrize(tup(dims), axis=axis)


@fam("Transpose")
def _(dims, axes):
    return pylops.Transpose(tup(dims), tup(axes))


@fam("Sum")
def _(dims, axis=-1):
    return pylops.Sum(tup(dims), axis=axis)


@fam("FirstDerivative")
def _(dims, axis=-1, sampling=1.0, kind="centered", edge=False, order=3):
    return pylops.FirstDerivative(tup(dims), axis=axis, sampling=sampling, kind=kind, edge=edge, order=order)


@fam("SecondDerivative")
def _(dims, axis=-1, sampling=1.0, kind="centered", edge=False):
    return pylops.SecondDerivative(tup(dims), axis=axis, sampling=sampling, kind=kind, edge=edge)


@fam("Laplacian")
def _(dims, axes=(-2, -1), weights=(1, 1), sampling=(1, 1), edge=False, kind="centered"):
    return pylops.Laplacian(tup(dims), axes=tup(axes), weights=tup(weights), sampling=tup(sampling), edge=edge, kind=kind)


@fam("Gradient")
def _(dims, sampling=1, edge=False, kind="centered"):
    return pylops.Gradient(tup(dims), sampling=tup(sampling), edge=edge, kind=kind)


@fam("FirstDirectionalDerivative")
def _(dims, v, sampling=1, edge=False, kind="centered"):
    return pylops.FirstDirectionalDerivative(tup(dims), np.array(v, dtype=float), sampling=tup(sampling), edge=edge, kind=kind)


@fam("SecondDirectionalDerivative")
def _(dims, v, sampling=1, edge=False):
    return pylops.SecondDirectionalDerivative(tup(dims), np.array(v, dtype=float), sampling=tup(sampling), edge=edge)


@fam("CausalIntegration")
def _(dims, axis=-1, sampling=1.0, kind="full", removefirst=False):
    return pylops.CausalIntegration(tup(dims), axis=axis, sampling=sampling, kind=kind, removefirst=removefirst)


@fam("Real")
def _(dims):
    return pylops.Real(tup(dims))


@fam("Imag")
def _(dims):
    return pylops.Imag(tup(dims))


@fam("Conj")
def _(dims):
    return pylops.Conj(tup(dims))


@fam("Smoothing1D")
def _(nsmooth, dims, axis=-1):
    return pylops.Smoothing1D(nsmooth, tup(dims), axis=axis)


@fam("Smoothing2D")
def _(nsmooth, dims, axes=(-2, -1)):
    return pylops.Smoothing2D(tup(nsmooth), tup(dims), axes=tup(axes))


@fam("Regression")
def _(n, order):
    return pylops.Regression(np.arange(n, dtype=float) * 0.5, order)


@fam("LinearRegression")
def _(n):
    return pylops.LinearRegression(np.arange(n, dtype=float) * 0.5 - 1.0)


def _leaf(tag, n, m, cplx=False):
    A = (cvec(tag, n * m) if cplx else ivec(tag, n * m)).reshape(n, m)
    return pylops.MatrixMult(A, dtype=A.dtype)


@fam("VStack")
def _(ns, m, cplx=False, nproc=1, mixed=False):
    ops = [_leaf(("vs", i, n, m), n, m, cplx) for i, n in enumerate(ns)]
    if mixed:
        ops[0] = pylops.FirstDerivative(m, kind="forward") if ns[0] == m else ops[0]
    return pylops.VStack(ops, nproc=nproc)


@fam("HStack")
def _(n, ms, cplx=False, nproc=1):
    ops = [_leaf(("hs", i, n, m), n, m, cplx) for i, m in enumerate(ms)]
    return pylops.HStack(ops, nproc=nproc)


@fam("BlockDiag")
def _(shapes, cplx=False, nproc=1):
    ops = [_leaf(("bd", i, n, m), n, m, cplx) for i, (n, m) in enumerate(shapes)]
    return pylops.BlockDiag(ops, nproc=nproc)


@fam("Block")
def _(ns, ms, cplx=False, nproc=1):
    ops = [[_leaf(("bl", i, j, n, m), n, m, cplx) for j, m in enumerate(ms)] for i, n in enumerate(ns)]
    return pylops.Block(ops, nproc=nproc)


@fam("RegStack")
def _(n, kind="V"):
    """The classic [I; D] regularisation stacks: first block returns views of its input."""
    I, D = pylops.Identity(n), pylops.FirstDerivative(n, kind="forward")
    return {"V": pylops.VStack, "H": pylops.HStack, "B": pylops.BlockDiag}[kind]([I, D])


@fam("Kronecker")
def _(s1, s2, cplx=False):
    A = _leaf(("k1",) + tuple(s1), s1[0], s1[1], cplx)
    B = _leaf(("k2",) + tuple(s2), s2[0], s2[1], cplx)
    return pylops.Kronecker(A, B, dtype="complex128" if cplx else "float64")


@fam("Spread")
def _(nx0, nt0, nx, nt, engine="numpy", interp=False, onthefly=False, cplx=False):
    r = _r(("spread", nx0, nt0, nx, nt, interp))
    table = np.full((nx0, nt0, nx), np.nan)
    dtable = np.full((nx0, nt0, nx), np.nan)
    for a in range(nx0):
        for b in range(nt0):
            for c in range(nx):
                if r.random() < 0.8:
                    table[a, b, c] = r.randint(0, nt - (2 if interp else 1))
                    dtable[a, b, c] = r.choice([0.0, 0.25, 0.5, 0.75])
    dtype = "complex128" if cplx else "float64"
    if onthefly:
        if interp:
            def fh(x, t):
                return table[x, t], dtable[x, t]
        else:
            def fh(x, t):
                return table[x, t]
        return pylops.Spread((nx0, nt0), (nx, nt), fh=fh, interp=interp, engine=engine, dtype=dtype)
    return pylops.Spread((nx0, nt0), (nx, nt), table=table, dtable=dtable if interp else None,
                         engine=engine, dtype=dtype)


# ------------------------------------------------------------------ signal
@fam("Convolve1D")
def _(dims, nh, offset=0, axis=-1, method=None, cplx=False, hnd=False):
    dims = tup(dims)
    h = cvec(("c1", nh), nh) if cplx else ivec(("c1", nh), nh)
    if hnd:
        shp = [1] * len(dims)
        shp[axis] = nh
        shp2 = list(dims)
        shp2[axis] = nh
        h = (h.reshape(shp) * (1 + np.arange(prod(shp2)).reshape(shp2) % 3))
    return sp.Convolve1D(dims, h, offset=offset, axis=axis, method=method,
                         dtype="complex128" if cplx else "float64")


@fam("Convolve2D")
def _(dims, hshape, offset=(0, 0), axes=(-2, -1), method="fft", cplx=False):
    hshape = tup(hshape)
    h = (cvec(("c2", hshape), prod(hshape)) if cplx else ivec(("c2", hshape), prod(hshape))).reshape(hshape)
    return sp.Convolve2D(tup(dims), h, offset=tup(offset), axes=tup(axes), method=method,
                         dtype="complex128" if cplx else "float64")


@fam("ConvolveND")
def _(dims, hshape, offset, axes, method="fft", cplx=False):
    hshape = tup(hshape)
    h = (cvec(("cn", hshape), prod(hshape)) if cplx else ivec(("cn", hshape), prod(hshape))).reshape(hshape)
    return sp.ConvolveND(tup(dims), h, offset=tup(offset), axes=tup(axes), method=method,
                         dtype="complex128" if cplx else "float64")


@fam("FFT")
def _(dims, axis=-1, nfft=None, sampling=1.0, norm="ortho", real=False, ifftshift_before=False,
      fftshift_after=False, engine="numpy", rdtype=False):
    return sp.FFT(tup(dims), axis=axis, nfft=nfft, sampling=sampling, norm=norm, real=real,
                  ifftshift_before=ifftshift_before, fftshift_after=fftshift_after, engine=engine,
                  dtype="float64" if (real or rdtype) else "complex128")


@fam("FFT2D")
def _(dims, axes=(-2, -1), nffts=None, sampling=1.0, norm="ortho", real=False, ifftshift_before=False,
      fftshift_after=False, engine="numpy", rdtype=False):
    return sp.FFT2D(tup(dims), axes=tup(axes), nffts=tup(nffts), sampling=sampling, norm=norm, real=real,
                    ifftshift_before=ifftshift_before, fftshift_after=fftshift_after, engine=engine,
                    dtype="float64" if (real or rdtype) else "complex128")


@fam("FFTND")
def _(dims, axes=(-3, -2, -1), nffts=None, sampling=1.0, norm="ortho", real=False, ifftshift_before=False,
      fftshift_after=False, engine="scipy", rdtype=False):
    return sp.FFTND(tup(dims), axes=tup(axes), nffts=tup(nffts), sampling=sampling, norm=norm, real=real,
                    ifftshift_before=ifftshift_before, fftshift_after=fftshift_after, engine=engine,
                    dtype="float64" if (real or rdtype) else "complex128")


@fam("Interp")
def _(dims, iava, axis=-1, kind="linear"):
    return sp.Interp(tup(dims), np.array(iava), axis=axis, kind=kind)[0]


@fam("Bilinear")
def _(dims, iava):
    return sp.Bilinear(np.array(iava, dtype=float), tup(dims))


@fam("Shift")
def _(dims, shift, axis=-1, nfft=None, real=False, engine="numpy"):
    return sp.Shift(tup(dims), shift, axis=axis, nfft=nfft, real=real, engine=engine,
                    dtype="float64" if real else "complex128")


@fam("Fredholm1")
def _(nsl, nx, ny, nz, saveGt=True, usematmul=True, cplx=False):
    G = (cvec(("fr", nsl, nx, ny), nsl * nx * ny) if cplx else ivec(("fr", nsl, nx, ny), nsl * nx * ny)).reshape(nsl, nx, ny)
    return sp.Fredholm1(G, nz=nz, saveGt=saveGt, usematmul=usematmul, dtype=G.dtype)


@fam("NonStationaryConvolve1D")
def _(n, nh, ih, dims=None, axis=-1):
    ih = tuple(ih)
    hs = ivec(("ns1", n, nh, len(ih)), len(ih) * nh).reshape(len(ih), nh)
    return sp.NonStationaryConvolve1D(tup(dims) if dims else n, hs, ih, axis=axis)


@fam("NonStationaryFilters1D")
def _(n, nh, ih):
    inp = ivec(("nsf1", n), n)
    return sp.NonStationaryFilters1D(inp, nh, tuple(ih))


@fam("NonStationaryConvolve2D")
def _(dims, hshape, ihx, ihz, engine="numpy"):
    hs = ivec(("ns2", tuple(hshape), len(ihx), len(ihz)), len(ihx) * len(ihz) * prod(hshape)).reshape(
        len(ihx), len(ihz), *hshape)
    return sp.NonStationaryConvolve2D(tup(dims), hs, tuple(ihx), tuple(ihz), engine=engine)


@fam("NonStationaryFilters2D")
def _(dims, hshape, ihx, ihz, engine="numpy"):
    inp = ivec(("nsf2", tuple(dims)), prod(dims)).reshape(tup(dims))
    return sp.NonStationaryFilters2D(inp, tup(hshape), tuple(ihx), tuple(ihz), engine=engine)


@fam("DCT")
def _(dims, type=2, axes=None):
    return sp.DCT(tup(dims), type=type, axes=tup(axes))


@fam("DWT")
def _(dims, axis=-1, wavelet="haar", level=1):
    return sp.DWT(tup(dims), axis=axis, wavelet=wavelet, level=level)


@fam("DWT2D")
def _(dims, axes=(-2, -1), wavelet="haar", level=1):
    return sp.DWT2D(tup(dims), axes=tup(axes), wavelet=wavelet, level=level)


@fam("DWTND")
def _(dims, axes=(-3, -2, -1), wavelet="haar", level=1):
    return sp.DWTND(tup(dims), axes=tup(axes), wavelet=wavelet, level=level)


@fam("Radon2D")
def _(nt, nh, npx, kind="linear", centeredh=True, interp=True, onthefly=False, engine="numpy"):
    t = np.arange(nt) * 1.0
    h = np.arange(nh) * 1.0
    px = np.linspace(-0.5, 0.5, npx) if kind == "linear" else np.linspace(0, 0.1, npx)
    return sp.Radon2D(t, h, px, kind=kind, centeredh=centeredh, interp=interp, onthefly=onthefly, engine=engine)


@fam("Radon3D")
def _(nt, nhy, nhx, npy, npx, kind="linear", interp=True, onthefly=False, engine="numpy"):
    t = np.arange(nt) * 1.0
    return sp.Radon3D(t, np.arange(nhy) * 1.0, np.arange(nhx) * 1.0, np.linspace(-0.4, 0.4, npy),
                      np.linspace(-0.5, 0.5, npx), kind=kind, interp=interp, onthefly=onthefly, engine=engine)


@fam("FourierRadon2D")
def _(nt, nh, npx, nfft, kind="linear", engine="numpy", flims=None):
    t = np.arange(nt) * 0.5
    h = np.arange(nh) * 1.0 - nh // 2
    px = np.linspace(-0.2, 0.2, npx)
    return sp.FourierRadon2D(t, h, px, nfft, flims=tup(flims), kind=kind, engine=engine)


@fam("FourierRadon3D")
def _(nt, nhy, nhx, npy, npx, nfft, engine="numpy", flims=None):
    t = np.arange(nt) * 0.5
    if flims is not None:
        return sp.FourierRadon3D(t, np.arange(nhy) * 1.0 - nhy // 2, np.arange(nhx) * 1.0 - nhx // 2,
                                 np.linspace(-0.2, 0.2, npy), np.linspace(-0.1, 0.1, npx), nfft, flims=tup(flims), engine=engine)
    return sp.FourierRadon3D(t, np.arange(nhy) * 1.0 - nhy // 2, np.arange(nhx) * 1.0 - nhx // 2,
                             np.linspace(-0.2, 0.2, npy), np.linspace(-0.1, 0.1, npx), nfft, engine=engine)


@fam("ChirpRadon2D")
def _(nt, nh, pmax=0.3):
    return sp.ChirpRadon2D(np.arange(nt) * 1.0, np.arange(nh) * 1.0 - nh // 2, pmax)


@fam("Sliding1D")
def _(nwin, nover, nwins, nop, tapertype="hanning", savetaper=True, inner="matrix"):
    dimd = nwin + (nwins - 1) * (nwin - nover)
    if inner == "all":       # one operator acting on all windows at once (nop == nwin)
        Op = pylops.FirstDerivative(dims=(nwins, nwin), axis=-1, edge=True) + 2 * pylops.Identity((nwins, nwin))
    else:
        Op = pylops.Identity(nwin) if inner == "identity" else _leaf(("sl1", nwin, nop), nwin, nop)
    return sp.Sliding1D(Op, nwins * nop, dimd, nwin, nover, tapertype=tapertype, savetaper=savetaper)


@fam("Sliding2D")
def _(nwin, nover, nwins, nop, nt, tapertype="hanning", savetaper=True, inner="matrix"):
    dimd = nwin + (nwins - 1) * (nwin - nover)
    if inner == "all":       # one operator acting on all windows at once (nop == nwin)
        Op = pylops.FirstDerivative(dims=(nwins, nwin, nt), axis=1, edge=True) + 2 * pylops.Identity((nwins, nwin, nt))
    else:
        Op = _leaf(("sl2", nwin, nop, nt), nwin * nt, nop * nt)
    return sp.Sliding2D(Op, (nwins * nop, nt), (dimd, nt), nwin, nover, tapertype=tapertype, savetaper=savetaper)


@fam("Patch2D")
def _(nwin, nover, nwins, nop, tapertype="hanning", savetaper=True, inner="matrix"):
    dimsd = tuple(w + (k - 1) * (w - o) for w, o, k in zip(nwin, nover, nwins))
    dims = tuple(k * p for k, p in zip(nwins, nop))
    if inner == "all":       # one operator acting on all patches at once (nop == nwin)
        alld = tuple(nwins) + tuple(nwin)
        Op = pylops.FirstDerivative(dims=alld, axis=-1, edge=True) + 2 * pylops.Identity(alld)
    else:
        Op = _leaf(("p2", tuple(nwin), tuple(nop)), prod(nwin), prod(nop))
    return sp.Patch2D(Op, dims, dimsd, tuple(nwin), tuple(nover), tuple(nop), tapertype=tapertype, savetaper=savetaper)


@fam("Seislet")
def _(nx, nt, level=None, kind="haar", inv=False):
    slopes = (ivec(("seis", nx, nt), nx * nt, -2, 2, nz=False) * 0.25).reshape(nx, nt)
    return sp.Seislet(slopes, level=level, kind=kind, inv=inv)


# ------------------------------------------------------------------ wave / avo
@fam("MDC")
def _(nt, ns, nr, nv, twosided=True, usematmul=False, saveGt=True, conj=False, fftengine="numpy"):
    nt2 = 2 * nt - 1 if twosided else nt
    nf = nt2 // 2 + 1
    G = cvec(("mdc", nt, ns, nr), nf * ns * nr).reshape(nf, ns, nr)
    return wp.MDC(G, nt=nt2, nv=nv, dt=0.5, dr=2.0, twosided=twosided, usematmul=usematmul, saveGt=saveGt,
                  conj=conj, fftengine=fftengine)


@fam("PhaseShift")
def _(nt, nx, vel=2.0, dz=1.0):
    freq = np.fft.rfftfreq(nt, 0.5)
    kx = np.fft.fftshift(np.fft.fftfreq(nx, 1.0))
    return wp.PhaseShift(vel, dz, nt, freq, kx)


@fam("BlendingContinuous")
def _(nt, nr, ns, shiftall=False):
    times = np.arange(ns) * 1.5
    return wp.BlendingContinuous(nt, nr, ns, 1.0, times, shiftall=shiftall)


@fam("AVOLinearModelling")
def _(nt0, ntheta, linearization="akirich", spatdims=None):
    theta = np.linspace(0, 30, ntheta)
    return AVOLinearModelling(theta, vsvp=0.5, nt0=nt0, spatdims=tup(spatdims), linearization=linearization)


@fam("PoststackLinearModelling")
def _(nw, nt0, spatdims=None, explicit=False, kind="centered", sparse=False):
    wav = ivec(("psw", nw), nw)
    return pylops.avo.poststack.PoststackLinearModelling(wav, nt0, spatdims=tup(spatdims), explicit=explicit,
                                                         kind=kind, sparse=sparse)


@fam("PrestackLinearModelling")
def _(nw, nt0, ntheta, spatdims=None, explicit=False, kind="centered", linearization="akirich", vsvp=0.5):
    wav = ivec(("prw", nw), nw)
    theta = np.linspace(0, 30, ntheta)
    return pylops.avo.prestack.PrestackLinearModelling(wav, theta, vsvp=vsvp, nt0=nt0, spatdims=tup(spatdims),
                                                       linearization=linearization, explicit=explicit, kind=kind)


@fam("Kirchhoff")
def _(nz, nx, nt, ns, nr, engine="numpy", dynamic=False, wavfilter=False, aperture=None):
    z = np.arange(nz) * 4.0
    x = np.arange(nx) * 4.0
    t = np.arange(nt) * 0.004
    srcs = np.vstack((np.linspace(0, x[-1], ns), np.zeros(ns)))
    recs = np.vstack((np.linspace(0, x[-1], nr), np.zeros(nr)))
    wav = np.array([0.0, 1.0, 2.0, 1.0, 0.0])
    return wp.Kirchhoff(z, x, t, srcs, recs, 1000.0, wav, 2, mode="analytic", engine=engine,
                        dynamic=dynamic, wavfilter=wavfilter, aperture=tup(aperture))



@fam("BlendingGroup")
def _(nt, nr, ns, group_size, half=False):
    n_groups = ns // group_size
    times = (np.arange(ns) * 1.5 % 4.0).reshape(group_size, n_groups)
    cls = wp.BlendingHalf if half else wp.BlendingGroup
    return cls(nt, nr, ns, 1.0, times, group_size=group_size, n_groups=n_groups)


@fam("PhaseShift3D")
def _(nt, nx, ny):
    freq = np.fft.rfftfreq(nt, 0.5)
    kx = np.fft.fftshift(np.fft.fftfreq(nx, 1.0))
    ky = np.fft.fftshift(np.fft.fftfreq(ny, 1.0))
    return wp.PhaseShift(2.0, 1.0, nt, freq, kx, ky)


@fam("UpDownComposition2D")
def _(nt, nr, scaling=1.0):
    return wp.UpDownComposition2D(nt, nr, 0.5, 1.0, 1.0, 2.0, nffts=(nr, nt), critical=100.0, ntaper=2, scaling=scaling, dtype="complex128")


@fam("PressureToVelocity")
def _(nt, nr, topressure=False):
    return wp.PressureToVelocity(nt, nr, 0.5, 1.0, 1.0, 2.0, nffts=(nr, nt), critical=100.0, ntaper=2, topressure=topressure)


@fam("ChirpRadon3D")
def _(nt, nhy, nhx):
    return sp.ChirpRadon3D(np.arange(nt) * 1.0, np.arange(nhy) * 1.0 - nhy // 2, np.arange(nhx) * 1.0 - nhx // 2, (0.3, 0.2))


@fam("Sliding3D")
def _(savetaper=True, tapertype="hanning", nwins=(2, 2), nwin=(4, 4), nover=(2, 2)):
    nwin, nover, nop, nt = tuple(nwin), tuple(nover), (2, 2), 2
    nwins = tuple(nwins)
    dimsd = tuple(w + (k - 1) * (w - o) for w, o, k in zip(nwin, nover, nwins)) + (nt,)
    Op = _leaf(("sl3", nt), nwin[0] * nwin[1] * nt, nop[0] * nop[1] * nt)
    return sp.Sliding3D(Op, (nwins[0] * nop[0], nwins[1] * nop[1], nt), dimsd, nwin, nover, nop, tapertype=tapertype, savetaper=savetaper)


@fam("Patch3D")
def _(savetaper=True, tapertype="hanning", nwins=(2, 2, 2), nwin=(4, 4, 4), nover=(2, 2, 2)):
    nwin, nover, nop = tuple(nwin), tuple(nover), (2, 2, 2)
    nwins = tuple(nwins)
    dimsd = tuple(w + (k - 1) * (w - o) for w, o, k in zip(nwin, nover, nwins))
    dims = tuple(k * p for k, p in zip(nwins, nop))
    Op = _leaf(("p3",), prod(nwin), prod(nop))
    return sp.Patch3D(Op, dims, dimsd, nwin, nover, nop, tapertype=tapertype, savetaper=savetaper)


@fam("DTCWT")
def _(n, level=2, dims2=None):
    return sp.DTCWT(dims=(n,) if dims2 is None else (n, dims2), level=level, axis=0 if dims2 else -1)


@fam("PrestackWaveletModelling")
def _(nt0, ntheta, nwav, linearization="akirich"):
    m = (ivec(("pwm", nt0), nt0 * 3, 1, 5)).reshape(nt0, 3)
    theta = np.linspace(0, 30, ntheta)
    return pylops.avo.prestack.PrestackWaveletModelling(m, theta, nwav=nwav, wavc=nwav // 2, vsvp=0.5, linearization=linearization)


@fam("NonStationaryConvolve3D")
def _(dims, hshape, engine="numpy"):
    ihx, ihy, ihz = (1, 3), (1, 3), (0, 2)
    hs = ivec(("ns3", tuple(hshape)), 8 * prod(hshape)).reshape(2, 2, 2, *hshape)
    return sp.NonStationaryConvolve3D(tup(dims), hs, ihx, ihy, ihz, engine=engine)


COMPOUNDS = {
    "A**2": lambda A, B: A ** 2, "A**0": lambda A, B: A ** 0, "A**3": lambda A, B: A ** 3, "A*B": lambda A, B: A * B,
    "A+B": lambda A, B: A + B, "A-B": lambda A, B: A - B, "2*A": lambda A, B: 2 * A, "-A": lambda A, B: -A,
    "A.H": lambda A, B: A.H, "A.T": lambda A, B: A.T, "A.conj()": lambda A, B: A.conj(), "(A*B).H": lambda A, B: (A * B).H,
    "A.T.H": lambda A, B: A.T.H, "(A.T*B).H": lambda A, B: (A.T * B).H, "(A**2).H": lambda A, B: (A ** 2).H,
    "(1-2j)*A": lambda A, B: (1 - 2j) * A, "A.H+B.T": lambda A, B: A.H + B.T,
    "A.apply_columns": lambda A, B: A.apply_columns([2, 0]), "(A*B).apply_columns": lambda A, B: (A * B).apply_columns([1, 2]),
    "A.apply_columns.H": lambda A, B: A.apply_columns([0, 1]).H,
}


@fam("Compound")
def _(expr, cplx=False, n=3):
    """Composite operator classes of linearoperator.py over MatrixMult leaves."""
    A = _leaf(("cmpA", n, cplx), n, n, cplx)
    B = _leaf(("cmpB", n, cplx), n, n, cplx)
    return COMPOUNDS[expr](A, B)


# families of real dtype that accept complex input vectors on the unchanged tree (the rest of the library
# allocates outputs with the operator's real dtype and rejects / truncates complex input)
COMPLEX_INPUT_OK = {"AVOLinearModelling", "CausalIntegration", "Convolve1D", "Convolve2D", "ConvolveND", "DCT", "DWT", "DWT2D", "DWTND",
                    "Diagonal", "Flip", "Kronecker", "MatrixMult", "NonStationaryConvolve1D", "Pad", "Roll", "Smoothing1D", "Smoothing2D",
                    "Sum", "Transpose", "Zero", "Compound"}


# families that (on the unchanged tree) allocate their output with the INPUT's dtype and therefore truncate integer-dtype
# inputs: known finding C02-int-input; integer-dtype probes are not generated for them
REAL_INPUT_BAD = set()      # complex-linear families that mishandle real-dtype inputs (none on the current tree)
INT_INPUT_BAD = {"NonStationaryConvolve1D", "Seislet", "ChirpRadon2D", "ChirpRadon3D"}


def inverse_as_adjoint(family, params):
    """Configurations whose rmatvec is, by documented design, the INVERSE and not the adjoint (Seislet(inv=True): 'apply
    inverse transform when invoking the adjoint'): C01 does not judge them; linearity (C02), purity (C15) and the dense
    views of the forward (C17) are judged as for every other operator."""
    return family == "Seislet" and bool(params.get("inv"))


# ------------------------------------------------------------------ grids
def build(family, params):
    return F[family](**params)


def extra_configs(tier):
    """Frozen random configurations (validated on the unchanged tree by tools/gen_zoo_extra.py): thorough uses all of them,
    quick a subset that depends on VERIF_SEED (so that different seeds explore different parts)."""
    import json as _json
    import os as _os
    f = _os.path.join(_os.path.dirname(_os.path.abspath(__file__)), "zoo_extra.json")
    if not _os.path.exists(f):
        return []
    cfgs = [(a, b) for a, b in _json.load(open(f))["configs"]]
    if tier == "thorough":
        return cfgs
    try:
        seed = int(_os.environ.get("VERIF_SEED", "0"))
    except ValueError:
        seed = 0
    r = random.Random("zoo_extra/%d" % seed)
    k = min(len(cfgs), 160)
    idx = sorted(r.sample(range(len(cfgs)), k))
    return [cfgs[i] for i in idx]


def grid(tier, extra=True):
    """List of (family, params).  quick: every family, minimal + odd/even
    sizes, every kind/order/edge/norm/engine value, axes 0 and -1;
    thorough: wider products."""
    T = tier == "thorough"
    g = []

    def add(f, **p):
        g.append((f, p))

    for n, m in [(1, 1), (3, 2), (2, 4), (4, 4)] + ([(5, 1), (1, 5), (6, 3)] if T else []):
        for c in (False, True):
            add("MatrixMult", n=n, m=m, cplx=c)
    add("MatrixMult", n=3, m=2, otherdims=[2])
    add("MatrixMult", n=2, m=3, otherdims=[2, 2], cplx=True)
    add("MatrixMult", n=3, m=4, sparse=True)
    add("MatrixMult", n=3, m=4)
    for method in (None, "direct", "fft"):
        add("Convolve1D", dims=[7], nh=4, offset=2, method=method)
    for method in (None, "fft", "overlapadd"):
        add("Convolve1D", dims=[5, 3], nh=3, offset=0, axis=0, method=method)
    shapes1 = [[1], [2], [5], [6]]
    shapes2 = [[3, 4], [4, 3]] + ([[1, 5], [5, 1], [2, 2]] if T else [])
    shapes3 = [[2, 3, 4]] + ([[3, 2, 2]] if T else [])

    def dims_axes(min1=1, minax=1):
        out = []
        for d in shapes1:
            if d[0] >= minax:
                out.append((d, -1))
                if T:
                    out.append((d, 0))
        for d in shapes2:
            for ax in ((0, -1) if not T else (0, 1, -1, -2)):
                if d[ax] >= minax:
                    out.append((d, ax))
        for d in shapes3:
            for ax in ((1,) if not T else (0, 1, 2, -1, -2, -3)):
                if d[ax] >= minax:
                    out.append((d, ax))
        return out

    for d, ax in dims_axes():
        for c in (False, True):
            add("Diagonal", dims=d, axis=ax, cplx=c)
        add("Flip", dims=d, axis=ax)
        add("Symmetrize", dims=d, axis=ax)
        add("Sum", dims=d, axis=ax) if len(d) > 1 else None
        for s in ((1, -2) if not T else (0, 1, -1, 3, -4)):
            add("Roll", dims=d, axis=ax, shift=s)
        for kind in ("full", "half", "trapezoidal"):
            for rf in (False, True):
                if d[ax] >= 2:
                    add("CausalIntegration", dims=d, axis=ax, kind=kind, removefirst=rf, sampling=0.5)
        n = d[ax]
        if n >= 2:
            add("Restriction", dims=d, iava=sorted(set([0, n - 1] + ([n // 2] if n > 2 else []))), axis=ax)
            add("Restriction", dims=d, iava=[n - 1, 0], axis=ax, inplace=False)
            add("Interp", dims=d, iava=[0, n - 1] if n > 1 else [0], axis=ax, kind="nearest")
            add("Interp", dims=d, iava=[0.25, n - 1.5] if n > 2 else [0.5], axis=ax, kind="linear")
            if n >= 4:
                add("Interp", dims=d, iava=[0.5, n - 2.25], axis=ax, kind="sinc")
        for ns in (3, 5):
            if n >= ns:
                add("Smoothing1D", nsmooth=ns, dims=d, axis=ax)
        for nh, off in [(1, 0), (3, 1), (3, 0), (4, 1), (4, 3), (5, 2)] if not T else \
                [(nh, off) for nh in (1, 2, 3, 4, 5) for off in range(nh)]:
            for method in ((None,) if not T else ((None, "direct", "fft") if len(d) == 1 else (None, "fft", "overlapadd"))):
                if nh > n or off >= n - 1 + (n == 1):
                    continue
                add("Convolve1D", dims=d, nh=nh, offset=off, axis=ax, method=method)
        if n >= 3:
            add("Convolve1D", dims=d, nh=3, offset=1, axis=ax, cplx=True)
            if len(d) > 1:
                add("Convolve1D", dims=d, nh=3, offset=1, axis=ax, hnd=True)
    for e in COMPOUNDS:
        for c in (False, True):
            if "j" in e and not c:
                continue
            add("Compound", expr=e, cplx=c)
    add("Diagonal", dims=[3, 4], full=True)
    for c in (False, True):
        add("Diagonal", dims=[4], cplx=c, single=True)
        add("Diagonal", dims=[2, 3], axis=-1, cplx=c, single=True)
        add("MatrixMult", n=3, m=2, cplx=c, single=True)
    add("Diagonal", dims=[2, 3], full=True, cplx=True)
    # filter longer than the model (the _Convolve1Dlong class): odd/even model and filter lengths, several offsets
    for n, nh in [(4, 9), (5, 9), (6, 11), (5, 8), (4, 6), (3, 4)]:
        for off in sorted(set([0, n // 2, n - 1])):
            add("Convolve1D", dims=[n], nh=nh, offset=off)
    add("Convolve1D", dims=[4], nh=7, offset=1, cplx=True)
    add("Convolve1D", dims=[40], nh=33, offset=16, method=None)
    add("Convolve1D", dims=[40], nh=33, offset=3, method="fft")

    # derivatives: every kind / order / edge, sizes around the stencil width
    for d, ax in dims_axes(minax=3):
        n = d[ax]
        for kind in ("forward", "backward", "centered"):
            for edge in (False, True):
                for order in ((3, 5) if kind == "centered" else (3,)):
                    if order == 5 and n < 5:
                        continue
                    add("FirstDerivative", dims=d, axis=ax, sampling=0.5, kind=kind, edge=edge, order=order)
                add("SecondDerivative", dims=d, axis=ax, sampling=0.5, kind=kind, edge=edge)
    for n in (3, 4, 7) + ((5, 6, 9) if T else ()):
        for kind in ("forward", "backward", "centered"):
            for edge in (False, True):
                add("FirstDerivative", dims=[n], kind=kind, edge=edge, sampling=2.0)
                add("SecondDerivative", dims=[n], kind=kind, edge=edge, sampling=2.0)
        if n >= 5:
            for edge in (False, True):
                add("FirstDerivative", dims=[n], kind="centered", edge=edge, order=5)
    add("FirstDerivative", dims=[3], kind="centered", order=5, edge=True)   # degenerate: known finding C01-fd-c5-edge-n3
    add("FirstDerivative", dims=[4], kind="centered", order=5, edge=True)
    for kind in ("forward", "backward", "centered"):
        for edge in (False, True):
            add("Laplacian", dims=[4, 5], axes=[0, 1], weights=[1, 2], sampling=[1, 0.5], edge=edge, kind=kind)
            add("Gradient", dims=[4, 3], sampling=[1, 0.5], edge=edge, kind=kind)
            add("FirstDirectionalDerivative", dims=[4, 3], v=[0.6, 0.8], sampling=[1, 0.5], edge=edge, kind=kind)
        add("Laplacian", dims=[3, 4, 3], axes=[0, 2], kind=kind)
        add("Laplacian", dims=[3, 3, 4], axes=[0, 1, 2], weights=[1, 1, 2], sampling=[1, 1, 1], kind=kind)
        add("Gradient", dims=[3, 3, 3], kind=kind)
    for edge in (False, True):
        add("SecondDirectionalDerivative", dims=[4, 3], v=[0.6, 0.8], sampling=[1, 0.5], edge=edge)

    add("Identity", N=4)
    add("Identity", N=5, M=3)
    add("Identity", N=3, M=5)
    add("Identity", N=4, inplace=False)
    add("Identity", N=[2, 3])
    add("Identity", N=5, M=3, inplace=False)
    add("Identity", N=3, M=5, inplace=False)
    add("Identity", N=[4, 3], M=[2, 3], inplace=False)
    add("RegStack", n=4, kind="V")
    add("RegStack", n=4, kind="H")
    add("RegStack", n=4, kind="B")
    add("Zero", N=4)
    add("Zero", N=3, M=5)
    add("Zero", N=5, M=2)
    add("Pad", dims=[4], pad=[1, 2])
    add("Pad", dims=[3], pad=[0, 0])
    add("Pad", dims=[3, 2], pad=[[1, 0], [2, 1]])
    add("Pad", dims=[2, 2, 2], pad=[[0, 1], [1, 0], [0, 2]])
    add("Transpose", dims=[3, 4], axes=[1, 0])
    add("Transpose", dims=[3, 4], axes=[0, 1])      # identity permutation: known finding C15-transpose-identity
    add("Transpose", dims=[2, 3, 4], axes=[2, 0, 1])
    add("Transpose", dims=[2, 3, 4], axes=[1, 2, 0])
    add("Transpose", dims=[2, 3, 2], axes=[0, 2, 1])
    for d in ([4], [2, 3]):
        add("Real", dims=d)
        add("Imag", dims=d)
        add("Conj", dims=d)
    add("Smoothing2D", nsmooth=[3, 3], dims=[4, 5])
    add("Smoothing2D", nsmooth=[3, 5], dims=[4, 5, 2], axes=[0, 1])
    add("Regression", n=5, order=2)
    add("Regression", n=4, order=0)
    add("LinearRegression", n=5)
    for c in (False, True):
        for nproc in (1, 2):
            add("VStack", ns=[2, 3, 1], m=3, cplx=c, nproc=nproc)
            add("HStack", n=3, ms=[2, 1, 3], cplx=c, nproc=nproc)
            add("BlockDiag", shapes=[[2, 3], [1, 1], [3, 2]], cplx=c, nproc=nproc)
            add("Block", ns=[2, 1], ms=[3, 2], cplx=c, nproc=nproc)
        add("Kronecker", s1=[2, 3], s2=[3, 2], cplx=c)
        add("Kronecker", s1=[1, 3], s2=[2, 1], cplx=c)
    add("VStack", ns=[3, 2], m=3, mixed=True)
    for engine in ("numpy", "numba"):
        for interp in (False, True):
            for otf in ((False, True) if engine == "numpy" else (False,)):
                add("Spread", nx0=3, nt0=4, nx=4, nt=6, engine=engine, interp=interp, onthefly=otf)
        add("Spread", nx0=2, nt0=3, nx=3, nt=5, engine=engine, cplx=True)

    # FFT family
    engines = ("numpy", "scipy", "fftw")
    norms = ("ortho", "none", "1/n")
    for engine in engines:
        for norm in norms:
            for real in (False, True):
                for n, nfft in [(4, None), (5, None), (5, 8), (6, 4)] + ([(7, 7), (4, 5), (1, 4)] if T else []):
                    add("FFT", dims=[n], nfft=nfft, norm=norm, real=real, engine=engine, sampling=0.5)
                add("FFT", dims=[6], norm=norm, real=real, engine=engine, ifftshift_before=True, fftshift_after=not real)
                add("FFT", dims=[3, 4], axis=0, norm=norm, real=real, engine=engine)
                if norm != "1/n":
                    add("FFT", dims=[5], nfft=8, norm=norm, real=real, engine=engine, ifftshift_before=True)
                    add("FFT", dims=[6, 2], axis=0, nfft=4, norm=norm, real=real, engine=engine, ifftshift_before=True, fftshift_after=not real)
                add("FFT", dims=[2, 5, 2], axis=1, nfft=6, norm=norm, real=real, engine=engine)
    for engine in ("numpy", "scipy"):
        for norm in norms:
            for real in (False, True):
                add("FFT2D", dims=[3, 4], norm=norm, real=real, engine=engine)
                add("FFT2D", dims=[4, 5], nffts=[6, 8], norm=norm, real=real, engine=engine)
                add("FFT2D", dims=[5, 4], nffts=[4, 3], norm=norm, real=real, engine=engine)
                add("FFT2D", dims=[2, 4, 3], axes=[0, 2], norm=norm, real=real, engine=engine)
                add("FFT2D", dims=[4, 4], norm=norm, real=real, engine=engine, ifftshift_before=[True, False],
                    fftshift_after=[True, False] if real else [False, True])
                add("FFT2D", dims=[3, 4], nffts=[5, 6], norm=norm, real=real, engine=engine, ifftshift_before=[True, True],
                    fftshift_after=[True, False] if real else [True, True])
                add("FFTND", dims=[2, 3, 4], norm=norm, real=real, engine=engine)
                add("FFTND", dims=[3, 2, 3], nffts=[4, 2, 4], norm=norm, real=real, engine=engine)
    add("Shift", dims=[6], shift=1.5)
    add("Shift", dims=[6], shift=2.0, real=True)
    add("Shift", dims=[3, 4], shift=0.5, axis=0)
    add("Bilinear", dims=[4, 5], iava=[[0.5, 2.25, 1.0], [1.5, 0.25, 3.0]])
    add("Bilinear", dims=[4, 5, 2], iava=[[0.5, 2.75], [1.5, 3.5]])
    for meth in ("fft", "direct"):
        add("Convolve2D", dims=[4, 5], hshape=[3, 3], offset=[1, 1], method=meth)
        add("Convolve2D", dims=[4, 5], hshape=[2, 3], offset=[0, 2], method=meth)
        add("Convolve2D", dims=[3, 4, 3], hshape=[3, 2], offset=[1, 0], axes=[0, 2], method=meth)
        add("ConvolveND", dims=[3, 4, 3], hshape=[2, 3, 2], offset=[1, 1, 0], axes=[0, 1, 2], method=meth)
    add("Convolve2D", dims=[4, 5], hshape=[3, 3], offset=[1, 1], cplx=True)
    for meth in ("direct", "fft"):
        add("Convolve2D", dims=[4, 5], hshape=[3, 2], offset=[1, 0], cplx=True, method=meth)
        add("ConvolveND", dims=[3, 4, 3], hshape=[2, 3], offset=[1, 1], axes=[0, 1], method=meth, cplx=True)
        add("ConvolveND", dims=[3, 3, 3], hshape=[2, 3, 2], offset=[0, 1, 1], axes=[0, 1, 2], method=meth, cplx=True)
    # real declared dtype with real=False (real-linear: complex parts of the model are discarded by every engine)
    for engine in ("numpy", "scipy", "fftw"):
        add("FFT", dims=[5], nfft=6, real=False, rdtype=True, engine=engine)
    for engine in ("numpy", "scipy"):
        add("FFT2D", dims=[3, 4], real=False, rdtype=True, engine=engine)
        add("FFT2D", dims=[2, 3, 4], axes=[-1, 0], nffts=[5, 3], real=False, rdtype=True, engine=engine, ifftshift_before=True)
        add("FFTND", dims=[2, 3, 2], real=False, rdtype=True, engine=engine)
    for sg in (True, False):
        for um in (True, False):
            for c in (False, True):
                add("Fredholm1", nsl=2, nx=3, ny=2, nz=2, saveGt=sg, usematmul=um, cplx=c)
    add("NonStationaryConvolve1D", n=8, nh=3, ih=[1, 3, 5])
    add("NonStationaryConvolve1D", n=7, nh=5, ih=[2, 5])
    add("NonStationaryConvolve1D", n=6, nh=3, ih=[1, 4], dims=[6, 2], axis=0)
    add("NonStationaryFilters1D", n=8, nh=3, ih=[1, 3, 5])
    for engine in ("numpy", "numba"):
        add("NonStationaryConvolve2D", dims=[6, 5], hshape=[3, 3], ihx=[1, 4], ihz=[1, 3], engine=engine)
        add("NonStationaryFilters2D", dims=[6, 5], hshape=[3, 3], ihx=[1, 4], ihz=[1, 3], engine=engine)
        add("NonStationaryFilters2D", dims=[8, 7], hshape=[3, 5], ihx=[1, 3, 5], ihz=[2, 5], engine=engine)
    for ty in (1, 2, 3, 4):
        add("DCT", dims=[5], type=ty)
        add("DCT", dims=[3, 4], type=ty, axes=[0] if ty % 2 else None)
    for wv in ("haar", "db2", "sym3") + (("db3", "db4", "sym2", "sym4", "coif1") if T else ()):
        add("DWT", dims=[8], wavelet=wv, level=1)
        add("DWT", dims=[16], wavelet=wv, level=2)
        add("DWT", dims=[8, 3], axis=0, wavelet=wv, level=1)
        add("DWT2D", dims=[4, 8], wavelet=wv, level=1)
    for wv in ("bior2.2", "rbio2.2", "rbio1.3"):
        add("DWT", dims=[8], wavelet=wv, level=1)
        add("DWT2D", dims=[4, 8], wavelet=wv, level=1)
    add("DWTND", dims=[4, 2, 4], wavelet="db2", level=1)
    add("DWT", dims=[7], wavelet="haar", level=2)
    add("DWTND", dims=[4, 2, 4], wavelet="haar", level=1)
    for engine in ("numpy", "numba"):
        for interp in (True, False):
            for otf in (False, True):
                for kind in ("linear", "parabolic", "hyperbolic"):
                    add("Radon2D", nt=6, nh=4, npx=3, kind=kind, interp=interp, onthefly=otf, engine=engine)
        add("Radon2D", nt=5, nh=3, npx=3, centeredh=False, engine=engine)
        add("Radon3D", nt=5, nhy=2, nhx=3, npy=2, npx=2, engine=engine)
        add("Radon3D", nt=5, nhy=2, nhx=3, npy=2, npx=2, engine=engine, onthefly=True, interp=False)
        for kind in ("parabolic", "hyperbolic"):
            add("Radon3D", nt=8, nhy=2, nhx=3, npy=2, npx=3, kind=kind, engine=engine)
            add("Radon3D", nt=8, nhy=2, nhx=3, npy=2, npx=3, kind=kind, engine=engine, onthefly=True)
        add("FourierRadon2D", nt=6, nh=4, npx=3, nfft=8, engine=engine)
        add("FourierRadon2D", nt=6, nh=4, npx=3, nfft=8, kind="parabolic", engine=engine, flims=[1, 4])
        add("FourierRadon3D", nt=4, nhy=2, nhx=3, npy=2, npx=2, nfft=4, engine=engine)
        add("Kirchhoff", nz=4, nx=5, nt=12, ns=2, nr=3, engine=engine)
        add("Kirchhoff", nz=4, nx=5, nt=12, ns=2, nr=3, engine=engine, dynamic=True)
        add("Kirchhoff", nz=4, nx=5, nt=12, ns=2, nr=3, engine=engine, dynamic=True, aperture=[1.0, 3.0])
        add("Kirchhoff", nz=4, nx=5, nt=12, ns=2, nr=3, engine=engine, dynamic=True, wavfilter=True)
        add("FourierRadon3D", nt=6, nhy=2, nhx=3, npy=2, npx=2, nfft=8, engine=engine, flims=[1, 4])
    add("ChirpRadon2D", nt=6, nh=5)
    for st in (True, False):
        for tp in ("hanning", "cosine", None):
            add("Sliding1D", nwin=4, nover=2, nwins=3, nop=2, tapertype=tp, savetaper=st)
        add("Sliding2D", nwin=4, nover=2, nwins=2, nop=2, nt=2, savetaper=st)
        add("Patch2D", nwin=[4, 4], nover=[2, 2], nwins=[2, 2], nop=[2, 2], savetaper=st)
    for st in (True, False):
        add("Patch2D", nwin=[4, 4], nover=[2, 2], nwins=[2, 3], nop=[2, 2], tapertype="cosine", savetaper=st)
        add("Patch2D", nwin=[4, 4], nover=[2, 2], nwins=[3, 2], nop=[2, 2], tapertype="cosine", savetaper=st)
        add("Sliding1D", nwin=4, nover=2, nwins=3, nop=4, tapertype="hanning", savetaper=st, inner="identity")
        for tp in ("hanning", "cosine", None):
            add("Sliding1D", nwin=4, nover=2, nwins=3, nop=4, tapertype=tp, savetaper=st, inner="all")
        # overlaps of 3 samples: the tapers take the value 1/2 (1/4 for cosinesquare), not only 0 and 1 as with overlaps of 2
        for tp in ("hanning", "cosinesquare"):
            add("Sliding1D", nwin=6, nover=3, nwins=3, nop=2, tapertype=tp, savetaper=st)
            add("Sliding1D", nwin=6, nover=3, nwins=3, nop=6, tapertype=tp, savetaper=st, inner="all")
        add("Sliding2D", nwin=6, nover=3, nwins=3, nop=2, nt=2, tapertype="cosinesquare", savetaper=st)
        add("Sliding2D", nwin=6, nover=3, nwins=2, nop=6, nt=2, tapertype="hanning", savetaper=st, inner="all")
        add("Patch2D", nwin=[6, 6], nover=[3, 3], nwins=[2, 2], nop=[2, 2], tapertype="cosinesquare", savetaper=st)
        add("Patch2D", nwin=[6, 4], nover=[3, 2], nwins=[2, 2], nop=[6, 4], tapertype="hanning", savetaper=st, inner="all")
        add("Sliding3D", savetaper=st, tapertype="cosinesquare", nwins=[2, 2], nwin=[6, 4], nover=[3, 2])
        add("Patch3D", savetaper=st, tapertype="cosinesquare", nwins=[2, 2, 2], nwin=[6, 4, 4], nover=[3, 2, 2])
        add("Sliding2D", nwin=4, nover=2, nwins=3, nop=4, nt=2, tapertype="cosine", savetaper=st, inner="all")
        add("Patch2D", nwin=[4, 4], nover=[2, 2], nwins=[2, 3], nop=[4, 4], tapertype="cosine", savetaper=st, inner="all")
    # wave-propagation / seismic families with less common options
    add("BlendingGroup", nt=4, nr=2, ns=4, group_size=2)
    add("BlendingGroup", nt=4, nr=2, ns=4, group_size=2, half=True)
    add("PhaseShift3D", nt=4, nx=3, ny=2)
    add("ChirpRadon3D", nt=4, nhy=3, nhx=3)
    for st in (True, False):
        add("Sliding3D", savetaper=st)
        add("Patch3D", savetaper=st, tapertype="cosine")
        add("Patch3D", savetaper=st, tapertype="cosine", nwins=[3, 2, 2])      # an interior patch on each axis in turn
        add("Patch3D", savetaper=st, tapertype="cosine", nwins=[2, 3, 2])
        add("Patch3D", savetaper=st, tapertype="cosine", nwins=[2, 2, 3])
        add("Sliding3D", savetaper=st, tapertype="cosine", nwins=[3, 2])
        add("Sliding3D", savetaper=st, tapertype="cosine", nwins=[2, 3])
        add("Sliding2D", nwin=4, nover=2, nwins=3, nop=2, nt=2, savetaper=st)
    for lin in ("akirich", "fatti", "ps"):
        add("PrestackWaveletModelling", nt0=5, ntheta=3, nwav=3, linearization=lin)
    for engine in ("numpy", "numba"):
        add("NonStationaryConvolve3D", dims=[4, 4, 3], hshape=[3, 3, 3], engine=engine)
    add("Seislet", nx=4, nt=4)
    add("Seislet", nx=8, nt=3, kind="linear")
    add("Seislet", nx=4, nt=4, inv=True)       # rmatvec applies the INVERSE by documented design (see inverse_as_adjoint)
    for ts in (True, False):
        for um in (True, False):
            for eng in ("numpy", "scipy", "fftw"):
                add("MDC", nt=4, ns=2, nr=3, nv=1, twosided=ts, usematmul=um, fftengine=eng)
        add("MDC", nt=3, ns=2, nr=2, nv=2, twosided=ts, saveGt=False, conj=True)
    add("PhaseShift", nt=6, nx=4)
    add("BlendingContinuous", nt=4, nr=2, ns=3)
    add("BlendingContinuous", nt=4, nr=2, ns=2, shiftall=True)
    for lin in ("akirich", "fatti", "ps"):
        add("AVOLinearModelling", nt0=3, ntheta=2, linearization=lin)
        add("AVOLinearModelling", nt0=2, ntheta=3, linearization=lin, spatdims=[2])
        for ex in (False, True):
            add("PrestackLinearModelling", nw=3, nt0=5, ntheta=2, explicit=ex, linearization=lin)
    for ex in (False, True):
        for kind in ("centered", "forward"):
            add("PoststackLinearModelling", nw=3, nt0=6, explicit=ex, kind=kind)
            add("PoststackLinearModelling", nw=4, nt0=5, spatdims=[2], explicit=ex, kind=kind)
        add("PrestackLinearModelling", nw=5, nt0=6, ntheta=3, spatdims=[2], explicit=ex)
    g = [x for x in g if x is not None]
    return g + (extra_configs(tier) if extra else [])
