"""C09, additional implementation-level cases (python oracle = the flat call /
the exact solution / SciPy):
 (1) the function wrappers cg / cgls / lsqr on operators with 2-D dims, the
     starting guess x0 passed as KEYWORD in C order, in Fortran order and as a
     transposed view (element-wise equal arrays): the result must be the
     reshaped result of the flat call with x0.ravel() (C order), and, with
     enough iterations, the dense minimiser;
 (2) exact termination: systems on which the residual becomes EXACTLY zero in
     floating point (scaled identity, x0 = exact integer solution), tol = 0
     and every niter >= the termination step: x finite and equal to the
     solution, diagnostics finite, iiter <= niter, and no step is ever taken
     from a state whose own kold is exactly 0.0 (the exact iteration COUNT is
     not demanded: in floating point kold may be 1e-31 instead of 0);
 (3) lsqr stopped by a small conlim (calc_var False / True): istop, iteration
     count and acond as SciPy's."""
import numpy as np

from . import common
from . import c09_common as cc


def _views(X0):
    F = np.asfortranarray(X0)
    T = np.ascontiguousarray(X0.T).T
    assert not T.flags["C_CONTIGUOUS"] and np.array_equal(T, X0) and np.array_equal(F, X0)
    return {"C": np.ascontiguousarray(X0), "F": F, "T-view": T}


def nd_checks(solver, A, Y, X0, damp, niter):
    """Function wrapper with an operator of dims (n, k); returns list of (kind, detail)."""
    import pylops
    k = Y.shape[1]
    Op = pylops.MatrixMult(A.copy(), otherdims=(k,), dtype=A.dtype)
    f = {"cg": pylops.cg, "cgls": pylops.cgls, "lsqr": pylops.lsqr}[solver]
    kw = {"cg": dict(niter=niter, tol=0.0), "cgls": dict(niter=niter, damp=damp, tol=0.0),
          "lsqr": dict(niter=niter, damp=damp, atol=0, btol=0, conlim=0)}[solver]
    ref = f(Op, Y.ravel().copy(), x0=np.ascontiguousarray(X0).ravel().copy(), **kw)
    bad = []
    for name, V in _views(X0).items():
        out = f(Op, Y.copy(), x0=V, **kw)
        x = np.asarray(out[0])
        if x.shape != tuple(Op.dims):
            bad.append(("nd_x0", "x0 %s-ordered 2-D keyword: result has shape %s, dims are %s" % (name, x.shape, tuple(Op.dims))))
            continue
        xr = np.asarray(ref[0]).reshape(Op.dims)
        err = float(np.abs(x - xr).max() / (1e-300 + np.abs(xr).max()))
        if err > 1e-10:
            bad.append(("nd_x0", "x0 given as %s-ordered 2-D keyword array: result differs from the flat call with x0.ravel() "
                                 "(element-wise equal starting guess) by %.3e relative" % (name, err)))
            continue
        for j in range(1, len(ref)):
            a, b = out[j], ref[j]
            if a is None or b is None:
                continue
            a, b = np.atleast_1d(np.asarray(a, dtype=float)), np.atleast_1d(np.asarray(b, dtype=float))
            if a.shape != b.shape or np.abs(a - b).max(initial=0) > 1e-9 * (1 + np.abs(b).max(initial=0)):
                bad.append(("nd_x0", "x0 given as %s-ordered 2-D keyword array: output %d of the wrapper differs from the flat call" % (name, j)))
                break
    return bad


def exact_checks(solver, A, y, x0, xsol, expect_it, niter):
    """Exact-termination systems, tol = 0.  Floating point does not promise the iteration COUNT of exact arithmetic
    (kold after the last exact step may be 1e-31 instead of 0, and continuing is then correct), so the rules are:
    (a) for EVERY budget >= the exact stopping step the returned x is finite and equals the exact solution (1e-9 rel);
    (b) all diagnostics finite; (c) iiter <= niter, len(cost) = 1 + iiter = 1 + number of callbacks;
    (d) the solver never steps from a state whose OWN kold is exactly 0.0 (that would be 0/0)."""
    import pylops
    from pylops.optimization.callback import Callbacks
    from pylops.optimization.cls_basic import CG, CGLS
    Op = pylops.MatrixMult(A.copy(), dtype=A.dtype)
    bad = []
    for ni in sorted({expect_it, expect_it + 1, niter}):
        kolds, cbs = [], []

        class Tr(Callbacks):
            def on_setup_end(self, s, x):
                kolds.append(float(s.kold))

            def on_step_end(self, s, x):
                kolds.append(float(s.kold))
        s = (CG if solver == "cg" else CGLS)(Op, callbacks=[Tr()])
        s.callback = lambda z: cbs.append(np.array(z, copy=True))
        kw = dict(y=y.copy(), x0=None if x0 is None else x0.copy(), niter=ni, tol=0.0)
        if solver == "cgls":
            kw["damp"] = 0.0
        with np.errstate(all="ignore"):
            out = s.solve(**kw)
        x, it, cost = np.asarray(out[0]), int(s.iiter), np.atleast_1d(np.asarray(s.cost, dtype=float))
        tag = "niter=%d: " % ni
        if not np.all(np.isfinite(x)):
            bad.append(("exact_stop", tag + "returned x is not finite (%s); the solver's own kold history is %s" % (x[:3], kolds[:5])))
        elif np.abs(x - xsol).max() > 1e-9 * (1 + np.abs(xsol).max()):
            bad.append(("exact_stop", tag + "returned x differs from the exact solution by %.3e (budget >= exact stopping step %d)"
                        % (np.abs(x - xsol).max(), expect_it)))
        diag = list(cost) + ([float(np.real(out[3])), float(np.real(out[4]))] if solver == "cgls" else [])
        if not np.all(np.isfinite(diag)):
            bad.append(("exact_stop", tag + "non-finite diagnostics: cost=%s" % cost[:5]))
        if it > ni or len(cost) != 1 + it or len(cbs) != it:
            bad.append(("exact_stop", tag + "iiter=%d, len(cost)=%d, %d callbacks" % (it, len(cost), len(cbs))))
        stepped_from_zero = [k for k in range(min(it, len(kolds))) if kolds[k] == 0.0]
        if stepped_from_zero:
            bad.append(("exact_stop", tag + "a step was taken from iteration %d where the solver's own kold is exactly 0.0 (tol = 0): "
                                            "kold history %s, iiter=%d" % (stepped_from_zero[0], kolds[:5], it)))
        if bad:
            break
    return bad


def conlim_checks(A, y, x0, damp, conlim, calc_var, niter):
    import pylops
    from scipy.sparse.linalg import lsqr as slsqr
    Op = pylops.MatrixMult(A.copy(), dtype=A.dtype)
    o = pylops.lsqr(Op, y.copy(), x0=None if x0 is None else x0.copy(), damp=damp, atol=0, btol=0, conlim=conlim, niter=niter, calc_var=calc_var)
    s = slsqr(A, y, damp=damp, atol=0, btol=0, conlim=conlim, iter_lim=niter, x0=None if x0 is None else x0.copy(), calc_var=calc_var)
    bad = []
    if s[1] == 3 and (o[1] != 3 or o[2] != s[2]):
        bad.append(("lsqr_conlim", "conlim=%g calc_var=%s: SciPy stops with istop=3 after %d iterations (acond=%.6g); pylops: istop=%d, iiter=%d, acond=%.6g"
                    % (conlim, calc_var, s[2], s[6], o[1], o[2], o[6])))
    elif o[2] == s[2] and abs(o[6] - s[6]) > 1e-8 * (1 + abs(s[6])):
        bad.append(("lsqr_acond", "conlim=%g calc_var=%s: acond=%.12g but scipy gives %.12g after %d iterations" % (conlim, calc_var, o[6], s[6], s[2])))
    return bad


def build(tier):
    nsd = {"quick": 2, "thorough": 6}[tier]
    jobs = []
    for cplx in (False, True):
        for sd in range(nsd):
            for kind in ("spd", "tall", "wide"):
                r = common.rng("C09extra", kind, cplx, sd)
                sysd = cc.gen_system(r, kind, cplx)
                n, m = sysd["n"], sysd["m"]
                k = 2 if sd % 2 == 0 else 3
                X0 = cc._ints(r, -5, 5, (n, k), cplx)
                for solver in (("cg", "cgls", "lsqr") if kind == "spd" else ("cgls", "lsqr")):
                    A = sysd["H"] if solver == "cg" else sysd["A"]
                    Y = cc._ints(r, -9, 9, (A.shape[0], k), cplx)
                    for damp in ((0.0,) if solver == "cg" else (0.0, 3.0)):
                        for ni in (2, n + 3):
                            jobs.append(("nd", {"solver": solver, "kind": kind, "cplx": cplx, "A": A, "Y": Y, "X0": X0, "damp": damp, "niter": ni}))
                for damp in (0.0, 0.5):
                    for cl in (1.5, 3.0):
                        for cv in (False, True):
                            jobs.append(("conlim", {"kind": kind, "cplx": cplx, "A": sysd["A"], "y": sysd["y"], "x0": None if sd % 2 == 0 else sysd["x0r"],
                                                    "damp": damp, "conlim": cl, "calc_var": cv, "niter": n + 3}))
            # exact termination
            r = common.rng("C09exact", cplx, sd)
            n = r.choice([3, 4, 5])
            for scale in (2.0, 4.0, 0.5):
                A = (scale * np.eye(n)).astype(complex if cplx else float)
                y = cc._ints(r, -9, 9, (n,), cplx)
                y[0] = y[0] if y[0] != 0 else 1
                xs = y / scale
                x0r = cc._ints(r, -5, 5, (n,), cplx)
                for solver in ("cg", "cgls"):
                    for x0, exp in ((None, 1), (np.zeros(n, dtype=A.dtype), 1), (x0r, 0 if np.array_equal(x0r, xs) else 1), (xs.copy(), 0)):
                        jobs.append(("exact", {"solver": solver, "kind": "scaled-identity %g" % scale, "cplx": cplx, "A": A, "y": y, "x0": x0, "xsol": xs,
                                               "expect": exp, "niter": 6}))
            # general systems with an exact integer solution as starting guess: zero iterations
            for kind in ("spd", "tall"):
                sysd = cc.gen_system(common.rng("C09exact2", kind, cplx, sd), kind, cplx)
                xs = sysd["x0r"]
                for solver in (("cg", "cgls") if kind == "spd" else ("cgls",)):
                    A = sysd["H"] if solver == "cg" else sysd["A"]
                    jobs.append(("exact", {"solver": solver, "kind": kind + " x0=solution", "cplx": cplx, "A": A, "y": A @ xs, "x0": xs.copy(), "xsol": xs,
                                           "expect": 0, "niter": sysd["n"] + 3}))
    return jobs


def run_job(tag, j):
    if tag == "nd":
        bad = nd_checks(j["solver"], j["A"], j["Y"], j["X0"], j["damp"], j["niter"])
        return bad
    if tag == "exact":
        return exact_checks(j["solver"], j["A"], j["y"], j["x0"], j["xsol"], j["expect"], j["niter"])
    return conlim_checks(j["A"], j["y"], j["x0"], j["damp"], j["conlim"], j["calc_var"], j["niter"])


def _ser(v):
    return None if v is None else {"shape": list(np.shape(v)), "data": [[float(np.real(t)), float(np.imag(t))] for t in np.asarray(v).ravel()]}


def _des(d, cplx):
    if d is None:
        return None
    a = np.array([complex(t[0], t[1]) for t in d["data"]]).reshape(d["shape"])
    return a if cplx else a.real.copy()


def describe(tag, j):
    A = j["A"]
    return "%s %s %s %dx%d %s %s" % (tag, j.get("solver", "lsqr"), j["kind"], A.shape[0], A.shape[1], "complex" if j["cplx"] else "real",
                                     " ".join("%s=%s" % (k, j[k]) for k in ("damp", "niter", "conlim", "calc_var", "expect") if k in j))


def replay_dict(tag, j, kind, detail):
    d = {"solver": j.get("solver", "lsqr"), "kind": kind, "detail": detail, "extra": tag, "cplx": bool(j["cplx"]), "sys_kind": j["kind"]}
    for k, v in j.items():
        if k in ("A", "Y", "X0", "y", "x0", "xsol"):
            d[k] = _ser(v)
        elif k not in ("kind", "cplx", "solver"):
            d[k] = v
    return d


def replay(rp):
    j = {"cplx": rp["cplx"], "kind": rp["sys_kind"], "solver": rp["solver"]}
    for k, v in rp.items():
        if k in ("A", "Y", "X0", "y", "x0", "xsol"):
            j[k] = _des(v, rp["cplx"])
            if j[k] is not None and rp["cplx"]:
                j[k] = j[k].astype(complex)
        elif k in ("damp", "niter", "conlim", "calc_var", "expect"):
            j[k] = v
    bad = [b for b in run_job(rp["extra"], j) if b[0] == rp["kind"]]
    for b in bad:
        print("reproduced: %s: %s" % b)
    if not bad:
        print("not reproduced")
    return 1 if bad else 0


def extra(R, tier):
    jobs = build(tier)
    ok = 0
    cnt = {}
    for tag, j in jobs:
        cnt[tag] = cnt.get(tag, 0) + 1
        try:
            bad = run_job(tag, j)
        except Exception as e:
            bad = [("error", "%s: %s" % (type(e).__name__, e))]
        if not bad:
            ok += 1
        for kind, detail in bad[:1]:
            R.violation("%s: %s [%s]" % (kind, detail, describe(tag, j)), replay_dict(tag, j, kind, detail))
    return {"more": [{"n": len(jobs), "ok": ok, "nontriv": len(jobs),
                      "cov": {"nd_wrapper_runs": cnt.get("nd", 0), "exact_termination_runs": cnt.get("exact", 0), "lsqr_conlim_runs": cnt.get("conlim", 0),
                              "extra_rule": "N-d function wrappers (dims (n,k)) with x0 as C / F / transposed-view keyword vs the flat call; exact-termination "
                                            "systems (scaled identity, x0 = exact solution) with tol=0 and niter beyond the stop; lsqr conlim stops vs SciPy, "
                                            "calc_var False / True"}}]}
