"""C07 part (c) — FFT / FFT2D / FFTND equal the DFT matrix with the stated
scaling, zero-padding / truncation and shifts.

Specification (Props/C07c.v, Ops/DFT.v): per transformed axis
  ifftshift? -> first N samples, zero padded -> DFT_N (half spectrum and
  sqrt(2) on bins 1..(N-1)/2 when real, last axis only) -> fftshift?,
global scale 1/sqrt(prod N) | 1 | 1/prod N.  The implementation's dense matrix
(columns Op @ e_j) and Op @ x for integer x are compared INSIDE Coq with the
model (Corr/CheckC08.v:f_check) evaluated on Gaussian rationals with a table
of the N-th roots of unity given as 60-bit dyadics (cos / sin computed here
with exact rational Taylor series), tolerance 1e-9.  The reference is
independent of the operator's adjoint and of numpy's FFT."""
import json
import os
import time
import warnings
from fractions import Fraction

import numpy as np

from . import common
from . import c08

PID = "C07"
SUB = "C07c"
TOL = 1e-9
PROPOSED_KNOWN = []
BITS = 60

_PI = Fraction(int("314159265358979323846264338327950288419716939937510582097494459"), 10 ** 62)


def _round(fr, bits=BITS):
    s = 1 << bits
    n = fr * s
    return Fraction((2 * n.numerator + n.denominator) // (2 * n.denominator), s)


def _cos_sin(theta):
    """cos, sin of a rational angle by Taylor series in exact arithmetic
    (angle first rounded to 2^-120, terms until < 2^-90)."""
    t = _round(theta, 120)
    c = s = Fraction(0)
    term = Fraction(1)
    k = 0
    while abs(term) > Fraction(1, 1 << 90) or k < 4:
        if k % 2 == 0:
            c += term if (k // 2) % 2 == 0 else -term
        else:
            s += term if (k // 2) % 2 == 0 else -term
        k += 1
        term = _round(term * t / k, 140)
    return c, s


_TW = {}


def twiddles(N):
    """[(re, im)] of exp(-2 pi i k / N), k < N, as 60-bit dyadic Fractions."""
    if N not in _TW:
        out = []
        for k in range(N):
            # reduce to the first octant-ish range for accuracy: use symmetry about pi
            th = 2 * _PI * k / N
            c, s = _cos_sin(th if 2 * k <= N else 2 * _PI * (N - k) / N)
            if 2 * k > N:
                s = -s
            out.append((_round(c), _round(-s)))
        _TW[N] = out
    return _TW[N]


def isqrt_frac(fr):
    """sqrt of a positive Fraction rounded to 60 bits."""
    import math
    sh = 200
    v = math.isqrt((fr.numerator << sh) // fr.denominator)
    return _round(Fraction(v, 1 << (sh // 2)))


def glit(re, im):
    return "(%s, %s)" % (common.qlit(re), common.qlit(im))


# ------------------------------------------------------------------ configs
def axis_specs(fam, p):
    """[(axis (normalised), N, sb, sa, real)] in the order the model applies them."""
    dims = p["dims"]
    nd = len(dims)
    if fam == "FFT":
        return [(p["axis"] % nd, p["nfft"], bool(p["sb"]), bool(p["sa"]), bool(p["real"]))]
    axes = [a % nd for a in p["axes"]]
    sb = p["sb"] if isinstance(p["sb"], list) else [p["sb"]] * len(axes)
    sa = p["sa"] if isinstance(p["sa"], list) else [p["sa"]] * len(axes)
    return [(a, N, bool(b), bool(c), bool(p["real"]) and i == len(axes) - 1)
            for i, (a, N, b, c) in enumerate(zip(axes, p["nffts"], sb, sa))]


def gscale(fam, p):
    P = 1
    for _, N, _, _, _ in axis_specs(fam, p):
        P *= N
    if p["norm"] == "ortho":
        return isqrt_frac(Fraction(1, P))
    if p["norm"] == "none":
        return Fraction(1)
    return Fraction(1, P)


def grid(tier):
    rs = common.rng(SUB, "grid", tier)
    cfgs = c08.fft_grid("quick", rs) if tier == "quick" else c08.fft_grid("thorough", rs)
    # keep the matrices small and add truncation (nfft < n), which C08 excludes
    out = []
    for fam, p in cfgs:
        if int(np.prod(p["dims"])) > 24:
            continue
        out.append((fam, p))
        if rs.random() < 0.25:
            q = json.loads(json.dumps(p))
            if fam == "FFT":
                n = q["dims"][q["axis"]]
                if n >= 2:
                    q["nfft"] = n - rs.choice([1, 2] if n >= 3 else [1])
                    out.append((fam, q))
            else:
                ok = False
                for i, a in enumerate(q["axes"]):
                    n = q["dims"][a]
                    if n >= 2 and rs.random() < 0.7:
                        q["nffts"][i] = n - 1
                        ok = True
                if ok:
                    out.append((fam, q))
    if tier == "quick":
        out = rs.sample(out, min(len(out), 420))
    return out


def ref_apply(fam, p, x):
    """Independent numpy transcription of the documented operator (used only
    by search / replay; the verdict comes from the Coq evaluation)."""
    a = np.asarray(x, dtype=complex).reshape(p["dims"])
    for ax, N, sb, sa, real in axis_specs(fam, p):
        a = np.moveaxis(a, ax, -1)
        n = a.shape[-1]
        if sb:
            a = a[..., [(i + n // 2) % n for i in range(n)]]
        a = a[..., :N]
        m = a.shape[-1]
        K = N // 2 + 1 if real else N
        W = np.exp(-2j * np.pi * np.outer(np.arange(K), np.arange(m)) / N)
        a = a @ W.T
        if real:
            a[..., 1:1 + (N - 1) // 2] *= np.sqrt(2)
        if sa:
            a = a[..., [(i + K - K // 2) % K for i in range(K)]]
        a = np.moveaxis(a, -1, ax)
    P = np.prod([s[1] for s in axis_specs(fam, p)])
    sc = {"ortho": 1 / np.sqrt(P), "none": 1.0, "1/n": 1.0 / P}[p["norm"]]
    return (sc * a).ravel()


def extract(tier):
    recs = []
    rx = common.rng(SUB, "x", tier)
    for i, (fam, p) in enumerate(grid(tier)):
        rec = dict(id=i, family=fam, params=p)
        try:
            Op = c08.build(fam, p)
            n = int(Op.shape[1])
            cplx = c08.is_complex_input(fam, p)
            js = list(range(n)) if n <= 8 else sorted(rx.sample(range(n), 4))
            rec["cols"] = [(j, np.asarray(Op @ np.eye(n)[j].astype(complex if cplx else float)).ravel()) for j in js]
            vecs = []
            for _ in range(1 if n <= 8 else 2):
                x = c08.intvec(rx, n, cplx)
                vecs.append((x, np.asarray(Op @ x).ravel()))
            rec["vecs"] = vecs
            rec["n"] = n
        except Exception as e:                                   # noqa: BLE001
            rec["error"] = repr(e)
        recs.append(rec)
    return recs


def case_lit(lid, rec):
    fam, p = rec["family"], rec["params"]
    specs = []
    for ax, N, sb, sa, real in axis_specs(fam, p):
        tab = "[" + "; ".join(glit(re, im) for re, im in twiddles(N)) + "]"
        specs.append("{| a_ax := %d; a_N := %d; a_tab := %s; a_sb := %s; a_sa := %s; a_real := %s |}"
                     % (ax, N, tab, str(sb).lower(), str(sa).lower(), str(real).lower()))
    cols = "; ".join("(%d%%nat, %s)" % (j, common.vlit(c, True)) for j, c in rec["cols"])
    vecs = "; ".join("(%s, %s)" % (common.vlit(x, True), common.vlit(y, True)) for x, y in rec["vecs"])
    return ("{| f_id := %d; f_dims := %s; f_specs := [%s]; f_scale := %s; f_s2 := %s;\n  f_cols := [%s];\n  f_vecs := [%s] |}"
            % (lid, common.natlist(p["dims"]), ";\n   ".join(specs), glit(gscale(fam, p), 0), glit(isqrt_frac(Fraction(2)), 0), cols, vecs))


CANARY = ("{| f_id := %d; f_dims := [2%%nat]; f_specs := [{| a_ax := 0; a_N := 2; a_tab := [((qz 1), z0); ((qz (-1)), z0)]; "
          "a_sb := false; a_sa := false; a_real := false |}]; f_scale := ((qz 1), z0); f_s2 := ((qz 1), z0);\n"
          "  f_cols := [(0%%nat, [((qz 1), z0); ((qz 1), z0)]); (1%%nat, [((qz 1), z0); ((qz 1), z0)])];\n  f_vecs := [] |}")


def coq_eval(recs):
    d = common.workdir(SUB)
    good = [r for r in recs if "error" not in r]
    nsh = max(1, min(32, (len(good) + 24) // 25))
    files = []
    for k in range(nsh):
        sh = good[k::nsh]
        idmap = {}
        L = ["From Coq Require Import QArith Qcanon ZArith List. Import ListNotations.",
             "From PV Require Import Dict Vec Dot Mat QcInst GaussQc Check CheckC08.",
             "Definition tol : Qc := q 1 1000000000."]
        lits = []
        for lid, r in enumerate(sh):
            idmap[lid] = r["id"]
            lits.append(case_lit(lid, r))
        if k == 0:
            idmap[len(sh)] = "canary"
            lits.append(CANARY % len(sh))
        L.append("Definition cs : list fcase := [\n " + ";\n ".join(lits) + "].")
        L.append("Eval vm_compute in (failing f_id (f_check tol) cs).")
        name = "c07c_%02d" % k
        with open(os.path.join(d, name + ".v"), "w") as f:
            f.write("\n".join(L) + "\n")
        files.append((name, idmap))
    outs = common.run_coq_files(d, [n for n, _ in files])
    codes = {}
    canary = False
    for n, idmap in files:
        for lid, cs in common.parse_failing(outs[n]).items():
            if idmap[lid] == "canary":
                canary = True
            else:
                codes[idmap[lid]] = cs
    if not canary:
        raise SystemExit("C07c canary was not flagged: the Coq comparison pipeline is broken")
    return codes


def search(rec):
    """First entry of the implementation's matrix that differs from the documented one."""
    fam, p = rec["family"], rec["params"]
    Op = c08.build(fam, p)
    n = int(Op.shape[1])
    cplx = c08.is_complex_input(fam, p)
    for j in range(n):
        e = np.eye(n)[j].astype(complex if cplx else float)
        obs = np.asarray(Op @ e).ravel()
        doc = ref_apply(fam, p, e)
        if obs.shape != doc.shape:
            return dict(unit_vector=j, shape_observed=list(obs.shape), shape_documented=list(doc.shape))
        bad = np.abs(obs - doc) > TOL * (1 + np.abs(doc))
        if bad.any():
            k = int(np.argmax(bad))
            return dict(unit_vector=j, row=k, observed=str(complex(obs[k])), documented=str(complex(doc[k])))
    return None


def replay(rp):
    warnings.simplefilter("ignore")
    fam, p = rp["family"], rp["params"]
    try:
        Op = c08.build(fam, p)
        n = int(Op.shape[1])
        cplx = c08.is_complex_input(fam, p)
        j = int(rp.get("unit_vector", 0))
        e = np.eye(n)[j].astype(complex if cplx else float)
        obs = np.asarray(Op @ e).ravel()
        doc = ref_apply(fam, p, e)
        bad = obs.shape != doc.shape or bool((np.abs(obs - doc) > TOL * (1 + np.abs(doc))).any())
        print("Op @ e_%d =" % j, obs, "\ndocumented  =", doc)
    except Exception as e:                                       # noqa: BLE001
        print("raised:", repr(e))
        bad = True
    print("reproduced" if bad else "not reproduced")
    return 1 if bad else 0


def run(R, tier):
    """Adds the results of part (c) to the shared report R; returns counts."""
    warnings.simplefilter("ignore")
    t0 = time.time()
    c08.build_own()
    thms, axioms = common.props_assumptions(SUB)
    recs = extract(tier)
    t1 = time.time()
    codes = coq_eval(recs)
    t2 = time.time()
    ok = evals = 0
    nontriv = set()
    fams = {}
    groups = {}
    for rec in recs:
        fam, p = rec["family"], rec["params"]
        fams[fam + "/" + p["engine"]] = fams.get(fam + "/" + p["engine"], 0) + 1
        if "error" in rec:
            R.violation("%s: operator cannot be built/applied on a documented configuration: %s %s: %s" % (SUB, fam, p, rec["error"]),
                        {"family": fam, "params": p, "error": rec["error"], "sub": SUB})
            continue
        evals += len(rec["cols"]) + len(rec["vecs"])
        if any(np.any(c) for _, c in rec["cols"]):
            nontriv.add(fam + json.dumps(p, sort_keys=True))
        if rec["id"] not in codes:
            ok += 1
            continue
        gk = (fam, p["engine"], p["norm"], p["real"])
        groups.setdefault(gk, []).append((rec["n"], rec["id"], rec))
    for gk in sorted(groups, key=str):
        lst = sorted(groups[gk], key=lambda t: t[:2])
        rec = lst[0][2]
        fam, p = rec["family"], rec["params"]
        more = " [+%d more failing configurations of this kind]" % (len(lst) - 1) if len(lst) > 1 else ""
        s = search(rec)
        rp = {"family": fam, "params": p, "sub": SUB, "coq_codes": codes[rec["id"]]}
        if s:
            rp.update(s)
            R.violation("%s: %s %s is not the documented DFT matrix: column %s row %s documented %s observed %s%s"
                        % (SUB, fam, p, s.get("unit_vector"), s.get("row"), s.get("documented", s.get("shape_documented")),
                           s.get("observed", s.get("shape_observed")), more), rp)
        else:
            rp.update(correspondence="CheckC08.f_check: implementation columns / Op x vs Coq DFT model (Props/C07c.v)")
            R.violation("%s: %s %s disagrees with the Coq DFT model but the numpy transcription of the documentation agrees%s" % (SUB, fam, p, more),
                        rp, no_input=True)
    if axioms and not set(axioms) <= common.ALLOWED_AXIOMS:
        R.violation("Props/C07c.v depends on unexpected axioms %s" % axioms, {"theorem_file": "Props/C07c.v", "axioms": axioms}, no_input=True)
    return {"sub": SUB, "theorems": thms, "axioms": axioms, "configurations": len(recs), "discharged": ok, "evaluations": evals,
            "distinct_nontrivial": len(nontriv), "families": fams,
            "truncating": sum(1 for r in recs if any(N < r["params"]["dims"][a] for a, N, _, _, _ in axis_specs(r["family"], r["params"]))),
            "real": sum(1 for r in recs if r["params"]["real"]),
            "t_python": round(t1 - t0, 1), "t_coq": round(t2 - t1, 1),
            "samples": [{"family": r["family"], "params": r["params"]} for r in recs[::max(1, len(recs) // 6)]]}


def main(tier):
    R = common.Report(PID, tier)
    common.coq_build()
    res = run(R, tier)
    R.cov.update(
        obligations=len(res["theorems"]) + res["configurations"], discharged=len(res["theorems"]) + res["discharged"],
        checker_cmd="make -C coq + coqc Ops/DFT.v Ops/DFTEngines.v Corr/CheckC08.v Props/C07c.v (Print Assumptions) + coqc .work/C07c/c07c_*.v (vm_compute)",
        theorems=res["theorems"], axioms_reported=res["axioms"], evaluations=res["evaluations"], distinct_nontrivial=res["distinct_nontrivial"],
        rule="one case per FFT/FFT2D/FFTND configuration (engines x norms x real x dtype x shifts x axes x nfft >=, < n); evaluations = unit-vector "
             "and integer-vector applications compared in Coq with the DFT model (60-bit twiddle table, tol 1e-9); non-trivial = matrix not identically zero",
        configurations=res["configurations"], families=res["families"], truncating=res["truncating"], real_configs=res["real"],
        t_python=res["t_python"], t_coq=res["t_coq"])
    R.samples = res["samples"]
    return R.finish()
