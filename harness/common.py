"""Shared machinery: seeds, exact-rational Coq literals, Coq build/run,
result parsing, evidence and violation reporting, known findings."""
import hashlib
import json
import os
import shutil
import random
import re
import subprocess
import sys
import time
from fractions import Fraction

VERIF = os.path.dirname(os.path.dirname(os.path.abspath(__file__)))
COQDIR = os.path.join(VERIF, "coq")
WORK = os.path.join(VERIF, ".work")
EVID = os.environ.get("VERIF_EVIDENCE_DIR") or os.path.join(VERIF, "evidence")   # redirected by tools/seedtest.sh so that runs on mutated copies never overwrite committed evidence
REPLAYS = os.path.join(VERIF, "replays")
REPO = os.environ.get("PYLOPS_REPO", "/repo")
NPROC = int(os.environ.get("VERIF_NPROC", "16"))


def seed():
    try:
        return int(os.environ.get("VERIF_SEED", "0"))
    except ValueError:
        return 0


def rng(*stream):
    """One PRNG per (seed, stream...) so that every disagreement replays."""
    return random.Random("%d/%s" % (seed(), "/".join(str(s) for s in stream)))


# ---------------------------------------------------------------- literals
def qlit(x):
    """Exact Coq literal (type Qc) of a python int / float / Fraction."""
    if isinstance(x, bool):
        x = int(x)
    if isinstance(x, int):
        if x == 0:
            return "z0"
        return "(qz %s)" % (x if x >= 0 else "(%d)" % x)
    if isinstance(x, Fraction):
        n, d = x.numerator, x.denominator
    else:
        x = float(x)
        if x != x:
            return "(qz 1000000000000000000000000000007)"      # NaN: a sentinel no model value can be close to
        if x in (float("inf"), float("-inf")):
            return "(qz %s1000000000000000000000000000000)" % ("" if x > 0 else "-") if x > 0 else "(qz (-1000000000000000000000000000000))"
        if x == 0.0:
            return "z0"
        n, d = x.as_integer_ratio()
    if d == 1:
        return "(qz %s)" % (n if n >= 0 else "(%d)" % n)
    return "(q %s %d)" % (n if n >= 0 else "(%d)" % n, d)


def glit(z):
    z = complex(z)
    return "(%s, %s)" % (qlit(z.real), qlit(z.imag))


def vlit(v, cplx=False):
    f = glit if cplx else qlit
    return "[" + "; ".join(f(a) for a in v) + "]"


def mlit(M, cplx=False):
    return "[" + ";\n   ".join(vlit(r, cplx) for r in M) + "]"


def natlist(v):
    return "[" + "; ".join("%d%%nat" % int(a) for a in v) + "]"


def zlit(n):
    n = int(n)
    return "%d%%Z" % n if n >= 0 else "(%d)%%Z" % n


# ---------------------------------------------------------------- coq
_built = False


def coq_build():
    """Full .vo build of the development (no -vos); no-op when up to date.
    Also the gate against Admitted / Axiom / ... in the sources."""
    global _built
    if _built:
        return
    t = time.time()
    if not os.path.exists(os.path.join(COQDIR, "Makefile")):
        subprocess.run(["coq_makefile", "-f", "_CoqProject", "-o", "Makefile"], cwd=COQDIR,
                       check=True, stdout=subprocess.DEVNULL)
    p = subprocess.run(["timeout", "3000", "make", "-j%d" % NPROC], cwd=COQDIR,
                       stdout=subprocess.PIPE, stderr=subprocess.STDOUT, text=True)
    if p.returncode != 0:
        sys.stdout.write(p.stdout[-4000:])
        raise SystemExit("coq build failed")
    bad = forbidden_declarations()
    if bad:
        print("\n".join(bad))
        raise SystemExit("forbidden declaration in the Coq development")
    _built = True
    return time.time() - t


_FORBID = re.compile(r"\b(Admitted|admit|Axiom|Axioms|Parameter|Parameters|Conjecture|Unset\s+Guard|bypass_check|type-in-type|impredicative-set|Admit\s+Obligations)\b")


def strip_coq_comments(src):
    out, depth, i = [], 0, 0
    while i < len(src):
        if src.startswith("(*", i):
            depth += 1
            i += 2
        elif src.startswith("*)", i) and depth:
            depth -= 1
            i += 2
        else:
            if not depth:
                out.append(src[i])
            elif src[i] == "\n":
                out.append("\n")
            i += 1
    return "".join(out)


def forbidden_declarations():
    """Gate: no Admitted / admit / Axiom / Parameter / ... outside comments in
    any .v file of the development (Variable/Hypothesis are only used inside
    Sections; Print Assumptions of every Props theorem is checked separately)."""
    bad = []
    for r, dirs, files in os.walk(os.path.join(COQDIR, "theories")):
        for f in sorted(files):
            if f.endswith(".v"):
                src = strip_coq_comments(open(os.path.join(r, f)).read())
                for n, line in enumerate(src.splitlines(), 1):
                    if _FORBID.search(line):
                        bad.append("%s:%d: %s" % (os.path.join(r, f), n, line.strip()[:120]))
    return bad


def _alive(n):
    try:
        os.kill(n, 0)
        return True
    except ProcessLookupError:
        return False
    except OSError:
        return True


def workdir(pid):
    """Scratch directory for generated .v files: one per (check, process), so that two runs of one check (quick and
    thorough, or the same tier twice) never wipe each other's files.  Directories of processes that no longer exist are removed."""
    base = os.path.join(WORK, pid)
    os.makedirs(base, exist_ok=True)
    for f in os.listdir(base):
        q = os.path.join(base, f)
        if f.startswith("run-") and os.path.isdir(q):
            try:
                owner = int(f[4:])
            except ValueError:
                continue
            if owner != os.getpid() and not _alive(owner):
                shutil.rmtree(q, ignore_errors=True)
    d = os.path.join(base, "run-%d" % os.getpid())
    os.makedirs(d, exist_ok=True)
    for f in os.listdir(d):
        if f.endswith((".v", ".vo", ".glob", ".vok", ".vos", ".aux", ".out")):
            os.unlink(os.path.join(d, f))
    return d


def run_coq_files(d, names, timeout=1500):
    """Compile harness-generated files (each ends in Eval vm_compute) in
    parallel; returns {name: stdout}."""
    procs = []
    outs = {}
    pending = list(names)
    running = []
    while pending or running:
        while pending and len(running) < NPROC:
            n = pending.pop(0)
            f = open(os.path.join(d, n + ".out"), "w")
            p = subprocess.Popen(
                "ulimit -s unlimited 2>/dev/null; exec timeout %d coqc -Q %s/theories PV %s.v" % (timeout, COQDIR, n),
                shell=True, cwd=d, stdout=f, stderr=subprocess.STDOUT)
            running.append((n, p, f))
        time.sleep(0.05)
        still = []
        for n, p, f in running:
            if p.poll() is None:
                still.append((n, p, f))
            else:
                f.close()
                outs[n] = (p.returncode, open(os.path.join(d, n + ".out")).read())
                for ext in (".vo", ".glob", ".vok", ".vos"):
                    try:
                        os.unlink(os.path.join(d, n + ext))
                    except OSError:
                        pass
        running = still
    return outs


_RES = re.compile(r"=\s*(.*?)\s*:\s*list", re.S)


def parse_failing(out):
    """Parse the printed value of type list (nat * list nat): returns
    {id: [codes]}; raises if Coq did not print a value."""
    rc, txt = out
    m = _RES.search(txt)
    if rc != 0 or not m:
        raise RuntimeError("coq evaluation failed:\n" + txt[-3000:])
    body = m.group(1).replace('%nat', '')
    res = {}
    body = re.sub(r"\s+", " ", body)
    for mm in re.finditer(r"\(\s*(\d+)\s*,\s*\[([^\]]*)\]\s*\)", body):
        res[int(mm.group(1))] = [int(c) for c in re.findall(r"\d+", mm.group(2))]
    return res


def parse_natlist(out):
    rc, txt = out
    m = _RES.search(txt)
    if rc != 0 or not m:
        raise RuntimeError("coq evaluation failed:\n" + txt[-3000:])
    return [int(c) for c in re.findall(r"\d+", m.group(1).replace("%nat", ""))]


def shard(items, per):
    return [items[i:i + per] for i in range(0, len(items), per)]


# ---------------------------------------------------------------- theorems
def props_assumptions(pid):
    """Theorems of Props/<pid>.v with the axioms Print Assumptions reports
    (parsed from the compile log kept by the Makefile run: we re-run coqc
    on the Props file, which is cheap, to obtain the output)."""
    f = os.path.join(COQDIR, "theories", "Props", pid + ".v")
    if not os.path.exists(f):
        return [], []
    pd = os.path.join(WORK, "props", "run-%d" % os.getpid())      # per process: concurrent checks never share an output file
    os.makedirs(pd, exist_ok=True)
    p = subprocess.run(["timeout", "900", "coqc", "-Q", "theories", "PV", "-o",
                        os.path.join(pd, pid + ".vo"), "theories/Props/%s.v" % pid], cwd=COQDIR, stdout=subprocess.PIPE,
                       stderr=subprocess.STDOUT, text=True)
    shutil.rmtree(pd, ignore_errors=True)
    src = open(f).read()
    thms = re.findall(r"^(?:Theorem|Example|Corollary)\s+([A-Za-z0-9_']+)", src, re.M)
    if p.returncode != 0:
        raise RuntimeError("Props/%s.v does not compile:\n%s" % (pid, p.stdout[-3000:]))
    out = p.stdout
    axioms = []
    for blk in re.split(r"\n(?=Closed under|Axioms:)", "\n" + out):
        if blk.startswith("Axioms:"):
            for line in blk.splitlines()[1:]:
                mm = re.match(r"^([A-Za-z0-9_.']+)\s*:", line)
                if mm:
                    axioms.append(mm.group(1))
    return thms, sorted(set(axioms))


ALLOWED_AXIOMS = {
    "ClassicalDedekindReals.sig_forall_dec", "ClassicalDedekindReals.sig_not_dec",
    "FunctionalExtensionality.functional_extensionality_dep",
}

TRUSTED_BASE = [
    "Coq 8.16.1 kernel + vm_compute (no native_compute); no extraction",
    "axioms: none declared; Print Assumptions of every Props theorem is parsed on each run",
    "hand-written Gallina models (tied to /repo only through the behavioural correspondence run on each check)",
    "Python harness: case generation, float->exact dyadic conversion, Gallina literal emitters, result parser, matrix extraction by unit vectors",
    "numerical libraries used by pylops (numpy/scipy/pyfftw/pywt/numba/BLAS) are oracles",
]


# ---------------------------------------------------------------- reporting
def repo_fingerprint():
    h = hashlib.sha256()
    for root, dirs, files in os.walk(os.path.join(REPO, "pylops")):
        dirs.sort()
        if "__pycache__" in root:
            continue
        for f in sorted(files):
            if f.endswith(".py"):
                p = os.path.join(root, f)
                h.update(p.encode())
                h.update(open(p, "rb").read())
    return h.hexdigest()


def harness_fingerprint():
    h = hashlib.sha256()
    for root in (os.path.join(VERIF, "harness"), os.path.join(COQDIR, "theories")):
        for r, dirs, files in os.walk(root):
            dirs.sort()
            for f in sorted(files):
                if f.endswith((".py", ".v")):
                    h.update(f.encode())
                    h.update(open(os.path.join(r, f), "rb").read())
    return h.hexdigest()


def cache_file(name, tier):
    d = os.path.join(VERIF, ".cache")
    os.makedirs(d, exist_ok=True)
    return os.path.join(d, "%s-%s-%s-%s-%d.pkl" % (name, repo_fingerprint()[:16], harness_fingerprint()[:12], tier, seed()))


def load_known():
    p = os.path.join(VERIF, "known_findings.json")
    if not os.path.exists(p):
        return []
    return json.load(open(p)).get("findings", [])


class Report:
    """Collects the outcome of one check run and writes evidence/<id>.json."""

    def __init__(self, pid, tier):
        self.pid = pid
        self.tier = tier
        self.t0 = time.time()
        self.violations = []      # (summary, replay-dict)
        self.known = []
        self.cov = {}
        self.samples = []
        self.assumptions = []
        self.notes = []

    def violation(self, what, replay, no_input=False):
        os.makedirs(REPLAYS, exist_ok=True)
        body = json.dumps(replay, sort_keys=True, default=str)
        h = hashlib.sha256(body.encode()).hexdigest()[:12]
        path = os.path.join(REPLAYS, "%s-%s.json" % (self.pid, h))
        replay = dict(replay)
        replay["property"] = self.pid
        replay["what"] = what
        replay["replay_cmd"] = "./check replay %s" % path
        with open(path, "w") as f:
            json.dump(replay, f, indent=1, default=str)
        self.violations.append((what, path, no_input))

    def known_finding(self, fid, what):
        if (fid, what) not in self.known:
            self.known.append((fid, what))

    def finish(self, level="proof"):
        wall = time.time() - self.t0
        cov = dict(self.cov)
        cov.setdefault("samples", self.samples[:8] or ["(none)"])
        cov.setdefault("trusted_base", TRUSTED_BASE)
        ev = {
            "property_id": self.pid, "tier": self.tier, "seed": seed(), "level": level,
            "coverage": cov, "assumptions": self.assumptions, "wall_s": round(wall, 2),
            "violations": len(self.violations),
            "known_findings": ["%s: %s" % k for k in self.known],
            "notes": self.notes,
        }
        os.makedirs(EVID, exist_ok=True)
        with open(os.path.join(EVID, self.pid + ".json"), "w") as f:
            json.dump(ev, f, indent=1, default=str)
        for fid, what in self.known:
            print("KNOWN-FINDING: property=%s %s" % (self.pid, what))
        seen = set()
        for what, path, no_input in self.violations[:20]:
            if path in seen:
                continue
            seen.add(path)
            print("VIOLATION property=%s replay=%s%s" % (self.pid, path, " no-failing-input-found" if no_input else ""))
            print("  " + what)
        print("%s %s: %s (%.1fs)" % (self.pid, self.tier, "VIOLATIONS=%d" % len(self.violations)
                                     if self.violations else "ok", wall))
        return 1 if self.violations else 0
