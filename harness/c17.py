"""C17 — dense, sparse and explicit views agree with the operator.
Model: an operator is multiplication by the matrix C whose columns are
Op(e_j) (theorems C17_dense_of_columns / C17_dense_of_adjoint_columns: both
paths of todense() of the model return C).  Correspondence, inside Coq:
todense(), tosparse().toarray(), .A (explicit) ~ C entrywise; explicit trace
~ sum of diagonal of C; eigs() power sums ~ trace(C^k) (exact certificate);
Op / y satisfies C x = y (square) or the normal equations (rectangular)."""
import json
import os
import time

import numpy as np

from . import common, zoo

PID = "C17"
CANARY = 999999
TOL = 1e-9


def columns(op):
    m, n = op.shape
    dt = np.dtype(op.dtype)
    C = np.zeros((m, n), dtype=complex)
    for j in range(n):
        e = np.zeros(n, dtype=dt)
        e[j] = 1
        C[:, j] = op.matvec(e)
    return C


def compounds():
    """Compound expressions over MatrixMult leaves (explicit must be dropped,
    views must still be right; wide ones use the adjoint path)."""
    import pylops
    out = []
    A = zoo._leaf(("c17", "A"), 3, 4)
    B = zoo._leaf(("c17", "B"), 3, 4)
    Cc = zoo._leaf(("c17", "C"), 4, 2, True)
    D = zoo._leaf(("c17", "D"), 3, 3, True)
    out += [("A+B", A + B), ("A-B", A - B), ("A.H", A.H), ("A.T", A.T), ("2*A", 2 * A), ("(1+2j)*D", (1 + 2j) * D),
            ("A*Cc", A * Cc), ("D**2", D ** 2), ("D.conj()", D.conj()), ("D.H*D", D.H * D), ("-A", -A),
            ("VStack", pylops.VStack([A, B])), ("HStack", pylops.HStack([A, B])), ("BlockDiag", pylops.BlockDiag([A, Cc])),
            ("A.apply_columns", A.apply_columns([0, 2])), ("Cc.toreal", Cc.toreal()), ("row", zoo._leaf(("c17", "r"), 1, 4)),
            ("col", zoo._leaf(("c17", "c"), 4, 1, True)), ("(A.H).H", A.H.H), ("D.T.T", D.T.T),
            # wide operators (adjoint + conjugate path of todense) under complex scalars / products / wrappers
            ("(2-3j)*A", (2 - 3j) * A), ("A*(1+1j)", A * (1 + 1j)), ("1j*row", 1j * zoo._leaf(("c17", "r"), 1, 4)),
            ("1j*Restriction", 1j * pylops.Restriction(8, np.array([1, 4, 6]), dtype="complex128")),
            ("(1+2j)*(R@M)", (1 + 2j) * (pylops.Restriction(5, np.array([0, 3]), dtype="complex128") @ zoo._leaf(("c17", "M"), 5, 7, True))),
            ("Cc.H (wide)", Cc.H), ("Cc.T (wide)", Cc.T), ("Cc.H.conj()", Cc.H.conj()), ("(Cc.H)*D2", Cc.H * zoo._leaf(("c17", "D2"), 4, 4, True)),
            ("HStack cplx", pylops.HStack([D, 2j * D])),
            # complex action under a REAL declared dtype (Diagonal's default dtype), through the generic matmat
            ("Dc*D2 (real declared dtype)", pylops.Diagonal(np.array([1 + 2j, 3 - 1j, 2j, 1.0])) * pylops.Diagonal(np.array([2.0, 1, -1, 3]))),
            ("Dc+I (real declared dtype)", pylops.Diagonal(np.array([1 + 2j, 3 - 1j, 2j])) + pylops.Identity(3)),
            # wide compounds containing a power (todense goes through rmatmat of the power)
            ("B2*A3**2", zoo._leaf(("c17", "B2"), 2, 3) * zoo._leaf(("c17", "A3"), 3, 3) ** 2),
            ("B2c*(A3c**2+A3c)", zoo._leaf(("c17", "B2c"), 2, 3, True) * (zoo._leaf(("c17", "A3c"), 3, 3, True) ** 2 + zoo._leaf(("c17", "A3c"), 3, 3, True))),
            ("(A3**3*B2.H).H", (zoo._leaf(("c17", "A3"), 3, 3) ** 3 * zoo._leaf(("c17", "B2"), 2, 3).H).H),
            ("tiny*FirstDerivative", 2.0 ** -34 * pylops.FirstDerivative(6)), ("Diagonal tiny", pylops.Diagonal(np.array([1.0, 2.0 ** -30, 2.0 ** -40, 3.0]))),
            ("Diagonal tiny imag", pylops.Diagonal(np.array([1.0, 2.0 ** -35 * 1j, 2.0]), dtype="complex128")), ("-(1j*A)", -(1j * A)), ("(1j*A)**1", (1j * zoo._leaf(("c17", "S"), 3, 3)) ** 2)]
    return out


def explicit_cases(tier):
    import pylops
    out = []
    shapes = [(1, 1), (2, 2), (3, 3), (4, 4), (4, 2), (2, 4), (1, 3), (3, 1)] + ([(5, 5), (5, 3), (3, 5)] if tier == "thorough" else [])
    for (m, n) in shapes:
        for cplx in (False, True):
            for rep in range(1 if tier == "quick" else 3):
                r = common.rng("c17", m, n, cplx, rep)
                while True:
                    A = np.array([[r.randint(-4, 4) for _ in range(n)] for _ in range(m)], dtype=float)
                    if cplx:
                        A = A + 1j * np.array([[r.randint(-3, 3) for _ in range(n)] for _ in range(m)], dtype=float)
                    if np.linalg.matrix_rank(A) == min(m, n) and np.linalg.cond(A) < 50:
                        break
                out.append(("MatrixMult%s %dx%d #%d" % ("C" if cplx else "R", m, n, rep), pylops.MatrixMult(A, dtype=A.dtype), A, r))
    # special explicit matrices: complex symmetric (not Hermitian), complex diagonal, tiny entries, rank deficient wide
    r = common.rng("c17", "special")
    S = np.array([[2 + 1j, 1 - 1j, 0], [1 - 1j, 3j, 2], [0, 2, 1 + 2j]])
    out.append(("MatrixMult complex-symmetric 3x3", pylops.MatrixMult(S, dtype=S.dtype), S, r))
    Dg = np.diag(np.array([1 + 2j, 3 - 1j, 2j]))
    out.append(("MatrixMult complex-diagonal 3x3", pylops.MatrixMult(Dg, dtype=Dg.dtype), Dg, r))
    T = np.array([[3.0, 1, 0], [1, 2, 1], [0, 1, 4]]) * 2.0 ** -33
    out.append(("MatrixMult tiny entries 3x3", pylops.MatrixMult(T), T, r))
    import scipy.sparse as sps
    for cplx in (False, True):
        for fmt in ("csr", "csc"):
            A = np.array([[2.0, 0, 1, 0], [0, 3, 0, 0], [1, 0, 4, -1], [0, 2, 0, 5]]) * ((1 + 1j) if cplx else 1) + (np.diag([0, 1j, 0, 0]) if cplx else 0)
            out.append(("MatrixMult sparse %s %s 4x4" % (fmt, "C" if cplx else "R"), pylops.MatrixMult(getattr(sps, fmt + "_matrix")(A), dtype=A.dtype), A, r))
    return out


def _views(op):
    views = [("todense", np.asarray(op.todense()))]
    # tosparse() casts to the DECLARED dtype by design: where the declaration is real and the action complex (a user
    # mis-declaration, Diagonal(complex) with its default dtype) only the dense view is judged
    cplx_action = np.iscomplexobj(views[0][1]) and not np.iscomplexobj(np.ones(1, dtype=op.dtype))
    if not cplx_action:
        views.append(("tosparse", np.asarray(op.tosparse().toarray())))
    if op.explicit and hasattr(op, "A"):
        A = op.A
        views.append(("A", np.asarray(A.toarray() if hasattr(A, "toarray") else A)))
    return views


def _explicit_extras(rec, op, C, r, cplx):
    """Quantities derived from the explicit view: trace, eigs, '/'."""
    m, n = op.shape
    if not (op.explicit and hasattr(op, "A")):
        return
    sparse = hasattr(op.A, "toarray")
    if not (isinstance(op.A, np.ndarray) or (sparse and m == n)):      # sparse explicit matrices: square only (spsolve)
        return
    if np.linalg.matrix_rank(C, tol=1e-14 * np.abs(C).max()) < min(m, n) or np.linalg.cond(C) > 1e3:
        return
    rec["cplx"] = True          # eigenvalues of real matrices may be complex: evaluate over Gaussian rationals
    if sparse:
        rec["trace"] = complex(op.trace(method="explicit"))
    elif m == n:
        rec["trace"] = complex(op.trace(method="explicit"))
        rec["eigs"] = (np.asarray(op.eigs(), dtype=complex), C)
    else:
        sig = np.asarray(op.eigs(), dtype=complex)
        rec["eigs"] = (sig ** 2, C.conj().T @ C)
    divs = []
    for k in range(2):
        y = np.array([complex(r.randint(-5, 5), r.randint(-5, 5) if cplx else 0) for _ in range(m)])
        if not cplx:
            y = y.real
        x = np.asarray(op / y)
        divs.append((y, x, m > n))
        xn = np.asarray(op.div(y, densesolver="numpy"))
        divs.append((y, xn, m > n))
    if not cplx:
        # real explicit matrix, complex right-hand side, both dense solvers
        yc = np.array([complex(r.randint(-5, 5), r.randint(-5, 5)) for _ in range(m)])
        for ds in ("scipy", "numpy"):
            try:
                divs.append((yc, np.asarray(op.div(yc, densesolver=ds)), m > n))
            except Exception as e:
                rec["error"] = "div(densesolver=%s) with a complex right-hand side raised %s" % (ds, type(e).__name__)
    rec["div"] = divs


def gather(tier):
    recs = []
    g = zoo.grid(tier)
    idx = 0
    for fam, params in g:
        rec = {"id": idx, "what": fam, "params": params, "src": "zoo"}
        idx += 1
        try:
            op = zoo.build(fam, params)
            rec["cplx"] = bool(np.issubdtype(np.dtype(op.dtype), np.complexfloating)) or not op.clinear
            C = columns(op)
            rec.update(C=C, views=_views(op), shape=list(op.shape))
        except Exception as e:
            rec["error"] = "%s: %s" % (type(e).__name__, str(e)[:300])
        recs.append(rec)
    for name, op in compounds():
        rec = {"id": idx, "what": "compound " + name, "params": {}, "src": "compound"}
        idx += 1
        try:
            rec["cplx"] = bool(np.issubdtype(np.dtype(op.dtype), np.complexfloating)) or not op.clinear
            C = columns(op)
            rec.update(C=C, views=_views(op), shape=list(op.shape), explicit=bool(op.explicit))
            _explicit_extras(rec, op, C, common.rng("c17c", name), rec["cplx"])
        except Exception as e:
            rec["error"] = "%s: %s" % (type(e).__name__, str(e)[:300])
        recs.append(rec)
    for name, op, A, r in explicit_cases(tier):
        rec = {"id": idx, "what": name, "params": {"A": [[str(t) for t in row] for row in A]}, "src": "explicit"}
        idx += 1
        try:
            cplx = np.iscomplexobj(A)
            rec["cplx"] = cplx
            C = columns(op)
            m, n = op.shape
            rec.update(C=C, views=_views(op), shape=[m, n], explicit=bool(op.explicit))
            if not op.explicit:
                rec["error"] = "MatrixMult is not flagged explicit"
            _explicit_extras(rec, op, C, r, cplx)
        except Exception as e:
            rec["error"] = "%s: %s" % (type(e).__name__, str(e)[:300])
        recs.append(rec)
    return recs


def _lit(rec):
    c = rec["cplx"]
    p = "vc" if c else "vr"
    f = (lambda M: common.mlit(np.asarray(M, dtype=complex), True)) if c else (lambda M: common.mlit(np.asarray(M).real))
    v = (lambda x: common.vlit(np.asarray(x, dtype=complex), True)) if c else (lambda x: common.vlit(np.asarray(x).real))
    s = (lambda a: common.glit(a)) if c else (lambda a: common.qlit(complex(a).real))
    # a view that is bitwise identical to C is written as a reference to C (same value, shorter literal)
    views = "[" + ";\n ".join(("C_%d" % rec["id"]) if (V.shape == rec["C"].shape and np.array_equal(V, rec["C"])) else f(V) for _, V in rec["views"]) + "]"
    tr = "Some %s" % s(rec["trace"]) if "trace" in rec else "None"
    eg = "Some (%s, %s)" % (v(rec["eigs"][0]), f(rec["eigs"][1])) if "eigs" in rec else "None"
    dv = "[" + "; ".join("(%s, %s, %s)" % (v(y), v(x), "true" if ne else "false") for (y, x, ne) in rec.get("div", [])) + "]"
    return ("Definition C_%d := %s.\nDefinition case_%d := {| %s_id := %d%%nat; %s_n := %d%%nat; %s_C := C_%d;\n %s_views := %s;\n %s_trace := %s; %s_eigs := %s; %s_div := %s |}.\n"
            % (rec["id"], f(rec["C"]), rec["id"], p, rec["id"], p, rec["shape"][1], p, rec["id"], p, views, p, tr, p, eg, p, dv))


def coq_eval(recs):
    d = common.workdir(PID)
    ok = [r for r in recs if "error" not in r and all(V.shape == r["C"].shape for _, V in r["views"])]
    # a view that is bitwise identical to the column matrix needs no tolerance judgement
    for r in ok:
        r["identical"] = all(np.array_equal(V, r["C"]) for _, V in r["views"]) and not ("trace" in r or "eigs" in r or r.get("div"))
    ok = [r for r in ok if not r["identical"]]
    can = {"id": CANARY, "cplx": False, "shape": [2, 2], "C": np.array([[1.0, 2], [3, 4]]),
           "views": [("todense", np.array([[1.0, 2], [3, 5]]))], "trace": 6.0,
           "eigs": (np.array([1.0, 1.0]), np.array([[1.0, 2], [3, 4]])), "div": [(np.array([1.0, 1]), np.array([1.0, 1]), False)]}
    ok = ok + [can]
    ok.sort(key=lambda r: -r["C"].size)
    nsh = max(1, min(3 * common.NPROC, len(ok) // 6 + 1))
    shards = [ok[i::nsh] for i in range(nsh)]
    names = []
    tq = common.qlit(__import__("fractions").Fraction(TOL).limit_denominator(10 ** 15))
    for k, sh in enumerate(shards):
        if not sh:
            continue
        nm = "views_%d" % k
        names.append(nm)
        with open(os.path.join(d, nm + ".v"), "w") as f:
            f.write("From Coq Require Import QArith Qcanon List.\nFrom PV Require Import Check GaussQc CheckC17.\nImport ListNotations.\nOpen Scope Qc_scope.\n")
            f.write("Definition tol : Qc := %s.\n" % tq)
            for r in sh:
                f.write(_lit(r))
            f.write("Definition rc : list caseR := [%s].\n" % "; ".join("case_%d" % r["id"] for r in sh if not r["cplx"]))
            f.write("Definition cc : list caseC := [%s].\n" % "; ".join("case_%d" % r["id"] for r in sh if r["cplx"]))
            f.write("Eval vm_compute in (failing vr_id (chkR tol) rc ++ failing vc_id (chkC tol) cc).\n")
    outs = common.run_coq_files(d, names)
    res = {}
    for n in names:
        res.update(common.parse_failing(outs[n]))
    c = sorted(res.pop(CANARY, []))
    if c != [1, 2, 3, 10]:
        raise RuntimeError("canary not reported as expected (got %s): pipeline broken" % c)
    return res


def replay(rp):
    if rp.get("src") == "zoo":
        op = zoo.build(rp["what"], rp["params"])
    elif rp.get("src") == "explicit":
        import pylops
        A = np.array([[complex(t) for t in row] for row in rp["params"]["A"]])
        if not np.iscomplexobj(A) or np.abs(A.imag).max() == 0:
            A = A.real
        op = pylops.MatrixMult(A, dtype=A.dtype)
    else:
        op = dict(compounds())[rp["what"].replace("compound ", "")]
    C = columns(op)
    bad = False
    try:
        if rp["view"] == "todense":
            V = op.todense()
        elif rp["view"] == "tosparse":
            V = op.tosparse().toarray()
        elif rp["view"] == "A":
            V = op.A.toarray() if hasattr(op.A, "toarray") else op.A
        elif rp["view"] == "trace":
            bad = abs(op.trace(method="explicit") - np.trace(C)) > 1e-9 * (1 + np.abs(C).sum())
            V = None
        elif rp["view"] == "eigs":
            e = np.sort_complex(np.asarray(op.eigs(), dtype=complex))
            ref = np.sort_complex(np.linalg.eigvals(C) if C.shape[0] == C.shape[1] else np.sqrt(np.linalg.eigvals(C.conj().T @ C)))
            bad = np.abs(e - ref).max() > 1e-7 * (1 + np.abs(ref).max())
            V = None
        elif rp["view"] == "div":
            y = np.array([complex(t) for t in rp["y"]])
            x = op / (y if np.iscomplexobj(C) and np.abs(C.imag).max() > 0 else y.real)
            r = C @ x - y
            bad = np.abs(C.conj().T @ r if C.shape[0] > C.shape[1] else r).max() > 1e-7 * (1 + np.abs(y).max()) * (1 + np.abs(C).sum())
            V = None
        else:
            V = None
        if V is not None:
            V = np.asarray(V)
            bad = V.shape != C.shape or np.abs(V - C).max() > 1e-9 * (1 + np.abs(C).max())
    except Exception as e:
        print("raised", type(e).__name__, e)
        bad = True
    print("reproduced" if bad else "not reproduced")
    return 1 if bad else 0


def main(tier):
    R = common.Report(PID, tier)
    common.coq_build()
    thms, axioms = common.props_assumptions(PID)
    t0 = time.time()
    recs = gather(tier)
    t1 = time.time()
    codes = coq_eval(recs)
    t2 = time.time()
    nontriv = set()
    evals = 0
    for rec in recs:
        base = {"what": rec["what"], "params": rec["params"], "src": rec["src"]}
        if "error" in rec:
            R.violation("a view raised: %s %s: %s" % (rec["what"], rec["params"], rec["error"]), dict(base, error=rec["error"], view="todense"))
            continue
        evals += len(rec["views"]) + ("trace" in rec) + ("eigs" in rec) + len(rec.get("div", []))
        if np.abs(rec["C"]).max(initial=0) > 0:
            nontriv.add(rec["id"])
        for name, V in rec["views"]:
            if V.shape == rec["C"].shape and name == "tosparse":
                # 'exactly the matrix': a stored non-zero of the operator must not be dropped (whatever its size)
                drop = (V == 0) & (np.abs(rec["C"]) > 1e-9 * np.abs(rec["C"]).max(initial=0))    # (below that: rounding noise of FFT-based kernels)
                if drop.any():
                    i, j = map(int, np.argwhere(drop)[0])
                    R.violation("tosparse() of %s %s drops the non-zero entry (%d,%d) = %s of the operator's matrix" % (rec["what"], rec["params"], i, j, rec["C"][i, j]),
                                dict(base, view="tosparse", row=i, col=j, observed="0", expected=str(rec["C"][i, j])))
            if V.shape != rec["C"].shape:
                R.violation("%s() of %s %s has shape %s, operator columns have %s" % (name, rec["what"], rec["params"], V.shape, rec["C"].shape),
                            dict(base, view=name))
        for c in codes.get(rec["id"], []):
            if c >= 10:
                name, V = rec["views"][c - 10]
                D = np.abs(V - rec["C"])
                i, j = np.unravel_index(int(np.argmax(D)), D.shape)
                R.violation("%s of %s %s differs from Op(e_%d) at row %d: %s vs %s" % (name, rec["what"], rec["params"], j, i, V[i, j], rec["C"][i, j]),
                            dict(base, view=name, row=int(i), col=int(j), observed=str(V[i, j]), expected=str(rec["C"][i, j])))
            elif c == 1:
                R.violation("explicit trace of %s = %s but sum of diagonal = %s" % (rec["what"], rec["trace"], np.trace(rec["C"])), dict(base, view="trace"))
            elif c == 2:
                R.violation("eigs() of %s inconsistent with the dense matrix (power sums)" % rec["what"], dict(base, view="eigs", returned=[str(t) for t in rec["eigs"][0]]))
            elif c == 3:
                y = rec["div"][0][0]
                R.violation("Op / y of %s does not solve the dense system" % rec["what"], dict(base, view="div", y=[str(t) for t in y]))
    R.cov.update(obligations=len(thms) + len(recs), discharged=len(thms) + sum(1 for r in recs if "error" not in r and not codes.get(r["id"])),
                 checker_cmd="make -C coq + coqc Props/C17.v (Print Assumptions) + coqc .work/C17/views_*.v (vm_compute)",
                 theorems=thms, axioms_reported=axioms, evaluations=evals, distinct_nontrivial=len(nontriv),
                 rule="zoo configurations + compound expressions + explicit MatrixMult (real/complex; square, tall, wide, single row/column); evaluation = one view/trace/eigs/div call compared in Coq with the matrix of columns Op(e_j); non-trivial = distinct operator with non-zero matrix",
                 bitwise_identical_views=sum(1 for r in recs if r.get("identical")),
                 sources={k: sum(1 for r in recs if r["src"] == k) for k in ("zoo", "compound", "explicit")},
                 wide=sum(1 for r in recs if "shape" in r and r["shape"][0] < r["shape"][1]), t_python=round(t1 - t0, 1), t_coq=round(t2 - t1, 1))
    R.samples = [{"what": r["what"], "params": r["params"], "shape": r.get("shape")} for r in recs[::max(1, len(recs) // 6)]]
    if axioms and not set(axioms) <= common.ALLOWED_AXIOMS:
        R.violation("Props/C17.v depends on unexpected axioms %s" % axioms, {"axioms": axioms}, no_input=True)
    return R.finish()
