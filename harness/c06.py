"""C06 — parallel kernels are schedule-independent (race-free).

Decision: theorem Props/C06 (disjoint write/update footprints => every
partition of the iterations into threads and every interleaving of the
read/write events gives the sequential result; overlap => a lost-update
schedule exists), instantiated per kernel and geometry by the Coq-evaluated
obligation `footprints_disjointb` on the footprints MEASURED on the Python
body of the real kernel, for exactly those loops that the variant really
called runs in parallel (prange in the source AND jitted with parallel=True).
Runtime experiments (fresh interpreters, 1 / 4 / 16 numba threads,
repeated, numba vs numpy engine; serial vs nproc=2 stacks) are compared in Coq.
"""
import json
import os
import subprocess
import sys
import time

from . import common

PID = "C06"
OWN_V = ["State/Par.v", "Corr/CheckC06.v", "Props/C06.v"]
FP_THREADS = "4"          # any value != 1: makes the module-level `parallel` switches True
THREADS = ("1", "16")      # NUMBA_NUM_THREADS of the fresh interpreters; the 16-thread build is also run with 4 threads

# genuine, still present defects of /repo (proposed entries of known_findings.json): matched on operator kind + direction (+ kernel)
PROPOSED_KNOWN = []   # (NonStationaryFilters2D numba forward race found while building: repaired in /repo by 11fd2da)


def known_for(kind, direction):
    ks = [k for k in common.load_known() if k.get("property") == PID] + PROPOSED_KNOWN
    for k in ks:
        if k.get("kind") == kind and k.get("direction") == direction:
            return k
    return None


# ---------------------------------------------------------------- plumbing
def build_own():
    """compile this property's .v files when their .vo is missing / outdated
    (until the integrator adds them to _CoqProject)"""
    th = os.path.join(common.COQDIR, "theories")
    newest_dep = 0.0
    for rel in OWN_V:
        v = os.path.join(th, rel)
        vo = v[:-2] + ".vo"
        if not os.path.exists(vo) or os.path.getmtime(vo) < max(os.path.getmtime(v), newest_dep):
            p = subprocess.run(["timeout", "600", "coqc", "-Q", "theories", "PV", "theories/" + rel], cwd=common.COQDIR,
                               stdout=subprocess.PIPE, stderr=subprocess.STDOUT, text=True)
            if p.returncode != 0:
                sys.stdout.write(p.stdout[-3000:])
                raise SystemExit("coq build of %s failed" % rel)
        newest_dep = max(newest_dep, os.path.getmtime(vo))
    bad = subprocess.run("grep -nE '\\b(Admitted|admit|Axiom|Parameter|Conjecture)\\b' " + " ".join("theories/" + r for r in OWN_V) + " || true",
                         shell=True, cwd=common.COQDIR, stdout=subprocess.PIPE, text=True).stdout.strip()
    if bad:
        print(bad)
        raise SystemExit("forbidden declaration in the C06 development")


def spawn(args, threads):
    env = dict(os.environ)
    env["NUMBA_NUM_THREADS"] = threads
    env["PYTHONPATH"] = "%s:%s" % (common.REPO, common.VERIF)
    return subprocess.Popen([sys.executable, "-W", "ignore", "-m", "harness.c06_worker"] + args, cwd=common.VERIF, env=env,
                            stdout=subprocess.PIPE, stderr=subprocess.PIPE, text=True)


def collect(p, timeout=1500):
    try:
        out, err = p.communicate(timeout=timeout)
    except subprocess.TimeoutExpired:
        p.kill()
        return {"worker_error": "timeout"}
    k = out.rfind("@@C06@@")
    if k < 0:
        return {"worker_error": (err or out)[-2000:]}
    return json.loads(out[k + 7:])


def run_pool(jobs, width=10):
    """jobs: list of (key, args, threads) -> {key: result}"""
    res, running, pending = {}, [], list(jobs)
    while pending or running:
        while pending and len(running) < width:
            key, args, th = pending.pop(0)
            running.append((key, spawn(args, th)))
        key, p = running.pop(0)
        res[key] = collect(p)
    return res


def overlap_witness(fps):
    owner = {}
    for i, f in enumerate(fps):
        for a in f:
            if a in owner and owner[a] != i:
                return owner[a], i, a
            owner.setdefault(a, i)
    return None


# ------------------------------------------------------------------ replay
def replay(rp):
    mode = rp.get("mode")
    if mode == "race":
        r = collect(spawn(["race", json.dumps(rp["spec"]), str(rp.get("reps", 50)), rp["direction"]], str(rp["threads"])))
        print(json.dumps(r)[:1500])
        bad = any(x.get("wrong_calls", 0) > 0 for x in r.get("results", []))
        print("reproduced: %s" % ("numba result differs from the numpy engine" if bad else "no (a race needs not show on every run; repeat)"))
        return 1 if bad else 0
    if mode == "footprint":
        r = collect(spawn(["fpone", json.dumps(rp["spec"]), rp["direction"]], FP_THREADS))
        bad = False
        for c in r.get("cases", []):
            for reg in c.get("regions", []):
                w = overlap_witness(reg["fps"])
                if c.get("parallel_flag") and w:
                    print("kernel %s (%s): iterations %d and %d of the parallel loop both update address %d" % (c["kernel"], rp["direction"], w[0], w[1], w[2]))
                    bad = True
        print("reproduced" if bad else "not reproduced")
        return 1 if bad else 0
    if mode == "mproc":
        r = collect(spawn(["mproc"], "1"))
        bad = any(x.get("wrong_calls", 0) > 0 or "error" in x for x in r.get("results", []))
        print(json.dumps(r)[:1500])
        print("reproduced" if bad else "not reproduced")
        return 1 if bad else 0
    print("nothing to run for this replay (theorem-level)")
    return 1


# -------------------------------------------------------------------- main
def main(tier):
    R = common.Report(PID, tier)
    common.coq_build()
    build_own()
    thms, axioms = common.props_assumptions(PID)
    t0 = time.time()
    reps = 5 if tier == "quick" else 20

    # ---- launch all experiments (fresh interpreters)
    nrt = int(collect(spawn(["nruntime", tier], "1")).get("n", 0))
    jobs = [("fp", ["footprints", tier], FP_THREADS), ("mproc", ["mproc"], "1")]
    for th in THREADS:
        for si in range(nrt):
            jobs.append((("rt", th, si), ["runtime", tier, str(reps), str(si)], th))
    res = run_pool(jobs, width=12)
    t_py = time.time() - t0
    for key, r in res.items():
        if "worker_error" in r:
            raise RuntimeError("C06 worker %s failed:\n%s" % (key, r["worker_error"]))

    # ---- footprints -> Coq
    fp = res["fp"]
    fpcases, info = [], {}
    cid = 0
    serial_recorded, errors = [], []
    for c in fp["cases"]:
        if "error" in c:
            errors.append(c)
            continue
        if not c["regions"]:
            serial_recorded.append({"kernel": c["kernel"], "direction": c["direction"], "kind": c["spec"]["kind"],
                                    "why": c.get("serial_reason", ""), "outer_loops": [l["kind"] + ":" + l["var"] for l in c["loops"] if l["depth"] == 0]})
            continue
        for reg in c["regions"]:
            cid += 1
            info[cid] = (c, reg)
            fpcases.append((cid, bool(c["parallel_flag"]), reg["fcols"], reg["fps"]))
    CAN_FP = 9999
    fpcases.append((CAN_FP, True, 0, [[0, 1, 2], [2, 3]]))          # canary: overlapping parallel footprints
    d = common.workdir(PID)
    names = []
    for k, sh in enumerate(common.shard(fpcases, max(1, (len(fpcases) + 11) // 12))):
        body = ";\n".join("{| fid := %d; fpar := %s; fcols := %d; ffps := [%s] |}" % (
            i, "true" if par else "false", fc, "; ".join(common.natlist(f) for f in fps)) for (i, par, fc, fps) in sh)
        with open(os.path.join(d, "fp_%d.v" % k), "w") as f:
            f.write("From PV Require Import Dict QcInst Check Par CheckC06.\nImport ListNotations.\n"
                    "Definition cases : list fpcase := [\n%s].\nEval vm_compute in (failing_fp cases).\n" % body)
        names.append("fp_%d" % k)

    # ---- runtime values -> Coq
    vals, vinfo = [], {}
    vid = 0
    rt_errors = []
    for key, r in res.items():
        if key == "fp":
            continue
        for x in r.get("results", []):
            if "error" in x:
                rt_errors.append(dict(x, threads=key[1] if isinstance(key, tuple) else "mproc"))
                continue
            vid += 1
            vinfo[vid] = (("rt", str(x["threads"]), key[2]) if isinstance(key, tuple) else key, x)
            vals.append((vid, [(x["value"], x["reference"])]))
    CAN_V = 9998
    vals.append((CAN_V, [(1.0, 1.0 + 2.0 ** -20)]))                   # canary: differs by 1e-6 relative
    with open(os.path.join(d, "vals.v"), "w") as f:
        f.write("From Coq Require Import QArith Qcanon.\nFrom PV Require Import Dict QcInst Check CheckC06.\nImport ListNotations.\n"
                "Definition cases : list (nat * list (Qc * Qc)) := [\n%s].\nEval vm_compute in (failing_vals (q 1 1000000000) cases).\n"
                % ";\n".join("(%d%%nat, [%s])" % (i, "; ".join("(%s, %s)" % (common.qlit(a), common.qlit(b)) for a, b in ps)) for i, ps in vals))
    names.append("vals")
    t1 = time.time()
    outs = common.run_coq_files(d, names)
    codes = {}
    for n in names[:-1]:
        codes.update(common.parse_failing(outs[n]))
    vcodes = common.parse_failing(outs["vals"])
    if 1 not in codes.get(CAN_FP, []):
        raise RuntimeError("canary (overlapping footprints) was not flagged: pipeline broken")
    if 1 not in vcodes.get(CAN_V, []):
        raise RuntimeError("canary (wrong runtime value) was not flagged: pipeline broken")
    codes.pop(CAN_FP, None)
    vcodes.pop(CAN_V, None)

    # ---- overlapping parallel loops: model schedule + runtime search
    racy = {}
    for i, cs in codes.items():
        if 1 in cs:
            c, reg = info[i]
            racy.setdefault((c["spec"]["kind"], c["spec"].get("variant"), c["direction"], c["kernel"]), []).append((c, reg))
    lost_cases, lost_info = [], {}
    for n, (gk, lst) in enumerate(sorted(racy.items(), key=str)):
        c, reg = lst[0]
        w = overlap_witness(reg["fps"])
        lost_info[n + 1] = (gk, c, reg, w)
        lost_cases.append((n + 1, reg["fps"][w[0]], reg["fps"][w[1]], w[2]))
    model_lost = {}
    if lost_cases:
        lost_cases.append((9997, [0, 1], [2, 3], 2))                 # canary: no common cell -> no lost update
        with open(os.path.join(d, "lost.v"), "w") as f:
            f.write("From PV Require Import Dict QcInst Check Par CheckC06.\nImport ListNotations.\n"
                    "Eval vm_compute in (failing_lost [\n%s]).\n" % ";\n".join(
                        "(%d%%nat, (%s, %s, %d%%nat))" % (i, common.natlist(a), common.natlist(b), x) for i, a, b, x in lost_cases))
        lc = common.parse_failing(common.run_coq_files(d, ["lost"])["lost"])
        if 1 not in lc.get(9997, []):
            raise RuntimeError("canary (lost-update replay) was not flagged: pipeline broken")
        model_lost = {i: (1 not in lc.get(i, [])) for i, _, _, _ in lost_cases[:-1]}
    search_jobs = []
    for n, (gk, c, reg, w) in lost_info.items():
        big = collect(spawn(["bigspec", json.dumps(c["spec"])], "1")).get("spec") or c["spec"]
        search_jobs.append((n, ["race", json.dumps(big), "50", c["direction"]], "16"))
    sres = run_pool(search_jobs, width=6) if search_jobs else {}
    for n, (gk, c, reg, w) in lost_info.items():
        kind, variant, direction, kernel = gk
        r = (sres.get(n, {}).get("results") or [{}])[0]
        sched = ("model schedule (Par.overlap_lost_update): thread A runs iteration %d up to its read of cell %d, thread B runs iteration %d completely, "
                 "A writes back: B's update of cell %d is lost%s" % (w[0], w[2], w[1], w[2], "" if model_lost.get(n) else " [model replay did NOT differ]"))
        what = ("%s %s (%s): the loop over `%s` is a prange compiled with parallel=True and iterations %d and %d both update output address %d "
                "(geometry %s, %d colliding geometries)" % (kind, direction, kernel, next((l["var"] for l in c["loops"] if l["kind"] == "prange"), "?"),
                                                         w[0], w[1], w[2], json.dumps(c["spec"]), len(racy[gk])))
        kf = known_for(kind, direction)
        if kf and kf.get("kernel", kernel) == kernel:
            R.known_finding(kf["id"], kf["what"] + " [runtime now: %s/%s calls wrong with 16 threads]" % (r.get("wrong_calls"), r.get("reps")))
            continue
        if r.get("wrong_calls", 0) > 0:
            R.violation(what + "; on the real runtime with 16 threads %d of %d calls differ from engine='numpy' (rel. error %.3g)"
                        % (r["wrong_calls"], r["reps"], r["relerr"]),
                        {"mode": "race", "spec": r["spec"], "direction": direction, "threads": 16, "reps": 50, "kernel": kernel,
                         "overlap": {"iterations": [w[0], w[1]], "address": w[2], "measured_on": c["spec"]}, "schedule": sched,
                         "observed": {"value": r["value"], "reference": r["reference"], "relerr": r["relerr"], "wrong_calls": r["wrong_calls"]},
                         "script": "NUMBA_NUM_THREADS=16 python -m harness.c06_worker race '<spec>' 50 " + direction})
        else:
            R.violation(what + "; the runtime did not misbehave in 50 calls with 16 threads (%s); %s" % (r.get("error", "all calls agreed"), sched),
                        {"mode": "footprint", "spec": c["spec"], "direction": direction, "kernel": kernel,
                         "overlap": {"iterations": [w[0], w[1]], "address": w[2]}, "schedule": sched,
                         "theorem": "Props.C06_overlap_lost_update / obligation footprints_disjointb fails"}, no_input=True)

    # ---- runtime value disagreements
    for i, cs in vcodes.items():
        key, x = vinfo[i]
        if key == "mproc":
            R.violation("%s with nproc=2 differs from the serial result in %s mode (%d of %d calls)" % (x["op"], x["direction"], x["wrong_calls"], x["reps"]),
                        {"mode": "mproc", "op": x["op"], "direction": x["direction"], "value": x["value"], "reference": x["reference"]})
            continue
        kind, direction = x["spec"]["kind"], x["direction"]
        kf = known_for(kind, direction)
        if kf:
            R.known_finding(kf["id"], kf["what"])
            continue
        R.violation("%s(engine='numba') %s with NUMBA_NUM_THREADS=%s differs from engine='numpy': %d of %d calls, rel. error %.3g"
                    % (kind, direction, key[1], x["wrong_calls"], x["reps"], x["relerr"]),
                    {"mode": "race", "spec": x["spec"], "direction": direction, "threads": int(key[1]), "reps": 50,
                     "observed": {"value": x["value"], "reference": x["reference"], "relerr": x["relerr"], "wrong_calls": x["wrong_calls"]}})
    for e in errors:
        R.violation("kernel instrumentation failed on %s: %s" % (e["spec"], e["error"]), {"mode": "footprint", "spec": e["spec"], "direction": "forward",
                                                                                         "error": e["error"], "trace": e.get("trace")}, no_input=True)
    seen = set()
    for e in rt_errors:
        k = (json.dumps(e.get("spec", e.get("op"))), e.get("direction"))
        if k not in seen:
            seen.add(k)
            R.notes.append("not evaluated at runtime (engine='numba' variant raised; outside C06): %s %s: %s" % (
                (e.get("spec") or {}).get("kind", e.get("op")), e.get("direction"), e["error"][:160]))

    # ---- coverage
    par_regions = [i for i, (c, reg) in info.items() if c["parallel_flag"]]
    ser_regions = [i for i, (c, reg) in info.items() if not c["parallel_flag"]]
    nontriv = set()
    for i, (c, reg) in info.items():
        if reg["niter"] >= 2 and sum(len(f) for f in reg["fps"]) > 0:
            nontriv.add((c["kernel"], c["direction"], json.dumps(c["spec"], sort_keys=True), reg["region"]))
    rt_nontriv = set((str(k), json.dumps(x.get("spec", x.get("op")), sort_keys=True), x["direction"]) for k, x in vinfo.values() if x.get("nonzero"))
    per_kernel = {}
    for i, (c, reg) in info.items():
        e = per_kernel.setdefault(c["kernel"] + ":" + c["direction"] + ":" + c["spec"]["kind"],
                                  {"geometries": 0, "parallel": bool(c["parallel_flag"]), "iterations": 0, "cells": 0, "overlapping": 0, "row_owned": 0})
        e["geometries"] += 1
        e["iterations"] += reg["niter"]
        e["cells"] += sum(len(f) for f in reg["fps"])
        e["overlapping"] += 1 if ({1, 3} & set(codes.get(i, []))) else 0
        e["row_owned"] += 1 if (reg["fcols"] > 0 and not ({1, 2, 3} & set(codes.get(i, [])))) else 0
    failed_fp = sum(1 for i in par_regions if 1 in codes.get(i, []))
    R.cov.update(
        obligations=len(thms) + len(par_regions) + len(vinfo),
        discharged=len(thms) + len(par_regions) - failed_fp + len(vinfo) - len(vcodes),
        checker_cmd="make -C coq + coqc State/Par.v Corr/CheckC06.v Props/C06.v (Print Assumptions) + coqc .work/C06/fp_*.v vals.v lost.v "
                    "(vm_compute: footprints_disjointb / rows_ownedb on measured footprints, close 1e-9 on runtime values, lost-update replay)",
        theorems=thms, axioms_reported=axioms,
        evaluations=sum(reg["measured"] for c, reg in info.values()) + sum(x["reps"] for k, x in vinfo.values()),
        distinct_nontrivial=len(nontriv) + len(rt_nontriv),
        rule="footprint case = one (kernel, direction, geometry, parallel region): the Python body of the real kernel is run once per iteration of its "
             "outermost prange loop (module-level prange rebound, all-positive data, zeroed output) and the changed cells of every array argument / "
             "array allocated before the loop are the footprint; the loop is PARALLEL iff it is a prange in the source AST and the variant actually "
             "called (recorded through the module-level jit / dispatcher) has parallel=True (module switches evaluated with NUMBA_NUM_THREADS=%s); "
             "non-trivial = >= 2 iterations and non-empty footprints; runtime case = (threads, operator, direction) with non-zero reference, "
             "numba vs numpy engine, worst element over %d repetitions compared in Coq with close 1e-9" % (FP_THREADS, reps),
        parallel_regions_checked=len(par_regions), serial_regions_recorded=len(ser_regions) + len(serial_recorded),
        serial_loops=[s for s in {json.dumps(s, sort_keys=True) for s in serial_recorded}][:12],
        serial_overlapping_would_collide=sum(1 for i in ser_regions if 3 in codes.get(i, [])),
        per_kernel=per_kernel, jit_survey=fp["survey"],
        runtime={"threads": sorted(set(k[1] for k, x in vinfo.values() if isinstance(k, tuple)), key=int), "interpreters_NUMBA_NUM_THREADS": list(THREADS), "repetitions": reps, "cases": len(vinfo), "disagreeing": len(vcodes),
                 "operators": sorted(set((x.get("spec") or {}).get("kind", x.get("op", "?")) for k, x in vinfo.values()))},
        t_python=round(t_py, 1), t_coq=round(time.time() - t1, 1))
    R.samples = [{"kernel": c["kernel"], "direction": c["direction"], "spec": c["spec"], "parallel": c["parallel_flag"],
                  "footprint_iter0": reg["fps"][0][:12], "footprint_iter1": reg["fps"][1][:12] if len(reg["fps"]) > 1 else []}
                 for c, reg in list(info.values())[::max(1, len(info) // 6)]]
    if tier == "thorough":
        p = subprocess.run(["timeout", "900", "coqchk", "-silent", "-o", "-Q", "theories", "PV", "PV.State.Par", "PV.Props.C06"], cwd=common.COQDIR,
                           stdout=subprocess.PIPE, stderr=subprocess.STDOUT, text=True)
        ok = p.returncode == 0 and "Axioms: <none>" in p.stdout
        R.cov["coqchk"] = "ok: axioms <none>" if ok else p.stdout[-600:]
        if not ok:
            R.violation("coqchk does not accept State/Par.vo + Props/C06.vo without axioms", {"theorem_file": "Props/C06.v", "coqchk": p.stdout[-1500:]}, no_input=True)
    if axioms and not set(axioms) <= common.ALLOWED_AXIOMS:
        R.violation("Props/C06.v depends on unexpected axioms %s" % axioms, {"theorem_file": "Props/C06.v", "axioms": axioms}, no_input=True)
    return R.finish()
