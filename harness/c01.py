"""C01 — forward and adjoint satisfy the dot-test identity.
Decision: theorem Props/C01 (dot (mv A u) v = dot u (mvH A v) for every
matrix A and all u, v; adjoint <-> conjugate transpose) instantiated per zoo
configuration by the Coq-evaluated obligation B_impl ~ ctranspose A_impl,
with the operator tied to its matrix by correspondence (1)/(2) of oprun."""
import json

import numpy as np

from . import common, l1, oprun, zoo

PID = "C01"


def search(rec):
    """Concrete (u, v) = (e_j, e_i) on which <Op u, v> != <u, Op^H v>."""
    A, B = rec["A"], rec["B"]
    D = np.abs(B - A.conj().T)
    j, i = np.unravel_index(int(np.argmax(D)), D.shape)     # B[j, i] vs conj(A[i, j])
    return {"family": rec["family"], "params": rec["params"], "kind": rec["kind"], "u_index": int(j),
            "v_index": int(i), "Op_u_dot_v": str(np.conj(A[i, j])), "u_dot_OpH_v": str(B[j, i]),
            "abs_defect": float(D[j, i])}


def replay(rp):
    op = zoo.build(rp["family"], rp["params"])
    W = l1.Wrapped(op)
    u = np.zeros(W.N); u[rp["u_index"]] = 1
    v = np.zeros(W.M); v[rp["v_index"]] = 1
    lhs = np.vdot(W.fwd(u), v)
    rhs = np.vdot(u, W.adj(v))
    print("<Op u, v> =", lhs, " <u, Op^H v> =", rhs)
    bad = abs(lhs - rhs) > 1e-9 * (1 + abs(rhs))
    print("reproduced" if bad else "not reproduced")
    return 1 if bad else 0


def main(tier):
    R = common.Report(PID, tier)
    common.coq_build()
    thms, axioms = common.props_assumptions(PID)
    res = oprun.run(tier)
    recs, codes = res["recs"], res["codes"]
    known = [k for k in common.load_known() if k["property"] == PID]
    nontriv = set()
    evals = 0
    nknown = 0
    nbydesign = 0      # rmatvec = inverse by documented design: not an adjoint pair, not judged here
    for rec in recs:
        key = rec["family"] + json.dumps(rec["params"], sort_keys=True)
        if "error" in rec:
            R.violation("operator raised on a valid configuration: %s %s: %s" % (rec["family"], rec["params"], rec["error"]),
                        {"family": rec["family"], "params": rec["params"], "error": rec["error"], "trace": rec.get("trace")})
            continue
        evals += rec["N"] + rec["M"]
        if np.abs(rec["A"]).max(initial=0) > 0:
            nontriv.add(key)
        c = codes.get(rec["id"], [])
        if zoo.inverse_as_adjoint(rec["family"], rec["params"]):
            nbydesign += 1
            continue
        if 3 in c or 4 in c:
            rp = search(rec)
            kf = [k for k in known if k["family"] == rec["family"] and all(rec["params"].get(a) == b for a, b in k.get("params", {}).items())]
            if kf:
                R.known_finding(kf[0]["id"], kf[0]["what"])
                nknown += 1
                continue
            R.violation("adjoint is not the conjugate transpose of forward: %s %s |defect|=%.3g at u=e_%d v=e_%d"
                        % (rec["family"], rec["params"], rp["abs_defect"], rp["u_index"], rp["v_index"]), rp)
    fams = sorted(set(r["family"] for r in recs))
    R.cov.update(
        obligations=len(thms) + len(recs) - nknown - nbydesign, known_finding_cases=nknown, inverse_as_adjoint_by_design=nbydesign,
        discharged=len(thms) + sum(1 for r in recs if "error" not in r and not zoo.inverse_as_adjoint(r["family"], r["params"])
                                   and not ({3, 4} & set(codes.get(r["id"], [])))),
        checker_cmd="make -C coq (coqc 8.16.1, full .vo build) + coqc Props/C01.v (Print Assumptions) + coqc .work/oprun/cases_*.v (vm_compute)",
        theorems=thms, axioms_reported=axioms,
        evaluations=evals, distinct_nontrivial=len(nontriv),
        rule="one case per zoo configuration (family+params); evaluations = unit-vector applications (forward and adjoint) used to extract both dense matrices; non-trivial = forward matrix not identically zero; the per-configuration obligation 'B ~ ctranspose A entrywise within 1e-9(1+|.|)' is evaluated in Coq and instantiates the theorem for all u, v",
        configurations=len(recs), families=fams, kinds={k: sum(1 for r in recs if r.get("kind") == k) for k in ("real", "complex", "rlin")},
        t_python=round(res["t_python"], 1), t_coq=round(res["t_coq"], 1))
    R.samples = [{"family": r["family"], "params": r["params"], "shape": r.get("shape"), "kind": r.get("kind")} for r in recs[::max(1, len(recs) // 6)]]
    if axioms and not set(axioms) <= common.ALLOWED_AXIOMS:
        R.violation("Props/C01.v depends on unexpected axioms %s" % axioms, {"theorem_file": "Props/C01.v", "axioms": axioms}, no_input=True)
    return R.finish()
