"""C06 worker — runs in a FRESH interpreter (NUMBA_NUM_THREADS is read by
pylops at import time).  Modes (JSON on the last stdout line):

  footprints <tier>      per-iteration write footprints of every numba kernel,
                         measured on the pure-Python body of the kernel, plus
                         how the variant that is really called was jitted
  runtime <tier> <reps>  numba engine vs numpy engine values, repeated
  race <spec-json> <reps>  repeated evaluation of one operator (search/replay)
  mproc                  serial vs nproc=2 VStack/HStack/BlockDiag/Block

/repo is never modified: kernels are reached by rebinding, inside this
process only, module-level names (`jit`, `prange`, `np`, imported dispatchers).
"""
import ast
import inspect
import json
import os
import sys
import textwrap
import warnings

import numpy as np

warnings.filterwarnings("ignore")


# ------------------------------------------------------------------ builders
def rnd(*stream):
    from . import common
    return common.rng("C06", *stream)


def pos(r, shape):
    """all-positive small integers (exactly representable)"""
    n = int(np.prod(shape))
    return np.array([r.randint(1, 9) for _ in range(n)], dtype="float64").reshape(shape)


def build(spec, engine):
    """operator of a spec dict with the given engine; returns (op, xfwd, xadj)"""
    import pylops
    import pylops.signalprocessing as sp
    import pylops.waveeqprocessing as wp
    k = spec["kind"]
    key = json.dumps({a: b for a, b in spec.items() if a != "real_numba"}, sort_keys=True)
    r = rnd("data", key)
    if k == "NSC2D":
        nx, nz = spec["dims"]
        nhx, nhz = spec["hshape"]
        hs = pos(r, (len(spec["ihx"]), len(spec["ihz"]), nhx, nhz))
        op = sp.NonStationaryConvolve2D((nx, nz), hs, tuple(spec["ihx"]), tuple(spec["ihz"]), engine=engine)
    elif k == "NSC3D":
        hs = pos(r, (len(spec["ihy"]), len(spec["ihx"]), len(spec["ihz"])) + tuple(spec["hshape"]))
        op = sp.NonStationaryConvolve3D(tuple(spec["dims"]), hs, tuple(spec["ihy"]), tuple(spec["ihx"]), tuple(spec["ihz"]), engine=engine)
    elif k == "NSF2D":
        inp = pos(r, tuple(spec["dims"]))
        op = sp.NonStationaryFilters2D(inp, tuple(spec["hshape"]), tuple(spec["ihx"]), tuple(spec["ihz"]), engine=engine)
    elif k == "Spread":
        nx0, nt0, nx, nt = spec["nx0"], spec["nt0"], spec["nx"], spec["nt"]
        interp = spec["interp"]
        table = np.full((nx0, nt0, nx), np.nan)
        dtable = np.full((nx0, nt0, nx), np.nan)
        for a in range(nx0):
            for b in range(nt0):
                for c in range(nx):
                    if r.random() < 0.85:
                        table[a, b, c] = r.randint(0, nt - (2 if interp else 1))
                        dtable[a, b, c] = r.choice([0.25, 0.5, 0.75])
        if spec.get("onthefly"):
            if engine == "numba" and spec.get("real_numba"):
                from numba import jit as njit
                tb, dtb = table, dtable

                @njit(nopython=True, nogil=True)
                def fh(x, t):
                    return tb[x, t], dtb[x, t]
            elif engine == "numba" or interp:
                def fh(x, t):
                    return table[x, t], dtable[x, t]
            else:
                def fh(x, t):
                    return table[x, t]
            op = pylops.Spread((nx0, nt0), (nx, nt), fh=fh, interp=interp, engine=engine)
        else:
            op = pylops.Spread((nx0, nt0), (nx, nt), table=table, dtable=dtable if interp else None, engine=engine)
    elif k in ("Radon2D", "Radon3D"):
        t = np.arange(spec["nt"]) * 1.0
        kw = dict(kind=spec.get("rkind", "linear"), interp=spec["interp"])
        if k == "Radon2D":
            px = np.linspace(-0.5, 0.5, spec["npx"]) if kw["kind"] == "linear" else np.linspace(0, 0.1, spec["npx"])
            mk = lambda eng, otf: sp.Radon2D(t, np.arange(spec["nh"]) * 1.0, px, centeredh=True, onthefly=otf, engine=eng, **kw)
        else:
            mk = lambda eng, otf: sp.Radon3D(t, np.arange(spec["nhy"]) * 1.0, np.arange(spec["nhx"]) * 1.0,
                                             np.linspace(-0.4, 0.4, spec["npy"]), np.linspace(-0.5, 0.5, spec["npx"]),
                                             onthefly=otf, engine=eng, **kw)
        if engine == "numba" and not spec.get("real_numba"):
            # footprint mode: table from the numpy builder, Spread kernels of the numba engine (shimmed)
            ref = mk("numpy", False)
            op = pylops.Spread(ref.dims, ref.dimsd, table=ref.table, dtable=ref.dtable, engine="numba")
        else:
            op = mk(engine, bool(spec.get("onthefly")))
    elif k == "FourierRadon2D":
        t = np.arange(spec["nt"]) * 0.5
        h = np.arange(spec["nh"]) * 1.0 - spec["nh"] // 2
        op = sp.FourierRadon2D(t, h, np.linspace(-0.2, 0.2, spec["npx"]), spec["nfft"], engine=engine)
    elif k == "FourierRadon3D":
        t = np.arange(spec["nt"]) * 0.5
        op = sp.FourierRadon3D(t, np.arange(spec["nhy"]) * 1.0 - spec["nhy"] // 2, np.arange(spec["nhx"]) * 1.0 - spec["nhx"] // 2,
                               np.linspace(-0.2, 0.2, spec["npy"]), np.linspace(-0.1, 0.1, spec["npx"]), spec["nfft"], engine=engine)
    elif k == "Kirchhoff":
        z = np.arange(spec["nz"]) * 4.0
        x = np.arange(spec["nx"]) * 4.0
        t = np.arange(spec["nt"]) * 0.004
        srcs = np.vstack((np.linspace(0, x[-1], spec["ns"]), np.zeros(spec["ns"])))
        recs = np.vstack((np.linspace(0, x[-1], spec["nr"]), np.zeros(spec["nr"])))
        wav = np.array([0.0, 1.0, 2.0, 1.0, 0.0])
        var = spec["variant"]
        if var == "trav":
            ref = wp.Kirchhoff(z, x, t, srcs, recs, 1000.0, wav, 2, mode="analytic", engine="numpy")
            trav = (ref.trav_srcs[:, :, None] + ref.trav_recs[:, None, :]).reshape(ref.ni, -1)
            op = wp.Kirchhoff(z, x, t, srcs, recs, 1000.0, wav, 2, mode="byot", trav=trav, engine=engine)
        else:
            op = wp.Kirchhoff(z, x, t, srcs, recs, 1000.0, wav, 2, mode="analytic", engine=engine, dynamic=(var == "ampsrcrec"))
    else:
        raise KeyError(k)
    r2 = rnd("x", key)
    xf = pos(r2, op.shape[1])
    xa = pos(r2, op.shape[0])
    return op, xf, xa


def specs(tier):
    """geometries: windows / filters always wider than one row, so that
    neighbouring iterations collide whenever a loop scatters"""
    r = rnd("specs", tier)
    n = 6 if tier == "quick" else 24
    out = []
    for g in range(n):
        nx, nz = r.randint(7, 12), r.randint(4, 7)
        nhx, nhz = r.choice([3, 5, 7]), r.choice([3, 5])
        dx = r.randint(2, 3)
        ihx = [1 + dx * i for i in range(r.randint(2, 3)) if 1 + dx * i < nx]
        ihz = [1, min(nz - 1, 3)]
        out.append(dict(kind="NSC2D", dims=[nx, nz], hshape=[nhx, nhz], ihx=ihx, ihz=ihz))
        out.append(dict(kind="NSF2D", dims=[nx, nz], hshape=[nhx, nhz], ihx=ihx, ihz=ihz))
    for g in range(max(2, n // 3)):
        ny, nx, nz = r.randint(4, 6), r.randint(4, 5), r.randint(3, 4)
        out.append(dict(kind="NSC3D", dims=[ny, nx, nz], hshape=[3, r.choice([1, 3]), 3], ihy=[1, 3], ihx=[0, 2], ihz=[0, 2]))
    for g in range(n):
        out.append(dict(kind="Spread", nx0=r.randint(3, 6), nt0=r.randint(3, 6), nx=r.randint(3, 6), nt=r.randint(5, 9),
                        interp=bool(g % 2), onthefly=bool((g // 2) % 2)))
    for g in range(max(2, n // 3)):
        out.append(dict(kind="Radon2D", nt=r.randint(6, 10), nh=r.randint(4, 7), npx=r.randint(3, 6), interp=bool(g % 2),
                        rkind=["linear", "parabolic"][g % 2]))
        out.append(dict(kind="Radon3D", nt=r.randint(5, 7), nhy=r.randint(2, 3), nhx=r.randint(2, 3), npy=2, npx=r.randint(2, 3), interp=bool(g % 2)))
        out.append(dict(kind="FourierRadon2D", nt=r.randint(6, 9), nh=r.randint(3, 6), npx=r.randint(3, 5), nfft=16))
        out.append(dict(kind="FourierRadon3D", nt=r.randint(5, 7), nhy=r.randint(2, 3), nhx=r.randint(2, 3), npy=2, npx=r.randint(2, 3), nfft=8))
    for g in range(max(2, n // 3)):
        for var in ("trav", "travsrcrec", "ampsrcrec"):
            out.append(dict(kind="Kirchhoff", nz=r.randint(3, 5), nx=r.randint(3, 5), nt=r.randint(20, 30), ns=r.randint(2, 3), nr=r.randint(2, 4), variant=var))
    return out


# ------------------------------------------------------------ instrumentation
class Shim:
    """stands for a numba dispatcher: remembers how it was jitted and with
    which arguments it is called, executes the pure-Python body"""

    def __init__(self, fn, opts, log):
        self.fn, self.opts, self.log = fn, dict(opts), log
        self.py_func, self.targetoptions = fn, self.opts

    def __call__(self, *a, **k):
        cp = lambda v: np.array(v, copy=True) if isinstance(v, np.ndarray) else v
        self.log.append((self, [cp(v) for v in a], {n: cp(v) for n, v in k.items()}))
        return self.fn(*a, **k)


def is_dispatcher(o):
    return hasattr(o, "py_func") and hasattr(o, "targetoptions") and not isinstance(o, Shim)


JIT_MODULES = ["pylops.signalprocessing.nonstatconvolve2d", "pylops.signalprocessing.nonstatconvolve3d",
               "pylops.waveeqprocessing.kirchhoff"]
DISP_MODULES = ["pylops.basicoperators.spread", "pylops.signalprocessing.fourierradon2d",
                "pylops.signalprocessing.fourierradon3d"]
KERNEL_MODULES = ["pylops.basicoperators._spread_numba", "pylops.signalprocessing._radon2d_numba",
                  "pylops.signalprocessing._radon3d_numba", "pylops.signalprocessing._fourierradon2d_numba",
                  "pylops.signalprocessing._fourierradon3d_numba"]


class Instrument:
    def __init__(self):
        self.log = []
        self.saved = []

    def __enter__(self):
        import importlib
        log = self.log

        def fake_jit(*dargs, **opts):
            if dargs and callable(dargs[0]) and not opts:
                return Shim(dargs[0], {}, log)
            return lambda fn: Shim(fn, opts, log)
        for mn in JIT_MODULES:
            m = importlib.import_module(mn)
            if hasattr(m, "jit"):
                self.saved.append((m, "jit", m.jit))
                m.jit = fake_jit
        for mn in DISP_MODULES:
            m = importlib.import_module(mn)
            for name, o in list(vars(m).items()):
                if is_dispatcher(o):
                    self.saved.append((m, name, o))
                    setattr(m, name, Shim(o.py_func, o.targetoptions, log))
        return self

    def __exit__(self, *exc):
        for m, name, o in self.saved:
            setattr(m, name, o)


def _is_call_to(node, names):
    if not isinstance(node, ast.Call):
        return False
    f = node.func
    return (isinstance(f, ast.Name) and f.id in names) or (isinstance(f, ast.Attribute) and f.attr in names)


def ast_loops(fn):
    """for-loops of the kernel source: kind (prange/range/other), loop
    variable, nesting depth, and whether an enclosing loop is a prange"""
    src = textwrap.dedent(inspect.getsource(fn))
    tree = ast.parse(src)
    out = []

    def walk(node, depth, inpr):
        for ch in ast.iter_child_nodes(node):
            if isinstance(ch, ast.For):
                kind = "prange" if _is_call_to(ch.iter, ("prange",)) else "range" if _is_call_to(ch.iter, ("range",)) else "other"
                var = ch.target.id if isinstance(ch.target, ast.Name) else ast.dump(ch.target)[:30]
                out.append(dict(kind=kind, var=var, depth=depth, inside_prange=inpr, line=ch.lineno))
                walk(ch, depth + 1, inpr or kind == "prange")
            else:
                walk(ch, depth, inpr)
    walk(tree, 0, False)
    return out


class FakePrange:
    """replacement of the module-level `prange` while the Python body runs:
    the k-th OUTERMOST prange call (= one parallel region; numba serialises
    pranges nested in a prange) is restricted to its it-th iteration (or to
    nothing when it is None); everything else runs completely"""

    def __init__(self, region, it):
        self.region, self.it, self.depth, self.count, self.lens = region, it, 0, 0, []

    def __call__(self, *a):
        r = range(*a)
        if self.depth > 0:
            return r
        k = self.count
        self.count += 1
        self.lens.append(len(r))
        if self.region is None or k != self.region:
            sel = r
        else:
            sel = [r[self.it]] if self.it is not None and self.it < len(r) else []
        return self._gen(sel)

    def _gen(self, sel):
        self.depth += 1
        try:
            for v in sel:
                yield v
        finally:
            self.depth -= 1


class NPProxy:
    """module-level `np` of the kernel module: arrays allocated OUTSIDE the
    parallel loop are shared between threads, so they belong to the memory"""

    def __init__(self, fp, allocs):
        self._fp, self._allocs = fp, allocs

    def __getattr__(self, name):
        return getattr(np, name)

    def zeros(self, *a, **k):
        arr = np.zeros(*a, **k)
        if self._fp.depth == 0:
            self._allocs.append(arr)
        return arr


def run_body(fn, args, kwargs, region, it):
    g = fn.__globals__
    fp = FakePrange(region, it)
    allocs = []
    a = [np.array(v, copy=True) if isinstance(v, np.ndarray) else v for v in args]
    k = {n: (np.array(v, copy=True) if isinstance(v, np.ndarray) else v) for n, v in kwargs.items()}
    saved = {n: g[n] for n in ("prange", "np") if n in g}
    try:
        g["prange"] = fp
        if g.get("np") is np:
            g["np"] = NPProxy(fp, allocs)
        fn(*a, **k)
    finally:
        for n, v in saved.items():
            g[n] = v
        if "prange" not in saved:
            g.pop("prange", None)
    arrays = [v for v in a if isinstance(v, np.ndarray)] + [v for v in k.values() if isinstance(v, np.ndarray)] + allocs
    return arrays, fp


def differs(A, B):
    if A.shape != B.shape:
        return np.ones(A.shape, bool)
    same = (A == B)
    if A.dtype.kind in "fc":
        same = same | (np.isnan(A) & np.isnan(B))
    return ~same


def measure(shim, args, kwargs, max_iter=64):
    """footprints of one recorded kernel call"""
    fn = shim.fn
    loops = ast_loops(fn)
    par = bool(shim.opts.get("parallel", False))
    src_pr = [l for l in loops if l["kind"] == "prange" and not l["inside_prange"]]
    rec = dict(kernel=fn.__qualname__, module=fn.__module__, parallel_flag=par,
               jit_options={k: (v if isinstance(v, (bool, int, str)) else str(v)) for k, v in shim.opts.items()},
               loops=loops, regions=[])
    if "prange" not in fn.__globals__ or not src_pr:
        rec["serial_reason"] = "no prange loop in the source: every loop is a serial range loop"
        return rec
    base_arrays, fp0 = run_body(fn, args, kwargs, None, None)
    nreg = fp0.count
    rec["dynamic_regions"] = nreg
    for k in range(min(nreg, 8)):
        n = fp0.lens[k]
        ref, _ = run_body(fn, args, kwargs, k, None)
        fps, written = [], set()
        for i in range(min(n, max_iter)):
            arrs, _ = run_body(fn, args, kwargs, k, i)
            cells = []
            for ai, (A, B) in enumerate(zip(arrs, ref)):
                d = np.flatnonzero(differs(A, B).ravel())
                if d.size:
                    written.add(ai)
                    cells += [(ai, int(c)) for c in d]
            fps.append(cells)
        order = sorted(written)
        sizes = {ai: int(ref[ai].size) for ai in order}
        off, o = {}, 0
        for ai in order:
            off[ai] = o
            o += sizes[ai]
        fcols = 0   # block-row width if the single written array splits evenly over the iterations
        if len(order) == 1 and n > 0 and ref[order[0]].size % n == 0:
            fcols = int(ref[order[0]].size // n)
        rec["regions"].append(dict(region=k, niter=n, measured=min(n, max_iter), fcols=fcols,
                                   arrays=[dict(index=ai, shape=list(ref[ai].shape), offset=off[ai]) for ai in order],
                                   fps=[sorted(off[ai] + c for ai, c in cells) for cells in fps]))
    return rec


def cmd_footprints(tier, only_specs=None, directions=("forward", "adjoint")):
    import numba  # noqa: F401  (ensures the modules take the numba branch)
    import importlib
    results = []
    # static survey of every jitted function of the anchored kernel modules
    survey = []
    for mn in KERNEL_MODULES:
        m = importlib.import_module(mn)
        for name, o in vars(m).items():
            if is_dispatcher(o) and getattr(o.py_func, "__module__", None) == mn:
                ls = ast_loops(o.py_func)
                survey.append(dict(module=mn, function=name, parallel_flag=bool(o.targetoptions.get("parallel", False)),
                                   prange_loops=[l for l in ls if l["kind"] == "prange"],
                                   range_outer=[l["var"] for l in ls if l["kind"] == "range" and l["depth"] == 0]))
    with Instrument() as ins:
        for si, spec in enumerate(only_specs if only_specs is not None else specs(tier)):
            try:
                op, xf, xa = build(dict(spec, real_numba=False), "numba")
                for direction, x in (("forward", xf), ("adjoint", xa)):
                    if direction not in directions:
                        continue
                    ins.log.clear()
                    (op.matvec if direction == "forward" else op.rmatvec)(x)
                    calls = list(ins.log)
                    for (shim, a, k) in calls:
                        rec = measure(shim, a, k)
                        rec.update(spec=spec, direction=direction)
                        results.append(rec)
            except Exception as e:  # reported by the harness
                import traceback
                results.append(dict(spec=spec, error="%s: %s" % (type(e).__name__, e), trace=traceback.format_exc()[-1500:]))
    return dict(threads_env=os.environ.get("NUMBA_NUM_THREADS"), survey=survey, cases=results)


# ------------------------------------------------------------------ runtime
def worst_pair(ys, ref):
    """(value, reference, relerr) of the worst element over all repetitions"""
    best = (0.0, 0.0, -1.0)
    nbad = 0
    for y in ys:
        d = np.abs(y - ref)
        rel = d / (1 + np.abs(ref))
        j = int(np.argmax(rel))
        if rel.flat[j] > 1e-9:
            nbad += 1
        if rel.flat[j] > best[2]:
            best = (float(np.real(y.flat[j])), float(np.real(ref.flat[j])), float(rel.flat[j]))
    return best, nbad


BIG = {
    "NSC2D": dict(kind="NSC2D", dims=[64, 8], hshape=[31, 3], ihx=[8, 24, 40, 56], ihz=[2, 5]),
    "NSC3D": dict(kind="NSC3D", dims=[24, 6, 5], hshape=[11, 3, 3], ihy=[4, 12, 20], ihx=[1, 4], ihz=[1, 3]),
    "NSF2D": dict(kind="NSF2D", dims=[64, 8], hshape=[31, 3], ihx=[8, 24, 40, 56], ihz=[2, 5]),
    "Spread": dict(kind="Spread", nx0=32, nt0=12, nx=10, nt=24, interp=True, onthefly=False, real_numba=True),
    "Radon2D": dict(kind="Radon2D", nt=24, nh=12, npx=32, interp=True, rkind="linear", real_numba=True),
    "Radon3D": dict(kind="Radon3D", nt=12, nhy=4, nhx=4, npy=6, npx=6, interp=True, real_numba=True),
    "FourierRadon2D": dict(kind="FourierRadon2D", nt=16, nh=24, npx=24, nfft=32),
    "FourierRadon3D": dict(kind="FourierRadon3D", nt=12, nhy=6, nhx=4, npy=6, npx=4, nfft=16),
    "Kirchhoff": dict(kind="Kirchhoff", nz=8, nx=8, nt=60, ns=6, nr=6, variant="travsrcrec"),
}


def bigspec(spec):
    """geometry of the same operator family large enough for a race to show on the real runtime"""
    b = dict(BIG[spec["kind"]])
    for k in ("variant", "interp", "onthefly", "rkind"):
        if k in spec and k in b:
            b[k] = spec[k]
    if spec["kind"] == "Spread":
        b["onthefly"] = bool(spec.get("onthefly"))
    return b


def runtime_specs(tier):
    s = [BIG["NSC2D"], BIG["NSC3D"], BIG["NSF2D"], BIG["Spread"], BIG["Radon2D"], BIG["Kirchhoff"]]
    if tier == "thorough":
        s += [BIG["FourierRadon2D"], BIG["Radon3D"], BIG["FourierRadon3D"],
              dict(BIG["Spread"], interp=False, onthefly=True),
              dict(BIG["Kirchhoff"], variant="trav"), dict(BIG["Kirchhoff"], variant="ampsrcrec"),
              dict(BIG["Radon2D"], interp=False, rkind="parabolic", onthefly=True)]
    return s


def run_one(spec, reps, directions=("forward", "adjoint"), extra_threads=()):
    import numba
    opn, xf, xa = build(spec, "numba")
    opr, _, _ = build(dict(spec, real_numba=False), "numpy")
    out = []
    nmax = numba.get_num_threads()
    # the module-level `parallel` switches were fixed at import by NUMBA_NUM_THREADS; within a
    # parallel build the number of worker threads is lowered with numba.set_num_threads
    counts = [nmax] + [c for c in extra_threads if c < nmax]
    for direction in directions:
        x = xf if direction == "forward" else xa
        f = opn.matvec if direction == "forward" else opn.rmatvec
        ref = (opr.matvec if direction == "forward" else opr.rmatvec)(x)
        for nt in counts:
            numba.set_num_threads(nt)
            try:
                ys = [np.array(f(x), copy=True) for _ in range(reps)]
            except Exception as e:  # the numba variant cannot even be compiled / called
                out.append(dict(spec=spec, direction=direction, error="%s: %s" % (type(e).__name__, str(e)[:300])))
                break
            finally:
                numba.set_num_threads(nmax)
            (v, rv, rel), nbad = worst_pair(ys, ref)
            out.append(dict(spec=spec, direction=direction, reps=reps, wrong_calls=nbad, value=v, reference=rv, relerr=rel,
                            nonzero=bool(np.abs(ref).max() > 0), threads=nt, threads_env=nmax))
    return out


def cmd_runtime(tier, reps, only=None):
    res = []
    for si, spec in enumerate(runtime_specs(tier)):
        if only is not None and si != only:
            continue
        try:
            res += run_one(spec, reps, extra_threads=(4,))
        except Exception as e:
            import traceback
            res.append(dict(spec=spec, error="%s: %s" % (type(e).__name__, e), trace=traceback.format_exc()[-1500:]))
    return dict(threads_env=os.environ.get("NUMBA_NUM_THREADS"), results=res)


def cmd_race(spec, reps, direction):
    return dict(threads_env=os.environ.get("NUMBA_NUM_THREADS"), results=run_one(spec, reps, (direction,)))


def cmd_mproc():
    import pylops
    r = rnd("mproc")
    res = []
    mats = [pos(r, (3, 4)), pos(r, (2, 4)), pos(r, (4, 4))]
    matsh = [pos(r, (4, 3)), pos(r, (4, 2)), pos(r, (4, 4))]
    blk = [pos(r, (3, 4)), pos(r, (3, 2)), pos(r, (2, 4)), pos(r, (2, 2))]

    def ops(ms):
        return [pylops.MatrixMult(m) for m in ms]
    cases = [("VStack", lambda n: pylops.VStack(ops(mats), nproc=n)),
             ("HStack", lambda n: pylops.HStack(ops(matsh), nproc=n)),
             ("BlockDiag", lambda n: pylops.BlockDiag(ops(mats), nproc=n)),
             ("Block", lambda n: pylops.Block([ops(blk[:2]), ops(blk[2:])], nproc=n))]
    for name, mk in cases:
        try:
            s, p = mk(1), mk(2)
            xf, xa = pos(r, s.shape[1]), pos(r, s.shape[0])
            for direction, x in (("forward", xf), ("adjoint", xa)):
                ref = (s.matvec if direction == "forward" else s.rmatvec)(x)
                ys = [np.asarray((p.matvec if direction == "forward" else p.rmatvec)(x)) for _ in range(5)]
                (v, rv, rel), nbad = worst_pair(ys, ref)
                res.append(dict(op=name, direction=direction, reps=5, wrong_calls=nbad, value=v, reference=rv, relerr=rel,
                                nonzero=bool(np.abs(ref).max() > 0)))
            for o in (p,):
                pool = getattr(o, "pool", None)
                if pool is not None:
                    pool.close()
        except Exception as e:
            import traceback
            res.append(dict(op=name, error="%s: %s" % (type(e).__name__, e), trace=traceback.format_exc()[-1500:]))
    return dict(results=res)


def main(argv):
    mode = argv[0]
    if mode == "footprints":
        out = cmd_footprints(argv[1])
    elif mode == "runtime":
        out = cmd_runtime(argv[1], int(argv[2]), int(argv[3]) if len(argv) > 3 else None)
    elif mode == "nruntime":
        out = dict(n=len(runtime_specs(argv[1])))
    elif mode == "bigspec":
        out = dict(spec=bigspec(json.loads(argv[1])))
    elif mode == "fpone":
        out = cmd_footprints(None, [json.loads(argv[1])], (argv[2],))
    elif mode == "race":
        out = cmd_race(json.loads(argv[1]), int(argv[2]), argv[3])
    elif mode == "mproc":
        out = cmd_mproc()
    else:
        raise SystemExit("unknown mode")
    sys.stdout.write("\n@@C06@@" + json.dumps(out) + "\n")


if __name__ == "__main__":
    main(sys.argv[1:])
